(* C12 — eventual delivery under a fair scheduler: the three per-stage progress facts of Progress.v composed.
   While a stream is open and nobody interferes (no close, no kill, gates open, sizes within both maxima), a
   round-robin over the two Connection tasks and the two handles delivers everything that was accepted: each
   round strictly decreases the number of notifications that are under way, and when none is left the
   no-loss invariant says that what was delivered IS what was accepted. *)
From Coq Require Import List NArith Bool Lia.
From Coq Require Import ZifyBool ZifyNat ZifyN.
From V.C12 Require Import Model Proofs Inv2 Async Sched Progress.
Import ListNotations.
Open Scope N_scope.
Arguments N.add : simpl never.
Arguments N.sub : simpl never.
Arguments N.eqb : simpl never.
Arguments N.ltb : simpl never.
Arguments N.leb : simpl never.
Arguments N.of_nat : simpl never.
Arguments N.to_nat : simpl never.

(* ------------------------------------------------------------------ what is under way *)
(* notifications accepted and not yet seen by a user: in a Connection's queues, its sink, the carrier, or the
   channel of the receiving handle (both directions; items of earlier streams still queued at a handle count) *)
Definition under_way (s : st) : nat :=
  (length (pipe s true) + length (pipe s false) + length (e_nq (hn s true)) + length (e_nq (hn s false)))%nat.

Definition T1 (s : st) (x : bool) : Prop :=
  Forall (fun n => n_sync n = true) (e_sq (cn s x)) /\ Forall (fun n => n_sync n = false) (e_aq (cn s x)).

Lemma filter_split {A} (f : A -> bool) l :
  length l = (length (filter f l) + length (filter (fun a => negb (f a)) l))%nat.
Proof. induction l as [|a l IH]; cbn; auto. destruct (f a); cbn; lia. Qed.

Lemma a_loop_len fuel mx wg L : T1L L -> fst (a_loop fuel mx wg L) = false ->
  T1L (snd (a_loop fuel mx wg L)) /\ length (lflat (snd (a_loop fuel mx wg L))) = length (lflat L).
Proof.
  intros HT Hr.
  assert (P1 : pure n_sync) by (left; auto).
  assert (P2 : pure (fun n => negb (n_sync n))) by (right; intros n H; destruct (n_sync n); auto; discriminate).
  pose proof (a_loop_core n_sync P1 fuel mx wg L HT) as A.
  pose proof (a_loop_core _ P2 fuel mx wg L HT) as B.
  destruct (a_loop fuel mx wg L) as [[|] L']; cbn in *; [discriminate|].
  destruct A as [HT' A]. destruct B as [_ B]. split; auto.
  rewrite (filter_split n_sync (lflat L')), (filter_split n_sync (lflat L)). now rewrite A, B.
Qed.

Lemma pipe_lflat s x :
  pipe s x = lflat (mkLst (e_cur (cn s x)) (e_sq (cn s x)) (e_aq (cn s x)) (e_sk (cn s x)) (carrier (glo s x))
                          (e_hints (cn s x)) (bad s)).
Proof. reflexivity. Qed.

(* the outbound part of a poll only moves notifications forward inside the pipe of the sender *)
Lemma out_phase_len c x b s : T1 s x -> e_alive (cn s x) = true -> snd (out_phase c x b s) = false ->
  let s1 := fst (out_phase c x b s) in
  T1 s1 x /\ length (pipe s1 x) = length (pipe s x).
Proof.
  intros HT Ha Hr. cbn zeta. unfold out_phase, pipe, T1, cn in *.
  set (L0 := mkLst (e_cur (ec (gep s x))) (e_sq (ec (gep s x))) (e_aq (ec (gep s x))) (e_sk (ec (gep s x)))
                   (carrier (glo s x)) (e_hints (ec (gep s x))) (bad s)) in *.
  set (fuel := (opt_len (e_cur (ec (gep s x))) +
                N.to_nat (N.min b (len (e_sq (ec (gep s x))) + len (e_aq (ec (gep s x))) + 1)))%nat) in *.
  pose proof (a_loop_len fuel (c_max (ecf c x)) (wgate (glo s x)) L0 HT) as A.
  destruct (a_loop fuel (c_max (ecf c x)) (wgate (glo s x)) L0) as [[|] L']; cbn [fst snd] in *; [discriminate|].
  destruct (A eq_refl) as [[T1' T2'] E]. unfold lflat in E. cbn [l_cur l_sq l_aq l_sk l_ca L0] in E.
  destruct (wgate (glo s x)); destruct x; cbn; (split; [split; assumption|]);
    cbn in E; rewrite !app_length in *; cbn; lia.
Qed.

Lemma close_dead x nfy s : e_alive (cn (close x nfy s) x) = false.
Proof. destruct x; reflexivity. Qed.

(* one poll of a Connection that stays alive moves notifications, it neither loses nor creates any *)
Lemma conn_poll_under_way c x b s : T1 s x -> e_alive (cn (conn_poll c x b s) x) = true ->
  T1 (conn_poll c x b s) x /\ under_way (conn_poll c x b s) = under_way s.
Proof.
  intros HT Hal. unfold conn_poll in *. fold (cn s x) in *. destruct (e_alive (cn s x)) eqn:Ea; [|split; auto].
  revert Hal.
  apply (conn_loop_gen (fun s' => e_alive (cn s' x) = true -> T1 s' x /\ under_way s' = under_way s) c x); auto.
  - intros s0 nfy _ _ H. rewrite close_dead in H. discriminate.
  - intros s0 b0 IH Ha0 _. pose proof (out_phase_frame c x b0 s0 Ha0) as F. cbn zeta in F.
    pose proof (fun T => out_phase_len c x b0 s0 T Ha0) as Lh. cbn zeta in Lh.
    destruct (out_phase c x b0 s0) as [s1 [|]]; cbn [fst snd] in *.
    + intros H. rewrite close_dead in H. discriminate.
    + intros _. destruct (IH Ha0) as [T0 U0]. destruct (Lh T0 eq_refl) as [T1' E]. split; auto.
      destruct F as (_ & _ & _ & _ & Fc & Fg & Fh & _ & _ & Fn & _).
      rewrite <- U0. unfold under_way.
      assert (E2 : pipe s1 (negb x) = pipe s0 (negb x)) by (unfold pipe; now rewrite Fc, Fg).
      assert (E3 : e_nq (hn s1 (negb x)) = e_nq (hn s0 (negb x))) by now rewrite Fh.
      destruct x; cbn [negb] in *; rewrite ?E, ?E2, ?E3, ?Fn; reflexivity.
  - intros s0 IH Ha0 _ _. destruct (IH Ha0) as [T0 U0]. split; [destruct x; exact T0|]. rewrite <- U0. destruct x; reflexivity.
  - intros s0 IH Ha0 _ _. destruct (IH Ha0) as [T0 U0]. split; [destruct x; exact T0|]. rewrite <- U0. destruct x; reflexivity.
  - intros s0 n rest IH Ha0 _ _ _ Ec _ _. destruct (IH Ha0) as [T0 U0]. split; [destruct x; exact T0|].
    rewrite <- U0. unfold under_way, pipe, cn, hn in *. destruct x; cbn in *; rewrite Ec; cbn; rewrite ?app_length; cbn; lia.
Qed.

(* ------------------------------------------------------------------ a stream that is left alone stays open *)
Definition fits (c : cfg) (n : notif) : Prop := n_len n <= c_max (cfA c) /\ n_len n <= c_max (cfB c).

(* nobody interferes: transport up, both Connections running and not asked to shut down, gates open, everything
   under way small enough for both ends *)
Record calm (c : cfg) (s : st) : Prop := mkCalm {
  ca_k : killed s = false;
  ca_a : forall z, e_alive (cn s z) = true;
  ca_sh : forall z, e_shut (cn s z) = false;
  ca_g : forall z, wgate (glo s z) = true /\ rgate (glo s z) = true;
  ca_sz : forall z, Forall (fits c) (pipe s z);
  ca_t1 : forall z, T1 s z
}.

Lemma a_loop_ok mx wg : forall fuel L, Forall (fun n => n_len n <= mx) (queued L) -> fst (a_loop fuel mx wg L) = false.
Proof.
  induction fuel as [|fuel IH]; intros L Hs; cbn [a_loop]; auto.
  destruct (a_next_cases L) as [(E & _)|(n & L1 & E & Ec & Esk & Eca & Em & HP)]; rewrite E; auto.
  destruct (HP _ Hs) as [Hn Hs1].
  destruct (poll_ready wg (l_sk L1) (l_ca L1)) as [[sk' ca']|]; auto.
  destruct (mx <? n_len n) eqn:Eo; [lia|]. apply IH. unfold queued in *. cbn. rewrite Ec in Hs1. exact Hs1.
Qed.

Lemma fits_max c x n : fits c n -> n_len n <= c_max (ecf c x).
Proof. unfold fits. destruct x; cbn; tauto. Qed.

Lemma pipe_queued_fits c s x : Forall (fits c) (pipe s x) ->
  Forall (fun n => n_len n <= c_max (ecf c x)) (opt_list (e_cur (cn s x)) ++ e_sq (cn s x) ++ e_aq (cn s x)).
Proof.
  unfold pipe. rewrite !Forall_app_iff. intros (_ & _ & A & B & C).
  repeat split; eapply Forall_impl; try eassumption; intros n; apply fits_max.
Qed.

Lemma out_phase_ok c x b s : Forall (fits c) (pipe s x) -> snd (out_phase c x b s) = false.
Proof.
  intros Hs. apply pipe_queued_fits in Hs. unfold out_phase, cn in *.
  set (L0 := mkLst _ _ _ _ _ _ _). set (fuel := (_ + _)%nat).
  pose proof (a_loop_ok (c_max (ecf c x)) (wgate (glo s x)) fuel L0 Hs) as A.
  destruct (a_loop fuel (c_max (ecf c x)) (wgate (glo s x)) L0) as [cl L']. cbn [fst] in A. subst cl.
  destruct (wgate (glo s x)); reflexivity.
Qed.

(* what out_phase does to the gates and to the sizes *)
Lemma out_phase_more c x b s : T1 s x -> e_alive (cn s x) = true -> snd (out_phase c x b s) = false ->
  forall P : notif -> Prop, Forall P (pipe s x) ->
  let s1 := fst (out_phase c x b s) in
  wgate (glo s1 x) = wgate (glo s x) /\ rgate (glo s1 x) = rgate (glo s x) /\ Forall P (pipe s1 x).
Proof.
  intros HT Ha Hr P HP. cbn zeta. unfold out_phase, pipe, T1, cn in *.
  set (L0 := mkLst (e_cur (ec (gep s x))) (e_sq (ec (gep s x))) (e_aq (ec (gep s x))) (e_sk (ec (gep s x)))
                   (carrier (glo s x)) (e_hints (ec (gep s x))) (bad s)) in *.
  set (fuel := (opt_len (e_cur (ec (gep s x))) +
                N.to_nat (N.min b (len (e_sq (ec (gep s x))) + len (e_aq (ec (gep s x))) + 1)))%nat) in *.
  pose proof (a_loop_forall P fuel (c_max (ecf c x)) (wgate (glo s x)) L0 HT HP) as A.
  destruct (a_loop fuel (c_max (ecf c x)) (wgate (glo s x)) L0) as [[|] L']; cbn [fst snd] in *; [discriminate|].
  unfold lflat in A.
  destruct (wgate (glo s x)); destruct x; cbn; (split; [reflexivity|]); (split; [reflexivity|]);
    rewrite ?Forall_app_iff in *; cbn; tauto.
Qed.

Lemma out_phase_calm c x b s : calm c s ->
  snd (out_phase c x b s) = false /\ calm c (fst (out_phase c x b s)).
Proof.
  intros [Hk Ha Hsh Hg Hsz Ht]. pose proof (out_phase_ok c x b s (Hsz x)) as Hr. split; auto.
  pose proof (out_phase_frame c x b s (Ha x)) as F. cbn zeta in F.
  destruct F as (Fa & Fk & _ & _ & Fc & Fg & _ & _ & _ & _ & _ & _ & _ & _ & Fs).
  destruct (out_phase_len c x b s (Ht x) (Ha x) Hr) as [T1' _].
  destruct (out_phase_more c x b s (Ht x) (Ha x) Hr (fits c) (Hsz x)) as (G1 & G2 & Sz).
  constructor.
  - congruence.
  - intros z. destruct (Bool.eqb z x) eqn:E; [apply eqb_prop in E; subst; auto|].
    assert (z = negb x) by (destruct z, x; auto; discriminate). subst. rewrite Fc. apply Ha.
  - intros z. destruct (Bool.eqb z x) eqn:E; [apply eqb_prop in E; subst; rewrite Fs; auto|].
    assert (z = negb x) by (destruct z, x; auto; discriminate). subst. rewrite Fc. apply Hsh.
  - intros z. destruct (Bool.eqb z x) eqn:E; [apply eqb_prop in E; subst; rewrite G1, G2; auto|].
    assert (z = negb x) by (destruct z, x; auto; discriminate). subst. rewrite Fg. apply Hg.
  - intros z. destruct (Bool.eqb z x) eqn:E; [apply eqb_prop in E; subst; auto|].
    assert (z = negb x) by (destruct z, x; auto; discriminate). subst. unfold pipe. rewrite Fc, Fg. apply Hsz.
  - intros z. destruct (Bool.eqb z x) eqn:E; [apply eqb_prop in E; subst; auto|].
    assert (z = negb x) by (destruct z, x; auto; discriminate). subst. unfold T1. rewrite Fc. apply Ht.
Qed.

Lemma set_res_calm c x r w s : calm c s -> calm c (set_res x r w s).
Proof.
  intros [Hk Ha Hsh Hg Hsz Ht]. constructor.
  - destruct x; exact Hk.
  - intros z. specialize (Ha z). destruct x, z; exact Ha.
  - intros z. specialize (Hsh z). destruct x, z; exact Hsh.
  - intros z. specialize (Hg z). destruct x, z; exact Hg.
  - intros z. specialize (Hsz z). destruct x, z; exact Hsz.
  - intros z. specialize (Ht z). destruct x, z; exact Ht.
Qed.

Lemma read_calm c x n rest s : calm c s -> carrier (glo s (negb x)) = n :: rest ->
  calm c (push_nq x n (slo s (negb x) (mkL (wgate (glo s (negb x))) (rgate (glo s (negb x))) rest))).
Proof.
  intros [Hk Ha Hsh Hg Hsz Ht] Ec. constructor.
  - destruct x; exact Hk.
  - intros z. specialize (Ha z). destruct x, z; cbn in *; auto.
  - intros z. specialize (Hsh z). destruct x, z; cbn in *; auto.
  - intros z. specialize (Hg z). destruct x, z; cbn in *; auto.
  - intros z. pose proof (Hsz z) as H. unfold pipe, cn in *. destruct x, z; cbn in *; auto;
      rewrite Ec in H; inversion H; auto.
  - intros z. specialize (Ht z). unfold T1, cn in *. destruct x, z; cbn in *; auto.
Qed.

Lemma conn_loop_calm c x : forall fuel b s, calm c s -> calm c (conn_loop fuel c x b s).
Proof.
  induction fuel as [|fuel IH]; intros b s H; [exact H|]. rewrite conn_loop_S.
  pose proof (ca_sh c s H x) as Hsh. unfold cn in Hsh. rewrite Hsh. cbn [andb].
  rewrite (ca_k c s H).
  destruct (out_phase_calm c x b s H) as [Hr H1]. destruct (out_phase c x b s) as [s1 refused]. cbn [fst snd] in *. subst refused.
  cbv zeta.
  assert (R : calm c (fst (fst (reserve_phase c x (b - (qlen s x - qlen s1 x)) s1)))).
  { unfold reserve_phase. destruct (_ && negb _); [exact H1|].
    destruct (can_reserve c x s1); destruct (0 <? _); cbn [fst]; auto; apply set_res_calm; auto. }
  destruct (reserve_phase c x (b - (qlen s x - qlen s1 x)) s1) as [[s2 go] b2]. cbn [fst] in R.
  destruct go; cbn [negb]; [|exact R].
  destruct (ca_g c s2 R (negb x)) as [_ Hrg]. rewrite Hrg. cbn [negb].
  destruct (carrier (glo s2 (negb x))) as [|n rest] eqn:Ec.
  - unfold wclosed. pose proof (ca_a c s2 R (negb x)) as Hal. unfold cn in Hal. rewrite Hal. rewrite andb_false_r. exact R.
  - assert (Hn : fits c n).
    { pose proof (ca_sz c s2 R (negb x)) as Hz. unfold pipe in Hz. rewrite Ec in Hz. inversion Hz; auto. }
    apply (fits_max c x) in Hn. destruct (c_max (ecf c x) <? n_len n) eqn:Eo; [lia|].
    apply IH. pose proof (read_calm c x n rest s2 R Ec) as RC. rewrite Hrg in RC. exact RC.
Qed.

Lemma conn_poll_calm c x b s : calm c s -> calm c (conn_poll c x b s).
Proof. intros H. unfold conn_poll. destruct (e_alive _); auto. apply conn_loop_calm; auto. Qed.

(* a generic induction over one poll of a Connection of a calm stream: no close happens *)
Lemma conn_loop_calm_gen c x (Q : st -> Prop) :
  (forall s b, calm c s -> Q s -> Q (fst (out_phase c x b s))) ->
  (forall s r w, calm c s -> Q s -> Q (set_res x r w s)) ->
  (forall s n rest, calm c s -> Q s -> carrier (glo s (negb x)) = n :: rest ->
      Q (push_nq x n (slo s (negb x) (mkL (wgate (glo s (negb x))) (rgate (glo s (negb x))) rest)))) ->
  forall fuel b s, calm c s -> Q s -> Q (conn_loop fuel c x b s).
Proof.
  intros Hout Hres Hread.
  induction fuel as [|fuel IH]; intros b s H HQ; [exact HQ|]. rewrite conn_loop_S.
  pose proof (ca_sh c s H x) as Hsh. unfold cn in Hsh. rewrite Hsh. cbn [andb].
  rewrite (ca_k c s H).
  destruct (out_phase_calm c x b s H) as [Hr H1]. pose proof (Hout s b H HQ) as Q1.
  destruct (out_phase c x b s) as [s1 refused]. cbn [fst snd] in *. subst refused.
  cbv zeta.
  assert (R : calm c (fst (fst (reserve_phase c x (b - (qlen s x - qlen s1 x)) s1))) /\
              Q (fst (fst (reserve_phase c x (b - (qlen s x - qlen s1 x)) s1)))).
  { unfold reserve_phase. destruct (_ && negb _); [split; assumption|].
    destruct (can_reserve c x s1); destruct (0 <? _); cbn [fst]; auto; split; auto; apply set_res_calm; auto. }
  destruct (reserve_phase c x (b - (qlen s x - qlen s1 x)) s1) as [[s2 go] b2]. cbn [fst] in R. destruct R as [R Q2].
  destruct go; cbn [negb]; [|exact Q2].
  destruct (ca_g c s2 R (negb x)) as [_ Hrg]. rewrite Hrg. cbn [negb].
  destruct (carrier (glo s2 (negb x))) as [|n rest] eqn:Ec.
  - unfold wclosed. pose proof (ca_a c s2 R (negb x)) as Hal. unfold cn in Hal. rewrite Hal. rewrite andb_false_r. exact Q2.
  - assert (Hn : fits c n).
    { pose proof (ca_sz c s2 R (negb x)) as Hz. unfold pipe in Hz. rewrite Ec in Hz. inversion Hz; auto. }
    apply (fits_max c x) in Hn. destruct (c_max (ecf c x) <? n_len n) eqn:Eo; [lia|].
    pose proof (read_calm c x n rest s2 R Ec) as RC. pose proof (Hread s2 n rest R Q2 Ec) as RQ.
    rewrite Hrg in RC, RQ. apply IH; assumption.
Qed.

(* the sender's side is drained: nothing parked, nothing queued, nothing in the sink *)
Definition idle (s : st) (x : bool) : Prop :=
  e_cur (cn s x) = None /\ e_sq (cn s x) = [] /\ e_aq (cn s x) = [] /\ e_sk (cn s x) = [].

Lemma out_phase_idle c x b s : idle s x -> idle (fst (out_phase c x b s)) x.
Proof.
  intros (E1 & E2 & E3 & E4). unfold idle, out_phase, cn in *. rewrite E1, E2, E3, E4.
  set (fuel := (_ + _)%nat). destruct fuel; cbn; destruct (wgate (glo s x)); destruct x; cbn; auto.
Qed.

Lemma conn_loop_idle c x fuel b s : calm c s -> idle s x -> idle (conn_loop fuel c x b s) x.
Proof.
  apply (conn_loop_calm_gen c x (fun s' => idle s' x)).
  - intros s0 b0 _ H. apply out_phase_idle; auto.
  - intros s0 r w _ H. unfold idle, cn in *. destruct x; exact H.
  - intros s0 n rest _ H _. unfold idle, cn in *. destruct x; exact H.
Qed.

(* with the budget larger than what is queued, one poll of the sending Connection drains its side *)
Lemma conn_poll_drains c x b s : calm c s -> qlen s x < b -> idle (conn_poll c x b s) x.
Proof.
  intros H Hb. unfold conn_poll. fold (cn s x). rewrite (ca_a c s H x).
  set (fuel := length _). rewrite conn_loop_S.
  pose proof (ca_sh c s H x) as Hsh. unfold cn in Hsh. rewrite Hsh. cbn [andb]. rewrite (ca_k c s H).
  destruct (out_phase_calm c x b s H) as [Hr H1].
  pose proof (outbound_progress c x b s (ca_a c s H x) (proj1 (ca_g c s H x)) Hb (pipe_queued_fits c s x (ca_sz c s H x))) as OP.
  destruct (out_phase c x b s) as [s1 refused]. cbn [fst snd] in *. subst refused.
  destruct OP as (_ & I1 & I2 & I3 & I4 & _). assert (Id : idle s1 x) by (repeat split; assumption).
  cbv zeta.
  assert (R : calm c (fst (fst (reserve_phase c x (b - (qlen s x - qlen s1 x)) s1))) /\
              idle (fst (fst (reserve_phase c x (b - (qlen s x - qlen s1 x)) s1))) x).
  { unfold reserve_phase. destruct (_ && negb _); [split; assumption|].
    destruct (can_reserve c x s1); destruct (0 <? _); cbn [fst]; auto; (split; [apply set_res_calm; auto|]);
      unfold idle, cn in *; destruct x; exact Id. }
  destruct (reserve_phase c x (b - (qlen s x - qlen s1 x)) s1) as [[s2 go] b2]. cbn [fst] in R. destruct R as [R Id2].
  destruct go; cbn [negb]; [|exact Id2].
  destruct (ca_g c s2 R (negb x)) as [_ Hrg]. rewrite Hrg. cbn [negb].
  destruct (carrier (glo s2 (negb x))) as [|n rest] eqn:Ec.
  - unfold wclosed. pose proof (ca_a c s2 R (negb x)) as Hal. unfold cn in Hal. rewrite Hal. rewrite andb_false_r. exact Id2.
  - assert (Hn : fits c n).
    { pose proof (ca_sz c s2 R (negb x)) as Hz. unfold pipe in Hz. rewrite Ec in Hz. inversion Hz; auto. }
    apply (fits_max c x) in Hn. destruct (c_max (ecf c x) <? n_len n) eqn:Eo; [lia|].
    pose proof (read_calm c x n rest s2 R Ec) as RC. rewrite Hrg in RC.
    apply conn_loop_idle; auto. unfold idle, cn in *. destruct x; exact Id2.
Qed.

(* ------------------------------------------------------------------ what a poll leaves alone *)
(* users' views: events, sinks held, ghost logs; and the period *)
Definition same_users (s0 s' : st) : Prop :=
  per s' = per s0 /\
  forall z, e_evs (hn s' z) = e_evs (hn s0 z) /\ e_peers (hn s' z) = e_peers (hn s0 z) /\ gl s' z = gl s0 z.

Lemma same_users_refl s : same_users s s.
Proof. split; auto. Qed.

Lemma same_users_trans a b c0 : same_users a b -> same_users b c0 -> same_users a c0.
Proof.
  intros [P1 H1] [P2 H2]. split; [congruence|]. intros z. destruct (H1 z) as (A1 & B1 & C1). destruct (H2 z) as (A2 & B2 & C2).
  repeat split; congruence.
Qed.

Lemma conn_poll_same_users c x b s : calm c s -> same_users s (conn_poll c x b s).
Proof.
  intros H. unfold conn_poll. fold (cn s x). rewrite (ca_a c s H x).
  apply (conn_loop_calm_gen c x (fun s' => same_users s s')); auto using same_users_refl.
  - intros s0 b0 H0 Q. eapply same_users_trans; [exact Q|].
    pose proof (out_phase_frame c x b0 s0 (ca_a c s0 H0 x)) as F. cbn zeta in F.
    destruct F as (_ & _ & Fp & _ & _ & _ & Fh & Fg1 & Fg2 & _ & Fe & Fpe & _).
    split; auto. intros z. destruct (Bool.eqb z x) eqn:E; [apply eqb_prop in E; subst; auto|].
    assert (z = negb x) by (destruct z, x; auto; discriminate). subst. rewrite Fh, Fg1. auto.
  - intros s0 r w _ Q. eapply same_users_trans; [exact Q|]. split; [destruct x; reflexivity|].
    intros z. destruct x, z; repeat split; reflexivity.
  - intros s0 n rest _ Q _. eapply same_users_trans; [exact Q|]. split; [destruct x; reflexivity|].
    intros z. destruct x, z; repeat split; reflexivity.
Qed.

(* the receiving handle's channel only grows, the other one and the sender's side of the peer are untouched *)
Lemma conn_poll_other c x b s : calm c s ->
  let s' := conn_poll c x b s in
  cn s' (negb x) = cn s (negb x) /\ e_nq (hn s' (negb x)) = e_nq (hn s (negb x)) /\
  exists more, e_nq (hn s' x) = e_nq (hn s x) ++ more.
Proof.
  intros H. cbn zeta. unfold conn_poll. fold (cn s x). rewrite (ca_a c s H x).
  apply (conn_loop_calm_gen c x (fun s' => cn s' (negb x) = cn s (negb x) /\ e_nq (hn s' (negb x)) = e_nq (hn s (negb x)) /\
                                           exists more, e_nq (hn s' x) = e_nq (hn s x) ++ more)); auto.
  - intros s0 b0 H0 (A & B & (m & C)).
    pose proof (out_phase_frame c x b0 s0 (ca_a c s0 H0 x)) as F. cbn zeta in F.
    destruct F as (_ & _ & _ & _ & Fc & _ & Fh & _ & _ & Fn & _).
    rewrite Fc, Fh, Fn. repeat split; auto. exists m; auto.
  - intros s0 r w _ (A & B & (m & C)). repeat split; [destruct x; exact A|destruct x; exact B|exists m; destruct x; exact C].
  - intros s0 n rest _ (A & B & (m & C)) _. repeat split; [destruct x; exact A|destruct x; exact B|].
    exists (m ++ [n]). rewrite app_assoc, <- C. destruct x; reflexivity.
  - repeat split; auto. exists []. now rewrite app_nil_r.
Qed.

(* an empty carrier stays empty while only its reader runs *)
Lemma conn_poll_empty_in c y b s : calm c s -> carrier (glo s (negb y)) = [] ->
  carrier (glo (conn_poll c y b s) (negb y)) = [].
Proof.
  intros H E. unfold conn_poll. fold (cn s y). rewrite (ca_a c s H y).
  apply (conn_loop_calm_gen c y (fun s' => carrier (glo s' (negb y)) = [])); auto.
  - intros s0 b0 H0 Q. pose proof (out_phase_frame c y b0 s0 (ca_a c s0 H0 y)) as F. cbn zeta in F.
    destruct F as (_ & _ & _ & _ & _ & Fg & _). now rewrite Fg.
  - intros s0 r w _ Q. destruct y; exact Q.
  - intros s0 n rest _ Q Ec. congruence.
Qed.

(* the receiving Connection, polled with budget to spare: afterwards either the carrier is empty or the handle's
   channel is not *)
Lemma conn_poll_reads c y b s : calm c s -> qlen s y < b -> 1 <= c_n (ecf c y) ->
  let s' := conn_poll c y b s in
  carrier (glo s' (negb y)) = [] \/ e_nq (hn s' y) <> [].
Proof.
  intros H Hb Hc. cbn zeta. destruct (carrier (glo s (negb y))) as [|n rest] eqn:Ec.
  - left. apply conn_poll_empty_in; auto.
  - right. destruct (can_reserve c y s) eqn:Er.
    + assert (Hn : fits c n).
      { pose proof (ca_sz c s H (negb y)) as Hz. unfold pipe in Hz. rewrite Ec in Hz. inversion Hz; auto. }
      destruct (inbound_progress c y b s n rest (ca_a c s H y) (ca_sh c s H y) (ca_k c s H) Hb
                  (out_phase_ok c y b s (ca_sz c s H y)) Er (proj2 (ca_g c s H (negb y))) Ec (fits_max c y n Hn)) as [more E].
      rewrite E. destruct (e_nq (hn s y)); discriminate.
    + destruct (conn_poll_other c y b s H) as (_ & _ & (more & E)). rewrite E.
      unfold can_reserve in Er. apply orb_false_iff in Er. destruct Er as [_ Er]. fold (hn s y) in Er.
      destruct (e_nq (hn s y)) as [|a t]; [|discriminate]. unfold len in Er. cbn in Er. lia.
Qed.

(* ------------------------------------------------------------------ one poll of a handle *)
Lemma h_scan_shrinks fixed peers : forall b q, b <> O -> q <> [] ->
  (length (snd (h_scan fixed peers b q)) < length q)%nat.
Proof.
  intros b q Hb Hq. destruct b as [|b]; [congruence|]. destruct q as [|n t]; [congruence|]. cbn [h_scan].
  destruct (passes fixed peers n); cbn [snd length]; [lia|].
  pose proof (h_scan_len fixed peers b t) as L. unfold len in L. lia.
Qed.

Definition conns_same (s s' : st) : Prop :=
  killed s' = killed s /\ per s' = per s /\
  forall z, glo s' z = glo s z /\ e_alive (cn s' z) = e_alive (cn s z) /\ e_shut (cn s' z) = e_shut (cn s z) /\
            e_cur (cn s' z) = e_cur (cn s z) /\ e_sq (cn s' z) = e_sq (cn s z) /\ e_aq (cn s' z) = e_aq (cn s z) /\
            e_sk (cn s' z) = e_sk (cn s z) /\ e_per (cn s' z) = e_per (cn s z).

Lemma h_poll_effect c y b s : e_evs (hn s y) = [] -> b <> 0 ->
  let s' := fst (h_poll c y b s) in
  conns_same s s' /\
  hn s' (negb y) = hn s (negb y) /\ e_evs (hn s' y) = [] /\ e_peers (hn s' y) = e_peers (hn s y) /\
  (forall z, e_acc (gl s' z) = e_acc (gl s z)) /\
  (length (e_nq (hn s' y)) <= length (e_nq (hn s y)))%nat /\
  (e_nq (hn s y) <> [] -> (length (e_nq (hn s' y)) < length (e_nq (hn s y)))%nat).
Proof.
  intros Ee Hb. cbn zeta. unfold h_poll, h_poll_gen, hn, gl in *.
  destruct (b =? 0) eqn:E0; [lia|]. rewrite Ee.
  set (k := N.to_nat (N.min b (len (e_nq (eh (gep s y)))))).
  pose proof (h_scan_len true (e_peers (eh (gep s y))) k (e_nq (eh (gep s y)))) as L1.
  assert (L2 : e_nq (eh (gep s y)) <> [] ->
               (length (snd (h_scan true (e_peers (eh (gep s y))) k (e_nq (eh (gep s y))))) < length (e_nq (eh (gep s y))))%nat).
  { intros Hq. apply h_scan_shrinks; auto. unfold k, len. destruct (e_nq (eh (gep s y))); [congruence|]. cbn [length]. lia. }
  destruct (h_scan true (e_peers (eh (gep s y))) k (e_nq (eh (gep s y)))) as [r q]. cbn [snd] in *.
  unfold len in L1.
  destruct r; cbn [fst]; unfold hand_over;
    match goal with |- context [if ?g then _ else _] => destruct g end;
    unfold conns_same, cn, hn, gl; destruct y; cbn in *;
    repeat split; auto; try lia; try (match goal with z : bool |- _ => destruct z; reflexivity end);
    try (intros z; destruct z; reflexivity).
Qed.

Lemma conns_same_calm c s s' : conns_same s s' -> calm c s -> calm c s'.
Proof.
  intros (Ek & _ & F) [Hk Ha Hsh Hg Hsz Ht]. constructor.
  - congruence.
  - intros z. destruct (F z) as (_ & A & _). congruence.
  - intros z. destruct (F z) as (_ & _ & A & _). congruence.
  - intros z. destruct (F z) as (A & _). rewrite A. auto.
  - intros z. destruct (F z) as (A & _ & _ & B & C & D & E & _). unfold pipe. rewrite A, B, C, D, E. apply Hsz.
  - intros z. destruct (F z) as (_ & _ & _ & _ & C & D & _). unfold T1. rewrite C, D. apply Ht.
Qed.

Lemma conns_same_pipe s s' z : conns_same s s' -> pipe s' z = pipe s z.
Proof. intros (_ & _ & F). destruct (F z) as (A & _ & _ & B & C & D & E & _). unfold pipe. now rewrite A, B, C, D, E. Qed.

Lemma conns_same_idle s s' z : conns_same s s' -> idle s z -> idle s' z.
Proof. intros (_ & _ & F) (I1 & I2 & I3 & I4). destruct (F z) as (_ & _ & _ & B & C & D & E & _). unfold idle. now rewrite B, C, D, E. Qed.

(* what the reader takes off the carrier it puts into the handle's channel *)
Lemma conn_poll_conserve c x b s : calm c s ->
  (length (carrier (glo (conn_poll c x b s) (negb x))) + length (e_nq (hn (conn_poll c x b s) x)) =
   length (carrier (glo s (negb x))) + length (e_nq (hn s x)))%nat.
Proof.
  intros H. unfold conn_poll. fold (cn s x). rewrite (ca_a c s H x).
  apply (conn_loop_calm_gen c x (fun s' => (length (carrier (glo s' (negb x))) + length (e_nq (hn s' x)) =
                                            length (carrier (glo s (negb x))) + length (e_nq (hn s x)))%nat)); auto.
  - intros s0 b0 H0 Q. pose proof (out_phase_frame c x b0 s0 (ca_a c s0 H0 x)) as F. cbn zeta in F.
    destruct F as (_ & _ & _ & _ & _ & Fg & _ & _ & _ & Fn & _). now rewrite Fg, Fn.
  - intros s0 r w _ Q. destruct x; exact Q.
  - intros s0 n rest _ Q Ec. rewrite <- Q, Ec. unfold hn. destruct x; cbn; rewrite app_length; cbn; lia.
Qed.

(* ------------------------------------------------------------------ a round of the fair scheduler *)
(* every task is polled: both Connections (twice, so that what one writes the other reads within the round),
   then both users *)
Definition fair_round (b : N) : list step :=
  [SConn true b; SConn false b; SConn true b; SConn false b; SHandle true b; SHandle false b].

Fixpoint fair_rounds (b : N) (n : nat) : list step :=
  match n with O => [] | S k => fair_round b ++ fair_rounds b k end.

(* a stream that is open at both ends and left alone: both users have seen NotificationStreamOpened, the polls
   have more budget than what is queued, the handle channels have room for at least one notification *)
Record drainable (c : cfg) (b : N) (s : st) : Prop := mkDr {
  dr_calm : calm c s;
  dr_evs : forall z, e_evs (hn s z) = [];
  dr_q : forall z, qlen s z < b;
  dr_cap : forall z, 1 <= c_n (ecf c z)
}.

Lemma qlen_idle s x : idle s x -> qlen s x = 0.
Proof. intros (_ & E2 & E3 & _). unfold qlen, cn in *. rewrite E2, E3. reflexivity. Qed.

Lemma idle_pipe s x : idle s x -> pipe s x = carrier (glo s x).
Proof. intros (E1 & E2 & E3 & E4). unfold pipe. rewrite E1, E2, E3, E4. cbn. now rewrite app_nil_r. Qed.

Lemma idle_cn s s' x : cn s' x = cn s x -> idle s x -> idle s' x.
Proof. intros E H. unfold idle. now rewrite E. Qed.

Lemma qlen_cn s s' x : cn s' x = cn s x -> qlen s' x = qlen s x.
Proof. intros E. unfold qlen. unfold cn in E. now rewrite E. Qed.

Lemma run_cons c s t r : fst (run c s (t :: r)) = fst (run c (fst (do_step c s t)) r).
Proof. cbn [run]. destruct (do_step c s t) as [s1 v]. cbn [fst]. destruct (run c s1 r) as [s2 vs]. reflexivity. Qed.

Lemma fair_round_run c b s :
  fst (run c s (fair_round b)) =
  fst (h_poll c false b (fst (h_poll c true b
       (conn_poll c false b (conn_poll c true b (conn_poll c false b (conn_poll c true b s))))))).
Proof. unfold fair_round. rewrite !run_cons. cbn [do_step fst run].
  destruct (h_poll c true b _) as [s5 e5]. cbn [fst]. destruct (h_poll c false b s5) as [s6 e6]. reflexivity.
Qed.

(* what the drain leaves alone: the stream, what was accepted, the sinks the handles hold *)
Definition same_acc (s s' : st) : Prop :=
  per s' = per s /\ forall z, e_acc (gl s' z) = e_acc (gl s z) /\ e_peers (hn s' z) = e_peers (hn s z).

Lemma same_acc_refl s : same_acc s s.
Proof. split; auto. Qed.
Lemma same_acc_trans a b c0 : same_acc a b -> same_acc b c0 -> same_acc a c0.
Proof.
  intros [P1 H1] [P2 H2]. split; [congruence|]. intros z. destruct (H1 z), (H2 z). split; congruence.
Qed.
Lemma same_users_acc s s' : same_users s s' -> same_acc s s'.
Proof. intros [P H]. split; auto. intros z. destruct (H z) as (_ & B & C). rewrite C. auto. Qed.

Lemma fair_round_progress c b s : drainable c b s ->
  let s' := fst (run c s (fair_round b)) in
  drainable c b s' /\ same_acc s s' /\
  (under_way s' <= under_way s)%nat /\ (under_way s <> O -> (under_way s' < under_way s)%nat).
Proof.
  intros [H0 Ev0 Q0 Cap]. cbn zeta. rewrite fair_round_run.
  set (s1 := conn_poll c true b s).
  set (s2 := conn_poll c false b s1).
  set (s3 := conn_poll c true b s2).
  set (s4 := conn_poll c false b s3).
  (* the four polls of the Connections *)
  assert (H1 : calm c s1) by (apply conn_poll_calm; auto).
  assert (H2 : calm c s2) by (apply conn_poll_calm; auto).
  assert (H3 : calm c s3) by (apply conn_poll_calm; auto).
  assert (H4 : calm c s4) by (apply conn_poll_calm; auto).
  pose proof (conn_poll_same_users c true b s H0) as U1. fold s1 in U1.
  pose proof (conn_poll_same_users c false b s1 H1) as U2. fold s2 in U2.
  pose proof (conn_poll_same_users c true b s2 H2) as U3. fold s3 in U3.
  pose proof (conn_poll_same_users c false b s3 H3) as U4. fold s4 in U4.
  pose proof (same_users_trans _ _ _ (same_users_trans _ _ _ (same_users_trans _ _ _ U1 U2) U3) U4) as U04.
  destruct (conn_poll_under_way c true b s (ca_t1 c s H0 true) (ca_a c s1 H1 true)) as [_ W1]. fold s1 in W1.
  destruct (conn_poll_under_way c false b s1 (ca_t1 c s1 H1 false) (ca_a c s2 H2 false)) as [_ W2]. fold s2 in W2.
  destruct (conn_poll_under_way c true b s2 (ca_t1 c s2 H2 true) (ca_a c s3 H3 true)) as [_ W3]. fold s3 in W3.
  destruct (conn_poll_under_way c false b s3 (ca_t1 c s3 H3 false) (ca_a c s4 H4 false)) as [_ W4]. fold s4 in W4.
  destruct (conn_poll_other c true b s H0) as (C1 & N1 & _). fold s1 in C1, N1. cbn [negb] in C1, N1.
  destruct (conn_poll_other c false b s1 H1) as (C2 & N2 & (m2 & A2)). fold s2 in C2, N2, A2. cbn [negb] in C2, N2.
  destruct (conn_poll_other c true b s2 H2) as (C3 & N3 & (m3 & A3)). fold s3 in C3, N3, A3. cbn [negb] in C3, N3.
  destruct (conn_poll_other c false b s3 H3) as (C4 & N4 & (m4 & A4)). fold s4 in C4, N4, A4. cbn [negb] in C4, N4.
  (* every sender is drained *)
  assert (I1 : idle s1 true) by (apply conn_poll_drains; auto).
  assert (Q1 : qlen s1 false < b) by (rewrite (qlen_cn s s1 false C1); auto).
  assert (I2f : idle s2 false) by (apply conn_poll_drains; auto).
  assert (I2t : idle s2 true) by (apply (idle_cn s1 s2 true C2 I1)).
  assert (Q2 : qlen s2 true < b) by (rewrite (qlen_idle s2 true I2t); specialize (Q0 true); lia).
  assert (I3t : idle s3 true) by (apply conn_poll_drains; auto).
  assert (I3f : idle s3 false) by (apply (idle_cn s2 s3 false C3 I2f)).
  assert (Q3 : qlen s3 false < b) by (rewrite (qlen_idle s3 false I3f); specialize (Q0 true); lia).
  assert (I4f : idle s4 false) by (apply conn_poll_drains; auto).
  assert (I4t : idle s4 true) by (apply (idle_cn s3 s4 true C4 I3t)).
  (* every reader has read *)
  pose proof (conn_poll_reads c false b s1 H1 Q1 (Cap false)) as R2. fold s2 in R2. cbn [negb] in R2.
  pose proof (conn_poll_reads c true b s2 H2 Q2 (Cap true)) as R3. fold s3 in R3. cbn [negb] in R3.
  pose proof (conn_poll_conserve c true b s2 H2) as K3. fold s3 in K3. cbn [negb] in K3.
  (* the two polls of the handles *)
  assert (Hb : b <> 0) by (specialize (Q0 true); lia).
  assert (E4 : forall z, e_evs (hn s4 z) = []).
  { intros z. destruct U04 as [_ U]. destruct (U z) as (A & _). rewrite A. apply Ev0. }
  pose proof (h_poll_effect c true b s4 (E4 true) Hb) as P5. cbn zeta in P5. set (s5 := fst (h_poll c true b s4)) in *.
  destruct P5 as (S5 & O5 & E5 & Pe5 & Ac5 & L5 & D5). cbn [negb] in O5.
  assert (E5f : e_evs (hn s5 false) = []) by (rewrite O5; apply E4).
  pose proof (h_poll_effect c false b s5 E5f Hb) as P6. cbn zeta in P6. set (s6 := fst (h_poll c false b s5)) in *.
  destruct P6 as (S6 & O6 & E6 & Pe6 & Ac6 & L6 & D6). cbn [negb] in O6.
  assert (H5 : calm c s5) by (eapply conns_same_calm; eauto).
  assert (H6 : calm c s6) by (eapply conns_same_calm; eauto).
  assert (W5 : (under_way s5 + length (e_nq (hn s4 true)) = under_way s4 + length (e_nq (hn s5 true)))%nat).
  { unfold under_way. rewrite !(conns_same_pipe s4 s5) by exact S5. rewrite O5. lia. }
  assert (W6 : (under_way s6 + length (e_nq (hn s5 false)) = under_way s5 + length (e_nq (hn s6 false)))%nat).
  { unfold under_way. rewrite !(conns_same_pipe s5 s6) by exact S6. rewrite O6. lia. }
  split; [|split; [|split]].
  - (* still drainable *)
    constructor; auto.
    + intros z. destruct z; [rewrite O6; exact E5|exact E6].
    + intros z. assert (Iz : idle s6 z).
      { apply (conns_same_idle s5 s6 z S6). apply (conns_same_idle s4 s5 z S5). destruct z; assumption. }
      rewrite (qlen_idle s6 z Iz). specialize (Q0 true). lia.
  - (* nothing accepted, nothing forgotten *)
    eapply same_acc_trans; [apply same_users_acc; exact U04|].
    destruct S5 as (_ & P5 & _). destruct S6 as (_ & P6 & _).
    split; [congruence|]. intros z. split; [rewrite Ac6, Ac5; reflexivity|].
    destruct z; [rewrite O6; exact Pe5|rewrite Pe6, O5; reflexivity].
  - lia.
  - intros Hne.
    destruct (e_nq (hn s4 true)) as [|a ta] eqn:NA.
    2:{ assert (X : (length (e_nq (hn s5 true)) < length (a :: ta))%nat) by (apply D5; discriminate). lia. }
    destruct (e_nq (hn s5 false)) as [|a tb] eqn:NB.
    2:{ assert (X : (length (e_nq (hn s6 false)) < length (a :: tb))%nat) by (apply D6; discriminate). lia. }
    exfalso. apply Hne.
    (* nothing is under way: A -> B *)
    assert (NB4 : e_nq (hn s4 false) = []) by (rewrite <- O5; exact NB).
    assert (NB2 : e_nq (hn s2 false) = []).
    { rewrite A4, N3 in NB4. destruct (e_nq (hn s2 false)); [reflexivity|discriminate]. }
    assert (CA2 : carrier (glo s2 true) = []) by (destruct R2; [assumption|contradiction]).
    assert (PA2 : pipe s2 true = []) by (rewrite (idle_pipe s2 true I2t); exact CA2).
    (* B -> A *)
    assert (NA3 : e_nq (hn s3 true) = []) by (symmetry; exact N4).
    assert (CB3 : carrier (glo s3 false) = []) by (destruct R3; [assumption|contradiction]).
    rewrite NA3, CB3 in K3. cbn [length Nat.add] in K3.
    assert (CB2 : carrier (glo s2 false) = []) by (destruct (carrier (glo s2 false)); [reflexivity|cbn [length] in K3; lia]).
    assert (NA2 : e_nq (hn s2 true) = []) by (destruct (e_nq (hn s2 true)); [reflexivity|cbn [length] in K3; lia]).
    assert (PB2 : pipe s2 false = []) by (rewrite (idle_pipe s2 false I2f); exact CB2).
    rewrite <- W1, <- W2. unfold under_way. rewrite PA2, PB2, NA2, NB2. reflexivity.
Qed.

Lemma fair_rounds_drain c b : forall n s, drainable c b s -> (under_way s <= n)%nat ->
  let s' := fst (run c s (fair_rounds b n)) in
  drainable c b s' /\ same_acc s s' /\ under_way s' = O.
Proof.
  induction n as [|n IH]; intros s D Hn; cbn zeta.
  - cbn [fair_rounds run fst]. split; [exact D|]. split; [apply same_acc_refl|lia].
  - cbn [fair_rounds]. rewrite run_app.
    destruct (fair_round_progress c b s D) as (D1 & A1 & L1 & P1).
    set (s1 := fst (run c s (fair_round b))) in *.
    assert (Hn1 : (under_way s1 <= n)%nat).
    { destruct (under_way s) eqn:E; [lia|]. assert (X : (under_way s1 < S n0)%nat) by (apply P1; discriminate). lia. }
    destruct (IH s1 D1 Hn1) as (D2 & A2 & Z). split; [exact D2|]. split; [eapply same_acc_trans; eauto|exact Z].
Qed.

Lemma length_zero_nil {A} (l : list A) : length l = O -> l = [].
Proof. destruct l; [reflexivity|discriminate]. Qed.

(* Eventual delivery. A stream that is open at both ends and left alone (s is ANY reachable state with that
   property), scheduled fairly — `fair_rounds b n`: n rounds in each of which both Connection tasks and both users
   are polled — for at least as many rounds as notifications are under way: afterwards every notification accepted
   on the stream, in either direction and through either mode, has been delivered, in order (the delivered
   sequence IS the accepted sequence), and the stream is still open. *)
Theorem eventual_delivery c hs ts b n :
  let s := final c hs ts in
  drainable c b s -> (under_way s <= n)%nat ->
  let s' := final c hs (ts ++ fair_rounds b n) in
  drainable c b s' /\ under_way s' = O /\
  forall x m, proj (per s) m (e_del (gl s' (negb x))) = proj (per s) m (e_acc (gl s x)).
Proof.
  intros s D Hn s'.
  assert (Es : s' = fst (run c s (fair_rounds b n))) by (unfold s', s, final; apply run_app).
  destruct (fair_rounds_drain c b n s D Hn) as (D' & (Ep & Ac) & Z). rewrite <- Es in *.
  split; [exact D'|]. split; [exact Z|]. intros x m.
  pose proof (dr_calm c b s' D') as H'.
  assert (Hr : reading s' (negb x) = true).
  { unfold reading. destruct (_ <? _); auto. apply (ca_a c s' H'). }
  pose proof (no_loss_while_open c hs (ts ++ fair_rounds b n) x m (ca_k c s' H') (ca_a c s' H' x) Hr) as NL.
  fold s' in NL. rewrite Ep in NL. destruct (Ac x) as [Ax _]. rewrite Ax in NL. rewrite NL.
  unfold under_way in Z.
  assert (Px : pipe s' x = []) by (apply length_zero_nil; destruct x; lia).
  assert (Nx : e_nq (hn s' (negb x)) = []) by (apply length_zero_nil; destruct x; cbn [negb]; lia).
  unfold pipe in Px. rewrite Nx.
  apply app_eq_nil in Px. destruct Px as [P1 Px]. apply app_eq_nil in Px. destruct Px as [P2 Px].
  apply app_eq_nil in Px. destruct Px as [P3 Px]. apply app_eq_nil in Px. destruct Px as [P4 P5].
  rewrite P1, P2, P3, P4, P5. cbn. now rewrite app_nil_r.
Qed.

(* the first notification delivered on a stream through a mode is the first one accepted on it through that mode *)
Lemma first_delivered_is_first_accepted c hs ts x k m n rest :
  let s := final c hs ts in
  proj k m (e_del (gl s (negb x))) = n :: rest ->
  exists rest', proj k m (e_acc (gl s x)) = n :: rest'.
Proof.
  intros s E. destruct (fifo_prefix c hs ts x k m) as [r Hr]. fold s in Hr. rewrite E in Hr. exists (rest ++ r). exact Hr.
Qed.
