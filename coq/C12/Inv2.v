(* C12 — the per-endpoint invariant: channel capacities, size limits, stream confinement, alternation
   of Opened/Closed, monotone periods, at most one ForceClose per period. Over every schedule. *)
From Coq Require Import List NArith Bool Lia.
From Coq Require Import ZifyBool ZifyNat ZifyN.
From V.C12 Require Import Model Proofs.
Import ListNotations.
Open Scope N_scope.
Arguments N.add : simpl never.
Arguments N.sub : simpl never.
Arguments N.eqb : simpl never.
Arguments N.ltb : simpl never.
Arguments N.leb : simpl never.
Arguments N.of_nat : simpl never.
Arguments N.max : simpl never.

(* ------------------------------------------------------------------ Opened / Closed bookkeeping *)
Fixpoint alt_state (st0 : bool) (l : list hev) : option bool :=
  match l with
  | [] => Some st0
  | HOpened _ :: t => if st0 then None else alt_state true t
  | HClosed _ :: t => if st0 then alt_state false t else None
  end.

Lemma alt_state_app a : forall st0 b, alt_state st0 (a ++ b) =
  match alt_state st0 a with Some st1 => alt_state st1 b | None => None end.
Proof.
  induction a as [|e a IH]; intros st0 b; cbn; [reflexivity|].
  destruct e, st0; auto.
Qed.

(* the largest period opened so far *)
Fixpoint maxop (l : list hev) : N :=
  match l with
  | [] => 0
  | HOpened k :: t => N.max k (maxop t)
  | HClosed _ :: t => maxop t
  end.

Lemma maxop_app a b : maxop (a ++ b) = N.max (maxop a) (maxop b).
Proof. induction a as [|e a IH]; cbn; [lia|]. destruct e; rewrite IH; lia. Qed.

(* pending events: opened periods increase, lie above lo and do not exceed hi *)
Fixpoint ev_ok (lo hi : N) (l : list hev) : Prop :=
  match l with
  | [] => True
  | HOpened j :: t => lo < j /\ j <= hi /\ ev_ok j hi t
  | HClosed _ :: t => ev_ok lo hi t
  end.

Lemma ev_ok_weaken l : forall lo hi hi', ev_ok lo hi l -> hi <= hi' -> ev_ok lo hi' l.
Proof.
  induction l as [|e l IH]; intros lo hi hi' H Hh; cbn in *; [exact I|].
  destruct e; [|eapply IH; eauto]. destruct H as (A & B & C). repeat split; [exact A|lia|eapply IH; eauto].
Qed.

Lemma ev_ok_snoc_closed l k : forall lo hi, ev_ok lo hi l -> ev_ok lo hi (l ++ [HClosed k]).
Proof.
  induction l as [|e l IH]; intros lo hi H; cbn in *; [exact I|].
  destruct e; [|apply IH; exact H]. destruct H as (A & B & C). repeat split; auto.
Qed.

Lemma ev_ok_snoc_opened l p : forall lo hi, ev_ok lo hi l -> lo <= hi -> hi < p -> ev_ok lo p (l ++ [HOpened p]).
Proof.
  induction l as [|e l IH]; intros lo hi H Hl Hp; cbn in *.
  - repeat split; lia.
  - destruct e; [|eapply IH; eauto]. destruct H as (A & B & C). repeat split; [exact A|lia|].
    eapply IH; eauto.
Qed.

Fixpoint mono_from (last : N) (l : list notif) : Prop :=
  match l with [] => True | n :: t => last <= n_per n /\ mono_from (n_per n) t end.

Lemma mono_snoc p n : n_per n = p -> forall l a, mono_from a l -> Forall (fun x => n_per x <= p) l -> a <= p ->
  mono_from a (l ++ [n]).
Proof.
  intros Hn. induction l as [|x l IH]; intros a Hm Hf Ha; cbn in *.
  - split; [lia|exact I].
  - destruct Hm as [H1 H2]. inversion Hf; subst. split; [exact H1|]. apply IH; auto.
Qed.

Definition b2n (b : bool) : N := if b then 1 else 0.

(* ------------------------------------------------------------------ the part of the state the invariant reads *)
Record ekey := mkK {
  k_nq : list notif; k_res : bool; k_rwait : bool; k_car : list notif; k_sk : list notif;
  k_del : list notif; k_dper : list (option N); k_seen : list hev; k_evs : list hev;
  k_alive : bool; k_per : N; k_peers : option N; k_fclog : list N; k_clog : bool
}.

Definition ekey_of (s : st) (z : bool) : ekey :=
  mkK (e_nq (hn s z)) (e_res (cn s z)) (e_rwait (cn s z)) (carrier (glo s z)) (e_sk (cn s z))
      (e_del (gl s z)) (e_dper (gl s z)) (e_seen (gl s z)) (e_evs (hn s z))
      (e_alive (cn s z)) (e_per (cn s z)) (e_peers (hn s z)) (e_fclog (gl s z)) (e_clog (hn s z)).

(* mx: own maximum, my: the peer's maximum, cap: size of the user channel *)
Record InvK (mx my cap : N) (k : ekey) : Prop := mkInvK {
  (* the user channel never holds more than its capacity, counting the reserved slot *)
  e1_res : len (k_nq k) + b2n (k_res k) <= cap;
  (* sizes *)
  e1_out : Forall (fun n => n_len n <= mx) (k_car k ++ k_sk k);
  e1_in : Forall (fun n => n_len n <= mx /\ n_len n <= my) (k_del k ++ k_nq k);
  (* a notification is reported only as part of the stream it was sent on *)
  e1_conf : k_dper k = map (fun n => Some (n_per n)) (k_del k);
  (* Opened and Closed alternate *)
  e1_alt : alt_state false (k_seen k ++ k_evs k) = Some (k_alive k);
  (* periods only grow *)
  e1_lo : maxop (k_seen k) <= k_per k;
  e1_evs : ev_ok (maxop (k_seen k)) (k_per k) (k_evs k);
  e1_peers : forall j, k_peers k = Some j -> j = maxop (k_seen k);
  e1_mono : mono_from 0 (k_del k);
  e1_dle : Forall (fun n => n_per n <= maxop (k_seen k)) (k_del k);
  (* at most one ForceClose per period *)
  e1_fnd : NoDup (k_fclog k);
  e1_fle : Forall (fun j => j <= maxop (k_seen k)) (k_fclog k);
  e1_fcl : forall j, k_peers k = Some j -> In j (k_fclog k) -> k_clog k = true
}.

Definition InvE (c : cfg) (s : st) (z : bool) : Prop :=
  InvK (c_max (ecf c z)) (c_max (ecf c (negb z))) (c_n (ecf c z)) (ekey_of s z).
Definition InvB (c : cfg) (s : st) : Prop := forall z, InvE c s z.

Lemma init_invB c hs : InvB c (init hs).
Proof.
  intros z. destruct z; constructor; cbn; intros;
    try apply Forall_nil; try constructor; auto; try discriminate; try lia;
    change (len (@nil notif)) with 0; lia.
Qed.

(* ---- transitions on keys ---- *)
Definition kclose (k : ekey) : ekey :=
  mkK (k_nq k) false false (k_car k) [] (k_del k) (k_dper k) (k_seen k) (k_evs k ++ [HClosed (k_per k)])
      false (k_per k) (k_peers k) (k_fclog k) (k_clog k).

Lemma kclose_inv mx my cap k : InvK mx my cap k -> k_alive k = true -> InvK mx my cap (kclose k).
Proof.
  intros H Ha. destruct H. constructor; cbn [kclose k_nq k_res k_rwait k_car k_sk k_del k_dper k_seen k_evs k_alive k_per k_peers k_fclog k_clog]; auto.
  - change (b2n false) with 0. lia.
  - rewrite app_nil_r. apply Forall_app_iff in e1_out0. tauto.
  - rewrite app_assoc, alt_state_app, e1_alt0, Ha. reflexivity.
  - apply ev_ok_snoc_closed. assumption.
Qed.

Definition kout (k : ekey) (car sk : list notif) : ekey :=
  mkK (k_nq k) (k_res k) (k_rwait k) car sk (k_del k) (k_dper k) (k_seen k) (k_evs k)
      (k_alive k) (k_per k) (k_peers k) (k_fclog k) (k_clog k).

Lemma kout_inv mx my cap k car sk : InvK mx my cap k -> Forall (fun n => n_len n <= mx) (car ++ sk) ->
  InvK mx my cap (kout k car sk).
Proof. intros H Ho. destruct H. constructor; cbn; auto. Qed.

Definition kres (k : ekey) (r w : bool) : ekey :=
  mkK (k_nq k) r w (k_car k) (k_sk k) (k_del k) (k_dper k) (k_seen k) (k_evs k)
      (k_alive k) (k_per k) (k_peers k) (k_fclog k) (k_clog k).

Lemma kres_inv mx my cap k r w : InvK mx my cap k ->
  (r = true -> k_res k = true \/ len (k_nq k) < cap) ->
  InvK mx my cap (kres k r w).
Proof.
  intros H Hr. destruct H. constructor; cbn; auto.
  destruct r; cbn.
  - destruct (Hr eq_refl) as [E|E]; [rewrite E in e1_res0; cbn in e1_res0; lia|lia].
  - destruct (k_res k); cbn in *; lia.
Qed.

Definition kpush (k : ekey) (n : notif) : ekey :=
  mkK (k_nq k ++ [n]) false false (k_car k) (k_sk k) (k_del k) (k_dper k) (k_seen k) (k_evs k)
      (k_alive k) (k_per k) (k_peers k) (k_fclog k) (k_clog k).

Lemma kpush_inv mx my cap k n : InvK mx my cap k -> k_res k = true -> n_len n <= mx -> n_len n <= my ->
  InvK mx my cap (kpush k n).
Proof.
  intros H Hr H1 H2. destruct H. constructor; cbn; auto; try discriminate.
  - rewrite len_app. rewrite Hr in e1_res0. cbn in *. change (len [n]) with 1. lia.
  - rewrite app_assoc. apply Forall_app_iff. split; [assumption|]. repeat constructor; assumption.
Qed.

Definition kcar (k : ekey) (car : list notif) : ekey := kout k car (k_sk k).

Lemma kcar_tail_inv mx my cap k n rest : InvK mx my cap k -> k_car k = n :: rest -> InvK mx my cap (kcar k rest).
Proof.
  intros H Ec. apply kout_inv; [exact H|]. pose proof (e1_out _ _ _ _ H) as O. rewrite Ec in O.
  inversion O; subst. assumption.
Qed.

Lemma kcar_nil_inv mx my cap k : InvK mx my cap k -> InvK mx my cap (kcar k []).
Proof.
  intros H. apply kout_inv; [exact H|]. pose proof (e1_out _ _ _ _ H) as O.
  apply Forall_app_iff in O. cbn. tauto.
Qed.

Definition kevent (k : ekey) (e : hev) (es : list hev) : ekey :=
  mkK (k_nq k) (k_res k) (k_rwait k) (k_car k) (k_sk k) (k_del k) (k_dper k) (k_seen k ++ [e]) es
      (k_alive k) (k_per k) (match e with HOpened j => Some j | HClosed _ => None end)
      (k_fclog k) (match e with HOpened _ => k_clog k | HClosed _ => false end).

Lemma kevent_inv mx my cap k e es : InvK mx my cap k -> k_evs k = e :: es -> InvK mx my cap (kevent k e es).
Proof.
  intros H Ee. destruct H. rewrite Ee in *. constructor; cbn; auto.
  - rewrite <- app_assoc. exact e1_alt0.
  - rewrite maxop_app. destruct e as [j|j]; cbn in *; [destruct e1_evs0 as (A & B & C)|]; lia.
  - rewrite maxop_app. destruct e as [j|j]; cbn in *.
    + destruct e1_evs0 as (A & B & C). replace (N.max (maxop (k_seen k)) (N.max j 0)) with j by lia. exact C.
    + replace (N.max (maxop (k_seen k)) 0) with (maxop (k_seen k)) by lia. exact e1_evs0.
  - intros j Hj. rewrite maxop_app. destruct e as [i|i]; [|discriminate]. inversion Hj; subst. cbn in *.
    destruct e1_evs0 as (A & B & C). lia.
  - rewrite maxop_app. eapply Forall_impl; [|exact e1_dle0]. cbn. intros n Hn. lia.
  - rewrite maxop_app. eapply Forall_impl; [|exact e1_fle0]. cbn. intros n Hn. lia.
  - intros j Hj Hin. destruct e as [i|i]; [|discriminate]. inversion Hj; subst. cbn in *.
    destruct e1_evs0 as (A & B & C). rewrite Forall_forall in e1_fle0. specialize (e1_fle0 j Hin). lia.
Qed.

(* the handle takes r out of its channel (dropping what its filter rejects); the Connection parked
   in poll_reserve is handed the freed slot *)
Definition kscan (k : ekey) (r : option notif) (q : list notif) (ho : bool) : ekey :=
  mkK q (if ho then true else k_res k) (if ho then true else k_rwait k) (k_car k) (k_sk k)
      (k_del k ++ opt_list r) (k_dper k ++ match r with Some _ => [k_peers k] | None => [] end)
      (k_seen k) [] (k_alive k) (k_per k) (k_peers k) (k_fclog k) (k_clog k).

Lemma kscan_inv mx my cap k b r q ho : InvK mx my cap k -> k_evs k = [] ->
  h_scan true (k_peers k) b (k_nq k) = (r, q) ->
  (ho = true -> len q < len (k_nq k) /\ k_res k = false) ->
  InvK mx my cap (kscan k r q ho).
Proof.
  intros H Ee Hs Hho. destruct (h_scan_spec _ _ _ _ _ Hs) as [sk [Eq [Fsk Hr]]].
  assert (Hlen : len q <= len (k_nq k)).
  { rewrite Eq. rewrite !len_app. lia. }
  destruct H. rewrite Ee in *. constructor; cbn; auto.
  - destruct ho.
    + destruct (Hho eq_refl) as [A B]. rewrite B in e1_res0. cbn in *. lia.
    + destruct (k_res k); cbn in *; lia.
  - rewrite Eq in e1_in0. rewrite !Forall_app_iff in *. tauto.
  - destruct r as [n|]; cbn; [|now rewrite !app_nil_r].
    rewrite map_app. cbn. rewrite e1_conf0. f_equal. specialize (Hr n eq_refl).
    destruct (k_peers k) as [j|]; cbn in Hr; [|discriminate]. f_equal. f_equal. lia.
  - destruct r as [n|]; cbn; [|now rewrite app_nil_r].
    specialize (Hr n eq_refl). destruct (k_peers k) as [j|] eqn:Ep; cbn in Hr; [|discriminate].
    specialize (e1_peers0 j eq_refl).
    apply (mono_snoc (maxop (k_seen k))); [lia|assumption|assumption|lia].
  - destruct r as [n|]; cbn; [|now rewrite app_nil_r].
    specialize (Hr n eq_refl). destruct (k_peers k) as [j|] eqn:Ep; cbn in Hr; [|discriminate].
    specialize (e1_peers0 j eq_refl).
    apply Forall_app_iff. split; [assumption|]. repeat constructor. lia.
Qed.

Definition kclog (k : ekey) (fl : list N) : ekey :=
  mkK (k_nq k) (k_res k) (k_rwait k) (k_car k) (k_sk k) (k_del k) (k_dper k) (k_seen k) (k_evs k)
      (k_alive k) (k_per k) (k_peers k) fl true.

Lemma kclog_inv mx my cap k j (logged : bool) : InvK mx my cap k -> k_peers k = Some j -> k_clog k = false ->
  InvK mx my cap (kclog k (if logged then k_fclog k ++ [j] else k_fclog k)).
Proof.
  intros H Hp Hc. destruct H. constructor; cbn; auto.
  - destruct logged; [|assumption].
    assert (Hnin : ~ In j (k_fclog k)).
    { intros Hin. specialize (e1_fcl0 j Hp Hin). congruence. }
    clear - e1_fnd0 Hnin. induction (k_fclog k) as [|a l IH]; cbn.
    + constructor; [intros []|constructor].
    + inversion e1_fnd0; subst. constructor.
      * rewrite in_app_iff. cbn. intros [A|[A|[]]]; [contradiction|]. subst. apply Hnin. now left.
      * apply IH; [assumption|]. intros A. apply Hnin. now right.
  - destruct logged; [|assumption]. apply Forall_app_iff. split; [assumption|].
    repeat constructor. specialize (e1_peers0 j Hp). lia.
Qed.

Definition kopen (k : ekey) (p : N) : ekey :=
  mkK (k_nq k) false false (k_car k) [] (k_del k) (k_dper k) (k_seen k) (k_evs k ++ [HOpened p])
      true p (k_peers k) (k_fclog k) (k_clog k).

Lemma kopen_inv mx my cap k p : InvK mx my cap k -> k_alive k = false -> k_per k < p -> InvK mx my cap (kopen k p).
Proof.
  intros H Ha Hp. destruct H. constructor; cbn; auto; try discriminate.
  - change (b2n false) with 0. lia.
  - rewrite app_nil_r. apply Forall_app_iff in e1_out0. tauto.
  - rewrite app_assoc, alt_state_app, e1_alt0, Ha. reflexivity.
  - lia.
  - eapply ev_ok_snoc_opened; eauto.
Qed.

(* ---- from keys to states ---- *)
Ltac other x z E := assert (x = negb z) by (destruct x, z; cbn in E; try discriminate; reflexivity); subst x.

Lemma negb_negb' b : negb (negb b) = b. Proof. destruct b; reflexivity. Qed.

Lemma close_invB c x nfy s : InvB c s -> e_alive (cn s x) = true -> InvB c (close x nfy s).
Proof.
  intros H Ha z. unfold InvE. destruct (Bool.eqb z x) eqn:E.
  - apply eqb_prop in E. subst z.
    replace (ekey_of (close x nfy s) x) with (kclose (ekey_of s x)) by (destruct x; reflexivity).
    apply kclose_inv; [apply H|exact Ha].
  - other z x E. replace (ekey_of (close x nfy s) (negb x)) with (ekey_of s (negb x)) by (destruct x; reflexivity).
    apply H.
Qed.

Lemma a_loop_aq : forall fuel mx wg L, (length (l_aq (snd (a_loop fuel mx wg L))) <= length (l_aq L))%nat.
Proof.
  induction fuel as [|fuel IH]; intros mx wg L; cbn [a_loop]; [cbn; lia|].
  assert (HN : (length (l_aq (snd (a_next L))) <= length (l_aq L))%nat).
  { unfold a_next. destruct (l_cur L); [cbn; lia|].
    destruct (choose (l_h L) (l_sq L) (l_aq L)) as [[p h'] b].
    destruct p, (l_sq L) eqn:E1, (l_aq L) eqn:E2; cbn; rewrite ?E2; cbn; lia. }
  destruct (a_next L) as [nx L1]. cbn [snd] in HN.
  destruct nx as [n|]; [|cbn; exact HN].
  destruct (poll_ready wg (l_sk L1) (l_ca L1)) as [[sk' ca']|].
  - destruct (mx <? n_len n); [cbn; exact HN|].
    specialize (IH mx wg (set_out (sk' ++ [n]) ca' L1)). cbn in IH |- *. lia.
  - cbn. exact HN.
Qed.

Lemma out_phase_invB c x b s : InvB c s -> e_alive (cn s x) = true -> InvB c (fst (out_phase c x b s)).
Proof.
  intros H Ha z. unfold InvE.
  pose proof (a_loop_out (opt_len (e_cur (ec (gep s x))) +
                          N.to_nat (N.min b (len (e_sq (ec (gep s x))) + len (e_aq (ec (gep s x))) + 1)))%nat
                (c_max (ecf c x)) (wgate (glo s x))
                (mkLst (e_cur (ec (gep s x))) (e_sq (ec (gep s x))) (e_aq (ec (gep s x))) (e_sk (ec (gep s x)))
                       (carrier (glo s x)) (e_hints (ec (gep s x))) (bad s))) as O.
  cbn [l_ca l_sk] in O. specialize (O (e1_out _ _ _ _ (H x))). cbn zeta in O.
  unfold out_phase, cn in *.
  destruct (a_loop _ _ _ _) as [cl L]. cbn [snd] in O. destruct cl.
  - destruct (Bool.eqb z x) eqn:E.
    + apply eqb_prop in E. subst z. cbn [fst].
      replace (ekey_of _ x) with (kout (ekey_of s x) (l_ca L) (l_sk L))
        by (destruct x; cbn in *; unfold ekey_of, kout, cn, hn, gl; cbn; rewrite ?Ha; reflexivity).
      apply kout_inv; [apply H|exact O].
    + other z x E. cbn [fst].
      replace (ekey_of _ (negb x)) with (ekey_of s (negb x)) by (destruct x; reflexivity). apply H.
  - destruct (if wgate (glo s x) then _ else _) as [sk ca] eqn:Ef.
    destruct (Bool.eqb z x) eqn:E.
    + apply eqb_prop in E. subst z. cbn [fst].
      replace (ekey_of _ x) with (kout (ekey_of s x) ca sk)
        by (destruct x; cbn in *; unfold ekey_of, kout, cn, hn, gl; cbn; rewrite ?Ha; reflexivity).
      apply kout_inv; [apply H|].
      destruct (wgate (glo s x)); inversion Ef; subst; [rewrite app_nil_r|]; exact O.
    + other z x E. cbn [fst].
      replace (ekey_of _ (negb x)) with (ekey_of s (negb x)) by (destruct x; reflexivity). apply H.
Qed.

Lemma set_res_invB c x r w s : InvB c s ->
  (r = true -> can_reserve c x s = true) -> InvB c (set_res x r w s).
Proof.
  intros H Hr z. unfold InvE. destruct (Bool.eqb z x) eqn:E.
  - apply eqb_prop in E. subst z.
    replace (ekey_of (set_res x r w s) x) with (kres (ekey_of s x) r w) by (destruct x; reflexivity).
    apply kres_inv; [apply H|].
    intros Er. pose proof (Hr Er) as Hc.
    unfold can_reserve in Hc. apply orb_true_iff in Hc. destruct Hc as [Hc|Hc]; [left|right].
    + destruct x; exact Hc.
    + apply N.ltb_lt in Hc. destruct x; exact Hc.
  - other z x E. replace (ekey_of (set_res x r w s) (negb x)) with (ekey_of s (negb x)) by (destruct x; reflexivity).
    apply H.
Qed.

Lemma read_invB c x n rest s : InvB c s -> e_res (cn s x) = true ->
  carrier (glo s (negb x)) = n :: rest -> n_len n <= c_max (ecf c x) ->
  InvB c (push_nq x n (slo s (negb x) (mkL (wgate (glo s (negb x))) (rgate (glo s (negb x))) rest))).
Proof.
  intros H Hr Ec Hn z. unfold InvE.
  assert (Hy : n_len n <= c_max (ecf c (negb x))).
  { pose proof (e1_out _ _ _ _ (H (negb x))) as O. cbn in O. rewrite Ec in O. inversion O; subst. assumption. }
  destruct (Bool.eqb z x) eqn:E.
  - apply eqb_prop in E. subst z.
    replace (ekey_of _ x) with (kpush (ekey_of s x) n) by (destruct x; reflexivity).
    apply kpush_inv; [apply H|destruct x; exact Hr|exact Hn|exact Hy].
  - other z x E.
    replace (ekey_of _ (negb x)) with (kcar (ekey_of s (negb x)) rest) by (destruct x; reflexivity).
    eapply kcar_tail_inv; [apply H|]. destruct x; exact Ec.
Qed.

Lemma conn_poll_invB c x b s : InvB c s -> InvB c (conn_poll c x b s).
Proof.
  intros H. unfold conn_poll. fold (cn s x). destruct (e_alive (cn s x)) eqn:Ea; [|exact H].
  apply (conn_loop_gen (InvB c)); auto.
  - intros. apply close_invB; assumption.
  - intros s0 b0 H0 Ha0 Hk0. pose proof (out_phase_invB c x b0 s0 H0 Ha0) as Q.
    pose proof (out_phase_frame c x b0 s0 Ha0) as F. cbn zeta in F.
    destruct (out_phase c x b0 s0) as [s1 [|]]; cbn [fst] in *; [apply close_invB; [exact Q|tauto]|exact Q].
  - intros. apply set_res_invB; [assumption|discriminate].
  - intros. apply set_res_invB; [assumption|]. intros _. assumption.
  - intros. apply read_invB; assumption.
Qed.

Lemma h_scan_len fixed peers : forall b q, len (snd (h_scan fixed peers b q)) <= len q.
Proof.
  induction b as [|b IH]; intros q; cbn [h_scan]; [cbn; lia|].
  destruct q as [|n t]; [cbn; lia|]. destruct (passes fixed peers n); cbn [snd].
  - rewrite len_cons. lia.
  - specialize (IH t). rewrite len_cons. lia.
Qed.

Lemma h_poll_invB c x b s : InvB c s -> InvB c (fst (h_poll c x b s)).
Proof.
  intros H z. unfold h_poll, h_poll_gen. destruct (b =? 0); [apply H|].
  destruct (e_evs (eh (gep s x))) as [|e es] eqn:Ee.
  - destruct (h_scan true (e_peers (eh (gep s x))) _ (e_nq (eh (gep s x)))) as [r q] eqn:Es.
    unfold InvE. destruct (Bool.eqb z x) eqn:E.
    + apply eqb_prop in E. subst z.
      set (ho := (len q <? len (e_nq (eh (gep s x)))) && e_rwait (ec (gep s x)) && negb (e_res (ec (gep s x)))).
      assert (V : InvK (c_max (ecf c x)) (c_max (ecf c (negb x))) (c_n (ecf c x)) (kscan (ekey_of s x) r q ho)).
      { eapply kscan_inv; [apply H| | |].
        - destruct x; exact Ee.
        - destruct x; exact Es.
        - unfold ho. intros Eh. apply andb_true_iff in Eh. destruct Eh as [Eh B].
          apply andb_true_iff in Eh. destruct Eh as [A _]. apply negb_true_iff in B.
          apply N.ltb_lt in A. split; [destruct x; exact A|destruct x; exact B]. }
      destruct r as [n|]; cbn [fst]; unfold hand_over.
      * replace (e_rwait (ec (gep (set_hnd x _ _ s) x))) with (e_rwait (ec (gep s x))) by (destruct x; reflexivity).
        replace (e_res (ec (gep (set_hnd x _ _ s) x))) with (e_res (ec (gep s x))) by (destruct x; reflexivity).
        fold ho. destruct ho eqn:Eho.
        -- replace (ekey_of _ x) with (kscan (ekey_of s x) (Some n) q true); [exact V|].
           destruct x; cbn; unfold kscan, ekey_of, cn, hn, gl; cbn in *; rewrite ?Ee; reflexivity.
        -- replace (ekey_of _ x) with (kscan (ekey_of s x) (Some n) q false); [exact V|].
           destruct x; cbn; unfold kscan, ekey_of, cn, hn, gl; cbn in *; rewrite ?Ee; reflexivity.
      * replace (e_rwait (ec (gep (set_hnd x _ _ s) x))) with (e_rwait (ec (gep s x))) by (destruct x; reflexivity).
        replace (e_res (ec (gep (set_hnd x _ _ s) x))) with (e_res (ec (gep s x))) by (destruct x; reflexivity).
        fold ho. destruct ho eqn:Eho.
        -- replace (ekey_of _ x) with (kscan (ekey_of s x) None q true); [exact V|].
           destruct x; cbn; unfold kscan, ekey_of, cn, hn, gl; cbn in *; rewrite ?Ee, ?app_nil_r; reflexivity.
        -- replace (ekey_of _ x) with (kscan (ekey_of s x) None q false); [exact V|].
           destruct x; cbn; unfold kscan, ekey_of, cn, hn, gl; cbn in *; rewrite ?Ee, ?app_nil_r; reflexivity.
    + other z x E.
      destruct r as [n|]; cbn [fst]; unfold hand_over;
        match goal with |- context [if ?b then _ else _] => destruct b end;
        (replace (ekey_of _ (negb x)) with (ekey_of s (negb x)) by (destruct x; reflexivity)); apply H.
  - unfold InvE. destruct (Bool.eqb z x) eqn:E.
    + apply eqb_prop in E. subst z.
      assert (V : InvK (c_max (ecf c x)) (c_max (ecf c (negb x))) (c_n (ecf c x)) (kevent (ekey_of s x) e es)).
      { apply kevent_inv; [apply H|]. destruct x; exact Ee. }
      destruct e as [k|k]; cbn [fst];
        (replace (ekey_of _ x) with (kevent (ekey_of s x) (HOpened k) es) by (destruct x; reflexivity)) ||
        (replace (ekey_of _ x) with (kevent (ekey_of s x) (HClosed k) es) by (destruct x; reflexivity)); exact V.
    + other z x E. destruct e as [k|k]; cbn [fst];
        (replace (ekey_of _ (negb x)) with (ekey_of s (negb x)) by (destruct x; reflexivity)); apply H.
Qed.

Lemma send_sync_invB c x s t l : InvB c s -> InvB c (fst (send_sync c x s t l)).
Proof.
  intros H z. unfold send_sync. destruct (e_peers (eh (gep s x))) as [k|] eqn:Epe; [|apply H].
  destruct (live s x k) eqn:El; [|apply H].
  unfold InvE. destruct (len (e_sq (ec (gep s x))) <? c_s (ecf c x)); cbn [fst].
  - replace (ekey_of _ z) with (ekey_of s z) by (destruct x, z; reflexivity). apply H.
  - destruct (e_clog (eh (gep s x))) eqn:Ecl; [apply H|].
    destruct (Bool.eqb z x) eqn:E.
    + apply eqb_prop in E. subst z.
      pose proof (fun lg => kclog_inv _ _ _ (ekey_of s x) k lg (H x)) as V.
      assert (Ep' : k_peers (ekey_of s x) = Some k) by (destruct x; exact Epe).
      assert (Ec' : k_clog (ekey_of s x) = false) by (destruct x; exact Ecl).
      destruct (e_cmds (eh (gep s x)) <? c_c (ecf c x)); cbn [fst].
      * specialize (V true Ep' Ec').
        replace (ekey_of _ x) with (kclog (ekey_of s x) (k_fclog (ekey_of s x) ++ [k])); [exact V|].
        destruct x; cbn; unfold kclog, ekey_of, cn, hn, gl; cbn in *; rewrite ?Epe; reflexivity.
      * specialize (V false Ep' Ec').
        replace (ekey_of _ x) with (kclog (ekey_of s x) (k_fclog (ekey_of s x))); [exact V|].
        destruct x; cbn; unfold kclog, ekey_of, cn, hn, gl; cbn in *; rewrite ?Epe; reflexivity.
    + other z x E. destruct (e_cmds (eh (gep s x)) <? c_c (ecf c x)); cbn [fst];
        (replace (ekey_of _ (negb x)) with (ekey_of s (negb x)) by (destruct x; reflexivity)); apply H.
Qed.

Lemma set_async_ekey x aq ws acc ok err s z : ekey_of (set_async x aq ws acc ok err s) z = ekey_of s z.
Proof. destruct x, z; reflexivity. Qed.

Lemma kill_invB c s : InvB c s -> InvB c (kill s).
Proof.
  intros H z. unfold InvE. replace (ekey_of (kill s) z) with (kcar (ekey_of s z) []) by (destruct z; reflexivity).
  apply kcar_nil_inv. apply H.
Qed.

Lemma open_ep_invB c x p s : InvB c s -> e_alive (cn s x) = false -> e_per (cn s x) < p -> InvB c (open_ep x p s).
Proof.
  intros H Ha Hp z. unfold InvE. destruct (Bool.eqb z x) eqn:E.
  - apply eqb_prop in E. subst z.
    replace (ekey_of (open_ep x p s) x) with (kopen (ekey_of s x) p) by (destruct x; reflexivity).
    apply kopen_inv; [apply H|destruct x; exact Ha|destruct x; exact Hp].
  - other z x E. replace (ekey_of (open_ep x p s) (negb x)) with (ekey_of s (negb x)) by (destruct x; reflexivity).
    apply H.
Qed.

Lemma open_stream_invB c x s : InvP s -> InvB c s -> InvB c (fst (open_stream x s)).
Proof.
  intros HP H. unfold open_stream. fold (cn s x). fold (cn s (negb x)).
  destruct (e_alive (cn s x)) eqn:Ea; [exact H|].
  destruct (e_per (cn s x) <? per s) eqn:Ep; cbn [fst].
  - apply open_ep_invB; [exact H|exact Ea|lia].
  - destruct (negb (e_alive (cn s (negb x))) && (e_per (cn s (negb x)) =? per s)) eqn:E; cbn [fst]; [|exact H].
    pose proof (p_le s HP x) as Lx.
    apply open_ep_invB.
    + intros z. unfold InvE.
      replace (ekey_of _ z) with (kcar (ekey_of s z) []) by (destruct z; reflexivity).
      apply kcar_nil_inv. apply H.
    + destruct x; exact Ea.
    + unfold cn in *. destruct x; cbn in *; lia.
Qed.

Lemma do_step_invB c s t : InvP s -> InvB c s -> InvB c (fst (do_step c s t)).
Proof.
  intros HP H. destruct t; cbn [do_step].
  - pose proof (send_sync_invB c x s tag ln H). destruct (send_sync c x s tag ln). assumption.
  - unfold async_start. destruct (find_w id _); [exact H|]. destruct (e_peers _); [|exact H].
    destruct (live s x n); [destruct (0 <? afree _ _ _)|]; cbn [fst]; intros z; unfold InvE;
      rewrite set_async_ekey; apply H.
  - unfold async_poll. destruct (find_w id _) as [w|]; [|exact H].
    destruct (negb (wlive _ w)); [|destruct (w_asg w)]; cbn [fst]; try exact H; intros z; unfold InvE;
      rewrite set_async_ekey; apply H.
  - unfold async_drop. destruct (find_w id _) as [w|]; [|exact H]. cbn [fst]. intros z; unfold InvE.
    rewrite set_async_ekey. apply H.
  - cbn [fst]. apply conn_poll_invB. exact H.
  - pose proof (h_poll_invB c x budget s H). destruct (h_poll c x budget s). assumption.
  - pose proof (open_stream_invB c x s HP H). destruct (open_stream x s). assumption.
  - destruct (e_alive (ec (gep s x))) eqn:Ea; cbn [fst]; [|exact H].
    intros z. unfold InvE. replace (ekey_of _ z) with (ekey_of s z); [apply H|].
    destruct x, z; cbn; unfold ekey_of, cn, hn, gl; cbn in *; rewrite ?Ea; reflexivity.
  - destruct (e_cmds (eh (gep s x)) =? 0); cbn [fst]; [exact H|]. apply kill_invB.
    intros z. unfold InvE. replace (ekey_of _ z) with (ekey_of s z) by (destruct x, z; reflexivity). apply H.
  - destruct (e_cmds (eh (gep s x)) =? 0); cbn [fst]; [exact H|].
    intros z. unfold InvE. replace (ekey_of _ z) with (ekey_of s z) by (destruct x, z; reflexivity). apply H.
  - cbn [fst]. intros z. unfold InvE. replace (ekey_of _ z) with (ekey_of s z) by (destruct x, z; reflexivity). apply H.
  - destruct (per s =? 0); cbn [fst]; [exact H|apply kill_invB; exact H].
  - unfold sink_sync. destruct (live s x k); [|exact H]. destruct (_ <? _); cbn [fst]; [|exact H].
    intros z. unfold InvE. replace (ekey_of _ z) with (ekey_of s z) by (destruct x, z; reflexivity). apply H.
Qed.

Lemma run_invB c : forall ts s, Inv s -> InvB c s -> InvB c (fst (run c s ts)).
Proof.
  induction ts as [|t ts IH]; intros s HI H; cbn [run]; [exact H|].
  pose proof (do_step_inv c s t HI) as HI1. pose proof (do_step_invB c s t (inv_p _ HI) H) as H1.
  destruct (do_step c s t) as [s1 v]. cbn [fst] in *.
  specialize (IH s1 HI1 H1). destruct (run c s1 ts) as [s2 vs]. exact IH.
Qed.

Lemma final_invB c hs ts : InvB c (final c hs ts).
Proof. unfold final. apply run_invB; [apply init_inv|apply init_invB]. Qed.
