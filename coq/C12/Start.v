(* C12 — the START of a notification stream: executable model of one endpoint's NotificationProtocol
   (src/protocol/notification/mod.rs: the peer state machine and every handler a connected peer can reach),
   its HandshakeService (negotiation.rs: the map `substreams`, the queue `ready`, poll_next),
   the Connection tasks it spawns (connection.rs, without backpressure: that is Model.v's subject) and the
   NotificationHandle (handle.rs: event channel, notification channel with the stream filter, validations),
   over scripted substreams of the remote peers.

   A substream is a VALUE that moves between its holders the way the Rust value does (the event channel of
   the TransportService, the map of the HandshakeService, the PeerState, a Connection task); it carries the
   frames the remote wrote and have not been read (s_wire), the frames the local side wrote (s_out), and ghost
   fields that record WHO consumed which frame: the handshake service (s_hs) or the Connection (s_cn).
   What the Connection's inbound substream still holds when the Connection starts is therefore part of the
   model: Model.v starts a stream with empty carriers, and StartProofs.v proves that this is what the
   repaired code hands over (exactly one frame — the remote's handshake — was consumed, by the handshake
   service, from this very substream).

   `fx` = true: HandshakeService::remove_inbound/remove_outbound also purge `ready` (the repaired code);
   `fx` = false: the original code, kept for the refutation.

   One step = one call of the environment / the user, ONE poll of NotificationProtocol::next_event (biased
   select!: handshake service, close notices, [timers], transport events, validation results, commands),
   one poll of every live Connection task, or ONE NotificationHandle::poll_next. Nothing is settled in
   between. Definitions only. *)
From Coq Require Import List NArith Bool.
Import ListNotations.
Open Scope N_scope.

Definition peer := N.
Definition sid := N.
Definition frame := N.

Definition LOCAL_HS : frame := 65000.   (* the local handshake *)
Definition EMPTY : frame := 99999.      (* the empty byte string *)
Definition PEERS : list peer := [0; 1].

(* ---------------------------------------------------------------- substreams *)
Record sub := mkSub {
  s_id : N;                  (* number of the carrier, in creation order *)
  s_wire : list frame;       (* written by the remote, not read yet *)
  s_eof : bool; s_werr : bool; s_flush : bool;
  s_gate : bool;             (* poll_shutdown is pending: closing the substream does not complete *)
  s_out : list frame;        (* written by the local side *)
  s_hist : list frame;       (* ghost: everything the remote wrote *)
  s_hs : list frame;         (* ghost: frames consumed by the handshake service *)
  s_cn : list frame;         (* ghost: frames consumed by the Connection *)
  s_ohs : N                  (* ghost: frames written by the handshake service *)
}.

Definition new_sub (id : N) : sub := mkSub id [] false false false false [] [] [] [] 0.

(* what the remote (the environment) does to a carrier *)
Inductive envk := EFrame (t : frame) | EEof | EWerr | EFlush | EGate | EUngate.
Definition env_sub (x : envk) (s : sub) : sub :=
  match x with
  | EFrame t => mkSub (s_id s) (s_wire s ++ [t]) (s_eof s) (s_werr s) (s_flush s) (s_gate s) (s_out s) (s_hist s ++ [t]) (s_hs s) (s_cn s) (s_ohs s)
  | EEof => mkSub (s_id s) (s_wire s) true (s_werr s) (s_flush s) (s_gate s) (s_out s) (s_hist s) (s_hs s) (s_cn s) (s_ohs s)
  | EWerr => mkSub (s_id s) (s_wire s) (s_eof s) true (s_flush s) (s_gate s) (s_out s) (s_hist s) (s_hs s) (s_cn s) (s_ohs s)
  | EFlush => mkSub (s_id s) (s_wire s) (s_eof s) (s_werr s) true (s_gate s) (s_out s) (s_hist s) (s_hs s) (s_cn s) (s_ohs s)
  | EGate => mkSub (s_id s) (s_wire s) (s_eof s) (s_werr s) (s_flush s) true (s_out s) (s_hist s) (s_hs s) (s_cn s) (s_ohs s)
  | EUngate => mkSub (s_id s) (s_wire s) (s_eof s) (s_werr s) (s_flush s) false (s_out s) (s_hist s) (s_hs s) (s_cn s) (s_ohs s)
  end.
Definition touch (id : N) (x : envk) (s : sub) : sub := if s_id s =? id then env_sub x s else s.

(* the handshake service reads the head of the wire / writes the local handshake; the Connection reads / writes *)
Definition hs_read (s : sub) (f : frame) (w : list frame) : sub :=
  mkSub (s_id s) w (s_eof s) (s_werr s) (s_flush s) (s_gate s) (s_out s) (s_hist s) (s_hs s ++ [f]) (s_cn s) (s_ohs s).
Definition hs_write (s : sub) : sub :=
  mkSub (s_id s) (s_wire s) (s_eof s) (s_werr s) (s_flush s) (s_gate s) (s_out s ++ [LOCAL_HS]) (s_hist s) (s_hs s) (s_cn s) (s_ohs s + 1).
Definition cn_read (s : sub) (f : frame) (w : list frame) : sub :=
  mkSub (s_id s) w (s_eof s) (s_werr s) (s_flush s) (s_gate s) (s_out s) (s_hist s) (s_hs s) (s_cn s ++ [f]) (s_ohs s).
Definition cn_write (s : sub) (q : list frame) : sub :=
  mkSub (s_id s) (s_wire s) (s_eof s) (s_werr s) (s_flush s) (s_gate s) (s_out s ++ q) (s_hist s) (s_hs s) (s_cn s) (s_ohs s).

(* ---------------------------------------------------------------- HandshakeService *)
Inductive hstage := SSend | SSent | SRead.
Record hent := mkE { e_stage : hstage; e_sub : sub }.

(* VErr keeps the entry: what was written before the failure stays written *)
Inductive vres := VErr (e : hent) | VNeg (e : hent) (h : frame) | VWait (e : hent).

Definition read_stage (s : sub) : vres :=
  match s_wire s with
  | f :: w => VNeg (mkE SRead (hs_read s f w)) f
  | [] => if s_eof s then VErr (mkE SRead s) else VWait (mkE SRead s)
  end.

(* after the handshake was handed to the sink: poll_flush *)
Definition flush_stage (out : bool) (s : sub) : vres :=
  if s_werr s then VErr (mkE SSent s)
  else if s_flush s then (if out then read_stage s else VNeg (mkE SSent s) EMPTY)
  else VWait (mkE SSent s).

(* one visit of a substream by poll_next (the negotiation timer of 10 s does not fire within a case) *)
Definition visit1 (out : bool) (e : hent) : vres :=
  match e_stage e with
  | SSend => if s_werr (e_sub e) then VErr e else flush_stage out (hs_write (e_sub e))
  | SSent => flush_stage out (e_sub e)
  | SRead => read_stage (e_sub e)
  end.

(* ---------------------------------------------------------------- NotificationProtocol *)
Inductive inb := IClosed | IReading | IValidating (s : sub) (h : frame) | ISending | IOpen (s : sub).
Inductive outb := OClosed | OInit (x : sid) | ONeg | OOpen (h : frame) (s : sub).
(* d = true: Direction::Outbound *)
Inductive pstate :=
| VPending (conn_open : bool)
| Closed (po : option sid)
| OutInit (x : sid)
| Validating (d : bool) (o : outb) (i : inb)
| Open (k : N).

Definition E_REJECTED : N := 0.
Definition E_NOCONN : N := 1.
Definition E_VALPENDING : N := 2.
Definition E_DIALFAIL : N := 3.

(* events in the TransportService's channel *)
Inductive sev := EvEst (p : peer) | EvClosed (p : peer) | EvIn (p : peer) (s : sub) | EvOut (p : peer) (x : sid) (s : sub)
               | EvFail (x : sid).
Inductive cmd := CmdOpen (p : peer) | CmdClose (p : peer).
(* a future of pending_validations: identifier, peer, answer (None: none yet; Some None: the sender was dropped) *)
Record vent := mkV { v_id : N; v_peer : peer; v_ans : option (option bool) }.

(* events in the user event channel *)
Inductive hev := HValidate (p : peer) (h : frame) (v : N) | HOpened (p : peer) (d : bool) (h : frame) (k : N)
               | HClosed (p : peer) (k : option N) | HFail (p : peer) (e : N).

(* A Connection task: running (Connection::start), or inside close_connection waiting for the close of its inbound
   / outbound substream to complete (notify: the protocol will be told), or finished *)
Inductive phase := PRun | PCloseIn (notify : bool) | PCloseOut (notify : bool) | PDone.

Record task := mkT {
  t_id : N; t_peer : peer; t_ph : phase;
  t_shut : bool;             (* the shutdown sender was used or dropped *)
  t_in : sub; t_out : sub;
  t_q : list frame;          (* sync_rx *)
  t_res : bool;              (* its PollSender holds a slot of the handle's channel *)
  t_nosink : bool;           (* every clone of its NotificationSink has been dropped: its queues are closed *)
  t_fwd : list frame         (* ghost: frames it handed to the channel of the NotificationHandle *)
}.
Definition t_alive (t : task) : bool := match t_ph t with PDone => false | _ => true end.
Definition t_running (t : task) : bool := match t_ph t with PRun => true | _ => false end.

Record st := mkSt {
  ps : peer -> option pstate;          (* NotificationProtocol.peers *)
  pend : list (sid * peer);            (* pending_outbound *)
  hin : peer -> option hent;           (* HandshakeService.substreams, Direction::Inbound *)
  hout : peer -> option hent;          (* ... Direction::Outbound *)
  ready : list (peer * bool * frame);  (* HandshakeService.ready: peer, outbound?, handshake *)
  conn : peer -> bool;                 (* TransportService.connections *)
  nsid : N;
  sq : list sev;                       (* TransportService event channel *)
  shq : list peer;                     (* close notices of the Connection tasks *)
  vq : list vent;                      (* pending_validations: ready-to-run queue *)
  vwait : list vent;                   (* ... polled and parked *)
  nvid : N;
  cq : list cmd;                       (* command channel *)
  tasks : list task;
  evq : list hev;                      (* user event channel *)
  nq : list (peer * N * frame);        (* channel of received notifications: peer, stream, frame *)
  hsink : peer -> option N;            (* NotificationHandle.peers *)
  hval : peer -> option N;             (* NotificationHandle.pending_validations *)
  grave : list sub;                    (* dropped substreams (for the dump) *)
  ncar : N;
  hc : peer -> bool;                   (* harness: connection injected and not closed *)
  hpend : peer -> list sid;            (* harness: unanswered open_substream requests *)
  stuck : bool;                        (* a debug_assert!(false) of the Rust code was reached *)
  hdrop : bool;                        (* the user has dropped the NotificationHandle *)
  exited : bool                        (* next_event has returned `true`: the event loop has ended *)
}.

Definition upd {A} (f : peer -> A) (p : peer) (v : A) : peer -> A := fun q => if q =? p then v else f q.

Definition init : st :=
  mkSt (fun _ => None) [] (fun _ => None) (fun _ => None) [] (fun _ => false) 0 [] [] [] [] 0 [] [] [] []
       (fun _ => None) (fun _ => None) [] 0 (fun _ => false) (fun _ => []) false false false.

(* ---- setters ---- *)
Definition set_ps (s : st) (p : peer) (v : option pstate) : st :=
  mkSt (upd (ps s) p v) (pend s) (hin s) (hout s) (ready s) (conn s) (nsid s) (sq s) (shq s) (vq s) (vwait s) (nvid s) (cq s)
       (tasks s) (evq s) (nq s) (hsink s) (hval s) (grave s) (ncar s) (hc s) (hpend s) (stuck s) (hdrop s) (exited s).
Definition set_pend (s : st) (l : list (sid * peer)) : st :=
  mkSt (ps s) l (hin s) (hout s) (ready s) (conn s) (nsid s) (sq s) (shq s) (vq s) (vwait s) (nvid s) (cq s)
       (tasks s) (evq s) (nq s) (hsink s) (hval s) (grave s) (ncar s) (hc s) (hpend s) (stuck s) (hdrop s) (exited s).
Definition set_hs (s : st) (i o : peer -> option hent) (r : list (peer * bool * frame)) : st :=
  mkSt (ps s) (pend s) i o r (conn s) (nsid s) (sq s) (shq s) (vq s) (vwait s) (nvid s) (cq s)
       (tasks s) (evq s) (nq s) (hsink s) (hval s) (grave s) (ncar s) (hc s) (hpend s) (stuck s) (hdrop s) (exited s).
Definition set_conn (s : st) (p : peer) (b : bool) : st :=
  mkSt (ps s) (pend s) (hin s) (hout s) (ready s) (upd (conn s) p b) (nsid s) (sq s) (shq s) (vq s) (vwait s) (nvid s) (cq s)
       (tasks s) (evq s) (nq s) (hsink s) (hval s) (grave s) (ncar s) (hc s) (hpend s) (stuck s) (hdrop s) (exited s).
Definition set_nsid (s : st) (n : N) : st :=
  mkSt (ps s) (pend s) (hin s) (hout s) (ready s) (conn s) n (sq s) (shq s) (vq s) (vwait s) (nvid s) (cq s)
       (tasks s) (evq s) (nq s) (hsink s) (hval s) (grave s) (ncar s) (hc s) (hpend s) (stuck s) (hdrop s) (exited s).
Definition set_sq (s : st) (l : list sev) : st :=
  mkSt (ps s) (pend s) (hin s) (hout s) (ready s) (conn s) (nsid s) l (shq s) (vq s) (vwait s) (nvid s) (cq s)
       (tasks s) (evq s) (nq s) (hsink s) (hval s) (grave s) (ncar s) (hc s) (hpend s) (stuck s) (hdrop s) (exited s).
Definition set_shq (s : st) (l : list peer) : st :=
  mkSt (ps s) (pend s) (hin s) (hout s) (ready s) (conn s) (nsid s) (sq s) l (vq s) (vwait s) (nvid s) (cq s)
       (tasks s) (evq s) (nq s) (hsink s) (hval s) (grave s) (ncar s) (hc s) (hpend s) (stuck s) (hdrop s) (exited s).
Definition set_vals (s : st) (q w : list vent) (n : N) : st :=
  mkSt (ps s) (pend s) (hin s) (hout s) (ready s) (conn s) (nsid s) (sq s) (shq s) q w n (cq s)
       (tasks s) (evq s) (nq s) (hsink s) (hval s) (grave s) (ncar s) (hc s) (hpend s) (stuck s) (hdrop s) (exited s).
Definition set_cq (s : st) (l : list cmd) : st :=
  mkSt (ps s) (pend s) (hin s) (hout s) (ready s) (conn s) (nsid s) (sq s) (shq s) (vq s) (vwait s) (nvid s) l
       (tasks s) (evq s) (nq s) (hsink s) (hval s) (grave s) (ncar s) (hc s) (hpend s) (stuck s) (hdrop s) (exited s).
Definition set_tasks (s : st) (l : list task) : st :=
  mkSt (ps s) (pend s) (hin s) (hout s) (ready s) (conn s) (nsid s) (sq s) (shq s) (vq s) (vwait s) (nvid s) (cq s)
       l (evq s) (nq s) (hsink s) (hval s) (grave s) (ncar s) (hc s) (hpend s) (stuck s) (hdrop s) (exited s).
Definition set_evq (s : st) (l : list hev) : st :=
  mkSt (ps s) (pend s) (hin s) (hout s) (ready s) (conn s) (nsid s) (sq s) (shq s) (vq s) (vwait s) (nvid s) (cq s)
       (tasks s) l (nq s) (hsink s) (hval s) (grave s) (ncar s) (hc s) (hpend s) (stuck s) (hdrop s) (exited s).
Definition set_nq (s : st) (l : list (peer * N * frame)) : st :=
  mkSt (ps s) (pend s) (hin s) (hout s) (ready s) (conn s) (nsid s) (sq s) (shq s) (vq s) (vwait s) (nvid s) (cq s)
       (tasks s) (evq s) l (hsink s) (hval s) (grave s) (ncar s) (hc s) (hpend s) (stuck s) (hdrop s) (exited s).
Definition set_hsink (s : st) (p : peer) (v : option N) : st :=
  mkSt (ps s) (pend s) (hin s) (hout s) (ready s) (conn s) (nsid s) (sq s) (shq s) (vq s) (vwait s) (nvid s) (cq s)
       (tasks s) (evq s) (nq s) (upd (hsink s) p v) (hval s) (grave s) (ncar s) (hc s) (hpend s) (stuck s) (hdrop s) (exited s).
Definition set_hval (s : st) (p : peer) (v : option N) : st :=
  mkSt (ps s) (pend s) (hin s) (hout s) (ready s) (conn s) (nsid s) (sq s) (shq s) (vq s) (vwait s) (nvid s) (cq s)
       (tasks s) (evq s) (nq s) (hsink s) (upd (hval s) p v) (grave s) (ncar s) (hc s) (hpend s) (stuck s) (hdrop s) (exited s).
Definition set_grave (s : st) (l : list sub) : st :=
  mkSt (ps s) (pend s) (hin s) (hout s) (ready s) (conn s) (nsid s) (sq s) (shq s) (vq s) (vwait s) (nvid s) (cq s)
       (tasks s) (evq s) (nq s) (hsink s) (hval s) l (ncar s) (hc s) (hpend s) (stuck s) (hdrop s) (exited s).
Definition set_ncar (s : st) (n : N) : st :=
  mkSt (ps s) (pend s) (hin s) (hout s) (ready s) (conn s) (nsid s) (sq s) (shq s) (vq s) (vwait s) (nvid s) (cq s)
       (tasks s) (evq s) (nq s) (hsink s) (hval s) (grave s) n (hc s) (hpend s) (stuck s) (hdrop s) (exited s).
Definition set_hc (s : st) (p : peer) (b : bool) : st :=
  mkSt (ps s) (pend s) (hin s) (hout s) (ready s) (conn s) (nsid s) (sq s) (shq s) (vq s) (vwait s) (nvid s) (cq s)
       (tasks s) (evq s) (nq s) (hsink s) (hval s) (grave s) (ncar s) (upd (hc s) p b) (hpend s) (stuck s) (hdrop s) (exited s).
Definition set_hpend (s : st) (p : peer) (l : list sid) : st :=
  mkSt (ps s) (pend s) (hin s) (hout s) (ready s) (conn s) (nsid s) (sq s) (shq s) (vq s) (vwait s) (nvid s) (cq s)
       (tasks s) (evq s) (nq s) (hsink s) (hval s) (grave s) (ncar s) (hc s) (upd (hpend s) p l) (stuck s) (hdrop s) (exited s).
Definition set_stuck (s : st) : st :=
  mkSt (ps s) (pend s) (hin s) (hout s) (ready s) (conn s) (nsid s) (sq s) (shq s) (vq s) (vwait s) (nvid s) (cq s)
       (tasks s) (evq s) (nq s) (hsink s) (hval s) (grave s) (ncar s) (hc s) (hpend s) true (hdrop s) (exited s).

Definition set_flags (s : st) (d x : bool) : st :=
  mkSt (ps s) (pend s) (hin s) (hout s) (ready s) (conn s) (nsid s) (sq s) (shq s) (vq s) (vwait s) (nvid s) (cq s)
       (tasks s) (evq s) (nq s) (hsink s) (hval s) (grave s) (ncar s) (hc s) (hpend s) (stuck s) d x.

(* report_* of the NotificationEventHandle: with the handle gone the event (and whatever it carries) is dropped *)
Definition push_ev (s : st) (e : hev) : st := set_evq s (if hdrop s then evq s else evq s ++ [e]).
Definition bury (s : st) (x : sub) : st := set_grave s (grave s ++ [x]).
Definition bury_opt (s : st) (x : option hent) : st :=
  set_grave s (grave s ++ match x with Some e => [e_sub e] | None => [] end).

(* substreams held inside a peer state (dropped when the state is overwritten) *)
Definition inb_subs (i : inb) : list sub := match i with IValidating s _ | IOpen s => [s] | _ => [] end.
Definition outb_subs (o : outb) : list sub := match o with OOpen _ s => [s] | _ => [] end.
Definition bury_list (s : st) (l : list sub) : st := set_grave s (grave s ++ l).

(* ---- HandshakeService calls ---- *)
Definition key_is (p : peer) (out : bool) (e : peer * bool * frame) : bool :=
  let '(q, o, _) := e in (q =? p) && Bool.eqb o out.
Definition purge (fx : bool) (p : peer) (out : bool) (r : list (peer * bool * frame)) : list (peer * bool * frame) :=
  if fx then filter (fun e => negb (key_is p out e)) r else r.

(* remove_inbound / remove_outbound: the substream is dropped by the caller *)
Definition rem_in (fx : bool) (s : st) (p : peer) : st :=
  set_hs (bury_opt s (hin s p)) (upd (hin s) p None) (hout s) (purge fx p false (ready s)).
Definition rem_out (fx : bool) (s : st) (p : peer) : st :=
  set_hs (bury_opt s (hout s p)) (hin s) (upd (hout s) p None) (purge fx p true (ready s)).
(* negotiate_outbound / read_handshake / send_handshake: HashMap::insert (a replaced substream is dropped); the
   repaired code forgets what was queued for the key *)
Definition ins_in (fx : bool) (s : st) (p : peer) (e : hent) : st :=
  set_hs (bury_opt s (hin s p)) (upd (hin s) p (Some e)) (hout s) (purge fx p false (ready s)).
Definition ins_out (fx : bool) (s : st) (p : peer) (e : hent) : st :=
  set_hs (bury_opt s (hout s p)) (hin s) (upd (hout s) p (Some e)) (purge fx p true (ready s)).

Definition hget (s : st) (p : peer) (out : bool) : option hent := if out then hout s p else hin s p.
Definition hput (s : st) (p : peer) (out : bool) (v : option hent) : st :=
  if out then set_hs s (hin s) (upd (hout s) p v) (ready s) else set_hs s (upd (hin s) p v) (hout s) (ready s).

(* the first entry of `ready` for a key *)
Fixpoint rfind (p : peer) (o : bool) (r : list (peer * bool * frame)) : option frame :=
  match r with
  | [] => None
  | e :: t => if key_is p o e then Some (snd e) else rfind p o t
  end.

(* the loop of poll_next over the map, in the order `ord` (keys: peer, outbound?). The map is visited once per key:
   a key whose result was queued in this loop is not visited again. *)
Fixpoint visit (s : st) (ord : list (peer * bool)) : st * option (peer * bool) :=
  match ord with
  | [] => (s, None)
  | (p, o) :: t =>
      match hget s p o, rfind p o (ready s) with
      | Some e, None =>
          match visit1 o e with
          | VErr e' => (hput s p o (Some e'), Some (p, o))
          | VNeg e' h => let s1 := hput s p o (Some e') in visit (set_hs s1 (hin s1) (hout s1) (ready s1 ++ [(p, o, h)])) t
          | VWait e' => visit (hput s p o (Some e')) t
          end
      | _, _ => visit s t
      end
  end.

(* pop_event: entries of `ready` whose key is not in the map are skipped *)
Fixpoint pop (s : st) (r : list (peer * bool * frame)) : option (peer * bool * frame * hent) * list (peer * bool * frame) :=
  match r with
  | [] => (None, [])
  | (p, o, h) :: t => match hget s p o with Some e => (Some (p, o, h, e), t) | None => pop s t end
  end.

Inductive pres := PPending | PNeg (p : peer) (out : bool) (h : frame) (x : sub) | PErr (p : peer) (out : bool).

Definition hs_empty (s : st) : bool :=
  forallb (fun p => match hin s p, hout s p with None, None => true | _, _ => false end) PEERS.

Definition hs_poll (s : st) (ord : list (peer * bool)) : st * pres :=
  match pop s (ready s) with
  | (Some (p, o, h, e), r) => (set_hs (hput s p o None) (hin (hput s p o None)) (hout (hput s p o None)) r, PNeg p o h (e_sub e))
  | (None, r) =>
      let s0 := set_hs s (hin s) (hout s) r in
      if hs_empty s0 then (s0, PPending) else
      match visit s0 ord with
      | (s1, Some (p, o)) => (s1, PErr p o)
      | (s1, None) =>
          match ready s1 with
          | (p, o, h) :: t =>
              match hget s1 p o with
              | Some e => (set_hs (hput s1 p o None) (hin (hput s1 p o None)) (hout (hput s1 p o None)) t, PNeg p o h (e_sub e))
              | None => (set_stuck s1, PPending)      (* expect("peer to exist") *)
              end
          | [] => (s1, PPending)
          end
      end
  end.

(* ---- pending_outbound ---- *)
Definition pend_remove (x : sid) (l : list (sid * peer)) : list (sid * peer) := filter (fun e => negb (fst e =? x)) l.
Definition pend_insert (x : sid) (p : peer) (l : list (sid * peer)) : list (sid * peer) := (x, p) :: pend_remove x l.
Fixpoint pend_find (x : sid) (l : list (sid * peer)) : option peer :=
  match l with [] => None | (y, p) :: t => if y =? x then Some p else pend_find x t end.
Definition drop_peer (p : peer) (l : list (sid * peer)) : list (sid * peer) := filter (fun e => negb (snd e =? p)) l.
Definition pending_open (o : outb) : option sid := match o with OInit x => Some x | _ => None end.
Definition o_closed (o : outb) : bool := match o with OClosed => true | _ => false end.

(* service calls of a step: kind (1 open_substream), peer, substream id *)
Definition call := (N * N * N)%type.

(* TransportService::open_substream *)
Definition svc_open (s : st) (p : peer) : st * option sid :=
  if conn s p then (set_hpend (set_nsid s (nsid s + 1)) p (hpend s p ++ [nsid s]), Some (nsid s)) else (s, None).

(* ---- Connection tasks ---- *)
Definition map_task (k : N) (f : task -> task) (l : list task) : list task :=
  map (fun t => if t_id t =? k then f t else t) l.
Fixpoint find_task (k : N) (l : list task) : option task :=
  match l with [] => None | t :: r => if t_id t =? k then Some t else find_task k r end.
(* the shutdown sender towards task k is used or dropped *)
Definition signal (s : st) (k : N) : st :=
  set_tasks s (map_task k (fun t => mkT (t_id t) (t_peer t) (t_ph t) true (t_in t) (t_out t) (t_q t) (t_res t) (t_nosink t) (t_fwd t)) (tasks s)).
Definition task_closed (s : st) (k : N) : bool :=
  match find_task k (tasks s) with Some t => negb (t_running t) | None => true end.
Definition ntasks (s : st) : N := N.of_nat (length (tasks s)).

(* ---- handlers ---- *)
Definition reusable (s : st) (po : option sid) : option sid :=
  match po with
  | Some x => match pend_find x (pend s) with Some _ => Some x | None => None end
  | None => None
  end.

Definition on_open (s : st) (p : peer) : st * list call :=
  match ps s p with
  | None => (push_ev s (HFail p E_DIALFAIL), [])
  | Some (Closed po) =>
      match reusable s po with
      | Some x => (set_ps (set_pend s (pend_insert x p (pend s))) p (Some (OutInit x)), [])
      | None =>
          match svc_open s p with
          | (s1, Some x) => (set_ps (set_pend s1 (pend_insert x p (pend s1))) p (Some (OutInit x)), [(1, p, x)])
          | (s1, None) => (set_ps (push_ev s1 (HFail p E_NOCONN)) p (Some (Closed None)), [])
          end
      end
  | Some (VPending _) => (push_ev s (HFail p E_VALPENDING), [])
  | Some _ => (s, [])
  end.

Definition on_established (s : st) (p : peer) : st :=
  match ps s p with
  | None => set_ps s p (Some (Closed None))
  | Some (VPending b) => if b then set_stuck s else set_ps s p (Some (VPending true))
  | Some _ => set_stuck s
  end.

Definition on_closed (fx : bool) (s : st) (p : peer) : st :=
  let s := set_pend s (drop_peer p (pend s)) in
  match ps s p with
  | None => set_stuck s
  | Some x =>
      let s := rem_in fx (rem_out fx (set_ps s p None) p) p in
      match x with
      | OutInit _ => push_ev s (HFail p E_REJECTED)
      | Open k => push_ev (signal s k) (HClosed p None)
      | Validating _ o i =>
          let s := bury_list s (outb_subs o ++ inb_subs i) in
          match o, i with
          | OClosed, IValidating _ _ => set_ps s p (Some (VPending false))
          | OClosed, _ => s
          | _, _ => push_ev s (HFail p E_REJECTED)
          end
      | VPending _ => set_ps s p (Some (VPending false))
      | Closed _ => s
      end
  end.

Definition neg_out (fx : bool) (s : st) (p : peer) (x : sub) : st := ins_out fx s p (mkE SSend x).

Definition on_sub_out (fx : bool) (s : st) (p : peer) (x : sid) (y : sub) : st :=
  match ps s p with
  | None => set_stuck (bury s y)
  | Some stt =>
      let pp := pend_find x (pend s) in
      let s := set_pend s (pend_remove x (pend s)) in
      match stt with
      | OutInit z =>
          if (z =? x) && (match pp with Some q => q =? p | None => false end)
          then set_ps (neg_out fx s p y) p (Some (Validating true ONeg IClosed))
          else set_stuck (bury s y)
      | Validating d o i =>
          match i with
          | ISending | IOpen _ => set_ps (neg_out fx s p y) p (Some (Validating d ONeg i))
          | _ =>
              match o with
              | OInit z => if z =? x then set_ps (neg_out fx s p y) p (Some (Validating d ONeg i)) else set_stuck (bury s y)
              | _ => set_stuck (bury s y)
              end
          end
      | Closed (Some z) => if z =? x then set_ps (bury s y) p (Some (Closed None)) else set_stuck (bury s y)
      | _ => set_stuck (bury s y)
      end
  end.

Definition read_hs (fx : bool) (s : st) (p : peer) (y : sub) : st := ins_in fx s p (mkE SRead y).
Definition send_hs (fx : bool) (s : st) (p : peer) (y : sub) : st := ins_in fx s p (mkE SSend y).

Definition on_sub_in (fx : bool) (s : st) (p : peer) (y : sub) : st :=
  match ps s p with
  | None => set_stuck (bury s y)
  | Some (Closed None) => set_ps (read_hs fx s p y) p (Some (Validating false OClosed IReading))
  | Some (Validating d o IClosed) => set_ps (read_hs fx s p y) p (Some (Validating d o IReading))
  | Some (OutInit x) => set_ps (read_hs fx s p y) p (Some (Validating true (OInit x) IReading))
  | Some (Validating _ OClosed (IValidating y0 _)) => set_ps (bury (bury s y) y0) p (Some (VPending true))
  | Some _ => bury s y
  end.

Definition on_open_fail (fx : bool) (s : st) (x : sid) : st :=
  match pend_find x (pend s) with
  | None => set_stuck s
  | Some p =>
      let s := set_pend s (pend_remove x (pend s)) in
      match ps s p with
      | None => set_stuck s
      | Some (OutInit _) => push_ev (set_ps s p (Some (Closed None))) (HFail p E_REJECTED)
      | Some (Validating _ o i) =>
          let s := bury_list (rem_out fx (rem_in fx s p) p) (outb_subs o ++ inb_subs i) in
          match o with
          | OClosed => set_ps s p (Some (Closed None))
          | OInit y => set_ps (push_ev s (HFail p E_REJECTED)) p (Some (Closed (Some y)))
          | _ => set_ps (push_ev s (HFail p E_REJECTED)) p (Some (Closed None))
          end
      | Some (Closed po) =>
          match po with
          | Some y => if y =? x then set_ps s p (Some (Closed None)) else set_stuck s
          | None => set_stuck s
          end
      | Some _ => set_stuck s
      end
  end.

Definition on_close (s : st) (p : peer) : st :=
  match ps s p with
  | Some (Open k) => push_ev (set_ps (signal s k) p (Some (Closed None))) (HClosed p None)
  | _ => s
  end.

Definition on_validation (fx : bool) (s : st) (p : peer) (accept : bool) : st * list call :=
  match ps s p with
  | None => (s, [])
  | Some (Validating d o (IValidating y _)) =>
      if accept then
        match o with
        | OClosed =>
            match svc_open s p with
            | (s1, Some x) =>
                (set_ps (set_pend (send_hs fx s1 p y) (pend_insert x p (pend s1))) p (Some (Validating d (OInit x) ISending)),
                 [(1, p, x)])
            | (s1, None) => (push_ev (set_ps (bury s1 y) p (Some (Closed None))) (HFail p E_REJECTED), [])
            end
        | _ => (set_ps (send_hs fx s p y) p (Some (Validating d o ISending)), [])
        end
      else (set_ps (bury_list (rem_in fx (rem_out fx (bury s y) p) p) (outb_subs o)) p (Some (Closed (pending_open o))), [])
  | Some (VPending b) =>
      if b then
        let s := set_ps s p (Some (Closed None)) in
        (if accept then push_ev s (HFail p E_REJECTED) else s, [])
      else
        let s := set_ps s p None in
        (if accept then push_ev s (HFail p E_NOCONN) else s, [])
  | Some _ => (s, [])
  end.

(* tail of on_handshake_event: both substreams open -> the Connection is created and handed to the executor *)
Definition hs_finish (s : st) (p : peer) : st :=
  match ps s p with
  | Some (Validating d (OOpen h so) (IOpen si)) =>
      let k := ntasks s in
      let s1 := set_tasks s (tasks s ++ [mkT k p PRun false si so [] false false []]) in
      push_ev (set_ps s1 p (Some (Open k))) (HOpened p d h k)
  | _ => s     (* a 5 s timer is armed; it does not fire within a case *)
  end.

Definition on_hs_event (fx auto : bool) (s : st) (r : pres) : st :=
  match r with
  | PPending => s
  | PNeg p true h y =>
      match ps s p with
      | None => set_stuck (bury s y)
      | Some stt =>
          let s := rem_out fx s p in
          match stt with
          | Validating d ONeg i => hs_finish (set_ps s p (Some (Validating d (OOpen h y) i))) p
          | _ => set_stuck (bury s y)
          end
      end
  | PNeg p false h y =>
      match ps s p with
      | None => set_stuck (bury s y)
      | Some stt =>
          let s := rem_in fx s p in
          match stt with
          | Validating d o IReading =>
              if negb (o_closed o) && auto
              then set_ps (send_hs fx s p y) p (Some (Validating d o ISending))
              else
                let v := nvid s in
                let s1 := set_vals s (vq s ++ [mkV v p (if hdrop s then Some None else None)]) (vwait s) (v + 1) in
                hs_finish (push_ev (set_ps s1 p (Some (Validating d o (IValidating y h)))) (HValidate p h v)) p
          | Validating d o ISending => hs_finish (set_ps s p (Some (Validating d o (IOpen y)))) p
          | _ => set_stuck (bury s y)
          end
      end
  | PErr p _ =>
      match ps s p with
      | None => set_stuck s
      | Some stt =>
          let s := rem_in fx (rem_out fx s p) p in
          match stt with
          | Validating _ o i =>
              let s := set_ps (bury_list s (outb_subs o ++ inb_subs i)) p (Some (Closed (pending_open o))) in
              if o_closed o then s else push_ev s (HFail p E_REJECTED)
          | _ => set_stuck s
          end
      end
  end.

(* a close notice: honoured only if the stream tracked as open is shutting down *)
Definition on_shutdown (s : st) (p : peer) : st :=
  match ps s p with
  | Some (Open k) => if task_closed s k then push_ev (set_ps s p (Some (Closed None))) (HClosed p None) else s
  | _ => s
  end.

(* ---- pending_validations (FuturesUnordered): the first answered future of the ready-to-run queue; the
        unanswered ones in front of it are polled and parked ---- *)
Fixpoint vscan (q : list vent) (parked : list vent) : option vent * list vent * list vent :=
  match q with
  | [] => (None, [], parked)
  | v :: t => match v_ans v with
              | Some _ => (Some v, t, parked)
              | None => vscan t (parked ++ [v])
              end
  end.

(* an answer (or the drop of the sender) for future `id`: a parked future is woken = moves to the end of the queue *)
Definition vanswer (s : st) (id : N) (a : option bool) : st :=
  let hit (v : vent) := v_id v =? id in
  match filter hit (vwait s) with
  | v :: _ => set_vals s (vq s ++ [mkV (v_id v) (v_peer v) (Some a)]) (filter (fun v => negb (hit v)) (vwait s)) (nvid s)
  | [] => set_vals s (map (fun v => if hit v then mkV (v_id v) (v_peer v) (Some a) else v) (vq s)) (vwait s) (nvid s)
  end.

(* ---- one poll of next_event ---- *)
Definition poll (fx auto : bool) (s : st) (ord : list (peer * bool)) : st * N * list call :=
  if exited s then (s, 0, []) else
  (* 1: the handshake service, if its map is not empty *)
  let '(s, r) := if hs_empty s then (s, PPending) else hs_poll s ord in
  match r with
  | PNeg _ _ _ _ | PErr _ _ => (on_hs_event fx auto s r, 1, [])
  | PPending =>
  (* 2: close notices *)
  match shq s with
  | p :: t => (on_shutdown (set_shq s t) p, 1, [])
  | [] =>
  (* 4: transport events *)
  match sq s with
  | e :: t =>
      let s := set_sq s t in
      (match e with
       | EvEst p => on_established (set_conn s p true) p
       | EvClosed p => on_closed fx (set_conn s p false) p
       | EvIn p y => on_sub_in fx s p y
       | EvOut p x y => on_sub_out fx s p x y
       | EvFail x => on_open_fail fx s x
       end, 1, [])
  | [] =>
  (* 5: validation results *)
  match vscan (vq s) (vwait s) with
  | (Some v, q, w) =>
      let s := set_vals s q w (nvid s) in
      match v_ans v with
      | Some (Some a) => let '(s1, c) := on_validation fx s (v_peer v) a in (s1, 1, c)
      | _ => (s, 1, [])
      end
  | (None, q, w) =>
      let s := set_vals s q w (nvid s) in
  (* 6: commands *)
  match cq s with
  | CmdOpen p :: t => let '(s1, c) := on_open (set_cq s t) p in (s1, 1, c)
  | CmdClose p :: t => (on_close (set_cq s t) p, 1, [])
  | [] => if hdrop s then (set_flags s true true, 2, [])    (* the command channel is closed: the event loop ends *)
          else (s, 0, [])
  end end end end end.

(* ---- one poll of a Connection task (no backpressure: few, small frames) ---- *)
Definition put_task (s : st) (t : task) : st := set_tasks s (map_task (t_id t) (fun _ => t) (tasks s)).
Definition with_ph (t : task) (ph : phase) : task :=
  mkT (t_id t) (t_peer t) ph (t_shut t) (t_in t) (t_out t) (t_q t) (t_res t) (t_nosink t) (t_fwd t).

(* close_connection: the shutdown receiver is closed first; then the inbound substream is closed, then the outbound
   one (each may take several polls: s_gate); then the protocol is told (notify) and the stream reported closed *)
Definition close_fin (s : st) (t : task) (n : bool) : st :=
  let s1 := put_task s (with_ph t PDone) in
  let s2 := if n then set_shq s1 (shq s1 ++ [t_peer t]) else s1 in
  push_ev s2 (HClosed (t_peer t) (Some (t_id t))).

Definition close_step (s : st) (t : task) : st :=
  match t_ph t with
  | PCloseIn n =>
      if s_gate (t_in t) then put_task s t
      else if s_gate (t_out t) then put_task s (with_ph t (PCloseOut n))
      else close_fin s t n
  | PCloseOut n => if s_gate (t_out t) then put_task s t else close_fin s t n
  | _ => s
  end.

Definition close_task (s : st) (t : task) (notify : bool) : st := close_step s (with_ph t (PCloseIn notify)).

Fixpoint task_loop (fuel : nat) (s : st) (t : task) : st :=
  match fuel with
  | O => s
  | S f =>
      if t_shut t then close_task s t false
      (* the select! over the two queues ends with None when every sink is gone *)
      else if t_nosink t then close_task s t true
      else if s_werr (t_out t) then close_task s t true
      else
        let t1 := mkT (t_id t) (t_peer t) PRun false (t_in t) (cn_write (t_out t) (t_q t)) [] (t_res t) (t_nosink t) (t_fwd t) in
        (* poll_reserve: a slot acquired earlier is still held; a new one cannot be had once the NotificationHandle
           is gone (the Connection notices the missing handle only when it needs a new slot) *)
        if hdrop s && negb (t_res t) then close_task s t1 true else
        match s_wire (t_in t1) with
        | fr :: w =>
            let t2 := mkT (t_id t) (t_peer t) PRun false (cn_read (t_in t1) fr w) (t_out t1) [] false (t_nosink t) (t_fwd t ++ [fr]) in
            task_loop f (set_nq (put_task s t2) (nq s ++ [(t_peer t, t_id t, fr)])) t2
        | [] =>
            let t3 := mkT (t_id t) (t_peer t) PRun false (t_in t1) (t_out t1) [] true (t_nosink t) (t_fwd t) in
            if s_eof (t_in t1) then close_task s t3 true else put_task s t3
        end
  end.

Definition task_poll (s : st) (k : N) : st :=
  match find_task k (tasks s) with
  | Some t =>
      match t_ph t with
      | PRun => task_loop (S (length (s_wire (t_in t)))) s t
      | PCloseIn _ | PCloseOut _ => close_step s t
      | PDone => s
      end
  | None => s
  end.

Fixpoint tasks_poll (s : st) (ks : list N) : st :=
  match ks with
  | [] => s
  | k :: r => tasks_poll (task_poll s k) r
  end.

Definition nalive (s : st) : N := N.of_nat (length (filter t_alive (tasks s))).

(* ---- NotificationHandle::poll_next ---- *)
Inductive uev := UNone | UValidate (p : peer) (h : frame) | UOpened (p : peer) (d : bool) (h : frame)
               | UClosed (p : peer) | UFail (p : peer) (e : N) | UNotif (p : peer) (f : frame).

Definition opt_eqb (a b : option N) : bool :=
  match a, b with Some x, Some y => x =? y | None, None => true | _, _ => false end.

Fixpoint h_poll_live (fuel : nat) (s : st) : st * uev :=
  match fuel with
  | O => (s, UNone)
  | S f =>
      match evq s with
      | HOpened p d h k :: es => (set_hsink (set_evq s es) p (Some k), UOpened p d h)
      | HClosed p k :: es =>
          let s := set_evq s es in
          let current := match hsink s p, k with
                         | Some a, Some b => a =? b
                         | Some _, None => true
                         | None, _ => false
                         end in
          if current then (set_hsink s p None, UClosed p) else h_poll_live f s
      | HValidate p h v :: es =>
          let s := set_evq s es in
          let s := match hval s p with Some old => vanswer s old None | None => s end in
          (set_hval s p (Some v), UValidate p h)
      | HFail p e :: es => (set_evq s es, UFail p e)
      | [] =>
          match nq s with
          | (p, k, fr) :: t =>
              let s := set_nq s t in
              if opt_eqb (hsink s p) (Some k) then (s, UNotif p fr) else h_poll_live f s
          | [] => (s, UNone)
          end
      end
  end.

Definition h_poll (fuel : nat) (s : st) : st * uev := if hdrop s then (s, UNone) else h_poll_live fuel s.

(* the user drops the NotificationHandle: the events and notifications still queued go with it, and so do the
   senders of the validation results (those held by the handle and those inside queued ValidateSubstream events) *)
Definition drop_handle (s : st) : st :=
  let s1 := fold_left (fun a p => match hval a p with Some v => vanswer a v None | None => a end) PEERS s in
  let s2 := fold_left (fun a e => match e with HValidate _ _ v => vanswer a v None | _ => a end) (evq s1) s1 in
  (* the sink inside a NotificationStreamOpened event the user never saw is the only one of its stream *)
  let lost (k : N) := existsb (fun e => match e with HOpened _ _ _ k' => k' =? k | _ => false end) (evq s) in
  let s3 := set_tasks s2 (map (fun t => if lost (t_id t)
                                        then mkT (t_id t) (t_peer t) (t_ph t) (t_shut t) (t_in t) (t_out t) (t_q t) (t_res t) true (t_fwd t)
                                        else t) (tasks s2)) in
  set_flags (set_nq (set_evq s3 []) []) true (exited s3).

(* ---- the environment touches a carrier, wherever the substream is ---- *)
Definition map_inb (f : sub -> sub) (i : inb) : inb :=
  match i with IValidating s h => IValidating (f s) h | IOpen s => IOpen (f s) | x => x end.
Definition map_outb (f : sub -> sub) (o : outb) : outb :=
  match o with OOpen h s => OOpen h (f s) | x => x end.
Definition map_pstate (f : sub -> sub) (x : pstate) : pstate :=
  match x with Validating d o i => Validating d (map_outb f o) (map_inb f i) | y => y end.
Definition map_hent (f : sub -> sub) (e : hent) : hent := mkE (e_stage e) (f (e_sub e)).
Definition map_sev (f : sub -> sub) (e : sev) : sev :=
  match e with EvIn p s => EvIn p (f s) | EvOut p x s => EvOut p x (f s) | y => y end.
Definition map_tsk (f : sub -> sub) (t : task) : task :=
  mkT (t_id t) (t_peer t) (t_ph t) (t_shut t) (f (t_in t)) (f (t_out t)) (t_q t) (t_res t) (t_nosink t) (t_fwd t).

Definition map_all (f : sub -> sub) (s : st) : st :=
  mkSt (fun p => option_map (map_pstate f) (ps s p)) (pend s)
       (fun p => option_map (map_hent f) (hin s p)) (fun p => option_map (map_hent f) (hout s p)) (ready s)
       (conn s) (nsid s) (map (map_sev f) (sq s)) (shq s) (vq s) (vwait s) (nvid s) (cq s)
       (map (map_tsk f) (tasks s)) (evq s) (nq s) (hsink s) (hval s) (map f (grave s)) (ncar s) (hc s) (hpend s) (stuck s) (hdrop s) (exited s).

(* ---- operations ---- *)
Inductive op :=
| OEst (p : peer) | OClosed_ (p : peer) | OSubIn (p : peer) | OSubOut (p : peer) | OFail (p : peer)
| OEnv (id : N) (x : envk)
| OPoll (ord : list (peer * bool))
| OUOpen (p : peer) | OUClose (p : peer) | OUVal (p : peer) (a : bool)
| OTasks | OUPoll | OUSend (p : peer) (t : frame) | OUDrop.

Inductive ores := RCode (v : N) | RUser (e : uev).

Definition step (fx auto : bool) (s : st) (o : op) : st * ores * list call :=
  match o with
  | OEst p => if hc s p then (s, RCode 0, []) else (set_sq (set_hc s p true) (sq s ++ [EvEst p]), RCode 0, [])
  | OClosed_ p =>
      if hc s p then (set_sq (set_hpend (set_hc s p false) p []) (sq s ++ [EvClosed p]), RCode 0, []) else (s, RCode 0, [])
  | OSubIn p =>
      if hc s p then (set_ncar (set_sq s (sq s ++ [EvIn p (new_sub (ncar s))])) (ncar s + 1), RCode 0, []) else (s, RCode 0, [])
  | OSubOut p =>
      if hc s p then
        match hpend s p with
        | x :: t => (set_ncar (set_sq (set_hpend s p t) (sq s ++ [EvOut p x (new_sub (ncar s))])) (ncar s + 1), RCode 0, [])
        | [] => (s, RCode 0, [])
        end
      else (s, RCode 0, [])
  | OFail p =>
      if hc s p then
        match hpend s p with
        | x :: t => (set_sq (set_hpend s p t) (sq s ++ [EvFail x]), RCode 0, [])
        | [] => (s, RCode 0, [])
        end
      else (s, RCode 0, [])
  | OEnv id x => (map_all (touch id x) s, RCode 0, [])
  | OPoll ord => let '(s1, r, c) := poll fx auto s ord in (s1, RCode r, c)
  | OUDrop => if hdrop s then (s, RCode 0, []) else (drop_handle s, RCode 0, [])
  | OUOpen p =>
      if hdrop s then (s, RCode 0, []) else
      match hsink s p with
      | Some _ => (s, RCode 1, [])
      | None => (set_cq s (cq s ++ [CmdOpen p]), RCode 0, [])
      end
  | OUClose p =>
      if hdrop s then (s, RCode 0, []) else
      match hsink s p with
      | Some _ => (set_cq s (cq s ++ [CmdClose p]), RCode 0, [])
      | None => (s, RCode 0, [])
      end
  | OUVal p a =>
      if hdrop s then (s, RCode 0, []) else
      match hval s p with
      | Some v => (vanswer (set_hval s p None) v (Some a), RCode 0, [])
      | None => (s, RCode 0, [])
      end
  | OTasks => let s1 := tasks_poll s (map t_id (tasks s)) in (s1, RCode (nalive s - nalive s1), [])
  | OUPoll => let '(s1, e) := h_poll (S (length (evq s) + length (nq s))) s in (s1, RUser e, [])
  | OUSend p t =>
      if hdrop s then (s, RCode 0, []) else
      match hsink s p with
      | None => (s, RCode 0, [])
      | Some k =>
          match find_task k (tasks s) with
          | Some tk =>
              if t_alive tk
              then (set_tasks s (map_task k (fun t0 => mkT (t_id t0) (t_peer t0) (t_ph t0) (t_shut t0) (t_in t0) (t_out t0)
                                                             (t_q t0 ++ [t]) (t_res t0) (t_nosink t0) (t_fwd t0)) (tasks s)), RCode 0, [])
              else (s, RCode 1, [])
          | None => (s, RCode 1, [])
          end
      end
  end.

Fixpoint run (fx auto : bool) (s : st) (l : list op) : st * list (ores * list call) :=
  match l with
  | [] => (s, [])
  | o :: t => let '(s1, r, c) := step fx auto s o in let '(s2, rs) := run fx auto s1 t in (s2, (r, c) :: rs)
  end.

Definition final (fx auto : bool) (l : list op) : st := fst (run fx auto init l).
