(* C12 — executable model of one notification stream between two litep2p endpoints A and B, both
   directions at once, as a set of processes driven by an explicit scheduler.

   Per endpoint x:
     user x              calls on NotificationHandle (send_sync_notification, poll) and on clones of the
                         NotificationSink (send_async_notification futures: created, polled, dropped)
     handle x            event channel first, then the channel of received notifications, with the
                         stream-identifier filter; `clogged` set; command channel (ForceClose)
     sink queues x       sync queue (try_send), async queue (tokio mpsc semaphore: waiting senders are
                         handed permits in FIFO order, a dropped sender returns its permit)
     Connection task x   src/protocol/notification/connection.rs::poll_next/start: shutdown signal,
                         outbound loop (next_notification slot, select! over the two queues, Sink
                         poll_ready with BACKPRESSURE_BOUNDARY, start_send size check), flush,
                         poll_reserve on the user channel BEFORE reading the inbound substream
     protocol x          opens a stream (new sink queues and Connection, Opened event), asks the
                         Connection to shut down, executes ForceClose by killing the transport
   and two byte carriers (A->B, B->A) with a write gate and a read gate each.

   One scheduler step = one call / one poll of one future of one process (Inductive step). `run`
   executes ANY list of steps: the theorems quantify over all of them. The quiescence-based harness
   stream ("one user action, then run the Connection tasks until nothing is runnable") is the
   derived macro `settle`, a particular composition of steps.

   Abstractions (diffed by the correspondence harness):
   - a notification is (tag, length); its origin, period and sending mode are ghost fields which
     the harness encodes in the payload;
   - `tokio::select!{async_rx, sync_rx}` is a nondeterministic merge: the choice for each pop comes
     from a hint list (any list; the harness fills in what the implementation did);
   - tokio's cooperative budget is the `budget` argument of a handle poll and of a Connection poll:
     the number of channel operations (receives, permit acquisitions) after which every further one
     returns Pending — the preemption point of the task. A Connection poll that is cut short this way
     stops after some pops of its outbound loop, or before it collects the slot of the handle channel;
     close_connection is atomic (the harness polls a Connection that has begun to close until it is done). *)
From Coq Require Import List NArith Bool.
From V.gen Require Consts.
Import ListNotations.
Open Scope N_scope.

Definition BOUNDARY : N := Consts.BACKPRESSURE_BOUNDARY.

(* n_from = true: sent by endpoint A *)
Record notif := mkN { n_from : bool; n_per : N; n_sync : bool; n_tag : N; n_len : N }.

Record ecfg := mkEC {
  c_s : N;      (* sync_channel_size *)
  c_a : N;      (* async_channel_size *)
  c_n : N;      (* size of the channel carrying received notifications to the handle *)
  c_c : N;      (* size of the command channel of the handle *)
  c_max : N     (* max_notification_size (codec of both substreams of the endpoint) *)
}.
Record cfg := mkCfg { cfA : ecfg; cfB : ecfg }.
Definition ecf (c : cfg) (x : bool) : ecfg := if x then cfA c else cfB c.

Inductive hev := HOpened (k : N) | HClosed (k : N).

(* a send_async_notification future that is waiting for capacity *)
Record waiter := mkW { w_id : N; w_n : notif; w_asg : bool (* a permit was handed to it *) }.

(* Connection task and sink queues of the current (or last) period of an endpoint *)
Record conn := mkC {
  e_alive : bool;            (* the Connection task has not finished *)
  e_per : N;                 (* period (carrier pair) it belongs to *)
  e_shut : bool;             (* shutdown was requested by the protocol (oneshot fired) *)
  e_sq : list notif;         (* sync_rx content *)
  e_aq : list notif;         (* async_rx content *)
  e_cur : option notif;      (* Connection.next_notification *)
  e_sk : list notif;         (* frames queued in the outbound Substream: pending_out_frames *)
  e_hints : list bool;       (* remaining merge choices: true = sync_rx *)
  e_res : bool;              (* its PollSender holds a permit of the user channel *)
  e_rwait : bool             (* its PollSender is queued for a permit (poll_reserve returned Pending) *)
}.

Record hnd := mkH {
  e_ws : list waiter;        (* pending send_async futures, in creation order *)
  e_nq : list notif;         (* channel of received notifications (shared by all periods) *)
  e_evs : list hev;          (* event channel *)
  e_peers : option N;        (* handle: peers[peer] = sink of this period *)
  e_clog : bool;             (* handle: clogged.contains(peer) *)
  e_cmds : N                 (* ForceClose commands in the command channel *)
}.

Record glog := mkG {
  e_acc : list notif;        (* ghost: sends of this user that returned Ok, in order *)
  e_del : list notif;        (* ghost: NotificationReceived events seen by this user, in order *)
  e_dper : list (option N);  (* ghost: the stream the handle considered open at each of them *)
  e_fclog : list N;          (* ghost: period of every ForceClose command that was queued *)
  e_fclost : N;              (* ForceClose commands that did not fit the command channel *)
  e_seen : list hev;         (* ghost: Opened/Closed events seen by this user *)
  e_aok : N; e_aerr : N      (* completed send_async futures *)
}.

Record ep := mkEp { ec : conn; eh : hnd; eg : glog }.

Record lk := mkL { wgate : bool; rgate : bool; carrier : list notif }.

Record st := mkSt {
  per : N;                   (* current period = number of carrier pairs created *)
  killed : bool;             (* the transport connection of the current period was force-closed *)
  sA : ep; sB : ep;
  lAB : lk; lBA : lk;
  nyes : N;                  (* "notify protocol" messages of the Connection tasks *)
  bad : N;                   (* hints that named an empty queue *)
  later_hints : list (list bool)
}.

Definition dead_conn : conn := mkC false 0 false [] [] None [] [] false false.
Definition init_ep : ep := mkEp dead_conn (mkH [] [] [] None false 0) (mkG [] [] [] [] 0 [] 0 0).
Definition init (hs : list (list bool)) : st :=
  mkSt 0 false init_ep init_ep (mkL true true []) (mkL true true []) 0 0 hs.

Definition gep (s : st) (x : bool) : ep := if x then sA s else sB s.
Definition sep (s : st) (x : bool) (e : ep) : st :=
  if x then mkSt (per s) (killed s) e (sB s) (lAB s) (lBA s) (nyes s) (bad s) (later_hints s)
  else mkSt (per s) (killed s) (sA s) e (lAB s) (lBA s) (nyes s) (bad s) (later_hints s).
(* outbound carrier of x; the inbound one is glo (negb x) *)
Definition glo (s : st) (x : bool) : lk := if x then lAB s else lBA s.
Definition slo (s : st) (x : bool) (l : lk) : st :=
  if x then mkSt (per s) (killed s) (sA s) (sB s) l (lBA s) (nyes s) (bad s) (later_hints s)
  else mkSt (per s) (killed s) (sA s) (sB s) (lAB s) l (nyes s) (bad s) (later_hints s).

Definition len {A} (l : list A) : N := N.of_nat (length l).

(* unsigned-varint length of a frame header *)
Definition varint_len (x : N) : N :=
  if x <? 128 then 1 else if x <? 16384 then 2 else if x <? 2097152 then 3
  else if x <? 268435456 then 4 else 5.
Definition frame_bytes (n : notif) : N := varint_len (n_len n) + n_len n.
Definition sink_bytes (l : list notif) : N := fold_right (fun n acc => frame_bytes n + acc) 0 l.

(* ---- Connection: the outbound loop of poll_next ---- *)

Inductive pick := PSync | PAsync | PNone.

(* which receiver of the select! yields; the flag is set when the hint names an empty queue *)
Definition choose (h : list bool) (sq aq : list notif) : pick * list bool * bool :=
  match sq, aq with
  | [], [] => (PNone, h, false)
  | _, _ =>
      let dflt := match aq with [] => PSync | _ => PAsync end in
      match h with
      | true :: h' => (match sq with [] => (dflt, h', true) | _ => (PSync, h', false) end)
      | false :: h' => (match aq with [] => (dflt, h', true) | _ => (PAsync, h', false) end)
      | [] => (dflt, [], false)
      end
  end.

(* Sink::poll_ready of the outbound substream: Some (sink', carrier') when ready *)
Definition poll_ready (wg : bool) (sk ca : list notif) : option (list notif * list notif) :=
  if sink_bytes sk <? BOUNDARY then Some (sk, ca)
  else if wg then Some ([], ca ++ sk) else None.

Record lst := mkLst {
  l_cur : option notif; l_sq : list notif; l_aq : list notif;
  l_sk : list notif; l_ca : list notif; l_h : list bool; l_bad : N
}.

Definition set_cur (o : option notif) (L : lst) : lst :=
  mkLst o (l_sq L) (l_aq L) (l_sk L) (l_ca L) (l_h L) (l_bad L).
Definition set_out (sk ca : list notif) (L : lst) : lst :=
  mkLst None (l_sq L) (l_aq L) sk ca (l_h L) (l_bad L).

(* next_notification.take(), else the select! over the two receivers *)
Definition a_next (L : lst) : option notif * lst :=
  match l_cur L with
  | Some n => (Some n, set_cur None L)
  | None =>
      let '(p, h', b) := choose (l_h L) (l_sq L) (l_aq L) in
      let bad' := if b then l_bad L + 1 else l_bad L in
      match p, l_sq L, l_aq L with
      | PSync, n :: sq', _ => (Some n, mkLst None sq' (l_aq L) (l_sk L) (l_ca L) h' bad')
      | PAsync, _, n :: aq' => (Some n, mkLst None (l_sq L) aq' (l_sk L) (l_ca L) h' bad')
      | _, _, _ => (None, L)
      end
  end.

(* returns (closed, state): closed = start_send refused the notification (larger than mx) *)
Fixpoint a_loop (fuel : nat) (mx : N) (wg : bool) (L : lst) : bool * lst :=
  match fuel with
  | O => (false, L)
  | S f =>
      let '(nx, L1) := a_next L in
      match nx with
      | None => (false, L1)
      | Some n =>
          match poll_ready wg (l_sk L1) (l_ca L1) with
          | None => (false, set_cur (Some n) L1)
          | Some (sk', ca') =>
              if mx <? n_len n
              then (true, set_out sk' ca' L1)
              else a_loop f mx wg (set_out (sk' ++ [n]) ca' L1)
          end
      end
  end.

Definition opt_len {A} (o : option A) : nat := match o with Some _ => 1 | None => 0 end.

(* ---- the async queue: tokio mpsc with a fair semaphore ---- *)

(* the sink channels of a waiter's stream are still open *)
Definition wlive (cn : conn) (w : waiter) : bool := (n_per (w_n w) =? e_per cn) && e_alive cn.

Definition held (cn : conn) (ws : list waiter) : N :=
  len (filter (fun w => w_asg w && wlive cn w) ws).

(* free permits of the async channel *)
Definition afree (ce : ecfg) (cn : conn) (ws : list waiter) : N :=
  c_a ce - len (e_aq cn) - held cn ws.

(* hand k permits to the first waiting (live, unassigned) senders, in FIFO order *)
Fixpoint assign (cn : conn) (k : nat) (ws : list waiter) : list waiter :=
  match k, ws with
  | O, _ => ws
  | _, [] => []
  | S k', w :: t =>
      if w_asg w || negb (wlive cn w) then w :: assign cn k t
      else mkW (w_id w) (w_n w) true :: assign cn k' t
  end.

Definition rebalance (ce : ecfg) (cn : conn) (ws : list waiter) : list waiter :=
  assign cn (N.to_nat (afree ce cn ws)) ws.

Fixpoint find_w (id : N) (ws : list waiter) : option waiter :=
  match ws with [] => None | w :: t => if w_id w =? id then Some w else find_w id t end.
Fixpoint remove_w (id : N) (ws : list waiter) : list waiter :=
  match ws with [] => [] | w :: t => if w_id w =? id then t else w :: remove_w id t end.

(* ---- Connection::close_connection ---- *)
Definition close (x notify : bool) (s : st) : st :=
  let e := gep s x in let cn := ec e in let h := eh e in
  let s1 := sep s x (mkEp (mkC false (e_per cn) false [] [] None [] (e_hints cn) false false)
                          (mkH (e_ws h) (e_nq h) (e_evs h ++ [HClosed (e_per cn)]) (e_peers h) (e_clog h) (e_cmds h))
                          (eg e)) in
  mkSt (per s1) (killed s1) (sA s1) (sB s1) (lAB s1) (lBA s1)
       (if notify then nyes s + 1 else nyes s) (bad s1) (later_hints s1).

(* the write half of y's outbound substream was shut down (y's Connection of this period ended) *)
Definition wclosed (s : st) (y : bool) : bool :=
  (e_per (ec (gep s y)) =? per s) && negb (e_alive (ec (gep s y))).

(* The outbound part of one poll_next of Connection x: outbound loop and flush; permits freed by
   the pops go to the waiting async senders. The bool says that start_send refused a notification.
   Every pop from a queue costs one unit of the budget b; with none left the select! is Pending. *)
Definition out_phase (c : cfg) (x : bool) (b : N) (s : st) : st * bool :=
  let e := gep s x in let cn := ec e in let h := eh e in let lo := glo s x in
  let fuel := (opt_len (e_cur cn) + N.to_nat (N.min b (len (e_sq cn) + len (e_aq cn) + 1)))%nat in
  let '(closed, L) := a_loop fuel (c_max (ecf c x)) (wgate lo)
                        (mkLst (e_cur cn) (e_sq cn) (e_aq cn) (e_sk cn) (carrier lo) (e_hints cn) (bad s)) in
  if closed then
    let cn1 := mkC true (e_per cn) (e_shut cn) (l_sq L) (l_aq L) (l_cur L) (l_sk L) (l_h L) (e_res cn) (e_rwait cn) in
    let s1 := slo (sep s x (mkEp cn1 h (eg e))) x (mkL (wgate lo) (rgate lo) (l_ca L)) in
    (mkSt (per s1) (killed s1) (sA s1) (sB s1) (lAB s1) (lBA s1) (nyes s1) (l_bad L) (later_hints s1), true)
  else
    (* poll_flush *)
    let '(sk, ca) := if wgate lo then ([], l_ca L ++ l_sk L) else (l_sk L, l_ca L) in
    let cn1 := mkC true (e_per cn) (e_shut cn) (l_sq L) (l_aq L) (l_cur L) sk (l_h L) (e_res cn) (e_rwait cn) in
    let h1 := mkH (rebalance (ecf c x) cn1 (e_ws h)) (e_nq h) (e_evs h) (e_peers h) (e_clog h) (e_cmds h) in
    let s1 := slo (sep s x (mkEp cn1 h1 (eg e))) x (mkL (wgate lo) (rgate lo) ca) in
    (mkSt (per s1) (killed s1) (sA s1) (sB s1) (lAB s1) (lBA s1) (nyes s1) (l_bad L) (later_hints s1), false).

(* notifications in the two queues of x *)
Definition qlen (s : st) (x : bool) : N := len (e_sq (ec (gep s x))) + len (e_aq (ec (gep s x))).

(* Connection x can take (or holds) a slot of its user channel *)
Definition can_reserve (c : cfg) (x : bool) (s : st) : bool :=
  let e := gep s x in e_res (ec e) || (len (e_nq (eh e)) <? c_n (ecf c x)).

Definition set_res (x : bool) (r w : bool) (s : st) : st :=
  let e := gep s x in let cn := ec e in
  sep s x (mkEp (mkC (e_alive cn) (e_per cn) (e_shut cn) (e_sq cn) (e_aq cn) (e_cur cn) (e_sk cn) (e_hints cn) r w)
                (eh e) (eg e)).

(* a frame read from the inbound substream goes into the reserved slot of the user channel *)
Definition push_nq (x : bool) (n : notif) (s : st) : st :=
  let e := gep s x in let cn := ec e in let h := eh e in
  sep s x (mkEp (mkC (e_alive cn) (e_per cn) (e_shut cn) (e_sq cn) (e_aq cn) (e_cur cn) (e_sk cn) (e_hints cn) false false)
                (mkH (e_ws h) (e_nq h ++ [n]) (e_evs h) (e_peers h) (e_clog h) (e_cmds h)) (eg e)).

(* PollSender::poll_reserve with budget b. Returns the state, whether a slot is held afterwards, and
   the budget left. A permit that was handed to the queued waiter (res && rwait) still has to be
   collected by polling the Acquire future, which costs budget like a fresh acquisition. *)
Definition reserve_phase (c : cfg) (x : bool) (b : N) (s : st) : st * bool * N :=
  let cn := ec (gep s x) in
  if e_res cn && negb (e_rwait cn) then (s, true, b)
  else if can_reserve c x s then
    (if 0 <? b then (set_res x true false s, true, b - 1) else (s, false, b))
  else (if 0 <? b then (set_res x false true s, false, b) else (s, false, b)).

(* One poll of the task `Connection::start` of x under budget b: poll_next until Pending or close. *)
Fixpoint conn_loop (fuel : nat) (c : cfg) (x : bool) (b : N) (s : st) : st :=
  match fuel with
  | O => s
  | S f =>
      (* the oneshot receiver is a tokio resource too: with no budget left it reports Pending *)
      if e_shut (ec (gep s x)) && (0 <? b) then close x false s else
      (* every write and flush fails on a killed transport *)
      if killed s then close x true s else
      let '(s1, refused) := out_phase c x b s in
      if refused then close x true s1 else
      let b1 := b - (qlen s x - qlen s1 x) in
      let '(s2, go, b2) := reserve_phase c x b1 s1 in
      if negb go then s2 else
      let li := glo s2 (negb x) in
      if negb (rgate li) then s2 else
      match carrier li with
      | [] => if wclosed s2 (negb x) then close x true s2 else s2
      | n :: rest =>
          if c_max (ecf c x) <? n_len n then close x true s2
          else conn_loop f c x b2 (push_nq x n (slo s2 (negb x) (mkL (wgate li) (rgate li) rest)))
      end
  end.

Definition conn_poll (c : cfg) (x : bool) (b : N) (s : st) : st :=
  if e_alive (ec (gep s x)) then conn_loop (S (length (carrier (glo s (negb x))))) c x b s else s.

(* ---- NotificationHandle::poll_next with a cooperative budget ---- *)
Inductive uev := UPending | UOpened (k : N) | UClosed | UNotif (n : notif).

Definition set_hnd (x : bool) (h : hnd) (g : glog) (s : st) : st := sep s x (mkEp (ec (gep s x)) h g).

(* `fixed` = true: the filter of the repaired code (the notification carries the identifier of its
   stream); false: the filter of the original code (`peers.contains_key(&peer)`), kept only for the
   refutation lemma. *)
Definition passes (fixed : bool) (peers : option N) (n : notif) : bool :=
  match peers with
  | None => false
  | Some k => if fixed then n_per n =? k else true
  end.

Fixpoint h_scan (fixed : bool) (peers : option N) (budget : nat) (q : list notif) : option notif * list notif :=
  match budget, q with
  | O, _ => (None, q)
  | _, [] => (None, [])
  | S b, n :: t => if passes fixed peers n then (Some n, t) else h_scan fixed peers b t
  end.

(* the Connection parked in poll_reserve is first in line for the slot freed by a receive: the permit is
   handed to its queued Acquire future (res && rwait), which collects it on its next poll *)
Definition hand_over (x : bool) (popped : bool) (s : st) : st :=
  if popped && e_rwait (ec (gep s x)) && negb (e_res (ec (gep s x))) then set_res x true true s else s.

Definition h_poll_gen (fixed : bool) (c : cfg) (x : bool) (budget : N) (s : st) : st * uev :=
  let e := gep s x in let h := eh e in let g := eg e in
  if budget =? 0 then (s, UPending) else
  match e_evs h with
  | HOpened k :: es =>
      (set_hnd x (mkH (e_ws h) (e_nq h) es (Some k) (e_clog h) (e_cmds h))
               (mkG (e_acc g) (e_del g) (e_dper g) (e_fclog g) (e_fclost g) (e_seen g ++ [HOpened k]) (e_aok g) (e_aerr g)) s,
       UOpened k)
  | HClosed k :: es =>
      (set_hnd x (mkH (e_ws h) (e_nq h) es None false (e_cmds h))
               (mkG (e_acc g) (e_del g) (e_dper g) (e_fclog g) (e_fclost g) (e_seen g ++ [HClosed k]) (e_aok g) (e_aerr g)) s,
       UClosed)
  | [] =>
      let '(r, q) := h_scan fixed (e_peers h) (N.to_nat (N.min budget (len (e_nq h)))) (e_nq h) in
      let h1 := mkH (e_ws h) q [] (e_peers h) (e_clog h) (e_cmds h) in
      let full := len q <? len (e_nq h) in
      match r with
      | Some n =>
          (hand_over x full
             (set_hnd x h1 (mkG (e_acc g) (e_del g ++ [n]) (e_dper g ++ [e_peers h]) (e_fclog g) (e_fclost g)
                                (e_seen g) (e_aok g) (e_aerr g)) s), UNotif n)
      | None => (hand_over x full (set_hnd x h1 g s), UPending)
      end
  end.

Definition h_poll := h_poll_gen true.

(* ---- the user's sending calls ---- *)
Definition live (s : st) (x : bool) (k : N) : bool :=
  (k =? e_per (ec (gep s x))) && e_alive (ec (gep s x)).

Definition set_conn (x : bool) (cn : conn) (s : st) : st := sep s x (mkEp cn (eh (gep s x)) (eg (gep s x))).

(* result codes: 0 Ok, 1 ChannelClogged, 2 NoConnection, 3 Ok because the peer is unknown *)
Definition send_sync (c : cfg) (x : bool) (s : st) (tag ln : N) : st * N :=
  let e := gep s x in let cn := ec e in let h := eh e in let g := eg e in
  match e_peers h with
  | None => (s, 3)
  | Some k =>
      if live s x k then
        if len (e_sq cn) <? c_s (ecf c x) then
          let n := mkN x k true tag ln in
          (sep s x (mkEp (mkC (e_alive cn) (e_per cn) (e_shut cn) (e_sq cn ++ [n]) (e_aq cn) (e_cur cn) (e_sk cn)
                              (e_hints cn) (e_res cn) (e_rwait cn)) h
                         (mkG (e_acc g ++ [n]) (e_del g) (e_dper g) (e_fclog g) (e_fclost g) (e_seen g) (e_aok g) (e_aerr g))), 0)
        else if e_clog h then (s, 1)
        else if e_cmds h <? c_c (ecf c x) then
          (sep s x (mkEp cn (mkH (e_ws h) (e_nq h) (e_evs h) (e_peers h) true (e_cmds h + 1))
                         (mkG (e_acc g) (e_del g) (e_dper g) (e_fclog g ++ [k]) (e_fclost g) (e_seen g) (e_aok g) (e_aerr g))), 1)
        else
          (* the command channel is full: try_send fails and the result is ignored *)
          (sep s x (mkEp cn (mkH (e_ws h) (e_nq h) (e_evs h) (e_peers h) true (e_cmds h))
                         (mkG (e_acc g) (e_del g) (e_dper g) (e_fclog g) (e_fclost g + 1) (e_seen g) (e_aok g) (e_aerr g))), 1)
      else (s, 2)
  end.

(* NotificationSink::send_sync_notification on a clone of the sink of stream k, without the handle (no lookup in
   `peers`, no `clogged` set, no ForceClose): 0 Ok, 1 ChannelClogged, 2 NoConnection *)
Definition sink_sync (c : cfg) (x : bool) (s : st) (k tag ln : N) : st * N :=
  let e := gep s x in let cn := ec e in let g := eg e in
  if live s x k then
    if len (e_sq cn) <? c_s (ecf c x) then
      let n := mkN x k true tag ln in
      (sep s x (mkEp (mkC (e_alive cn) (e_per cn) (e_shut cn) (e_sq cn ++ [n]) (e_aq cn) (e_cur cn) (e_sk cn)
                          (e_hints cn) (e_res cn) (e_rwait cn)) (eh e)
                     (mkG (e_acc g ++ [n]) (e_del g) (e_dper g) (e_fclog g) (e_fclost g) (e_seen g) (e_aok g) (e_aerr g))), 0)
    else (s, 1)
  else (s, 2).

Definition set_async (x : bool) (aq : list notif) (ws : list waiter) (acc : list notif) (ok err : N) (s : st) : st :=
  let e := gep s x in let cn := ec e in let h := eh e in let g := eg e in
  sep s x (mkEp (mkC (e_alive cn) (e_per cn) (e_shut cn) (e_sq cn) aq (e_cur cn) (e_sk cn) (e_hints cn) (e_res cn) (e_rwait cn))
                (mkH ws (e_nq h) (e_evs h) (e_peers h) (e_clog h) (e_cmds h))
                (mkG acc (e_del g) (e_dper g) (e_fclog g) (e_fclost g) (e_seen g) ok err)).

(* create a send_async_notification future on a clone of the sink and poll it once.
   0 Ok, 2 Err, 3 Err because the peer is unknown, 4 Pending, 5 identifier in use *)
Definition async_start (c : cfg) (x : bool) (s : st) (id tag ln : N) : st * N :=
  let e := gep s x in let cn := ec e in let h := eh e in let g := eg e in
  match find_w id (e_ws h) with Some _ => (s, 5) | None =>
  match e_peers h with
  | None => (s, 3)
  | Some k =>
      let n := mkN x k false tag ln in
      if live s x k then
        if 0 <? afree (ecf c x) cn (e_ws h)
        then (set_async x (e_aq cn ++ [n]) (e_ws h) (e_acc g ++ [n]) (e_aok g + 1) (e_aerr g) s, 0)
        else (set_async x (e_aq cn) (e_ws h ++ [mkW id n false]) (e_acc g) (e_aok g) (e_aerr g) s, 4)
      else (set_async x (e_aq cn) (e_ws h) (e_acc g) (e_aok g) (e_aerr g + 1) s, 2)
  end end.

(* poll a pending future once: 0 Ok, 2 Err, 4 Pending, 5 no such future *)
Definition async_poll (x : bool) (s : st) (id : N) : st * N :=
  let e := gep s x in let cn := ec e in let h := eh e in let g := eg e in
  match find_w id (e_ws h) with
  | None => (s, 5)
  | Some w =>
      if negb (wlive cn w) then (set_async x (e_aq cn) (remove_w id (e_ws h)) (e_acc g) (e_aok g) (e_aerr g + 1) s, 2)
      else if w_asg w then
        (set_async x (e_aq cn ++ [w_n w]) (remove_w id (e_ws h)) (e_acc g ++ [w_n w]) (e_aok g + 1) (e_aerr g) s, 0)
      else (s, 4)
  end.

(* drop a pending future: its permit, if any, goes to the next waiting sender. 0 done, 5 no such future *)
Definition async_drop (c : cfg) (x : bool) (s : st) (id : N) : st * N :=
  let e := gep s x in let cn := ec e in let h := eh e in let g := eg e in
  match find_w id (e_ws h) with
  | None => (s, 5)
  | Some w =>
      (set_async x (e_aq cn) (rebalance (ecf c x) cn (remove_w id (e_ws h))) (e_acc g) (e_aok g) (e_aerr g) s, 0)
  end.

(* ---- the protocol ---- *)
Definition fresh_conn (p : N) (h : list bool) : conn := mkC true p false [] [] None [] h false false.

Definition open_ep (x : bool) (p : N) (s : st) : st :=
  let e := gep s x in let h := eh e in
  let s1 := sep s x (mkEp (fresh_conn p (hd [] (later_hints s)))
                          (mkH (e_ws h) (e_nq h) (e_evs h ++ [HOpened p]) (e_peers h) (e_clog h) (e_cmds h)) (eg e)) in
  mkSt (per s1) (killed s1) (sA s1) (sB s1) (lAB s1) (lBA s1) (nyes s1) (bad s1) (tl (later_hints s)).

(* 0 opened, 1 refused *)
Definition open_stream (x : bool) (s : st) : st * N :=
  let cx := ec (gep s x) in let cy := ec (gep s (negb x)) in
  if e_alive cx then (s, 1)
  else if e_per cx <? per s then (open_ep x (per s) s, 0)          (* join the period the peer has opened *)
  else if negb (e_alive cy) && (e_per cy =? per s) then
    (* both Connections of the previous period have ended: new pair of carriers *)
    let p := per s + 1 in
    (open_ep x p (mkSt p false (sA s) (sB s) (mkL true true []) (mkL true true []) (nyes s) (bad s) (later_hints s)), 0)
  else (s, 1).

Definition kill (s : st) : st :=
  mkSt (per s) true (sA s) (sB s) (mkL (wgate (lAB s)) (rgate (lAB s)) [])
       (mkL (wgate (lBA s)) (rgate (lBA s)) []) (nyes s) (bad s) (later_hints s).

Inductive step :=
| SSync (x : bool) (tag ln : N)
| SAsyncStart (x : bool) (id tag ln : N)
| SAsyncPoll (x : bool) (id : N)
| SAsyncDrop (x : bool) (id : N)
| SConn (x : bool) (budget : N)
| SHandle (x : bool) (budget : N)
| SOpen (x : bool)
| SClose (x : bool)
| SCmd (x : bool)
| SCmdFail (x : bool)
| SGate (x : bool) (w r : bool)
| SKill
| SSinkSync (x : bool) (k tag ln : N).

Inductive res := RCode (v : N) | RUser (e : uev).

Definition do_step (c : cfg) (s : st) (t : step) : st * res :=
  match t with
  | SSync x tag ln => let '(s1, r) := send_sync c x s tag ln in (s1, RCode r)
  | SAsyncStart x id tag ln => let '(s1, r) := async_start c x s id tag ln in (s1, RCode r)
  | SAsyncPoll x id => let '(s1, r) := async_poll x s id in (s1, RCode r)
  | SAsyncDrop x id => let '(s1, r) := async_drop c x s id in (s1, RCode r)
  | SConn x b => let s1 := conn_poll c x b s in (s1, RCode (if e_alive (ec (gep s1 x)) then 0 else 1))
  | SHandle x b => let '(s1, e) := h_poll c x b s in (s1, RUser e)
  | SOpen x => let '(s1, r) := open_stream x s in (s1, RCode r)
  | SClose x =>
      let cn := ec (gep s x) in
      if e_alive cn then
        (set_conn x (mkC true (e_per cn) true (e_sq cn) (e_aq cn) (e_cur cn) (e_sk cn) (e_hints cn) (e_res cn) (e_rwait cn)) s, RCode 0)
      else (s, RCode 1)
  | SCmd x =>
      let e := gep s x in let h := eh e in
      if e_cmds h =? 0 then (s, RCode 0)
      else (kill (set_hnd x (mkH (e_ws h) (e_nq h) (e_evs h) (e_peers h) (e_clog h) (e_cmds h - 1)) (eg e) s), RCode 1)
  | SCmdFail x =>
      (* the protocol takes a ForceClose command whose connection is already gone: force_close fails
         and the result is ignored *)
      let e := gep s x in let h := eh e in
      if e_cmds h =? 0 then (s, RCode 0)
      else (set_hnd x (mkH (e_ws h) (e_nq h) (e_evs h) (e_peers h) (e_clog h) (e_cmds h - 1)) (eg e) s, RCode 1)
  | SGate x w r => (slo s x (mkL w r (carrier (glo s x))), RCode 0)
  | SKill => if per s =? 0 then (s, RCode 1) else (kill s, RCode 0)
  | SSinkSync x k tag ln => let '(s1, r) := sink_sync c x s k tag ln in (s1, RCode r)
  end.

Fixpoint run (c : cfg) (s : st) (ts : list step) : st * list res :=
  match ts with
  | [] => (s, [])
  | t :: r => let '(s1, v) := do_step c s t in let '(s2, vs) := run c s1 r in (s2, v :: vs)
  end.

Definition final (c : cfg) (hs : list (list bool)) (ts : list step) : st := fst (run c (init hs) ts).

(* ---- projections used by the statements ---- *)
(* notifications of period k sent through mode m *)
Definition sel (k : N) (m : bool) (n : notif) : bool := (n_per n =? k) && Bool.eqb (n_sync n) m.
Definition proj (k : N) (m : bool) (l : list notif) : list notif := filter (sel k m) l.
Definition prefix {A} (x y : list A) : Prop := exists r, y = x ++ r.

(* ------------------------------------------------------------------------------------------
   The quiescence-based stream: one user action, then both Connection tasks and the woken async
   senders run until nothing is runnable (what a current-thread tokio runtime does between two
   actions of the harness). Every macro action is a composition of scheduler steps. Only endpoint
   A sends in this stream. *)

Definition woken_ids (cn : conn) (ws : list waiter) : list N :=
  map w_id (filter (fun w => w_asg w || negb (wlive cn w)) ws).

Fixpoint poll_ids (x : bool) (ids : list N) (s : st) (prog : bool) : st * bool :=
  match ids with
  | [] => (s, prog)
  | id :: t => let '(s1, r) := async_poll x s id in poll_ids x t s1 (prog || (r =? 0))
  end.

Definition poll_woken (x : bool) (s : st) : st * bool :=
  poll_ids x (woken_ids (ec (gep s x)) (e_ws (eh (gep s x)))) s false.

Definition BIG : N := 1000000.

(* a Connection parked in poll_reserve is woken only by its user channel or the shutdown signal *)
Definition b_woken (c : cfg) (s : st) : bool :=
  let cn := ec (gep s false) in e_alive cn && (e_shut cn || can_reserve c false s).
Definition poll_b (c : cfg) (s : st) : st := if b_woken c s then conn_poll c false BIG s else s.

Fixpoint rounds (fuel : nat) (c : cfg) (s : st) : st :=
  match fuel with
  | O => s
  | S f =>
      let s1 := conn_poll c true BIG s in
      let '(s2, prog) := poll_woken true s1 in
      let s3 := poll_b c s2 in
      if prog then rounds f c s3
      else if e_alive (ec (gep s3 true)) && wclosed s3 false
           then fst (poll_woken true (conn_poll c true BIG s3)) else s3
  end.

Definition settle (c : cfg) (s : st) : st :=
  rounds (S (length (e_ws (eh (gep s true))))) c (poll_b c s).

Inductive action :=
| ASendSync (tag ln : N)
| ASendAsync (tag ln : N)
| AGate (w r : bool)
| AUserRecv
| APollA
| ACloseA
| ACloseB
| AKill
| AReopen.

Inductive ares :=
| ACode (x : N)
| AUser (e : uev)
| AEvents (l : list hev).

Fixpoint drain_a (c : cfg) (fuel : nat) (s : st) (acc : list hev) : st * list hev :=
  match fuel with
  | O => (s, acc)
  | S f =>
      match h_poll c true BIG s with
      | (s1, UOpened k) => drain_a c f s1 (acc ++ [HOpened k])
      | (s1, UClosed) => drain_a c f s1 (acc ++ [HClosed 0])
      | (s1, _) => (s1, acc)
      end
  end.

Definition code_of (r : res) : N := match r with RCode v => v | RUser _ => 9 end.

(* the harness empties the command channels after every action without acting on the commands *)
Fixpoint drain_x (fuel : nat) (c : cfg) (x : bool) (s : st) : st :=
  match fuel with
  | O => s
  | S f => drain_x f c x (fst (do_step c s (SCmdFail x)))
  end.
Definition drain_cmds (c : cfg) (s : st) : st :=
  let s1 := drain_x (N.to_nat (e_cmds (eh (gep s true)))) c true s in
  drain_x (N.to_nat (e_cmds (eh (gep s1 false)))) c false s1.

Definition act (c : cfg) (i : N) (s : st) (a : action) : st * ares :=
  match a with
  | ASendSync t l => let '(s1, r) := do_step c s (SSync true t l) in (s1, ACode (code_of r))
  | ASendAsync t l =>
      let '(s1, r) := do_step c s (SAsyncStart true i t l) in (s1, ACode (if code_of r =? 3 then 3 else 0))
  | AGate w r => let '(s1, _) := do_step c s (SGate true w r) in (s1, ACode 0)
  | AUserRecv => let '(s1, e) := h_poll c false BIG s in (s1, AUser e)
  | APollA =>
      let '(s1, l) := drain_a c (S (length (e_evs (eh (gep s true))) + length (e_nq (eh (gep s true))))) s [] in
      (s1, AEvents l)
  | ACloseA => let '(s1, r) := do_step c s (SClose true) in (s1, ACode (code_of r))
  | ACloseB => let '(s1, r) := do_step c s (SClose false) in (s1, ACode (code_of r))
  | AKill =>
      if e_alive (ec (gep s true)) || e_alive (ec (gep s false))
      then let '(s1, r) := do_step c s SKill in (s1, ACode (code_of r)) else (s, ACode 1)
  | AReopen =>
      if e_alive (ec (gep s true)) || e_alive (ec (gep s false)) then (s, ACode 1)
      else let '(s1, _) := open_stream false s in let '(s2, _) := open_stream true s1 in (s2, ACode 0)
  end.

Definition astep (c : cfg) (i : N) (s : st) (a : action) : st * ares :=
  let '(s1, r) := act c i s a in (drain_cmds c (settle c s1), r).
