(* C12 — executable model of one notification stream of litep2p, sender user -> receiver user:
     NotificationHandle A (send_sync_notification / clogged set / ForceClose),
     NotificationSink (sync queue cap_s, async queue cap_a, blocked async senders),
     Connection A  (src/protocol/notification/connection.rs::poll_next: next_notification slot,
                    outbound Substream sink with its BACKPRESSURE_BOUNDARY, size check),
     carrier A->B  (byte pipe with a write gate and a read gate, supplied by the harness),
     Connection B  (poll_reserve on the user channel BEFORE reading the inbound substream,
                    size check of the reader),
     user channel (cap_n), NotificationHandle B (event queue first, `peers` filter).
   Successive open periods reuse the two handles (fresh sink queues, carriers and Connections).
   Definitions only; proofs are in Proofs.v.

   Abstractions (all diffed by the correspondence harness):
   - a notification is (tag, length); its period and sending mode are ghost fields which the
     harness encodes in the payload so that they show up in the delivered trace;
   - `tokio::select!{async_rx, sync_rx}` is a nondeterministic merge: the choice for each pop
     comes from a hint list (any list; the harness fills in what the implementation did);
   - every scripted action is followed by `settle`: both Connection tasks are polled until
     nothing is runnable (the harness does the same on a current-thread runtime);
   - the reverse direction (B -> A) is idle; the reverse carrier only signals EOF. *)
From Coq Require Import List NArith Bool.
From V.gen Require Consts.
Import ListNotations.
Open Scope N_scope.

Definition BOUNDARY : N := Consts.BACKPRESSURE_BOUNDARY.

Record notif := mkN { n_per : N; n_sync : bool; n_tag : N; n_len : N }.

Record cfg := mkCfg {
  cap_s : N;      (* sync_channel_size *)
  cap_a : N;      (* async_channel_size *)
  cap_n : N;      (* size of the channel carrying received notifications to the handle *)
  max_out : N;    (* max_notification_size of the sender's outbound substream codec *)
  max_in : N      (* max_notification_size of the receiver's inbound substream codec *)
}.

Inductive hev := HOpened (k : N) | HClosed (k : N).

(* sender side of the current period *)
Record aside := mkA {
  a_alive : bool;            (* Connection A task is running *)
  syncq : list notif;        (* sync_rx content *)
  asyncq : list notif;       (* async_rx content *)
  waiters : list notif;      (* send_async_notification futures waiting for capacity, FIFO *)
  parked : option notif;     (* Connection.next_notification *)
  sink : list notif;         (* frames queued in the outbound Substream : pending_out_frames *)
  hints : list bool          (* remaining merge choices of this period: true = sync_rx *)
}.

(* killed: the transport connection was force-closed: reads give EOF, writes and flushes fail *)
Record link := mkL { wgate : bool; rgate : bool; carrier : list notif; killed : bool }.

Record bside := mkB {
  b_alive : bool;            (* Connection B task is running *)
  reserved : bool;           (* its PollSender holds a permit of the user channel *)
  notifq : list notif;       (* user channel content (shared by all periods) *)
  b_events : list hev;       (* event channel of handle B *)
  b_peers : bool             (* handle B: peers.contains_key(peer) *)
}.

Record ahand := mkH {
  a_events : list hev;       (* event channel of handle A *)
  a_sink : option N;         (* handle A: peers[peer] = sink of this period *)
  a_clogged : bool           (* handle A: clogged.contains(peer) *)
}.

Record logs := mkG {
  accepted : list notif;     (* ghost: sends that returned Ok, in order *)
  delivered : list notif;    (* ghost: NotificationReceived events seen by user B, in order *)
  fclog : list N;            (* ghost: period of every ForceClose command *)
  async_ok : N;              (* completed send_async_notification futures: Ok *)
  async_err : N;             (* ... Err *)
  nyes : N;                  (* "notify protocol" messages of the Connection tasks *)
  bad : N                    (* hints that named an empty queue *)
}.

Record st := mkSt {
  per : N; sa : aside; sl : link; sb : bside; sh : ahand; sg : logs;
  later_hints : list (list bool)
}.

Definition dead_a : aside := mkA false [] [] [] None [] [].
Definition init (hs : list (list bool)) : st :=
  mkSt 0 dead_a (mkL true true [] false) (mkB false false [] [] false) (mkH [] None false)
       (mkG [] [] [] 0 0 0 0) hs.

Definition len {A} (l : list A) : N := N.of_nat (length l).

(* unsigned-varint length of a frame header *)
Definition varint_len (x : N) : N :=
  if x <? 128 then 1 else if x <? 16384 then 2 else if x <? 2097152 then 3
  else if x <? 268435456 then 4 else 5.
Definition frame_bytes (n : notif) : N := varint_len (n_len n) + n_len n.
Definition sink_bytes (l : list notif) : N := fold_right (fun n acc => frame_bytes n + acc) 0 l.

(* ---- Connection A: the outbound loop of poll_next (one task poll) ---- *)

Inductive pick := PSync | PAsync | PNone.

(* which receiver of the select! yields; the flag is set when the hint names an empty queue *)
Definition choose (h : list bool) (sq aq : list notif) : pick * list bool * bool :=
  match sq, aq with
  | [], [] => (PNone, h, false)
  | _, _ =>
      let dflt := match aq with [] => PSync | _ => PAsync end in
      match h with
      | true :: h' => (match sq with [] => (dflt, h', true) | _ => (PSync, h', false) end)
      | false :: h' => (match aq with [] => (dflt, h', true) | _ => (PAsync, h', false) end)
      | [] => (dflt, [], false)
      end
  end.

(* Sink::poll_ready of the outbound substream: Some (sink', carrier') when ready *)
Definition poll_ready (wg : bool) (sk ca : list notif) : option (list notif * list notif) :=
  if sink_bytes sk <? BOUNDARY then Some (sk, ca)
  else if wg then Some ([], ca ++ sk) else None.

Record lst := mkLst {
  l_cur : option notif; l_sq : list notif; l_aq : list notif;
  l_sk : list notif; l_ca : list notif; l_h : list bool; l_bad : N
}.

Definition set_cur (o : option notif) (L : lst) : lst :=
  mkLst o (l_sq L) (l_aq L) (l_sk L) (l_ca L) (l_h L) (l_bad L).
Definition set_out (sk ca : list notif) (L : lst) : lst :=
  mkLst None (l_sq L) (l_aq L) sk ca (l_h L) (l_bad L).

(* next_notification.take(), else the select! over the two receivers *)
Definition a_next (L : lst) : option notif * lst :=
  match l_cur L with
  | Some n => (Some n, set_cur None L)
  | None =>
      let '(p, h', b) := choose (l_h L) (l_sq L) (l_aq L) in
      let bad' := if b then l_bad L + 1 else l_bad L in
      match p, l_sq L, l_aq L with
      | PSync, n :: sq', _ => (Some n, mkLst None sq' (l_aq L) (l_sk L) (l_ca L) h' bad')
      | PAsync, _, n :: aq' => (Some n, mkLst None (l_sq L) aq' (l_sk L) (l_ca L) h' bad')
      | _, _, _ => (None, L)
      end
  end.

(* returns (closed, state): closed = start_send refused the notification (oversize) *)
Fixpoint a_loop (fuel : nat) (c : cfg) (wg : bool) (L : lst) : bool * lst :=
  match fuel with
  | O => (false, L)
  | S f =>
      let '(nx, L1) := a_next L in
      match nx with
      | None => (false, L1)
      | Some n =>
          match poll_ready wg (l_sk L1) (l_ca L1) with
          | None => (false, set_cur (Some n) L1)
          | Some (sk', ca') =>
              if max_out c <? n_len n
              then (true, set_out sk' ca' L1)
              else a_loop f c wg (set_out (sk' ++ [n]) ca' L1)
          end
      end
  end.

Definition opt_len {A} (o : option A) : nat := match o with Some _ => 1 | None => 0 end.

(* Connection::close_connection of A *)
Definition close_a (notify : bool) (s : st) : st :=
  let a := sa s in let g := sg s in let h := sh s in
  mkSt (per s) (mkA false [] [] [] None [] (hints a)) (sl s) (sb s)
       (mkH (a_events h ++ [HClosed (per s)]) (a_sink h) (a_clogged h))
       (mkG (accepted g) (delivered g) (fclog g) (async_ok g) (async_err g + len (waiters a))
            (if notify then nyes g + 1 else nyes g) (bad g))
       (later_hints s).

(* Connection::close_connection of B *)
Definition close_b (notify : bool) (s : st) : st :=
  let b := sb s in let g := sg s in
  mkSt (per s) (sa s) (sl s)
       (mkB false false (notifq b) (b_events b ++ [HClosed (per s)]) (b_peers b)) (sh s)
       (mkG (accepted g) (delivered g) (fclog g) (async_ok g) (async_err g)
            (if notify then nyes g + 1 else nyes g) (bad g))
       (later_hints s).

(* One poll of Connection A (shutdown was not requested): outbound loop, flush, the inbound
   substream (EOF once B has closed); then the blocked async senders that were handed a permit
   complete. The bool says that some sender completed (A is woken again). *)
Definition a_round (c : cfg) (s : st) : st * bool :=
  let a := sa s in let l := sl s in let g := sg s in
  if negb (a_alive a) then (s, false) else
  let fuel := S (opt_len (parked a) + length (syncq a) + length (asyncq a)) in
  let '(closed, L) := a_loop fuel c (wgate l)
                        (mkLst (parked a) (syncq a) (asyncq a) (sink a) (carrier l) (hints a) (bad g)) in
  let g1 := mkG (accepted g) (delivered g) (fclog g) (async_ok g) (async_err g) (nyes g) (l_bad L) in
  let s1 := mkSt (per s) (mkA true (l_sq L) (l_aq L) (waiters a) (l_cur L) (l_sk L) (l_h L))
                 (mkL (wgate l) (rgate l) (l_ca L) (killed l)) (sb s) (sh s) g1 (later_hints s) in
  if closed then (close_a true s1, false)
  else
    (* poll_flush *)
    let '(sk, ca) := if wgate l then ([], l_ca L ++ l_sk L) else (l_sk L, l_ca L) in
    let s2 := mkSt (per s) (mkA true (l_sq L) (l_aq L) (waiters a) (l_cur L) sk (l_h L))
                   (mkL (wgate l) (rgate l) ca (killed l)) (sb s) (sh s) g1 (later_hints s) in
    if negb (b_alive (sb s)) then (close_a true s2, false)
    else
      let free := N.to_nat (cap_a c - len (l_aq L)) in
      let adm := firstn free (waiters a) in
      let s3 := mkSt (per s) (mkA true (l_sq L) (l_aq L ++ adm) (skipn free (waiters a)) (l_cur L) sk (l_h L))
                     (mkL (wgate l) (rgate l) ca (killed l)) (sb s) (sh s)
                     (mkG (accepted g ++ adm) (delivered g) (fclog g) (async_ok g + len adm) (async_err g)
                          (nyes g) (l_bad L))
                     (later_hints s) in
      (s3, match adm with [] => false | _ => true end).

(* Connection B: poll_next / start until Pending: reserve a slot, then read one frame *)
Fixpoint b_run (fuel : nat) (c : cfg) (s : st) : st :=
  match fuel with
  | O => s
  | S f =>
      let b := sb s in let l := sl s in
      if negb (b_alive b) then s else
      let can := reserved b || (len (notifq b) <? cap_n c) in
      (* parked in poll_reserve: only the user channel (or the shutdown signal) wakes the task *)
      if negb can then s else
      (* the flush of the outbound substream fails on a killed transport *)
      if killed l then close_b true s else
      let s1 := mkSt (per s) (sa s) l (mkB true true (notifq b) (b_events b) (b_peers b)) (sh s) (sg s)
                     (later_hints s) in
      if negb (rgate l) then s1 else
      match carrier l with
      | [] => if a_alive (sa s) then s1 else close_b true s1
      | n :: rest =>
          if max_in c <? n_len n then close_b true s1
          else b_run f c (mkSt (per s) (sa s) (mkL (wgate l) (rgate l) rest (killed l))
                               (mkB true false (notifq b ++ [n]) (b_events b) (b_peers b)) (sh s) (sg s)
                               (later_hints s))
      end
  end.

(* Run both Connection tasks until nothing is runnable. The tasks alternate: the receiver first
   (the carrier wakes its reader before its writer), then one poll of the sender, the blocked
   async senders it released and the receiver again, as long as the sender is woken again. *)
Fixpoint rounds (fuel : nat) (c : cfg) (s : st) : st :=
  match fuel with
  | O => s
  | S f =>
      let '(s1, again) := a_round c s in
      let s2 := b_run (S (length (carrier (sl s1)))) c s1 in
      if again then rounds f c s2
      else if a_alive (sa s2) && negb (b_alive (sb s2)) then fst (a_round c s2) else s2
  end.

Definition settle (c : cfg) (s : st) : st :=
  let s0 := b_run (S (length (carrier (sl s)))) c s in
  rounds (S (length (waiters (sa s0)))) c s0.

(* ---- NotificationHandle B: Stream::poll_next ---- *)
Inductive uev := UPending | UOpened (k : N) | UClosed | UNotif (n : notif).

Definition h_poll (s : st) : st * uev :=
  let b := sb s in let g := sg s in
  match b_events b with
  | HOpened k :: es =>
      (mkSt (per s) (sa s) (sl s) (mkB (b_alive b) (reserved b) (notifq b) es true) (sh s) g (later_hints s),
       UOpened k)
  | HClosed _ :: es =>
      (mkSt (per s) (sa s) (sl s) (mkB (b_alive b) (reserved b) (notifq b) es false) (sh s) g (later_hints s),
       UClosed)
  | [] =>
      if b_peers b then
        match notifq b with
        | [] => (s, UPending)
        | n :: q =>
            (mkSt (per s) (sa s) (sl s) (mkB (b_alive b) (reserved b) q [] true) (sh s)
                  (mkG (accepted g) (delivered g ++ [n]) (fclog g) (async_ok g) (async_err g) (nyes g) (bad g))
                  (later_hints s),
             UNotif n)
        end
      else
        (* the peer is unknown: every queued notification is dropped, then Pending *)
        (mkSt (per s) (sa s) (sl s) (mkB (b_alive b) (reserved b) [] [] false) (sh s) g
              (later_hints s),
         UPending)
  end.

(* ---- NotificationHandle A ---- *)
Fixpoint pa_events (evs : list hev) (snk : option N) (clg : bool) : option N * bool :=
  match evs with
  | [] => (snk, clg)
  | HOpened k :: t => pa_events t (Some k) clg
  | HClosed _ :: t => pa_events t None false
  end.

Definition live (s : st) (k : N) : bool := (k =? per s) && a_alive (sa s).

(* result codes: 0 Ok, 1 ChannelClogged, 2 NoConnection, 3 Ok because the peer is unknown *)
Definition send_sync (c : cfg) (s : st) (tag ln : N) : st * N :=
  let a := sa s in let h := sh s in let g := sg s in
  match a_sink h with
  | None => (s, 3)
  | Some k =>
      if live s k then
        if len (syncq a) <? cap_s c then
          let n := mkN k true tag ln in
          (mkSt (per s) (mkA (a_alive a) (syncq a ++ [n]) (asyncq a) (waiters a) (parked a) (sink a) (hints a))
                (sl s) (sb s) h
                (mkG (accepted g ++ [n]) (delivered g) (fclog g) (async_ok g) (async_err g) (nyes g) (bad g))
                (later_hints s), 0)
        else if a_clogged h then (s, 1)
        else (mkSt (per s) a (sl s) (sb s) (mkH (a_events h) (a_sink h) true)
                   (mkG (accepted g) (delivered g) (fclog g ++ [k]) (async_ok g) (async_err g) (nyes g) (bad g))
                   (later_hints s), 1)
      else (s, 2)
  end.

(* result codes: 0 future created (its completion shows in async_ok / async_err / waiters),
   3 Err(PeerDoesntExist) because the peer is unknown *)
Definition send_async (s : st) (tag ln : N) : st * N :=
  let a := sa s in let h := sh s in let g := sg s in
  match a_sink h with
  | None => (s, 3)
  | Some k =>
      if live s k then
        (mkSt (per s) (mkA (a_alive a) (syncq a) (asyncq a) (waiters a ++ [mkN k false tag ln]) (parked a)
                           (sink a) (hints a))
              (sl s) (sb s) h g (later_hints s), 0)
      else
        (mkSt (per s) a (sl s) (sb s) h
              (mkG (accepted g) (delivered g) (fclog g) (async_ok g) (async_err g + 1) (nyes g) (bad g))
              (later_hints s), 0)
  end.

Inductive action :=
| ASendSync (tag ln : N)
| ASendAsync (tag ln : N)
| AGate (w r : bool)
| AUserRecv
| APollA
| ACloseA
| ACloseB
| AKill
| AReopen.

Inductive res :=
| RCode (x : N)
| RUser (e : uev)
| REvents (l : list hev).

Definition reopen (s : st) : st * N :=
  if a_alive (sa s) || b_alive (sb s) then (s, 1)
  else
    let p := per s + 1 in
    let b := sb s in let h := sh s in
    (mkSt p (mkA true [] [] [] None [] (hd [] (later_hints s))) (mkL true true [] false)
          (mkB true false (notifq b) (b_events b ++ [HOpened p]) (b_peers b))
          (mkH (a_events h ++ [HOpened p]) (a_sink h) (a_clogged h)) (sg s) (tl (later_hints s)), 0).

Definition act (c : cfg) (s : st) (x : action) : st * res :=
  match x with
  | ASendSync t l => let '(s1, r) := send_sync c s t l in (s1, RCode r)
  | ASendAsync t l => let '(s1, r) := send_async s t l in (s1, RCode r)
  | AGate w r => (mkSt (per s) (sa s) (mkL w r (carrier (sl s)) (killed (sl s))) (sb s) (sh s) (sg s) (later_hints s), RCode 0)
  | AUserRecv => let '(s1, e) := h_poll s in (s1, RUser e)
  | APollA =>
      let h := sh s in
      let '(snk, clg) := pa_events (a_events h) (a_sink h) (a_clogged h) in
      (mkSt (per s) (sa s) (sl s) (sb s) (mkH [] snk clg) (sg s) (later_hints s), REvents (a_events h))
  | ACloseA => if a_alive (sa s) then (close_a false s, RCode 0) else (s, RCode 1)
  | ACloseB => if b_alive (sb s) then (close_b false s, RCode 0) else (s, RCode 1)
  | AKill =>
      if a_alive (sa s) || b_alive (sb s) then
        let l := sl s in
        let s1 := mkSt (per s) (sa s) (mkL (wgate l) (rgate l) [] true) (sb s) (sh s) (sg s) (later_hints s) in
        (* Connection A always has a read pending on the reverse carrier: it sees the error now;
           Connection B sees it when it is next polled (settle) *)
        (if a_alive (sa s) then close_a true s1 else s1, RCode 0)
      else (s, RCode 1)
  | AReopen => let '(s1, r) := reopen s in (s1, RCode r)
  end.

Definition step (c : cfg) (s : st) (x : action) : st * res :=
  let '(s1, r) := act c s x in (settle c s1, r).

Fixpoint run (c : cfg) (s : st) (xs : list action) : st * list res :=
  match xs with
  | [] => (s, [])
  | x :: t => let '(s1, r) := step c s x in let '(s2, rs) := run c s1 t in (s2, r :: rs)
  end.

Definition final (c : cfg) (hs : list (list bool)) (xs : list action) : st := fst (run c (init hs) xs).

(* ---- projections used by the statements ---- *)
Definition sel (k : N) (m : bool) (n : notif) : bool := (n_per n =? k) && Bool.eqb (n_sync n) m.
Definition proj (k : N) (m : bool) (l : list notif) : list notif := filter (sel k m) l.
Definition prefix {A} (x y : list A) : Prop := exists r, y = x ++ r.
