(* C12 — proofs about the model of Model.v. *)
From Coq Require Import List NArith Bool Lia.
From Coq Require Import ZifyBool ZifyNat ZifyN.
From V.C12 Require Import Model.
Import ListNotations.
Open Scope N_scope.
Arguments N.add : simpl never.
Arguments N.sub : simpl never.
Arguments N.eqb : simpl never.
Arguments N.ltb : simpl never.
Arguments N.leb : simpl never.
Arguments N.of_nat : simpl never.

(* ------------------------------------------------------------------ lists *)
Definition opt_list {A} (o : option A) : list A := match o with Some x => [x] | None => [] end.

Lemma prefix_refl {A} (x : list A) : prefix x x.
Proof. exists []. now rewrite app_nil_r. Qed.

Lemma prefix_app_l {A} (x y z : list A) : prefix (x ++ y) z -> prefix x z.
Proof. intros [r ->]. exists (y ++ r). now rewrite app_assoc. Qed.

Lemma prefix_trans {A} (x y z : list A) : prefix x y -> prefix y z -> prefix x z.
Proof. intros [r ->] [r' ->]. exists (r ++ r'). now rewrite app_assoc. Qed.

Lemma prefix_app_r {A} (x y : list A) : prefix x (x ++ y).
Proof. now exists y. Qed.

Lemma prefix_ext {A} (x y z : list A) : prefix x y -> prefix x (y ++ z).
Proof. intros [r ->]. exists (r ++ z). now rewrite app_assoc. Qed.

Lemma prefix_nil_r {A} (x : list A) : prefix x [] -> x = [].
Proof. intros [r H]. destruct x; [reflexivity|discriminate]. Qed.

Lemma filter_none {A} (f : A -> bool) l : Forall (fun x => f x = false) l -> filter f l = [].
Proof. induction 1 as [|x l Hx _ IH]; cbn; [reflexivity|]. now rewrite Hx. Qed.

Lemma Forall_app_iff {A} (P : A -> Prop) l1 l2 : Forall P (l1 ++ l2) <-> Forall P l1 /\ Forall P l2.
Proof. apply Forall_app. Qed.

Lemma len_app {A} (l1 l2 : list A) : len (l1 ++ l2) = len l1 + len l2.
Proof. unfold len. rewrite app_length. lia. Qed.

Lemma len_cons {A} (x : A) l : len (x :: l) = len l + 1.
Proof. unfold len. cbn [length]. lia. Qed.

Lemma len_nil {A} : len (@nil A) = 0.
Proof. reflexivity. Qed.

(* ------------------------------------------------------------------ mode-pure predicates *)
Definition pure (f : notif -> bool) : Prop :=
  (forall n, f n = true -> n_sync n = true) \/ (forall n, f n = true -> n_sync n = false).

Lemma sel_pure k m : pure (sel k m).
Proof.
  destruct m; [left|right]; intros n H; unfold sel in H;
    apply andb_true_iff in H; destruct H as [_ H]; destruct (n_sync n); cbn in H; congruence.
Qed.

Lemma pure_kill f : pure f -> forall sq aq,
  Forall (fun n => n_sync n = true) sq -> Forall (fun n => n_sync n = false) aq ->
  filter f sq = [] \/ filter f aq = [].
Proof.
  intros [H|H] sq aq Hs Ha; [right|left]; apply filter_none.
  - eapply Forall_impl; [|exact Ha]. cbn. intros n Hn. destruct (f n) eqn:E; [|reflexivity].
    apply H in E. congruence.
  - eapply Forall_impl; [|exact Hs]. cbn. intros n Hn. destruct (f n) eqn:E; [|reflexivity].
    apply H in E. congruence.
Qed.

Lemma filter_jump {A} (f : A -> bool) (n : A) xs rest :
  filter f xs = [] \/ f n = false -> filter f (n :: xs ++ rest) = filter f (xs ++ n :: rest).
Proof.
  intros H. change (n :: xs ++ rest) with ([n] ++ xs ++ rest).
  change (xs ++ n :: rest) with (xs ++ [n] ++ rest). rewrite !filter_app.
  destruct H as [H|H]; [now rewrite H|]. cbn. now rewrite H.
Qed.

(* ------------------------------------------------------------------ the outbound loop *)
Definition lflat (L : lst) : list notif :=
  l_ca L ++ l_sk L ++ opt_list (l_cur L) ++ l_sq L ++ l_aq L.

Definition T1L (L : lst) : Prop :=
  Forall (fun n => n_sync n = true) (l_sq L) /\ Forall (fun n => n_sync n = false) (l_aq L).

Lemma choose_spec h sq aq :
  match choose h sq aq with
  | (PSync, _, _) => sq <> []
  | (PAsync, _, _) => aq <> []
  | (PNone, _, _) => sq = [] /\ aq = []
  end.
Proof.
  unfold choose. destruct sq as [|x sq], aq as [|y aq]; cbn.
  - split; reflexivity.
  - destruct h as [|[|] h]; cbn; congruence.
  - destruct h as [|[|] h]; cbn; congruence.
  - destruct h as [|[|] h]; cbn; congruence.
Qed.

(* a_next moves at most one notification into the `cur` slot *)
Lemma a_next_spec L : T1L L ->
  let '(nx, L1) := a_next L in
  l_cur L1 = None /\ T1L L1 /\ l_sk L1 = l_sk L /\ l_ca L1 = l_ca L /\
  (nx = None -> l_cur L = None /\ l_sq L = [] /\ l_aq L = [] /\ L1 = L) /\
  (forall f, pure f ->
     filter f (l_ca L1 ++ l_sk L1 ++ opt_list nx ++ l_sq L1 ++ l_aq L1) = filter f (lflat L)) /\
  (forall P : notif -> Prop, Forall P (lflat L) ->
     Forall P (l_ca L1 ++ l_sk L1 ++ opt_list nx ++ l_sq L1 ++ l_aq L1)).
Proof.
  intros [Hs Ha]. unfold a_next, lflat. destruct (l_cur L) as [n|] eqn:Ec.
  - cbn. repeat split; auto; try discriminate.
  - pose proof (choose_spec (l_h L) (l_sq L) (l_aq L)) as Hc.
    destruct (choose (l_h L) (l_sq L) (l_aq L)) as [[p h'] b].
    destruct p.
    + destruct (l_sq L) as [|n sq'] eqn:Esq; [congruence|]. cbn.
      inversion Hs; subst. repeat split; auto; try discriminate.
    + destruct (l_aq L) as [|n aq'] eqn:Eaq; [congruence|].
      destruct (l_sq L) as [|x sq'] eqn:Esq; cbn.
      * inversion Ha; subst. repeat split; auto; try discriminate.
      * inversion Ha; subst. repeat split; auto; try discriminate.
        -- intros f Hf. rewrite !filter_app. do 2 f_equal.
           apply (filter_jump f n (x :: sq') aq').
           destruct (pure_kill f Hf (x :: sq') (n :: aq') Hs Ha) as [E|E]; [left; exact E|right].
           cbn in E. destruct (f n); [discriminate|reflexivity].
        -- intros P HP. rewrite !Forall_app_iff in HP |- *. cbn in HP |- *.
           destruct HP as (G1 & G2 & G3). split; [exact G1|split; [exact G2|]].
           change (x :: sq' ++ n :: aq') with ((x :: sq') ++ [n] ++ aq') in G3.
           change (n :: x :: sq' ++ aq') with ([n] ++ (x :: sq') ++ aq').
           rewrite !Forall_app_iff in G3 |- *. tauto.
    + destruct Hc as [E1 E2]. rewrite E1, E2. cbn. rewrite Ec.
      repeat split; auto; try rewrite E1; try rewrite E2; auto.
Qed.

Lemma poll_ready_spec wg sk ca sk' ca' :
  poll_ready wg sk ca = Some (sk', ca') -> ca' ++ sk' = ca ++ sk /\ exists x, ca' = ca ++ x.
Proof.
  unfold poll_ready. destruct (sink_bytes sk <? BOUNDARY).
  - intros H; inversion H; subst. split; [reflexivity|]. exists []. now rewrite app_nil_r.
  - destruct wg; [|discriminate]. intros H; inversion H; subst.
    rewrite app_nil_r. split; [reflexivity|]. now exists sk.
Qed.

Lemma a_loop_core f : pure f -> forall fuel c wg L, T1L L ->
  match a_loop fuel c wg L with
  | (false, L') => T1L L' /\ filter f (lflat L') = filter f (lflat L)
  | (true, L') => exists r, filter f (lflat L) = filter f (l_ca L') ++ r
  end.
Proof.
  intros Hf fuel c wg. induction fuel as [|fuel IH]; intros L HT; cbn [a_loop].
  - split; [exact HT|reflexivity].
  - pose proof (a_next_spec L HT) as HN. destruct (a_next L) as [nx L1].
    destruct HN as (Hcur & HT1 & Hsk & Hca & Hnone & Hfl & _).
    specialize (Hfl f Hf).
    destruct nx as [n|].
    + destruct (poll_ready wg (l_sk L1) (l_ca L1)) as [[sk' ca']|] eqn:Epr.
      * apply poll_ready_spec in Epr. destruct Epr as [Eapp _].
        assert (Hfl' : filter f (ca' ++ sk' ++ [n] ++ l_sq L1 ++ l_aq L1) = filter f (lflat L)).
        { rewrite <- Hfl. rewrite !app_assoc. rewrite Eapp. reflexivity. }
        destruct (max_out c <? n_len n).
        -- cbn. eexists. rewrite <- Hfl'. rewrite filter_app. reflexivity.
        -- specialize (IH (set_out (sk' ++ [n]) ca' L1)).
           assert (HT2 : T1L (set_out (sk' ++ [n]) ca' L1)) by exact HT1.
           specialize (IH HT2).
           assert (Efl : filter f (lflat (set_out (sk' ++ [n]) ca' L1)) = filter f (lflat L)).
           { rewrite <- Hfl'. unfold lflat, set_out. cbn. rewrite <- !app_assoc. reflexivity. }
           destruct (a_loop fuel c wg (set_out (sk' ++ [n]) ca' L1)) as [[|] L'].
           ++ destruct IH as [r Hr]. exists r. rewrite <- Efl. exact Hr.
           ++ destruct IH as [HT' Hr]. split; [exact HT'|]. now rewrite Hr.
      * split; [exact HT1|]. rewrite <- Hfl. unfold lflat, set_cur. cbn. reflexivity.
    + destruct (Hnone eq_refl) as (_ & _ & _ & ->). split; [exact HT|reflexivity].
Qed.

Lemma a_loop_forall (P : notif -> Prop) : forall fuel c wg L, T1L L ->
  Forall P (lflat L) -> Forall P (lflat (snd (a_loop fuel c wg L))).
Proof.
  induction fuel as [|fuel IH]; intros c wg L HT HP; cbn [a_loop].
  - exact HP.
  - pose proof (a_next_spec L HT) as HN. destruct (a_next L) as [nx L1].
    destruct HN as (Hcur & HT1 & Hsk & Hca & Hnone & _ & HPl). specialize (HPl P HP).
    destruct nx as [n|].
    + destruct (poll_ready wg (l_sk L1) (l_ca L1)) as [[sk' ca']|] eqn:Epr.
      * apply poll_ready_spec in Epr. destruct Epr as [Eapp _].
        assert (HP' : Forall P (ca' ++ sk' ++ [n] ++ l_sq L1 ++ l_aq L1)).
        { rewrite !app_assoc. rewrite Eapp. rewrite <- !app_assoc. exact HPl. }
        destruct (max_out c <? n_len n).
        -- apply Forall_app_iff in HP'. destruct HP' as [A B].
           apply Forall_app_iff in B. destruct B as [B C].
           apply Forall_app_iff in C. destruct C as [_ C].
           cbn. unfold lflat, set_out. cbn.
           apply Forall_app_iff; split; [exact A|]. apply Forall_app_iff; split; [exact B|exact C].
        -- apply IH; [exact HT1|]. unfold lflat, set_out. cbn. rewrite <- !app_assoc. exact HP'.
      * cbn. unfold lflat, set_cur. cbn. exact HPl.
    + cbn. destruct (Hnone eq_refl) as (_ & _ & _ & ->). exact HP.
Qed.

(* everything that enters the sink (and hence the carrier) passed the sender's size check *)
Lemma a_loop_out : forall fuel c wg L,
  Forall (fun n => n_len n <= max_out c) (l_ca L ++ l_sk L) ->
  let L' := snd (a_loop fuel c wg L) in
  Forall (fun n => n_len n <= max_out c) (l_ca L' ++ l_sk L').
Proof.
  induction fuel as [|fuel IH]; intros c wg L HP; cbn [a_loop].
  - exact HP.
  - assert (HN : l_sk (snd (a_next L)) = l_sk L /\ l_ca (snd (a_next L)) = l_ca L).
    { unfold a_next. destruct (l_cur L); [cbn; auto|].
      destruct (choose (l_h L) (l_sq L) (l_aq L)) as [[p h'] b].
      destruct p, (l_sq L), (l_aq L); cbn; auto. }
    destruct (a_next L) as [nx L1]. cbn in HN. destruct HN as [Hsk Hca].
    destruct nx as [n|]; [|cbn; now rewrite Hsk, Hca].
    destruct (poll_ready wg (l_sk L1) (l_ca L1)) as [[sk' ca']|] eqn:Epr.
    + apply poll_ready_spec in Epr. destruct Epr as [Eapp _].
      rewrite Hsk, Hca in Eapp.
      destruct (max_out c <? n_len n) eqn:Eo.
      * cbn. rewrite Eapp. exact HP.
      * apply IH. cbn. rewrite app_assoc, Eapp. apply Forall_app_iff. split; [exact HP|].
        constructor; [lia|constructor].
    + cbn. now rewrite Hsk, Hca.
Qed.

(* the carrier only grows during the loop *)
Lemma a_loop_carrier : forall fuel c wg L, exists x, l_ca (snd (a_loop fuel c wg L)) = l_ca L ++ x.
Proof.
  induction fuel as [|fuel IH]; intros c wg L; cbn [a_loop].
  - exists []. now rewrite app_nil_r.
  - assert (HN : l_sk (snd (a_next L)) = l_sk L /\ l_ca (snd (a_next L)) = l_ca L).
    { unfold a_next. destruct (l_cur L); [cbn; auto|].
      destruct (choose (l_h L) (l_sq L) (l_aq L)) as [[p h'] b].
      destruct p, (l_sq L), (l_aq L); cbn; auto. }
    destruct (a_next L) as [nx L1]. cbn in HN. destruct HN as [Hsk Hca].
    destruct nx as [n|]; [|cbn; exists []; now rewrite Hca, app_nil_r].
    destruct (poll_ready wg (l_sk L1) (l_ca L1)) as [[sk' ca']|] eqn:Epr.
    + apply poll_ready_spec in Epr. destruct Epr as [_ [x Ex]]. rewrite Hca in Ex.
      destruct (max_out c <? n_len n).
      * cbn. now exists x.
      * destruct (IH c wg (set_out (sk' ++ [n]) ca' L1)) as [y Ey]. rewrite Ey. cbn.
        exists (x ++ y). rewrite Ex. now rewrite app_assoc.
    + cbn. exists []. now rewrite Hca, app_nil_r.
Qed.

(* ------------------------------------------------------------------ projections *)
Lemma proj_app k m a b : proj k m (a ++ b) = proj k m a ++ proj k m b.
Proof. apply filter_app. Qed.

Lemma proj_other p X k m : Forall (fun n => n_per n = p) X -> k <> p -> proj k m X = [].
Proof.
  intros H Hk. apply filter_none. eapply Forall_impl; [|exact H]. cbn. intros n Hn.
  unfold sel. destruct (n_per n =? k) eqn:E; [|reflexivity]. lia.
Qed.

Lemma proj_above p X k m : Forall (fun n => n_per n <= p) X -> p < k -> proj k m X = [].
Proof.
  intros H Hk. apply filter_none. eapply Forall_impl; [|exact H]. cbn. intros n Hn.
  unfold sel. destruct (n_per n =? k) eqn:E; [|reflexivity]. lia.
Qed.

Lemma pre_from_eq p acc D X :
  (forall m, exists r, proj p m acc = proj p m D ++ proj p m X ++ r) ->
  Forall (fun n => n_per n = p) X ->
  (forall k m, prefix (proj k m D) (proj k m acc)) ->
  forall k m, prefix (proj k m (D ++ X)) (proj k m acc).
Proof.
  intros He HX HD k m. destruct (N.eq_dec k p) as [->|Hk].
  - destruct (He m) as [r Hr]. rewrite Hr, proj_app. exists r. now rewrite <- app_assoc.
  - rewrite proj_app. rewrite (proj_other p X k m HX Hk). rewrite app_nil_r. apply HD.
Qed.

(* ------------------------------------------------------------------ the FIFO invariant *)
Definition pipe (s : st) : list notif :=
  carrier (sl s) ++ sink (sa s) ++ opt_list (parked (sa s)) ++ syncq (sa s) ++ asyncq (sa s).

Definition seen (s : st) : list notif := delivered (sg s) ++ notifq (sb s).

Record InvC (s : st) : Prop := mkInvC {
  c_t1s : Forall (fun n => n_sync n = true) (syncq (sa s));
  c_t1a : Forall (fun n => n_sync n = false) (asyncq (sa s));
  c_t1w : Forall (fun n => n_sync n = false) (waiters (sa s));
  c_t2 : Forall (fun n => n_per n = per s) (pipe s);
  c_t2w : Forall (fun n => n_per n = per s) (waiters (sa s));
  c_t3 : Forall (fun n => n_per n <= per s) (accepted (sg s));
  c_j : b_alive (sb s) = true ->
        (b_peers (sb s) = true /\ b_events (sb s) = []) \/
        (exists pre, b_events (sb s) = pre ++ [HOpened (per s)]);
  (* no loss while both ends are running: everything accepted in this period is delivered,
     or sits in the pipeline, in order *)
  c_eq : a_alive (sa s) = true -> b_alive (sb s) = true ->
         forall m, proj (per s) m (accepted (sg s)) = proj (per s) m (seen s ++ pipe s);
  (* what was delivered or can still be delivered is a prefix of what was accepted *)
  c_pre : forall k m,
          prefix (proj k m (seen s ++ (if b_alive (sb s) then carrier (sl s) else [])))
                 (proj k m (accepted (sg s)))
}.

Lemma c_pre_seen s : InvC s -> forall k m, prefix (proj k m (seen s)) (proj k m (accepted (sg s))).
Proof.
  intros H k m. pose proof (c_pre s H k m) as P. rewrite proj_app in P. eapply prefix_app_l. exact P.
Qed.

Lemma t2_carrier s : InvC s -> Forall (fun n => n_per n = per s) (carrier (sl s)).
Proof. intros H. pose proof (c_t2 s H) as P. unfold pipe in P. apply Forall_app_iff in P. tauto. Qed.

Lemma init_invC hs : InvC (init hs).
Proof.
  constructor; cbn; try apply Forall_nil; try discriminate.
  intros k m. apply prefix_refl.
Qed.

Lemma close_a_invC notify s : InvC s -> InvC (close_a notify s).
Proof.
  intros H. pose proof (t2_carrier s H) as Hc. destruct H.
  constructor; cbn; try apply Forall_nil; auto; try discriminate.
  unfold pipe. cbn. rewrite app_nil_r. exact Hc.
Qed.

Lemma close_b_invC notify s : InvC s -> InvC (close_b notify s).
Proof.
  intros H. pose proof (c_pre_seen s H) as Hp. destruct H.
  constructor; cbn; auto; try discriminate.
  intros k m. unfold seen in *. cbn. rewrite app_nil_r. apply Hp.
Qed.

Ltac reassoc := repeat rewrite <- app_assoc; cbn [app]; try reflexivity.

Lemma b_run_invC c : forall fuel s, InvC s -> InvC (b_run fuel c s).
Proof.
  induction fuel as [|fuel IH]; intros s H; cbn [b_run]; [exact H|].
  destruct (b_alive (sb s)) eqn:Eb; cbn [negb]; [|exact H].
  destruct (reserved (sb s) || (len (notifq (sb s)) <? cap_n c)); cbn [negb]; [|exact H].
  destruct (killed (sl s)); [apply close_b_invC; exact H|].
  (* the state with the reservation taken satisfies the invariant *)
  assert (H1 : InvC (mkSt (per s) (sa s) (sl s)
                      (mkB true true (notifq (sb s)) (b_events (sb s)) (b_peers (sb s)))
                      (sh s) (sg s) (later_hints s))).
  { destruct H. constructor; unfold seen, pipe in *; cbn in *; rewrite ?Eb in *; auto. }
  destruct (rgate (sl s)); cbn [negb]; [|exact H1].
  destruct (carrier (sl s)) as [|n rest] eqn:Ec.
  - destruct (a_alive (sa s)); [exact H1|]. apply close_b_invC. exact H1.
  - destruct (max_in c <? n_len n); [apply close_b_invC; exact H1|].
    apply IH. destruct H. unfold seen, pipe in *; cbn in *; rewrite ?Eb, ?Ec in *.
    constructor; unfold seen, pipe; cbn; auto.
    + inversion c_t4; subst. assumption.
    + intros Ha _ m. rewrite (c_eq0 Ha eq_refl m). f_equal. reassoc.
    + intros k m. specialize (c_pre0 k m).
      replace ((delivered (sg s) ++ notifq (sb s) ++ [n]) ++ rest)
        with ((delivered (sg s) ++ notifq (sb s)) ++ n :: rest) by reassoc.
      exact c_pre0.
Qed.

Lemma Forall_firstn' {A} (P : A -> Prop) n l : Forall P l -> Forall P (firstn n l).
Proof. intros H. rewrite <- (firstn_skipn n l) in H. apply Forall_app_iff in H. tauto. Qed.

Lemma Forall_skipn' {A} (P : A -> Prop) n l : Forall P l -> Forall P (skipn n l).
Proof. intros H. rewrite <- (firstn_skipn n l) in H. apply Forall_app_iff in H. tauto. Qed.

Lemma a_round_invC c s : InvC s -> InvC (fst (a_round c s)).
Proof.
  intros H. unfold a_round.
  destruct (a_alive (sa s)) eqn:Ea; cbn [negb]; [|exact H].
  set (L0 := mkLst (parked (sa s)) (syncq (sa s)) (asyncq (sa s)) (sink (sa s)) (carrier (sl s))
                   (hints (sa s)) (bad (sg s))).
  set (fuel := S (opt_len (parked (sa s)) + length (syncq (sa s)) + length (asyncq (sa s)))).
  assert (HT0 : T1L L0) by (split; [exact (c_t1s s H)|exact (c_t1a s H)]).
  assert (Hflat : lflat L0 = pipe s) by reflexivity.
  pose proof (fun f Hf => a_loop_core f Hf fuel c (wgate (sl s)) L0 HT0) as Hcore.
  pose proof (a_loop_forall (fun n => n_per n = per s) fuel c (wgate (sl s)) L0 HT0) as Hfor.
  rewrite Hflat in Hfor. specialize (Hfor (c_t2 s H)).
  destruct (a_loop fuel c (wgate (sl s)) L0) as [cl L]. cbn [snd] in Hfor.
  assert (HforC : Forall (fun n => n_per n = per s) (l_ca L)).
  { unfold lflat in Hfor. apply Forall_app_iff in Hfor. tauto. }
  pose proof (c_pre_seen s H) as Hseen.
  destruct cl.
  - (* start_send refused a notification: the sender closes *)
    cbn [fst]. constructor; cbn; try apply Forall_nil; try discriminate.
    + unfold pipe. cbn. rewrite app_nil_r. exact HforC.
    + exact (c_t3 s H).
    + exact (c_j s H).
    + intros k m. unfold seen. cbn. destruct (b_alive (sb s)) eqn:Eb.
      * apply (pre_from_eq (per s)); [|exact HforC|exact Hseen].
        intros m'. destruct (Hcore (sel (per s) m') (sel_pure _ _)) as [r Hr].
        exists r. rewrite (c_eq s H Ea Eb m'). rewrite proj_app. rewrite Hflat in Hr.
        unfold proj at 2. rewrite Hr. reflexivity.
      * pose proof (c_pre s H k m) as P. rewrite Eb in P. exact P.
  - assert (HTL : T1L L) by (destruct (Hcore (sel 0 true) (sel_pure _ _)); assumption).
    assert (Hfl : forall f, pure f -> filter f (lflat L) = filter f (pipe s)).
    { intros f Hf. destruct (Hcore f Hf) as [_ E]. rewrite E, Hflat. reflexivity. }
    destruct HTL as [HTs HTa].
    destruct (b_alive (sb s)) eqn:Eb; cbn [negb].
    + (* still open: flush, then the blocked async senders that fit are admitted *)
      cbn [fst].
      set (free := N.to_nat (cap_a c - len (l_aq L))).
      assert (Hflush : forall sk ca, (sk, ca) = (if wgate (sl s) then ([], l_ca L ++ l_sk L) else (l_sk L, l_ca L)) ->
                ca ++ sk = l_ca L ++ l_sk L /\ Forall (fun n => n_per n = per s) ca).
      { intros sk ca E. unfold lflat in Hfor. rewrite !Forall_app_iff in Hfor.
        destruct (wgate (sl s)); inversion E; subst.
        - rewrite app_nil_r. split; [reflexivity|]. apply Forall_app_iff. tauto.
        - split; [reflexivity|tauto]. }
      destruct (if wgate (sl s) then ([], l_ca L ++ l_sk L) else (l_sk L, l_ca L)) as [sk ca] eqn:Efl.
      destruct (Hflush sk ca eq_refl) as [Ecs Hca]. clear Hflush.
      assert (Epipe : forall adm, ca ++ sk ++ opt_list (l_cur L) ++ l_sq L ++ l_aq L ++ adm = lflat L ++ adm).
      { intros adm. unfold lflat. rewrite (app_assoc ca sk). rewrite Ecs. reassoc. }
      pose proof (c_t1w s H) as Hw1. pose proof (c_t2w s H) as Hw2.
      constructor; unfold seen, pipe; cbn; rewrite ?Eb.
      * exact HTs.
      * apply Forall_app_iff. split; [exact HTa|]. apply Forall_firstn'. exact Hw1.
      * apply Forall_skipn'. exact Hw1.
      * rewrite Epipe. apply Forall_app_iff. split; [exact Hfor|]. apply Forall_firstn'. exact Hw2.
      * apply Forall_skipn'. exact Hw2.
      * apply Forall_app_iff. split; [exact (c_t3 s H)|].
        eapply Forall_impl; [|apply Forall_firstn'; exact Hw2]. cbn. intros n Hn. lia.
      * intros _. exact (c_j s H Eb).
      * intros _ _ m. rewrite Epipe. rewrite !filter_app.
        pose proof (c_eq s H Ea Eb m) as E. unfold proj, seen in E. rewrite !filter_app in E.
        rewrite E. rewrite (Hfl _ (sel_pure _ _)). reassoc.
      * intros k m. rewrite (filter_app _ (accepted (sg s))). apply prefix_ext.
        apply (pre_from_eq (per s) (accepted (sg s)) (delivered (sg s) ++ notifq (sb s)) ca);
          [|exact Hca|exact Hseen].
        intros m'. pose proof (c_eq s H Ea Eb m') as E. unfold proj, seen in E |- *.
        rewrite filter_app in E. rewrite <- (Hfl _ (sel_pure (per s) m')) in E.
        unfold lflat in E. rewrite (app_assoc (l_ca L)) in E. rewrite <- Ecs in E.
        rewrite <- !app_assoc in E. rewrite (filter_app _ ca) in E.
        eexists. rewrite E. reflexivity.
    + (* the receiver is gone: EOF on the inbound substream *)
      cbn [fst]. destruct (if wgate (sl s) then ([], l_ca L ++ l_sk L) else (l_sk L, l_ca L)) as [sk ca] eqn:Efl.
      assert (Hca : Forall (fun n => n_per n = per s) ca).
      { unfold lflat in Hfor. rewrite !Forall_app_iff in Hfor.
        destruct (wgate (sl s)); inversion Efl; subst; [apply Forall_app_iff|]; tauto. }
      constructor; cbn; try apply Forall_nil; try discriminate.
      * unfold pipe. cbn. rewrite app_nil_r. exact Hca.
      * exact (c_t3 s H).
      * rewrite Eb. discriminate.
      * intros k m. unfold seen. cbn. rewrite Eb.
        pose proof (c_pre s H k m) as P. rewrite Eb in P. exact P.
Qed.

Lemma rounds_invC c : forall fuel s, InvC s -> InvC (rounds fuel c s).
Proof.
  induction fuel as [|fuel IH]; intros s H; cbn [rounds]; [exact H|].
  pose proof (a_round_invC c s H) as H1. destruct (a_round c s) as [s1 again]. cbn [fst] in H1.
  pose proof (b_run_invC c (S (length (carrier (sl s1)))) s1 H1) as H2.
  destruct again; [apply IH; exact H2|].
  destruct (a_alive _ && negb _); [apply a_round_invC|]; exact H2.
Qed.

Lemma settle_invC c s : InvC s -> InvC (settle c s).
Proof. intros H. unfold settle. apply rounds_invC. apply b_run_invC. exact H. Qed.

Lemma filter_insert_mid {A} (f : A -> bool) X sq n aq :
  filter f aq = [] \/ f n = false ->
  filter f (X ++ (sq ++ [n]) ++ aq) = filter f (X ++ sq ++ aq) ++ filter f [n].
Proof.
  intros H. rewrite !filter_app. destruct H as [H|H].
  - rewrite H. now rewrite !app_nil_r, app_assoc.
  - cbn. rewrite H. now rewrite !app_nil_r.
Qed.

Lemma send_sync_invC c s t l : InvC s -> InvC (fst (send_sync c s t l)).
Proof.
  intros H. unfold send_sync. destruct (a_sink (sh s)) as [k|]; [|exact H].
  unfold live. destruct (k =? per s) eqn:Ek; cbn [andb]; [|exact H].
  destruct (a_alive (sa s)) eqn:Ea; [|exact H].
  assert (k = per s) by lia. subst k.
  destruct (len (syncq (sa s)) <? cap_s c).
  - cbn [fst]. set (n := mkN (per s) true t l).
    pose proof (c_t2 s H) as T2. unfold pipe in T2. rewrite !Forall_app_iff in T2.
    destruct T2 as (T2a & T2b & T2c & T2d & T2e).
    constructor; unfold seen, pipe; cbn.
    + apply Forall_app_iff. split; [exact (c_t1s s H)|]. repeat constructor.
    + exact (c_t1a s H).
    + exact (c_t1w s H).
    + rewrite !Forall_app_iff. repeat split; auto; repeat constructor.
    + exact (c_t2w s H).
    + apply Forall_app_iff. split; [exact (c_t3 s H)|]. repeat constructor. cbn. lia.
    + exact (c_j s H).
    + intros _ Eb m. rewrite filter_app. pose proof (c_eq s H Ea Eb m) as E.
      unfold proj, seen, pipe in E. rewrite E.
      replace ((delivered (sg s) ++ notifq (sb s)) ++ carrier (sl s) ++ sink (sa s) ++
               opt_list (parked (sa s)) ++ (syncq (sa s) ++ [n]) ++ asyncq (sa s))
        with (((delivered (sg s) ++ notifq (sb s)) ++ carrier (sl s) ++ sink (sa s) ++
               opt_list (parked (sa s))) ++ (syncq (sa s) ++ [n]) ++ asyncq (sa s)) by reassoc.
      rewrite filter_insert_mid.
      * f_equal. f_equal. reassoc.
      * destruct m; [left|right; unfold sel; cbn; apply andb_false_r]. apply filter_none.
        eapply Forall_impl; [|exact (c_t1a s H)]. cbn. intros x Hx. unfold sel.
        rewrite Hx. cbn. apply andb_false_r.
    + intros k m. rewrite (filter_app _ (accepted (sg s))). apply prefix_ext. exact (c_pre s H k m).
  - destruct (a_clogged (sh s)); [exact H|]. cbn [fst].
    destruct H. constructor; unfold seen, pipe in *; cbn in *; auto.
Qed.

Lemma send_async_invC s t l : InvC s -> InvC (fst (send_async s t l)).
Proof.
  intros H. unfold send_async. destruct (a_sink (sh s)) as [k|]; [|exact H].
  unfold live. destruct (k =? per s) eqn:Ek; cbn [andb].
  - destruct (a_alive (sa s)) eqn:Ea.
    + assert (k = per s) by lia. subst k. cbn [fst].
      destruct H. constructor; unfold seen, pipe in *; cbn in *; auto.
      * apply Forall_app_iff. split; [assumption|]. repeat constructor.
      * apply Forall_app_iff. split; [assumption|]. repeat constructor.
    + cbn [fst]. destruct H. constructor; unfold seen, pipe in *; cbn in *; auto.
  - cbn [fst]. destruct H. constructor; unfold seen, pipe in *; cbn in *; auto.
Qed.

Lemma h_poll_invC s : InvC s -> InvC (fst (h_poll s)).
Proof.
  intros H. unfold h_poll. destruct (b_events (sb s)) as [|e es] eqn:Ee.
  - destruct (b_peers (sb s)) eqn:Ep.
    + destruct (notifq (sb s)) as [|n q] eqn:Eq; [exact H|]. cbn [fst].
      destruct H. unfold seen, pipe in *. rewrite ?Eq in *.
      constructor; unfold seen, pipe; cbn; auto.
      * intros Ha Hb m. specialize (c_eq0 Ha Hb m). unfold proj in c_eq0. rewrite c_eq0. f_equal. reassoc.
      * intros k m. specialize (c_pre0 k m). unfold proj in c_pre0.
        replace ((delivered (sg s) ++ [n]) ++ q) with (delivered (sg s) ++ n :: q) by reassoc.
        exact c_pre0.
    + (* unknown peer: the queued notifications are dropped; the receiver is not running *)
      cbn [fst].
      assert (Eb : b_alive (sb s) = false).
      { destruct (b_alive (sb s)) eqn:Eb; [|reflexivity]. destruct (c_j s H Eb) as [[E _]|[pre E]].
        - congruence.
        - rewrite Ee in E. destruct pre; discriminate. }
      pose proof (c_pre_seen s H) as Hs.
      destruct H. constructor; unfold seen, pipe in *; cbn in *; rewrite ?Eb in *; auto;
        try discriminate.
      intros k m. rewrite !app_nil_r. specialize (Hs k m). rewrite proj_app in Hs.
      eapply prefix_app_l. exact Hs.
  - assert (Hj : b_alive (sb s) = true ->
             (es = [] /\ e = HOpened (per s)) \/ (exists pre, es = pre ++ [HOpened (per s)])).
    { intros Hb. destruct (c_j s H Hb) as [[_ E]|[pre E]]; [congruence|].
      rewrite Ee in E. destruct pre as [|x pre]; cbn in E; inversion E; subst.
      - left. split; reflexivity.
      - right. now exists pre. }
    destruct e as [k|k]; cbn [fst].
    + destruct H. constructor; unfold seen, pipe in *; cbn in *; auto.
      intros Hb. destruct (Hj Hb) as [[E _]|E]; [left; split; [reflexivity|exact E]|right; exact E].
    + destruct H. constructor; unfold seen, pipe in *; cbn in *; auto.
      intros Hb. destruct (Hj Hb) as [[_ E]|E]; [discriminate|right; exact E].
Qed.

Lemma reopen_invC s : InvC s -> InvC (fst (reopen s)).
Proof.
  intros H. unfold reopen.
  destruct (a_alive (sa s)) eqn:Ea; cbn [orb]; [exact H|].
  destruct (b_alive (sb s)) eqn:Eb; [exact H|]. cbn [fst].
  pose proof (c_pre_seen s H) as Hs. pose proof (c_t3 s H) as T3.
  assert (Hnone : forall m, proj (per s + 1) m (accepted (sg s)) = []).
  { intros m. apply (proj_above (per s)); [exact T3|lia]. }
  constructor; unfold seen, pipe; cbn; try apply Forall_nil.
  - eapply Forall_impl; [|exact T3]. cbn. intros n Hn. lia.
  - intros _. right. now exists (b_events (sb s)).
  - intros _ _ m. rewrite app_nil_r. specialize (Hs (per s + 1) m). unfold proj in *.
    rewrite (Hnone m) in *. symmetry. apply prefix_nil_r. exact Hs.
  - intros k m. rewrite app_nil_r. apply Hs.
Qed.

Lemma act_invC c s x : InvC s -> InvC (fst (act c s x)).
Proof.
  intros H. destruct x; cbn [act].
  - pose proof (send_sync_invC c s tag ln H). destruct (send_sync c s tag ln). exact H0.
  - pose proof (send_async_invC s tag ln H). destruct (send_async s tag ln). exact H0.
  - cbn [fst]. destruct H. constructor; unfold seen, pipe in *; cbn in *; auto.
  - pose proof (h_poll_invC s H). destruct (h_poll s). exact H0.
  - destruct (pa_events _ _ _). cbn [fst]. destruct H. constructor; unfold seen, pipe in *; cbn in *; auto.
  - destruct (a_alive (sa s)); cbn [fst]; [apply close_a_invC|]; exact H.
  - destruct (b_alive (sb s)); cbn [fst]; [apply close_b_invC|]; exact H.
  - destruct (a_alive (sa s) || b_alive (sb s)); cbn [fst]; [|exact H].
    pose proof (c_pre_seen s H) as Hs.
    pose proof (c_t2 s H) as T2. unfold pipe in T2. apply Forall_app_iff in T2. destruct T2 as [_ T2].
    destruct (a_alive (sa s)) eqn:Ea.
    + destruct H. constructor; unfold seen, pipe in *; cbn in *; try apply Forall_nil; auto;
        try discriminate.
      intros k m. specialize (Hs k m). destruct (b_alive (sb s)); rewrite app_nil_r; exact Hs.
    + destruct H. constructor; unfold seen, pipe in *; cbn in *; auto.
      * rewrite Ea. discriminate.
      * intros k m. specialize (Hs k m). destruct (b_alive (sb s)); rewrite app_nil_r; exact Hs.
  - pose proof (reopen_invC s H). destruct (reopen s). exact H0.
Qed.

Lemma step_invC c s x : InvC s -> InvC (fst (step c s x)).
Proof.
  intros H. unfold step. pose proof (act_invC c s x H) as H1. destruct (act c s x) as [s1 r].
  cbn [fst] in *. apply settle_invC. exact H1.
Qed.

Lemma run_invC c : forall xs s, InvC s -> InvC (fst (run c s xs)).
Proof.
  induction xs as [|x xs IH]; intros s H; cbn [run]; [exact H|].
  pose proof (step_invC c s x H) as H1. destruct (step c s x) as [s1 r]. cbn [fst] in H1.
  specialize (IH s1 H1). destruct (run c s1 xs) as [s2 rs]. exact IH.
Qed.

Lemma final_invC c hs xs : InvC (final c hs xs).
Proof. unfold final. apply run_invC. apply init_invC. Qed.

(* ---- the statements about ordering ---- *)
Lemma fifo_prefix c hs xs k m :
  prefix (proj k m (delivered (sg (final c hs xs)))) (proj k m (accepted (sg (final c hs xs)))).
Proof.
  pose proof (c_pre_seen _ (final_invC c hs xs) k m) as P. unfold seen in P.
  rewrite proj_app in P. eapply prefix_app_l. exact P.
Qed.

Lemma no_loss_while_open c hs xs m :
  let s := final c hs xs in
  a_alive (sa s) = true -> b_alive (sb s) = true ->
  proj (per s) m (accepted (sg s)) =
  proj (per s) m (delivered (sg s) ++ notifq (sb s) ++ carrier (sl s) ++ sink (sa s) ++
                  opt_list (parked (sa s)) ++ syncq (sa s) ++ asyncq (sa s)).
Proof.
  intros s Ha Hb. pose proof (c_eq _ (final_invC c hs xs) Ha Hb m) as E. fold s in E.
  rewrite E. unfold seen, pipe. f_equal. reassoc.
Qed.

(* what may still reach the user continues what was delivered: pending + delivered is a prefix too *)
Lemma pending_prefix c hs xs k m :
  let s := final c hs xs in
  prefix (proj k m (delivered (sg s) ++ notifq (sb s))) (proj k m (accepted (sg s))).
Proof. intros s. exact (c_pre_seen _ (final_invC c hs xs) k m). Qed.

(* ------------------------------------------------------------------ bounds, sizes, period order *)
Fixpoint mono_from (last : N) (l : list notif) : Prop :=
  match l with [] => True | n :: t => last <= n_per n /\ mono_from (n_per n) t end.

Lemma mono_snoc p n : n_per n = p -> forall l a, mono_from a l -> Forall (fun x => n_per x <= p) l -> a <= p ->
  mono_from a (l ++ [n]).
Proof.
  intros Hn. induction l as [|x l IH]; intros a Hm Hf Ha; cbn in *.
  - split; [lia|exact I].
  - destruct Hm as [H1 H2]. inversion Hf; subst. split; [exact H1|]. apply IH; auto.
Qed.

Lemma mono_app_l : forall l1 l2 a, mono_from a (l1 ++ l2) -> mono_from a l1.
Proof.
  induction l1 as [|x l1 IH]; intros l2 a H; cbn in *; [exact I|].
  destruct H as [H1 H2]. split; [exact H1|]. eapply IH. exact H2.
Qed.

Record InvB (c : cfg) (s : st) : Prop := mkInvB {
  (* the user channel never holds more than its capacity, counting the reserved slot *)
  b_res : len (notifq (sb s)) + (if reserved (sb s) then 1 else 0) <= cap_n c;
  b_out : Forall (fun n => n_len n <= max_out c) (carrier (sl s) ++ sink (sa s));
  b_seen_out : Forall (fun n => n_len n <= max_out c) (seen s);
  b_seen_in : Forall (fun n => n_len n <= max_in c) (seen s);
  b_mono : mono_from 0 (seen s);
  b_le : Forall (fun n => n_per n <= per s) (seen s)
}.

Lemma init_invB c hs : 1 <= cap_n c -> InvB c (init hs).
Proof. intros Hc. constructor; unfold seen; cbn; try apply Forall_nil; auto. unfold len. cbn. lia. Qed.

Lemma close_a_invB c notify s : InvB c s -> InvB c (close_a notify s).
Proof.
  intros H. destruct H. constructor; unfold seen in *; cbn in *; auto.
  rewrite app_nil_r. apply Forall_app_iff in b_out0. tauto.
Qed.

Lemma close_b_invB c notify s : InvB c s -> InvB c (close_b notify s).
Proof. intros H. destruct H. constructor; unfold seen in *; cbn in *; auto. lia. Qed.

Lemma b_run_invB c : forall fuel s, InvC s -> InvB c s -> InvB c (b_run fuel c s).
Proof.
  induction fuel as [|fuel IH]; intros s HC H; cbn [b_run]; [exact H|].
  pose proof (b_run_invC c 1 s HC) as P. cbn [b_run] in P.
  destruct (b_alive (sb s)) eqn:Eb; cbn [negb] in *; [|exact H].
  destruct (reserved (sb s) || (len (notifq (sb s)) <? cap_n c)) eqn:Ecan; cbn [negb] in *; [|exact H].
  destruct (killed (sl s)) eqn:Ek; [apply close_b_invB; exact H|].
  set (s1 := mkSt (per s) (sa s) (sl s)
                  (mkB true true (notifq (sb s)) (b_events (sb s)) (b_peers (sb s)))
                  (sh s) (sg s) (later_hints s)) in *.
  assert (H1 : InvB c s1).
  { destruct H. constructor; unfold seen in *; cbn in *; auto.
    destruct (reserved (sb s)); cbn in Ecan; lia. }
  destruct (rgate (sl s)) eqn:Er; cbn [negb] in *; [|exact H1].
  destruct (carrier (sl s)) as [|n rest] eqn:Ec.
  - destruct (a_alive (sa s)); [exact H1|]. apply close_b_invB. exact H1.
  - destruct (max_in c <? n_len n) eqn:Ein; [apply close_b_invB; exact H1|].
    pose proof (t2_carrier s HC) as T2. rewrite Ec in T2. inversion T2 as [|? ? Hn T2']; subst.
    apply IH; [exact P|].
    destruct H. unfold seen in *; cbn in *. rewrite Ec in *.
      assert (Ho : n_len n <= max_out c).
      { apply Forall_app_iff in b_out0. destruct b_out0 as [B _]. inversion B; subst. assumption. }
      constructor; unfold seen; cbn.
      * rewrite len_app. cbn. destruct (reserved (sb s)); cbn in Ecan; unfold len in *; cbn; lia.
      * apply Forall_app_iff in b_out0. destruct b_out0 as [B B']. inversion B; subst.
        apply Forall_app_iff. split; assumption.
      * rewrite app_assoc. apply Forall_app_iff. split; [exact b_seen_out0|]. repeat constructor. exact Ho.
      * rewrite app_assoc. apply Forall_app_iff. split; [exact b_seen_in0|]. repeat constructor. lia.
      * rewrite app_assoc. apply (mono_snoc (per s)); auto. lia.
      * rewrite app_assoc. apply Forall_app_iff. split; [exact b_le0|]. repeat constructor. lia.
Qed.

Lemma a_round_invB c s : InvB c s -> InvB c (fst (a_round c s)).
Proof.
  intros H. unfold a_round.
  destruct (a_alive (sa s)) eqn:Ea; cbn [negb]; [|exact H].
  set (L0 := mkLst (parked (sa s)) (syncq (sa s)) (asyncq (sa s)) (sink (sa s)) (carrier (sl s))
                   (hints (sa s)) (bad (sg s))).
  set (fuel := S (opt_len (parked (sa s)) + length (syncq (sa s)) + length (asyncq (sa s)))).
  pose proof (a_loop_out fuel c (wgate (sl s)) L0 (b_out c s H)) as Hout. cbn zeta in Hout.
  destruct (a_loop fuel c (wgate (sl s)) L0) as [cl L]. cbn [snd] in Hout.
  destruct cl.
  - cbn [fst]. destruct H. constructor; unfold seen in *; cbn in *; auto.
    rewrite app_nil_r. apply Forall_app_iff in Hout. tauto.
  - destruct (if wgate (sl s) then ([], l_ca L ++ l_sk L) else (l_sk L, l_ca L)) as [sk ca] eqn:Efl.
    assert (Hcs : Forall (fun n => n_len n <= max_out c) (ca ++ sk)).
    { destruct (wgate (sl s)); inversion Efl; subst; [rewrite app_nil_r|]; exact Hout. }
    destruct (b_alive (sb s)); cbn [negb fst].
    + destruct H. constructor; unfold seen in *; cbn in *; auto.
    + destruct H. constructor; unfold seen in *; cbn in *; auto.
      rewrite app_nil_r. apply Forall_app_iff in Hcs. tauto.
Qed.

Lemma rounds_inv c : forall fuel s, InvC s -> InvB c s ->
  InvC (rounds fuel c s) /\ InvB c (rounds fuel c s).
Proof.
  induction fuel as [|fuel IH]; intros s HC H; cbn [rounds]; [split; assumption|].
  pose proof (a_round_invC c s HC) as C1. pose proof (a_round_invB c s H) as B1.
  destruct (a_round c s) as [s1 again]. cbn [fst] in *.
  pose proof (b_run_invC c (S (length (carrier (sl s1)))) s1 C1) as C2.
  pose proof (b_run_invB c (S (length (carrier (sl s1)))) s1 C1 B1) as B2.
  destruct again; [apply IH; assumption|].
  destruct (a_alive _ && negb _); [split; [apply a_round_invC|apply a_round_invB]; assumption|].
  split; assumption.
Qed.

Lemma settle_inv c s : InvC s -> InvB c s -> InvC (settle c s) /\ InvB c (settle c s).
Proof.
  intros HC H. unfold settle. apply rounds_inv; [apply b_run_invC|apply b_run_invB]; assumption.
Qed.

Lemma act_invB c s x : InvC s -> InvB c s -> InvB c (fst (act c s x)).
Proof.
  intros HC H. destruct x; cbn [act].
  - unfold send_sync. destruct (a_sink (sh s)); [|exact H].
    destruct (live s n); [|exact H].
    destruct (len (syncq (sa s)) <? cap_s c); cbn [fst].
    + destruct H. constructor; unfold seen in *; cbn in *; auto.
    + destruct (a_clogged (sh s)); [exact H|]. cbn [fst].
      destruct H. constructor; unfold seen in *; cbn in *; auto.
  - unfold send_async. destruct (a_sink (sh s)); [|exact H].
    destruct (live s n); cbn [fst]; destruct H; constructor; unfold seen in *; cbn in *; auto.
  - cbn [fst]. destruct H. constructor; unfold seen in *; cbn in *; auto.
  - unfold h_poll. destruct (b_events (sb s)) as [|[k|k] es].
    + destruct (b_peers (sb s)).
      * destruct (notifq (sb s)) as [|n q] eqn:Eq; [exact H|]. cbn [fst].
        destruct H. unfold seen in *. rewrite Eq in *.
        constructor; unfold seen; cbn in *.
        -- rewrite len_cons in b_res0. lia.
        -- exact b_out0.
        -- replace ((delivered (sg s) ++ [n]) ++ q) with (delivered (sg s) ++ n :: q) by reassoc. assumption.
        -- replace ((delivered (sg s) ++ [n]) ++ q) with (delivered (sg s) ++ n :: q) by reassoc. assumption.
        -- replace ((delivered (sg s) ++ [n]) ++ q) with (delivered (sg s) ++ n :: q) by reassoc. assumption.
        -- replace ((delivered (sg s) ++ [n]) ++ q) with (delivered (sg s) ++ n :: q) by reassoc. assumption.
      * cbn [fst]. destruct H. unfold seen in *. constructor; unfold seen; cbn in *.
        -- unfold len in *. cbn. lia.
        -- exact b_out0.
        -- rewrite app_nil_r. apply Forall_app_iff in b_seen_out0. tauto.
        -- rewrite app_nil_r. apply Forall_app_iff in b_seen_in0. tauto.
        -- rewrite app_nil_r. eapply mono_app_l. exact b_mono0.
        -- rewrite app_nil_r. apply Forall_app_iff in b_le0. tauto.
    + cbn [fst]. destruct H. constructor; unfold seen in *; cbn in *; auto.
    + cbn [fst]. destruct H. constructor; unfold seen in *; cbn in *; auto.
  - destruct (pa_events _ _ _). cbn [fst]. destruct H. constructor; unfold seen in *; cbn in *; auto.
  - destruct (a_alive (sa s)); cbn [fst]; [apply close_a_invB|]; exact H.
  - destruct (b_alive (sb s)); cbn [fst]; [apply close_b_invB|]; exact H.
  - destruct (a_alive (sa s) || b_alive (sb s)); cbn [fst]; [|exact H].
    destruct (a_alive (sa s)).
    + destruct H. constructor; unfold seen in *; cbn in *; auto.
    + destruct H. constructor; unfold seen in *; cbn in *; auto.
      apply Forall_app_iff in b_out0. tauto.
  - unfold reopen. destruct (a_alive (sa s) || b_alive (sb s)) eqn:E; cbn [fst]; [exact H|].
    apply orb_false_iff in E. destruct E as [_ Eb].
    destruct H. constructor; unfold seen in *; cbn in *; auto.
    + (* the reserved slot was released when the previous Connection ended *)
      destruct (reserved (sb s)); lia.
    + eapply Forall_impl; [|exact b_le0]. cbn. intros n Hn. lia.
Qed.

Lemma step_inv c s x : InvC s -> InvB c s ->
  InvC (fst (step c s x)) /\ InvB c (fst (step c s x)).
Proof.
  intros HC H. unfold step. pose proof (act_invC c s x HC) as C1.
  pose proof (act_invB c s x HC H) as B1. destruct (act c s x) as [s1 r].
  cbn [fst] in *. apply settle_inv; assumption.
Qed.

Lemma run_inv c : forall xs s, InvC s -> InvB c s ->
  InvC (fst (run c s xs)) /\ InvB c (fst (run c s xs)).
Proof.
  induction xs as [|x xs IH]; intros s HC H; cbn [run]; [split; assumption|].
  destruct (step_inv c s x HC H) as [C1 B1]. destruct (step c s x) as [s1 r]. cbn [fst] in *.
  specialize (IH s1 C1 B1). destruct (run c s1 xs) as [s2 rs]. exact IH.
Qed.

Lemma final_invB c hs xs : 1 <= cap_n c -> InvB c (final c hs xs).
Proof. intros Hc. unfold final. apply run_inv; [apply init_invC|apply init_invB; exact Hc]. Qed.

(* ---- global consequences ---- *)
Lemma oversize_never_delivered c hs xs : 1 <= cap_n c ->
  Forall (fun n => n_len n <= max_out c /\ n_len n <= max_in c) (delivered (sg (final c hs xs))).
Proof.
  intros Hc. pose proof (final_invB c hs xs Hc) as H.
  pose proof (b_seen_out c _ H) as A. pose proof (b_seen_in c _ H) as B. unfold seen in *.
  apply Forall_app_iff in A. apply Forall_app_iff in B. destruct A as [A _], B as [B _].
  rewrite Forall_forall in *. intros n Hn. split; auto.
Qed.

Lemma user_channel_bound c hs xs : 1 <= cap_n c ->
  let s := final c hs xs in
  len (notifq (sb s)) + (if reserved (sb s) then 1 else 0) <= cap_n c.
Proof. intros Hc s. exact (b_res c _ (final_invB c hs xs Hc)). Qed.

Lemma delivered_periods_monotone c hs xs : 1 <= cap_n c ->
  mono_from 0 (delivered (sg (final c hs xs))).
Proof.
  intros Hc. pose proof (b_mono c _ (final_invB c hs xs Hc)) as H. unfold seen in H.
  eapply mono_app_l. exact H.
Qed.

(* a frame leaves the substream only into a reserved slot: one iteration of Connection B *)
Lemma read_needs_reservation c s :
  b_alive (sb s) = true -> reserved (sb s) = false -> cap_n c <= len (notifq (sb s)) ->
  forall fuel, b_run fuel c s = s.
Proof.
  intros Hb Hr Hfull fuel. destruct fuel; cbn [b_run]; [reflexivity|].
  rewrite Hb, Hr. cbn [negb orb]. destruct (len (notifq (sb s)) <? cap_n c) eqn:E; [lia|reflexivity].
Qed.

(* ---- the sending calls ---- *)
Lemma send_sync_spec c s t l :
  let '(s', r) := send_sync c s t l in
  waiters (sa s') = waiters (sa s) /\
  match a_sink (sh s) with
  | None => r = 3 /\ s' = s
  | Some k =>
      if live s k then
        if len (syncq (sa s)) <? cap_s c
        then r = 0 /\ syncq (sa s') = syncq (sa s) ++ [mkN k true t l] /\
             accepted (sg s') = accepted (sg s) ++ [mkN k true t l] /\ fclog (sg s') = fclog (sg s)
        else r = 1 /\ sa s' = sa s /\ accepted (sg s') = accepted (sg s) /\ a_clogged (sh s') = true /\
             fclog (sg s') = (if a_clogged (sh s) then fclog (sg s) else fclog (sg s) ++ [k])
      else r = 2 /\ s' = s
  end.
Proof.
  unfold send_sync. destruct (a_sink (sh s)) as [k|]; [|cbn; auto].
  destruct (live s k); [|cbn; auto].
  destruct (len (syncq (sa s)) <? cap_s c); [cbn; auto|].
  destruct (a_clogged (sh s)) eqn:E; cbn; repeat split; auto.
Qed.

Lemma send_async_spec s t l :
  let '(s', r) := send_async s t l in
  accepted (sg s') = accepted (sg s) /\ syncq (sa s') = syncq (sa s) /\ asyncq (sa s') = asyncq (sa s) /\
  match a_sink (sh s) with
  | None => r = 3 /\ s' = s
  | Some k => r = 0 /\
      if live s k then waiters (sa s') = waiters (sa s) ++ [mkN k false t l] /\ async_err (sg s') = async_err (sg s)
      else waiters (sa s') = waiters (sa s) /\ async_err (sg s') = async_err (sg s) + 1
  end.
Proof.
  unfold send_async. destruct (a_sink (sh s)) as [k|]; [|cbn; auto].
  destruct (live s k); cbn; repeat split; auto.
Qed.

(* after a poll of the sending Connection a blocked async sender remains only if the queue is full *)
Lemma async_waits_round c s :
  a_alive (sa s) = true ->
  let s' := fst (a_round c s) in
  a_alive (sa s') = true -> waiters (sa s') = [] \/ cap_a c <= len (asyncq (sa s')).
Proof.
  intros Ea. unfold a_round. rewrite Ea. cbn [negb].
  destruct (a_loop _ c (wgate (sl s)) _) as [cl L].
  destruct cl; [cbn; discriminate|].
  destruct (if wgate (sl s) then ([], l_ca L ++ l_sk L) else (l_sk L, l_ca L)) as [sk ca].
  destruct (b_alive (sb s)); cbn [negb fst]; [|cbn; discriminate].
  cbn. intros _.
  set (free := N.to_nat (cap_a c - len (l_aq L))).
  destruct (Compare_dec.le_lt_dec (length (waiters (sa s))) free) as [Hle|Hlt].
  - left. apply skipn_all2. exact Hle.
  - right. rewrite len_app. unfold len. rewrite firstn_length_le by lia. unfold free, len. lia.
Qed.

(* ------------------------------------------------------------------ at most one ForceClose per period *)
Definition fsame (s s' : st) : Prop :=
  per s' = per s /\ a_sink (sh s') = a_sink (sh s) /\ a_clogged (sh s') = a_clogged (sh s) /\
  fclog (sg s') = fclog (sg s) /\
  (forall j, In (HOpened j) (a_events (sh s')) <-> In (HOpened j) (a_events (sh s))).

Ltac fs := unfold fsame; cbn; repeat split; auto;
           try (intros; rewrite ?in_app_iff in *; cbn in *; intuition congruence).

Lemma fsame_refl s : fsame s s.
Proof. fs. Qed.

Lemma fsame_trans s1 s2 s3 : fsame s1 s2 -> fsame s2 s3 -> fsame s1 s3.
Proof.
  intros (A1 & A2 & A3 & A4 & A5) (B1 & B2 & B3 & B4 & B5). unfold fsame.
  split; [congruence|]. split; [congruence|]. split; [congruence|]. split; [congruence|].
  intros j0. rewrite B5, A5. tauto.
Qed.

Lemma close_a_fsame n s : fsame s (close_a n s).
Proof. fs. Qed.

Lemma close_b_fsame n s : fsame s (close_b n s).
Proof. fs. Qed.

Lemma a_round_fsame c s : fsame s (fst (a_round c s)).
Proof.
  unfold a_round. destruct (a_alive (sa s)); cbn [negb]; [|apply fsame_refl].
  destruct (a_loop _ c (wgate (sl s)) _) as [cl L]. destruct cl; [fs|].
  destruct (if wgate (sl s) then ([], l_ca L ++ l_sk L) else (l_sk L, l_ca L)) as [sk ca].
  destruct (b_alive (sb s)); cbn [negb fst]; fs.
Qed.

Lemma b_run_fsame c : forall fuel s, fsame s (b_run fuel c s).
Proof.
  induction fuel as [|fuel IH]; intros s; cbn [b_run]; [apply fsame_refl|].
  destruct (b_alive (sb s)); cbn [negb]; [|apply fsame_refl].
  destruct (reserved (sb s) || _); cbn [negb]; [|apply fsame_refl].
  destruct (killed (sl s)); [fs|].
  destruct (rgate (sl s)); cbn [negb]; [|fs].
  destruct (carrier (sl s)) as [|n rest].
  - destruct (a_alive (sa s)); fs.
  - destruct (max_in c <? n_len n); [fs|].
    eapply fsame_trans; [|apply IH]. fs.
Qed.

Lemma rounds_fsame c : forall fuel s, fsame s (rounds fuel c s).
Proof.
  induction fuel as [|fuel IH]; intros s; cbn [rounds]; [apply fsame_refl|].
  pose proof (a_round_fsame c s) as F1. destruct (a_round c s) as [s1 again]. cbn [fst] in F1.
  pose proof (b_run_fsame c (S (length (carrier (sl s1)))) s1) as F2.
  pose proof (fsame_trans _ _ _ F1 F2) as F3.
  destruct again; [eapply fsame_trans; [exact F3|apply IH]|].
  destruct (a_alive _ && negb _); [|exact F3].
  eapply fsame_trans; [exact F3|apply a_round_fsame].
Qed.

Lemma settle_fsame c s : fsame s (settle c s).
Proof. unfold settle. eapply fsame_trans; [apply b_run_fsame|apply rounds_fsame]. Qed.

Lemma NoDup_snoc {A} (x : A) : forall l, NoDup l -> ~ In x l -> NoDup (l ++ [x]).
Proof.
  induction l as [|y l IH]; intros Hn Hx; cbn.
  - constructor; [intros []|constructor].
  - inversion Hn; subst. constructor.
    + intros Hin. apply in_app_iff in Hin. destruct Hin as [Hin|[->|[]]]; [contradiction|].
      apply Hx. left. reflexivity.
    + apply IH; [assumption|]. intros Hin. apply Hx. right. exact Hin.
Qed.

Record InvF (s : st) : Prop := mkInvF {
  f_nodup : NoDup (fclog (sg s));
  f_log : forall k, In k (fclog (sg s)) -> k <= per s;
  f_sink : forall k, a_sink (sh s) = Some k ->
           k <= per s /\ (In k (fclog (sg s)) -> a_clogged (sh s) = true) /\
           ~ In (HOpened k) (a_events (sh s));
  f_ev : forall j, In (HOpened j) (a_events (sh s)) -> j <= per s /\ ~ In j (fclog (sg s))
}.

Lemma invF_fsame s s' : InvF s -> fsame s s' -> InvF s'.
Proof.
  intros [N L S E] (A1 & A2 & A3 & A4 & A5).
  constructor; rewrite ?A1, ?A2, ?A3, ?A4; auto.
  - intros k Hk. destruct (S k Hk) as (X & Y & Z). repeat split; auto. rewrite A5. exact Z.
  - intros j Hj. apply E. apply A5. exact Hj.
Qed.

Lemma init_invF hs : InvF (init hs).
Proof. constructor; cbn; try constructor; try discriminate; contradiction. Qed.

Lemma pa_events_good (p : N) (fc : list N) : forall evs snk clg,
  (forall k, snk = Some k -> k <= p /\ (In k fc -> clg = true)) ->
  (forall j, In (HOpened j) evs -> j <= p /\ ~ In j fc) ->
  let '(snk', clg') := pa_events evs snk clg in
  forall k, snk' = Some k -> k <= p /\ (In k fc -> clg' = true).
Proof.
  induction evs as [|e evs IH]; intros snk clg G E; cbn [pa_events]; [exact G|].
  destruct e as [j|j].
  - apply IH.
    + intros k Hk. inversion Hk; subst. destruct (E k (or_introl eq_refl)) as [X Y].
      split; [exact X|]. intros Z. contradiction.
    + intros j' Hj'. apply E. right. exact Hj'.
  - apply IH.
    + intros k Hk. discriminate.
    + intros j' Hj'. apply E. right. exact Hj'.
Qed.

Lemma act_invF c s x : InvF s -> InvF (fst (act c s x)).
Proof.
  intros H. destruct x; cbn [act].
  - (* send_sync: the only place where ForceClose is raised *)
    unfold send_sync. destruct (a_sink (sh s)) as [k|] eqn:Es; [|exact H].
    destruct (live s k); [|exact H].
    destruct (len (syncq (sa s)) <? cap_s c); cbn [fst].
    + eapply invF_fsame; [exact H|]. fs.
    + destruct (a_clogged (sh s)) eqn:Ec; [exact H|]. cbn [fst].
      destruct H as [N L S E]. destruct (S k Es) as (X & Y & Z).
      constructor; cbn.
      * apply NoDup_snoc; [exact N|]. intros Hin. specialize (Y Hin). congruence.
      * intros k' Hk'. apply in_app_iff in Hk'. destruct Hk' as [Hk'|[->|[]]]; auto.
      * intros k' Hk'. rewrite ?Es in Hk'. inversion Hk'; subst. repeat split; auto.
      * intros j Hj. destruct (E j Hj) as [A B]. split; [exact A|].
        intros Hin. apply in_app_iff in Hin. destruct Hin as [Hin|[->|[]]]; [contradiction|].
        contradiction.
  - unfold send_async. destruct (a_sink (sh s)); [|exact H].
    destruct (live s n); cbn [fst]; (eapply invF_fsame; [exact H|fs]).
  - cbn [fst]. eapply invF_fsame; [exact H|fs].
  - unfold h_poll. destruct (b_events (sb s)) as [|[k|k] es].
    + destruct (b_peers (sb s)).
      * destruct (notifq (sb s)); cbn [fst]; [exact H|]. eapply invF_fsame; [exact H|fs].
      * cbn [fst]. eapply invF_fsame; [exact H|fs].
    + cbn [fst]. eapply invF_fsame; [exact H|fs].
    + cbn [fst]. eapply invF_fsame; [exact H|fs].
  - destruct H as [N L S E].
    pose proof (pa_events_good (per s) (fclog (sg s)) (a_events (sh s)) (a_sink (sh s)) (a_clogged (sh s))) as G.
    destruct (pa_events (a_events (sh s)) (a_sink (sh s)) (a_clogged (sh s))) as [snk clg]. cbn [fst].
    assert (G' : forall k, snk = Some k -> k <= per s /\ (In k (fclog (sg s)) -> clg = true)).
    { apply G; [|exact E]. intros k Hk. destruct (S k Hk) as (X & Y & _). split; assumption. }
    constructor; cbn; auto.
    + intros k Hk. destruct (G' k Hk). repeat split; auto.
    + intros j [].
  - destruct (a_alive (sa s)); cbn [fst]; [|exact H]. eapply invF_fsame; [exact H|apply close_a_fsame].
  - destruct (b_alive (sb s)); cbn [fst]; [|exact H]. eapply invF_fsame; [exact H|apply close_b_fsame].
  - destruct (a_alive (sa s) || b_alive (sb s)); cbn [fst]; [|exact H].
    destruct (a_alive (sa s)); (eapply invF_fsame; [exact H|fs]).
  - unfold reopen. destruct (a_alive (sa s) || b_alive (sb s)); cbn [fst]; [exact H|].
    destruct H as [N L S E]. constructor; cbn; auto.
    + intros k Hk. specialize (L k Hk). lia.
    + intros k Hk. destruct (S k Hk) as (X & Y & Z). repeat split; auto; [lia|].
      intros Hin. apply in_app_iff in Hin. destruct Hin as [Hin|[Hin|[]]]; [contradiction|].
      inversion Hin. lia.
    + intros j Hj. apply in_app_iff in Hj. destruct Hj as [Hj|[Hj|[]]].
      * destruct (E j Hj). split; [lia|assumption].
      * inversion Hj; subst. split; [lia|]. intros Hin. specialize (L _ Hin). lia.
Qed.

Lemma step_invF c s x : InvF s -> InvF (fst (step c s x)).
Proof.
  intros H. unfold step. pose proof (act_invF c s x H) as H1. destruct (act c s x) as [s1 r].
  cbn [fst] in *. eapply invF_fsame; [exact H1|apply settle_fsame].
Qed.

Lemma run_invF c : forall xs s, InvF s -> InvF (fst (run c s xs)).
Proof.
  induction xs as [|x xs IH]; intros s H; cbn [run]; [exact H|].
  pose proof (step_invF c s x H) as H1. destruct (step c s x) as [s1 r]. cbn [fst] in H1.
  specialize (IH s1 H1). destruct (run c s1 xs) as [s2 rs]. exact IH.
Qed.

Lemma clog_once c hs xs : NoDup (fclog (sg (final c hs xs))).
Proof. unfold final. apply f_nodup. apply run_invF. apply init_invF. Qed.
