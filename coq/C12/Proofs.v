(* C12 — proofs about the model of Model.v. *)
From Coq Require Import List NArith Bool Lia.
From Coq Require Import ZifyBool ZifyNat ZifyN.
From V.C12 Require Import Model.
Import ListNotations.
Open Scope N_scope.
Arguments N.add : simpl never.
Arguments N.sub : simpl never.
Arguments N.eqb : simpl never.
Arguments N.ltb : simpl never.
Arguments N.leb : simpl never.
Arguments N.of_nat : simpl never.

(* ------------------------------------------------------------------ lists *)
Definition opt_list {A} (o : option A) : list A := match o with Some x => [x] | None => [] end.

Lemma prefix_refl {A} (x : list A) : prefix x x.
Proof. exists []. now rewrite app_nil_r. Qed.

Lemma prefix_app_l {A} (x y z : list A) : prefix (x ++ y) z -> prefix x z.
Proof. intros [r ->]. exists (y ++ r). now rewrite app_assoc. Qed.

Lemma prefix_trans {A} (x y z : list A) : prefix x y -> prefix y z -> prefix x z.
Proof. intros [r ->] [r' ->]. exists (r ++ r'). now rewrite app_assoc. Qed.

Lemma prefix_app_r {A} (x y : list A) : prefix x (x ++ y).
Proof. now exists y. Qed.

Lemma prefix_ext {A} (x y z : list A) : prefix x y -> prefix x (y ++ z).
Proof. intros [r ->]. exists (r ++ z). now rewrite app_assoc. Qed.

Lemma prefix_nil_r {A} (x : list A) : prefix x [] -> x = [].
Proof. intros [r H]. destruct x; [reflexivity|discriminate]. Qed.

Lemma filter_none {A} (f : A -> bool) l : Forall (fun x => f x = false) l -> filter f l = [].
Proof. induction 1 as [|x l Hx _ IH]; cbn; [reflexivity|]. now rewrite Hx. Qed.

Lemma Forall_app_iff {A} (P : A -> Prop) l1 l2 : Forall P (l1 ++ l2) <-> Forall P l1 /\ Forall P l2.
Proof. apply Forall_app. Qed.

Lemma len_app {A} (l1 l2 : list A) : len (l1 ++ l2) = len l1 + len l2.
Proof. unfold len. rewrite app_length. lia. Qed.

Lemma len_cons {A} (x : A) l : len (x :: l) = len l + 1.
Proof. unfold len. cbn [length]. lia. Qed.

Lemma len_nil {A} : len (@nil A) = 0.
Proof. reflexivity. Qed.

(* ------------------------------------------------------------------ mode-pure predicates *)
Definition pure (f : notif -> bool) : Prop :=
  (forall n, f n = true -> n_sync n = true) \/ (forall n, f n = true -> n_sync n = false).

Lemma sel_pure k m : pure (sel k m).
Proof.
  destruct m; [left|right]; intros n H; unfold sel in H;
    apply andb_true_iff in H; destruct H as [_ H]; destruct (n_sync n); cbn in H; congruence.
Qed.

Lemma pure_kill f : pure f -> forall sq aq,
  Forall (fun n => n_sync n = true) sq -> Forall (fun n => n_sync n = false) aq ->
  filter f sq = [] \/ filter f aq = [].
Proof.
  intros [H|H] sq aq Hs Ha; [right|left]; apply filter_none.
  - eapply Forall_impl; [|exact Ha]. cbn. intros n Hn. destruct (f n) eqn:E; [|reflexivity].
    apply H in E. congruence.
  - eapply Forall_impl; [|exact Hs]. cbn. intros n Hn. destruct (f n) eqn:E; [|reflexivity].
    apply H in E. congruence.
Qed.

Lemma filter_jump {A} (f : A -> bool) (n : A) xs rest :
  filter f xs = [] \/ f n = false -> filter f (n :: xs ++ rest) = filter f (xs ++ n :: rest).
Proof.
  intros H. change (n :: xs ++ rest) with ([n] ++ xs ++ rest).
  change (xs ++ n :: rest) with (xs ++ [n] ++ rest). rewrite !filter_app.
  destruct H as [H|H]; [now rewrite H|]. cbn. now rewrite H.
Qed.

(* ------------------------------------------------------------------ the outbound loop *)
Definition lflat (L : lst) : list notif :=
  l_ca L ++ l_sk L ++ opt_list (l_cur L) ++ l_sq L ++ l_aq L.

Definition T1L (L : lst) : Prop :=
  Forall (fun n => n_sync n = true) (l_sq L) /\ Forall (fun n => n_sync n = false) (l_aq L).

Lemma choose_spec h sq aq :
  match choose h sq aq with
  | (PSync, _, _) => sq <> []
  | (PAsync, _, _) => aq <> []
  | (PNone, _, _) => sq = [] /\ aq = []
  end.
Proof.
  unfold choose. destruct sq as [|x sq], aq as [|y aq]; cbn.
  - split; reflexivity.
  - destruct h as [|[|] h]; cbn; congruence.
  - destruct h as [|[|] h]; cbn; congruence.
  - destruct h as [|[|] h]; cbn; congruence.
Qed.

(* a_next moves at most one notification into the `cur` slot *)
Lemma a_next_spec L : T1L L ->
  let '(nx, L1) := a_next L in
  l_cur L1 = None /\ T1L L1 /\ l_sk L1 = l_sk L /\ l_ca L1 = l_ca L /\
  (nx = None -> l_cur L = None /\ l_sq L = [] /\ l_aq L = [] /\ L1 = L) /\
  (forall f, pure f ->
     filter f (l_ca L1 ++ l_sk L1 ++ opt_list nx ++ l_sq L1 ++ l_aq L1) = filter f (lflat L)) /\
  (forall P : notif -> Prop, Forall P (lflat L) ->
     Forall P (l_ca L1 ++ l_sk L1 ++ opt_list nx ++ l_sq L1 ++ l_aq L1)).
Proof.
  intros [Hs Ha]. unfold a_next, lflat. destruct (l_cur L) as [n|] eqn:Ec.
  - cbn. repeat split; auto; try discriminate.
  - pose proof (choose_spec (l_h L) (l_sq L) (l_aq L)) as Hc.
    destruct (choose (l_h L) (l_sq L) (l_aq L)) as [[p h'] b].
    destruct p.
    + destruct (l_sq L) as [|n sq'] eqn:Esq; [congruence|]. cbn.
      inversion Hs; subst. repeat split; auto; try discriminate.
    + destruct (l_aq L) as [|n aq'] eqn:Eaq; [congruence|].
      destruct (l_sq L) as [|x sq'] eqn:Esq; cbn.
      * inversion Ha; subst. repeat split; auto; try discriminate.
      * inversion Ha; subst. repeat split; auto; try discriminate.
        -- intros f Hf. rewrite !filter_app. do 2 f_equal.
           apply (filter_jump f n (x :: sq') aq').
           destruct (pure_kill f Hf (x :: sq') (n :: aq') Hs Ha) as [E|E]; [left; exact E|right].
           cbn in E. destruct (f n); [discriminate|reflexivity].
        -- intros P HP. rewrite !Forall_app_iff in HP |- *. cbn in HP |- *.
           destruct HP as (G1 & G2 & G3). split; [exact G1|split; [exact G2|]].
           change (x :: sq' ++ n :: aq') with ((x :: sq') ++ [n] ++ aq') in G3.
           change (n :: x :: sq' ++ aq') with ([n] ++ (x :: sq') ++ aq').
           rewrite !Forall_app_iff in G3 |- *. tauto.
    + destruct Hc as [E1 E2]. rewrite E1, E2. cbn. rewrite Ec.
      repeat split; auto; try rewrite E1; try rewrite E2; auto.
Qed.

Lemma poll_ready_spec wg sk ca sk' ca' :
  poll_ready wg sk ca = Some (sk', ca') -> ca' ++ sk' = ca ++ sk /\ exists x, ca' = ca ++ x.
Proof.
  unfold poll_ready. destruct (sink_bytes sk <? BOUNDARY).
  - intros H; inversion H; subst. split; [reflexivity|]. exists []. now rewrite app_nil_r.
  - destruct wg; [|discriminate]. intros H; inversion H; subst.
    rewrite app_nil_r. split; [reflexivity|]. now exists sk.
Qed.

Lemma a_loop_core f : pure f -> forall fuel mx wg L, T1L L ->
  match a_loop fuel mx wg L with
  | (false, L') => T1L L' /\ filter f (lflat L') = filter f (lflat L)
  | (true, L') => exists r, filter f (lflat L) = filter f (l_ca L') ++ r
  end.
Proof.
  intros Hf fuel mx wg. induction fuel as [|fuel IH]; intros L HT; cbn [a_loop].
  - split; [exact HT|reflexivity].
  - pose proof (a_next_spec L HT) as HN. destruct (a_next L) as [nx L1].
    destruct HN as (Hcur & HT1 & Hsk & Hca & Hnone & Hfl & _).
    specialize (Hfl f Hf).
    destruct nx as [n|].
    + destruct (poll_ready wg (l_sk L1) (l_ca L1)) as [[sk' ca']|] eqn:Epr.
      * apply poll_ready_spec in Epr. destruct Epr as [Eapp _].
        assert (Hfl' : filter f (ca' ++ sk' ++ [n] ++ l_sq L1 ++ l_aq L1) = filter f (lflat L)).
        { rewrite <- Hfl. rewrite !app_assoc. rewrite Eapp. reflexivity. }
        destruct (mx <? n_len n).
        -- cbn. eexists. rewrite <- Hfl'. rewrite filter_app. reflexivity.
        -- specialize (IH (set_out (sk' ++ [n]) ca' L1)).
           assert (HT2 : T1L (set_out (sk' ++ [n]) ca' L1)) by exact HT1.
           specialize (IH HT2).
           assert (Efl : filter f (lflat (set_out (sk' ++ [n]) ca' L1)) = filter f (lflat L)).
           { rewrite <- Hfl'. unfold lflat, set_out. cbn. rewrite <- !app_assoc. reflexivity. }
           destruct (a_loop fuel mx wg (set_out (sk' ++ [n]) ca' L1)) as [[|] L'].
           ++ destruct IH as [r Hr]. exists r. rewrite <- Efl. exact Hr.
           ++ destruct IH as [HT' Hr]. split; [exact HT'|]. now rewrite Hr.
      * split; [exact HT1|]. rewrite <- Hfl. unfold lflat, set_cur. cbn. reflexivity.
    + destruct (Hnone eq_refl) as (_ & _ & _ & ->). split; [exact HT|reflexivity].
Qed.

Lemma a_loop_forall (P : notif -> Prop) : forall fuel mx wg L, T1L L ->
  Forall P (lflat L) -> Forall P (lflat (snd (a_loop fuel mx wg L))).
Proof.
  induction fuel as [|fuel IH]; intros mx wg L HT HP; cbn [a_loop].
  - exact HP.
  - pose proof (a_next_spec L HT) as HN. destruct (a_next L) as [nx L1].
    destruct HN as (Hcur & HT1 & Hsk & Hca & Hnone & _ & HPl). specialize (HPl P HP).
    destruct nx as [n|].
    + destruct (poll_ready wg (l_sk L1) (l_ca L1)) as [[sk' ca']|] eqn:Epr.
      * apply poll_ready_spec in Epr. destruct Epr as [Eapp _].
        assert (HP' : Forall P (ca' ++ sk' ++ [n] ++ l_sq L1 ++ l_aq L1)).
        { rewrite !app_assoc. rewrite Eapp. rewrite <- !app_assoc. exact HPl. }
        destruct (mx <? n_len n).
        -- apply Forall_app_iff in HP'. destruct HP' as [A B].
           apply Forall_app_iff in B. destruct B as [B C].
           apply Forall_app_iff in C. destruct C as [_ C].
           cbn. unfold lflat, set_out. cbn.
           apply Forall_app_iff; split; [exact A|]. apply Forall_app_iff; split; [exact B|exact C].
        -- apply IH; [exact HT1|]. unfold lflat, set_out. cbn. rewrite <- !app_assoc. exact HP'.
      * cbn. unfold lflat, set_cur. cbn. exact HPl.
    + cbn. destruct (Hnone eq_refl) as (_ & _ & _ & ->). exact HP.
Qed.

(* everything that enters the sink (and hence the carrier) passed the sender's size check *)
Lemma a_loop_out : forall fuel mx wg L,
  Forall (fun n => n_len n <= mx) (l_ca L ++ l_sk L) ->
  let L' := snd (a_loop fuel mx wg L) in
  Forall (fun n => n_len n <= mx) (l_ca L' ++ l_sk L').
Proof.
  induction fuel as [|fuel IH]; intros mx wg L HP; cbn [a_loop].
  - exact HP.
  - assert (HN : l_sk (snd (a_next L)) = l_sk L /\ l_ca (snd (a_next L)) = l_ca L).
    { unfold a_next. destruct (l_cur L); [cbn; auto|].
      destruct (choose (l_h L) (l_sq L) (l_aq L)) as [[p h'] b].
      destruct p, (l_sq L), (l_aq L); cbn; auto. }
    destruct (a_next L) as [nx L1]. cbn in HN. destruct HN as [Hsk Hca].
    destruct nx as [n|]; [|cbn; now rewrite Hsk, Hca].
    destruct (poll_ready wg (l_sk L1) (l_ca L1)) as [[sk' ca']|] eqn:Epr.
    + apply poll_ready_spec in Epr. destruct Epr as [Eapp _].
      rewrite Hsk, Hca in Eapp.
      destruct (mx <? n_len n) eqn:Eo.
      * cbn. rewrite Eapp. exact HP.
      * apply IH. cbn. rewrite app_assoc, Eapp. apply Forall_app_iff. split; [exact HP|].
        constructor; [lia|constructor].
    + cbn. now rewrite Hsk, Hca.
Qed.

(* the carrier only grows during the loop *)
Lemma a_loop_carrier : forall fuel mx wg L, exists x, l_ca (snd (a_loop fuel mx wg L)) = l_ca L ++ x.
Proof.
  induction fuel as [|fuel IH]; intros mx wg L; cbn [a_loop].
  - exists []. now rewrite app_nil_r.
  - assert (HN : l_sk (snd (a_next L)) = l_sk L /\ l_ca (snd (a_next L)) = l_ca L).
    { unfold a_next. destruct (l_cur L); [cbn; auto|].
      destruct (choose (l_h L) (l_sq L) (l_aq L)) as [[p h'] b].
      destruct p, (l_sq L), (l_aq L); cbn; auto. }
    destruct (a_next L) as [nx L1]. cbn in HN. destruct HN as [Hsk Hca].
    destruct nx as [n|]; [|cbn; exists []; now rewrite Hca, app_nil_r].
    destruct (poll_ready wg (l_sk L1) (l_ca L1)) as [[sk' ca']|] eqn:Epr.
    + apply poll_ready_spec in Epr. destruct Epr as [_ [x Ex]]. rewrite Hca in Ex.
      destruct (mx <? n_len n).
      * cbn. now exists x.
      * destruct (IH mx wg (set_out (sk' ++ [n]) ca' L1)) as [y Ey]. rewrite Ey. cbn.
        exists (x ++ y). rewrite Ex. now rewrite app_assoc.
    + cbn. exists []. now rewrite Hca, app_nil_r.
Qed.


(* ------------------------------------------------------------------ projections *)
Lemma proj_app k m a b : proj k m (a ++ b) = proj k m a ++ proj k m b.
Proof. apply filter_app. Qed.

Lemma proj_other p X k m : Forall (fun n => n_per n = p) X -> k <> p -> proj k m X = [].
Proof.
  intros H Hk. apply filter_none. eapply Forall_impl; [|exact H]. cbn. intros n Hn.
  unfold sel. destruct (n_per n =? k) eqn:E; [|reflexivity]. lia.
Qed.

Lemma proj_above p X k m : Forall (fun n => n_per n <= p) X -> p < k -> proj k m X = [].
Proof.
  intros H Hk. apply filter_none. eapply Forall_impl; [|exact H]. cbn. intros n Hn.
  unfold sel. destruct (n_per n =? k) eqn:E; [|reflexivity]. lia.
Qed.

Ltac reassoc := repeat rewrite <- app_assoc; cbn [app]; try reflexivity.

Lemma Forall_firstn' {A} (P : A -> Prop) n l : Forall P l -> Forall P (firstn n l).
Proof. intros H. rewrite <- (firstn_skipn n l) in H. apply Forall_app_iff in H. tauto. Qed.

(* ------------------------------------------------------------------ accessors *)
Definition cn (s : st) (x : bool) : conn := ec (gep s x).
Definition hn (s : st) (x : bool) : hnd := eh (gep s x).
Definition gl (s : st) (x : bool) : glog := eg (gep s x).

(* everything x has accepted and that is still on its way, oldest first *)
Definition pipe (s : st) (x : bool) : list notif :=
  carrier (glo s x) ++ e_sk (cn s x) ++ opt_list (e_cur (cn s x)) ++ e_sq (cn s x) ++ e_aq (cn s x).

(* what user y received or still finds in its channel *)
Definition seen (s : st) (y : bool) : list notif := e_del (gl s y) ++ e_nq (hn s y).

Definition opened_in (k : N) (evs : list hev) : bool :=
  existsb (fun e => match e with HOpened j => j =? k | HClosed _ => false end) evs.

(* handle y will never again consider stream k open *)
Definition dead_for (s : st) (y : bool) (k : N) : bool :=
  negb (match e_peers (hn s y) with Some j => j =? k | None => false end) &&
  negb (opened_in k (e_evs (hn s y))).

(* the Connection of y in the current period has not finished (or has not started yet) *)
Definition reading (s : st) (y : bool) : bool :=
  if e_per (cn s y) <? per s then true else e_alive (cn s y).

Lemma opened_in_app k a b : opened_in k (a ++ b) = opened_in k a || opened_in k b.
Proof. unfold opened_in. apply existsb_app. Qed.

(* ------------------------------------------------------------------ structural invariant *)
Record InvP (s : st) : Prop := mkInvP {
  p_alive : forall z, e_alive (cn s z) = true -> e_per (cn s z) = per s;
  p_le : forall z, e_per (cn s z) <= per s;
  p_dead : forall z, e_alive (cn s z) = false ->
           e_sq (cn s z) = [] /\ e_aq (cn s z) = [] /\ e_sk (cn s z) = [] /\ e_cur (cn s z) = None /\
           e_res (cn s z) = false /\ e_rwait (cn s z) = false;
  p_unjoined : forall z, e_per (cn s z) < per s -> carrier (glo s z) = [];
  p_kill : killed s = true -> carrier (lAB s) = [] /\ carrier (lBA s) = []
}.

Lemma init_invP hs : InvP (init hs).
Proof.
  constructor; intros; try destruct z; cbn in *; repeat split; auto; try discriminate; try lia.
Qed.

Ltac both H := let H1 := fresh H "t" in let H2 := fresh H "f" in
               pose proof (H true) as H1; pose proof (H false) as H2.

Ltac openP H := let a := fresh "PA" in let b := fresh "PL" in let c := fresh "PD" in
                let d := fresh "PU" in let e := fresh "PK" in
                destruct H as [a b c d e]; both a; both b; both c; both d.

Lemma close_invP x n s : InvP s -> InvP (close x n s).
Proof.
  intros H. openP H. unfold cn in *.
  constructor; intros; try destruct z; destruct x; cbn in *; auto; try discriminate;
    repeat split; auto.
Qed.

Lemma out_phase_invP c x b s : InvP s -> e_alive (cn s x) = true -> killed s = false ->
  InvP (fst (out_phase c x b s)).
Proof.
  intros H Ha Hk. openP H. unfold out_phase, cn in *.
  destruct (a_loop _ _ _ _) as [cl L]. destruct cl.
  - constructor; intros; try destruct z; destruct x; cbn in *; auto; try discriminate; try congruence;
      try (rewrite PAt in * by assumption); try (rewrite PAf in * by assumption); try lia.
  - destruct (if wgate (glo s x) then _ else _) as [sk ca].
    constructor; intros; try destruct z; destruct x; cbn in *; auto; try discriminate; try congruence;
      try (rewrite PAt in * by assumption); try (rewrite PAf in * by assumption); try lia.
Qed.

Lemma out_phase_frame c x b s : e_alive (cn s x) = true ->
  let s1 := fst (out_phase c x b s) in
  e_alive (cn s1 x) = true /\ killed s1 = killed s /\ per s1 = per s /\
  e_per (cn s1 x) = e_per (cn s x) /\ cn s1 (negb x) = cn s (negb x) /\
  glo s1 (negb x) = glo s (negb x) /\ hn s1 (negb x) = hn s (negb x) /\ gl s1 (negb x) = gl s (negb x) /\
  gl s1 x = gl s x /\ e_nq (hn s1 x) = e_nq (hn s x) /\ e_evs (hn s1 x) = e_evs (hn s x) /\
  e_peers (hn s1 x) = e_peers (hn s x) /\ e_res (cn s1 x) = e_res (cn s x) /\
  e_rwait (cn s1 x) = e_rwait (cn s x) /\ e_shut (cn s1 x) = e_shut (cn s x).
Proof.
  intros Ha. unfold out_phase, cn, hn, gl in *.
  destruct (a_loop _ _ _ _) as [cl L]. destruct cl.
  - destruct x; cbn in *; repeat split; auto.
  - destruct (if wgate (glo s x) then _ else _) as [sk ca].
    destruct x; cbn in *; repeat split; auto.
Qed.

Lemma read_invP x n rest wg rg s :
  InvP s -> carrier (glo s (negb x)) = n :: rest ->
  InvP (push_nq x n (slo s (negb x) (mkL wg rg rest))).
Proof.
  intros H Ec. openP H. unfold push_nq, slo, cn in *.
  constructor; intros; try destruct z; destruct x; unfold cn in *; cbn in *; auto; try discriminate;
    try congruence;
    try (match goal with
         | Hlt : _ < _ |- _ =>
             first [ specialize (PUt Hlt); rewrite Ec in PUt; discriminate
                   | specialize (PUf Hlt); rewrite Ec in PUf; discriminate ]
         end);
    try (match goal with
         | Hk : killed _ = true |- _ => destruct (PK Hk) as [K1 K2]; rewrite Ec in *; discriminate
         end);
    try (intuition congruence).
Qed.

(* a generic induction over one poll of the Connection task *)
Lemma conn_loop_gen (P : st -> Prop) c x :
  (forall s nfy, P s -> e_alive (cn s x) = true -> P (close x nfy s)) ->
  (forall s b, P s -> e_alive (cn s x) = true -> killed s = false ->
               match out_phase c x b s with (s1, true) => P (close x true s1) | (s1, false) => P s1 end) ->
  (forall s, P s -> e_alive (cn s x) = true -> can_reserve c x s = false -> P (set_res x false true s)) ->
  (forall s, P s -> e_alive (cn s x) = true -> can_reserve c x s = true -> P (set_res x true false s)) ->
  (forall s n rest, P s -> e_alive (cn s x) = true -> e_res (cn s x) = true -> e_rwait (cn s x) = false ->
      killed s = false -> carrier (glo s (negb x)) = n :: rest -> n_len n <= c_max (ecf c x) ->
      P (push_nq x n (slo s (negb x) (mkL (wgate (glo s (negb x))) (rgate (glo s (negb x))) rest)))) ->
  forall fuel b s, P s -> e_alive (cn s x) = true -> P (conn_loop fuel c x b s).
Proof.
  intros Hclose Hout Hres0 Hres1 Hread.
  induction fuel as [|fuel IH]; intros b s H Ha; cbn [conn_loop]; [exact H|].
  fold (cn s x). destruct (e_shut (cn s x) && (0 <? b)); [apply Hclose; assumption|].
  destruct (killed s) eqn:Ek; [apply Hclose; assumption|].
  pose proof (Hout s b H Ha Ek) as H1.
  pose proof (out_phase_frame c x b s Ha) as F. cbn zeta in F.
  destruct (out_phase c x b s) as [s1 refused]. cbn [fst] in *.
  destruct F as (Fa & Fk & Fp & _).
  destruct refused; [exact H1|].
  set (b1 := b - (qlen s x - qlen s1 x)).
  (* poll_reserve *)
  assert (R : exists s2 go b2, reserve_phase c x b1 s1 = (s2, go, b2) /\ P s2 /\ e_alive (cn s2 x) = true /\
                               killed s2 = false /\
                               (go = true -> e_res (cn s2 x) = true /\ e_rwait (cn s2 x) = false)).
  { unfold reserve_phase. fold (cn s1 x).
    destruct (e_res (cn s1 x) && negb (e_rwait (cn s1 x))) eqn:E1.
    - exists s1, true, b1. apply andb_true_iff in E1. destruct E1 as [A B]. apply negb_true_iff in B.
      repeat split; auto; congruence.
    - destruct (can_reserve c x s1) eqn:Ecr; destruct (0 <? b1).
      + exists (set_res x true false s1), true, (b1 - 1). split; [reflexivity|]. split; [apply Hres1; assumption|].
        unfold set_res, cn in *. destruct x; cbn in *; repeat split; auto; congruence.
      + exists s1, false, b1. repeat split; auto; try congruence; discriminate.
      + exists (set_res x false true s1), false, b1. split; [reflexivity|]. split; [apply Hres0; assumption|].
        unfold set_res, cn in *. destruct x; cbn in *; repeat split; auto; try congruence; discriminate.
      + exists s1, false, b1. repeat split; auto; try congruence; discriminate. }
  destruct R as (s2 & go & b2 & ER & H2 & Fa2 & Fk2 & Fgo). rewrite ER.
  destruct go; cbn [negb]; [|exact H2]. destruct (Fgo eq_refl) as [Fr2 Fw2].
  destruct (rgate (glo s2 (negb x))) eqn:Erg; cbn [negb]; [|exact H2].
  destruct (carrier (glo s2 (negb x))) as [|n rest] eqn:Ec.
  - destruct (wclosed s2 (negb x)); [apply Hclose; assumption|exact H2].
  - destruct (c_max (ecf c x) <? n_len n) eqn:Emx; [apply Hclose; assumption|].
    apply IH.
    + replace (mkL (wgate (glo s2 (negb x))) true rest)
        with (mkL (wgate (glo s2 (negb x))) (rgate (glo s2 (negb x))) rest) by (now rewrite Erg).
      apply Hread; try assumption. lia.
    + unfold push_nq, slo, cn in *. destruct x; cbn in *; exact Fa2.
Qed.

Lemma set_res_invP x r w s : InvP s -> e_alive (cn s x) = true -> InvP (set_res x r w s).
Proof.
  intros H Ha. openP H. unfold set_res, cn in *.
  constructor; intros; try destruct z; destruct x; cbn in *; auto; try discriminate; try congruence.
Qed.

Lemma conn_loop_invP c x : forall fuel b s, InvP s -> e_alive (cn s x) = true -> InvP (conn_loop fuel c x b s).
Proof.
  apply (conn_loop_gen InvP).
  - intros. apply close_invP; assumption.
  - intros s b H Ha Hk. pose proof (out_phase_invP c x b s H Ha Hk) as Q.
    destruct (out_phase c x b s) as [s1 [|]]; cbn [fst] in Q; [apply close_invP|]; exact Q.
  - intros. apply set_res_invP; assumption.
  - intros. apply set_res_invP; assumption.
  - intros s n rest H Ha _ _ _ Ec _. apply read_invP; assumption.
Qed.

Lemma conn_poll_invP c x b s : InvP s -> InvP (conn_poll c x b s).
Proof.
  intros H. unfold conn_poll. fold (cn s x). destruct (e_alive (cn s x)) eqn:Ea; [|exact H].
  apply conn_loop_invP; assumption.
Qed.

Ltac brute :=
  constructor; intros; repeat match goal with z : bool |- _ => destruct z end;
  unfold cn, hn, gl in *; cbn in *; auto; try discriminate; try congruence; repeat split; auto; try lia;
  try (intuition congruence).

Lemma h_poll_invP fixed c x b s : InvP s -> InvP (fst (h_poll_gen fixed c x b s)).
Proof.
  intros H. unfold h_poll_gen. destruct (b =? 0); [exact H|].
  destruct (e_evs (eh (gep s x))) as [|[k|k] es].
  - destruct (h_scan _ _ _ _) as [r q].
    assert (G : forall g, InvP (hand_over x (len q <? len (e_nq (eh (gep s x))))
                                  (set_hnd x (mkH (e_ws (eh (gep s x))) q [] (e_peers (eh (gep s x)))
                                                  (e_clog (eh (gep s x))) (e_cmds (eh (gep s x)))) g s))).
    { intros g. unfold hand_over.
      destruct (_ && _ && _) eqn:Eho; [|openP H; unfold set_hnd, cn in *; brute].
      apply andb_true_iff in Eho. destruct Eho as [Eho _]. apply andb_true_iff in Eho. destruct Eho as [_ Ew].
      openP H. unfold set_res, set_hnd, cn in *.
      destruct x; cbn in *; constructor; intros; try destruct z; cbn in *; auto; try discriminate;
        try congruence; repeat split; auto;
        match goal with Hd : _ = false |- _ =>
          first [ destruct (PDt Hd) as (_ & _ & _ & _ & _ & Q); congruence
                | destruct (PDf Hd) as (_ & _ & _ & _ & _ & Q); congruence ] end. }
    destruct r; cbn [fst]; apply G.
  - cbn [fst]. openP H. unfold set_hnd in *. brute.
  - cbn [fst]. openP H. unfold set_hnd in *. brute.
Qed.

Lemma live_alive s x k : live s x k = true -> e_alive (cn s x) = true /\ k = e_per (cn s x).
Proof. unfold live, cn. intros H. apply andb_true_iff in H. destruct H. split; [assumption|lia]. Qed.

Lemma wlive_alive c w : wlive c w = true -> e_alive c = true /\ n_per (w_n w) = e_per c.
Proof. unfold wlive. intros H. apply andb_true_iff in H. destruct H. split; [assumption|lia]. Qed.

Lemma send_sync_invP c x s t l : InvP s -> InvP (fst (send_sync c x s t l)).
Proof.
  intros H. unfold send_sync. destruct (e_peers (eh (gep s x))) as [k|]; [|exact H].
  destruct (live s x k) eqn:El; [|exact H]. apply live_alive in El. destruct El as [Ea _].
  destruct (len (e_sq (ec (gep s x))) <? c_s (ecf c x)); cbn [fst].
  - openP H. unfold cn in *. brute.
  - destruct (e_clog (eh (gep s x))); [exact H|].
    destruct (e_cmds (eh (gep s x)) <? c_c (ecf c x)); cbn [fst]; openP H; unfold cn in *; brute.
Qed.

Lemma set_async_invP x aq ws acc ok err s : InvP s ->
  (e_alive (cn s x) = false -> aq = []) -> InvP (set_async x aq ws acc ok err s).
Proof. intros H Hq. openP H. unfold set_async, cn in *. brute. Qed.

Lemma async_start_invP c x s i t l : InvP s -> InvP (fst (async_start c x s i t l)).
Proof.
  intros H. unfold async_start. destruct (find_w i _); [exact H|].
  destruct (e_peers (eh (gep s x))) as [k|]; [|exact H].
  destruct (live s x k) eqn:El.
  - apply live_alive in El. destruct El as [Ea _].
    destruct (0 <? afree _ _ _); cbn [fst]; apply set_async_invP; auto; intros Hd; congruence.
  - cbn [fst]. apply set_async_invP; auto. intros Hd. apply (p_dead s H x Hd).
Qed.

Lemma async_poll_invP x s i : InvP s -> InvP (fst (async_poll x s i)).
Proof.
  intros H. unfold async_poll. destruct (find_w i _) as [w|]; [|exact H].
  destruct (wlive (ec (gep s x)) w) eqn:El; cbn [negb].
  - apply wlive_alive in El. destruct El as [Ea _].
    destruct (w_asg w); cbn [fst]; [|exact H]. apply set_async_invP; auto. intros Hd. unfold cn in Hd. congruence.
  - cbn [fst]. apply set_async_invP; auto. intros Hd. apply (p_dead s H x Hd).
Qed.

Lemma async_drop_invP c x s i : InvP s -> InvP (fst (async_drop c x s i)).
Proof.
  intros H. unfold async_drop. destruct (find_w i _) as [w|]; [|exact H]. cbn [fst].
  apply set_async_invP; auto. intros Hd. apply (p_dead s H x Hd).
Qed.

Lemma open_ep_invP x p s : InvP s -> e_alive (cn s x) = false -> p = per s ->
  InvP (open_ep x p s).
Proof. intros H Hd Hp. subst p. openP H. unfold open_ep, cn in *. brute. Qed.

Lemma open_stream_invP x s : InvP s -> InvP (fst (open_stream x s)).
Proof.
  intros H. unfold open_stream. fold (cn s x). fold (cn s (negb x)).
  destruct (e_alive (cn s x)) eqn:Ea; [exact H|].
  destruct (e_per (cn s x) <? per s) eqn:Ep; cbn [fst].
  - apply open_ep_invP; auto.
  - destruct (negb (e_alive (cn s (negb x))) && (e_per (cn s (negb x)) =? per s)) eqn:E; cbn [fst]; [|exact H].
    apply andb_true_iff in E. destruct E as [E1 E2]. apply negb_true_iff in E1.
    apply open_ep_invP; [|unfold cn in *; destruct x; cbn in *; exact Ea|reflexivity].
    openP H. unfold cn in *.
    constructor; intros; try destruct z; destruct x; unfold cn in *; cbn in *; auto; try discriminate;
      try congruence; repeat split; auto; try lia; try (intuition congruence).
Qed.

Lemma sink_sync_invP c x s k t l : InvP s -> InvP (fst (sink_sync c x s k t l)).
Proof.
  intros H. unfold sink_sync. destruct (live s x k) eqn:El; [|exact H]. apply live_alive in El. destruct El as [Ea _].
  destruct (len (e_sq (ec (gep s x))) <? c_s (ecf c x)); cbn [fst]; [|exact H].
  openP H. unfold cn in *. brute.
Qed.

Lemma kill_invP s : InvP s -> InvP (kill s).
Proof. intros H. openP H. unfold kill, cn in *. brute. Qed.

Lemma do_step_invP c s t : InvP s -> InvP (fst (do_step c s t)).
Proof.
  intros H. destruct t; cbn [do_step].
  - pose proof (send_sync_invP c x s tag ln H). destruct (send_sync c x s tag ln). assumption.
  - pose proof (async_start_invP c x s id tag ln H). destruct (async_start c x s id tag ln). assumption.
  - pose proof (async_poll_invP x s id H). destruct (async_poll x s id). assumption.
  - pose proof (async_drop_invP c x s id H). destruct (async_drop c x s id). assumption.
  - cbn [fst]. apply conn_poll_invP. exact H.
  - pose proof (h_poll_invP true c x budget s H). unfold h_poll. destruct (h_poll_gen true c x budget s). assumption.
  - pose proof (open_stream_invP x s H). destruct (open_stream x s). assumption.
  - destruct (e_alive (ec (gep s x))) eqn:Ea; cbn [fst]; [|exact H].
    openP H. unfold set_conn, cn in *. brute.
  - destruct (e_cmds (eh (gep s x)) =? 0); cbn [fst]; [exact H|]. apply kill_invP.
    openP H. unfold set_hnd, cn in *. brute.
  - destruct (e_cmds (eh (gep s x)) =? 0); cbn [fst]; [exact H|].
    openP H. unfold set_hnd, cn in *. brute.
  - cbn [fst]. openP H. unfold slo, cn in *. brute.
  - destruct (per s =? 0); cbn [fst]; [exact H|apply kill_invP; exact H].
  - pose proof (sink_sync_invP c x s k tag ln H). destruct (sink_sync c x s k tag ln). assumption.
Qed.

(* ================================================================== the FIFO invariant
   One direction of the stream (sender x, receiver y) depends on a small part of the state: its view. *)
Record view := mkV {
  v_per : N; v_killed : bool;
  v_xalive : bool; v_xper : N;
  v_sq : list notif; v_aq : list notif; v_cur : option notif; v_sk : list notif;
  v_ws : list waiter; v_acc : list notif; v_car : list notif;
  v_yalive : bool; v_yper : N;
  v_nq : list notif; v_evs : list hev; v_peers : option N; v_del : list notif
}.

Definition dview (s : st) (x : bool) : view :=
  let y := negb x in
  mkV (per s) (killed s) (e_alive (cn s x)) (e_per (cn s x))
      (e_sq (cn s x)) (e_aq (cn s x)) (e_cur (cn s x)) (e_sk (cn s x))
      (e_ws (hn s x)) (e_acc (gl s x)) (carrier (glo s x))
      (e_alive (cn s y)) (e_per (cn s y))
      (e_nq (hn s y)) (e_evs (hn s y)) (e_peers (hn s y)) (e_del (gl s y)).

Definition vpipe (v : view) : list notif := v_car v ++ v_sk v ++ opt_list (v_cur v) ++ v_sq v ++ v_aq v.
Definition vseen (v : view) : list notif := v_del v ++ v_nq v.
Definition vdead (v : view) (k : N) : bool :=
  negb (match v_peers v with Some j => j =? k | None => false end) && negb (opened_in k (v_evs v)).
Definition vreading (v : view) : bool := if v_yper v <? v_per v then true else v_yalive v.

(* what of period k, mode m, user y has received or can still receive *)
Definition vline (v : view) (k : N) (m : bool) : list notif :=
  proj k m (v_del v) ++ (if vdead v k then [] else proj k m (v_nq v)) ++
  (if (k =? v_per v) && vreading v then proj k m (v_car v) else []).

Arguments opened_in : simpl never.
Arguments proj : simpl never.
Arguments vpipe : simpl never.
Arguments vseen : simpl never.
Arguments vdead : simpl never.
Arguments vreading : simpl never.
Arguments vline : simpl never.

Record InvV (v : view) : Prop := mkInvV {
  (* structure *)
  i_xal : v_xalive v = true -> v_xper v = v_per v;
  i_xle : v_xper v <= v_per v;
  i_xdead : v_xalive v = false -> v_sq v = [] /\ v_aq v = [] /\ v_sk v = [] /\ v_cur v = None;
  i_yal : v_yalive v = true -> v_yper v = v_per v;
  i_yle : v_yper v <= v_per v;
  i_unj : v_xper v < v_per v -> v_car v = [];
  i_kill : v_killed v = true -> v_car v = [];
  (* typing *)
  i_t1s : Forall (fun n => n_sync n = true) (v_sq v);
  i_t1a : Forall (fun n => n_sync n = false) (v_aq v);
  i_t1w : Forall (fun w => n_sync (w_n w) = false /\ n_per (w_n w) <= v_xper v) (v_ws v);
  i_t2 : Forall (fun n => n_per n = v_per v) (vpipe v);
  i_t3 : Forall (fun n => n_per n <= v_xper v) (v_acc v);
  i_t4 : Forall (fun n => n_per n <= v_yper v) (vseen v);
  (* the handle of y and its Connection *)
  i_j : v_yalive v = true ->
        (v_peers v = Some (v_yper v) /\ v_evs v = []) \/ (exists pre, v_evs v = pre ++ [HOpened (v_yper v)]);
  i_ev : forall j, opened_in j (v_evs v) = true -> j <= v_yper v;
  i_pe : forall j, v_peers v = Some j -> j <= v_yper v;
  (* no loss while both ends are running *)
  i_eq : v_killed v = false -> v_xalive v = true -> vreading v = true ->
         forall m, proj (v_per v) m (v_acc v) = proj (v_per v) m (vseen v ++ vpipe v);
  (* what was or can still be delivered is a prefix of what was accepted *)
  i_pre : forall k m, prefix (vline v k m) (proj k m (v_acc v))
}.

Definition InvD (s : st) (x : bool) : Prop := InvV (dview s x).

Lemma init_invD hs x : InvD (init hs) x.
Proof.
  unfold InvD. destruct x; cbn; constructor; unfold vline, vpipe, vseen, vdead, vreading, proj, opened_in;
    cbn; intros; try apply Forall_nil; auto; try discriminate; try lia;
    try (exists []; reflexivity);
    try (destruct (_ && _); apply prefix_refl).
Qed.

Lemma prefix_drop_tail {A} (a b c z : list A) : prefix (a ++ b ++ c) z -> prefix (a ++ b ++ []) z.
Proof. intros H. rewrite app_nil_r. rewrite app_assoc in H. eapply prefix_app_l. exact H. Qed.

Lemma prefix_drop_mid {A} (a b z : list A) : prefix (a ++ b ++ []) z -> prefix (a ++ [] ++ []) z.
Proof. intros H. cbn. rewrite app_nil_r in *. eapply prefix_app_l. exact H. Qed.

Lemma proj_ne k m (n : notif) : n_per n <> k -> proj k m [n] = [].
Proof. intros H. unfold proj. cbn. unfold sel. destruct (n_per n =? k) eqn:E; [lia|reflexivity]. Qed.

Lemma proj_none_ne k m l : Forall (fun n => n_per n <> k) l -> proj k m l = [].
Proof.
  intros H. apply filter_none. eapply Forall_impl; [|exact H]. cbn. intros n Hn.
  unfold sel. destruct (n_per n =? k) eqn:E; [lia|reflexivity].
Qed.

(* ---- the sender's Connection ends ---- *)
Definition vclose_x (v : view) : view :=
  mkV (v_per v) (v_killed v) false (v_xper v) [] [] None [] (v_ws v) (v_acc v) (v_car v)
      (v_yalive v) (v_yper v) (v_nq v) (v_evs v) (v_peers v) (v_del v).

Lemma vclose_x_inv v : InvV v -> InvV (vclose_x v).
Proof.
  intros H. pose proof (i_t2 v H) as T2. unfold vpipe in T2. apply Forall_app_iff in T2.
  destruct H. constructor; cbn; auto; try discriminate; try apply Forall_nil.
  - unfold vpipe. cbn. rewrite app_nil_r. tauto.
Qed.

(* ---- the receiver's Connection ends ---- *)
Definition vclose_y (v : view) : view :=
  mkV (v_per v) (v_killed v) (v_xalive v) (v_xper v) (v_sq v) (v_aq v) (v_cur v) (v_sk v) (v_ws v) (v_acc v)
      (v_car v) false (v_yper v) (v_nq v) (v_evs v ++ [HClosed (v_yper v)]) (v_peers v) (v_del v).

Lemma vclose_y_inv v : InvV v -> v_yalive v = true -> InvV (vclose_y v).
Proof.
  intros H Ha. pose proof (i_yal v H Ha) as Ey. pose proof (i_pre v H) as P.
  destruct H. constructor; cbn; auto; try discriminate.
  - intros j. rewrite opened_in_app. cbn. rewrite orb_false_r. auto.
  - unfold vreading. cbn. rewrite Ey. rewrite N.ltb_irrefl. discriminate.
  - intros k m. specialize (P k m). unfold vline, vdead, vreading in *. cbn.
    rewrite opened_in_app. cbn. rewrite orb_false_r.
    rewrite Ey, N.ltb_irrefl. rewrite andb_false_r. eapply prefix_drop_tail. exact P.
Qed.

(* ---- the outbound phase of the sender's Connection ---- *)
Definition vL (v : view) (h : list bool) (b : N) : lst :=
  mkLst (v_cur v) (v_sq v) (v_aq v) (v_sk v) (v_car v) h b.

Lemma vL_flat v h b : lflat (vL v h b) = vpipe v.
Proof. reflexivity. Qed.

(* start_send refused a notification: the Connection closes without flushing *)
Definition vout_closed (v : view) (L : lst) : view :=
  mkV (v_per v) (v_killed v) false (v_xper v) [] [] None [] (v_ws v) (v_acc v) (l_ca L)
      (v_yalive v) (v_yper v) (v_nq v) (v_evs v) (v_peers v) (v_del v).

Definition vout_open (v : view) (L : lst) (wg : bool) (ws : list waiter) : view :=
  mkV (v_per v) (v_killed v) true (v_xper v) (l_sq L) (l_aq L) (l_cur L)
      (if wg then [] else l_sk L) ws (v_acc v) (if wg then l_ca L ++ l_sk L else l_ca L)
      (v_yalive v) (v_yper v) (v_nq v) (v_evs v) (v_peers v) (v_del v).

Lemma vline_car_irrelevant v v' k m :
  v_per v' = v_per v -> v_yalive v' = v_yalive v -> v_yper v' = v_yper v -> v_nq v' = v_nq v ->
  v_evs v' = v_evs v -> v_peers v' = v_peers v -> v_del v' = v_del v ->
  vline v' k m = proj k m (v_del v) ++ (if vdead v k then [] else proj k m (v_nq v)) ++
                 (if (k =? v_per v) && vreading v then proj k m (v_car v') else []).
Proof.
  intros E1 E2 E3 E4 E5 E6 E7. unfold vline, vdead, vreading. now rewrite E1, E2, E3, E4, E5, E6, E7.
Qed.

Lemma opened_in_last k pre j : opened_in k (pre ++ [HOpened j]) = opened_in k pre || (j =? k).
Proof. rewrite opened_in_app. unfold opened_in at 2. cbn. now rewrite orb_false_r. Qed.

(* while y can still read the carrier of the current period, its handle has not written that period off *)
Lemma vmid_per v m : InvV v -> vreading v = true ->
  (if vdead v (v_per v) then [] else proj (v_per v) m (v_nq v)) = proj (v_per v) m (v_nq v).
Proof.
  intros H Hr. destruct (vdead v (v_per v)) eqn:Ed; [|reflexivity]. symmetry.
  unfold vreading in Hr. destruct (v_yper v <? v_per v) eqn:El.
  - pose proof (i_t4 v H) as T4. unfold vseen in T4. apply Forall_app_iff in T4. destruct T4 as [_ T4].
    apply (proj_above (v_yper v)); [exact T4|lia].
  - pose proof (i_yal v H Hr) as Ey. unfold vdead in Ed. apply andb_true_iff in Ed. destruct Ed as [E1 E2].
    destruct (i_j v H Hr) as [[Ep _]|[pre Ee]].
    + rewrite Ep, Ey, N.eqb_refl in E1. discriminate.
    + rewrite Ee, opened_in_last, Ey, N.eqb_refl, orb_true_r in E2. discriminate.
Qed.

Lemma vdead_alive v : InvV v -> v_yalive v = true -> vdead v (v_per v) = false.
Proof.
  intros H Ha. pose proof (i_yal v H Ha) as Ey. destruct (vdead v (v_per v)) eqn:Ed; [|reflexivity].
  unfold vdead in Ed. apply andb_true_iff in Ed. destruct Ed as [E1 E2].
  destruct (i_j v H Ha) as [[Ep _]|[pre Ee]].
  - rewrite Ep, Ey, N.eqb_refl in E1. discriminate.
  - rewrite Ee, opened_in_last, Ey, N.eqb_refl, orb_true_r in E2. discriminate.
Qed.

(* the carrier may grow by whatever the sender had accepted, in order *)
Lemma vline_grow v v' : InvV v -> v_killed v = false -> v_xalive v = true ->
  v_per v' = v_per v -> v_yalive v' = v_yalive v -> v_yper v' = v_yper v -> v_nq v' = v_nq v ->
  v_evs v' = v_evs v -> v_peers v' = v_peers v -> v_del v' = v_del v -> v_acc v' = v_acc v ->
  (forall m, exists r, proj (v_per v) m (vpipe v) = proj (v_per v) m (v_car v') ++ r) ->
  forall k m, prefix (vline v' k m) (proj k m (v_acc v')).
Proof.
  intros H Hk Ha E1 E2 E3 E4 E5 E6 E7 E8 Hc k m.
  rewrite (vline_car_irrelevant v v' k m E1 E2 E3 E4 E5 E6 E7), E8.
  pose proof (i_pre v H k m) as P. unfold vline in P.
  destruct ((k =? v_per v) && vreading v) eqn:Eb.
  - apply andb_true_iff in Eb. destruct Eb as [Ek Er]. assert (k = v_per v) by lia. subst k.
    rewrite (vmid_per v m H Er). rewrite (i_eq v H Hk Ha Er m). unfold vseen. rewrite !proj_app.
    destruct (Hc m) as [r Hr]. rewrite Hr. exists r. now rewrite <- !app_assoc.
  - exact P.
Qed.

Lemma vout_inv v fuel mx wg h b ws' :
  InvV v -> v_killed v = false -> v_xalive v = true ->
  Forall (fun w => n_sync (w_n w) = false /\ n_per (w_n w) <= v_xper v) ws' ->
  match a_loop fuel mx wg (vL v h b) with
  | (true, L) => InvV (vout_closed v L)
  | (false, L) => InvV (vout_open v L wg ws')
  end.
Proof.
  intros H Hk Ha Hws.
  assert (HT0 : T1L (vL v h b)) by (split; [exact (i_t1s v H)|exact (i_t1a v H)]).
  pose proof (fun f Hf => a_loop_core f Hf fuel mx wg (vL v h b) HT0) as Hcore.
  pose proof (a_loop_forall (fun n => n_per n = v_per v) fuel mx wg (vL v h b) HT0) as Hfor.
  rewrite vL_flat in Hfor. specialize (Hfor (i_t2 v H)).
  destruct (a_loop fuel mx wg (vL v h b)) as [cl L]. cbn [snd] in Hfor.
  pose proof Hfor as Hfor'. unfold lflat in Hfor'. rewrite !Forall_app_iff in Hfor'.
  destruct Hfor' as (F1 & F2 & F3 & F4 & F5).
  pose proof (i_xal v H Ha) as Ex.
  destruct cl.
  - assert (P : forall k m, prefix (vline (vout_closed v L) k m) (proj k m (v_acc (vout_closed v L)))).
    { apply (vline_grow v); auto. intros m. destruct (Hcore (sel (v_per v) m) (sel_pure _ _)) as [r Hr].
      exists r. rewrite vL_flat in Hr. exact Hr. }
    destruct H. constructor; cbn; auto; try discriminate; try apply Forall_nil.
    + intros Hlt. lia.
    + congruence.
    + unfold vpipe. cbn. rewrite app_nil_r. exact F1.
  - assert (HTL : T1L L) by (destruct (Hcore (sel 0 true) (sel_pure _ _)); assumption).
    assert (Hfl : forall f, pure f -> filter f (lflat L) = filter f (vpipe v)).
    { intros f Hf. destruct (Hcore f Hf) as [_ E]. rewrite E, vL_flat. reflexivity. }
    destruct HTL as [HTs HTa].
    assert (Epipe : vpipe (vout_open v L wg ws') = lflat L).
    { unfold vpipe, lflat. cbn. destruct wg; reassoc. }
    assert (P : forall k m, prefix (vline (vout_open v L wg ws') k m) (proj k m (v_acc (vout_open v L wg ws')))).
    { apply (vline_grow v); auto. intros m. unfold proj. rewrite <- (Hfl _ (sel_pure (v_per v) m)).
      unfold lflat. cbn. destruct wg.
      - eexists. rewrite (app_assoc (l_ca L)). rewrite filter_app. reflexivity.
      - eexists. rewrite filter_app. reflexivity. }
    destruct H. constructor; cbn; auto; try discriminate.
    + intros Hlt. lia.
    + congruence.
    + rewrite Epipe. exact Hfor.
    + intros _ _ Hr m. unfold vreading in Hr. cbn in Hr. rewrite Epipe. unfold vseen. cbn.
      rewrite (i_eq0 Hk Ha Hr m). unfold vseen. rewrite !proj_app. f_equal.
      unfold proj. now rewrite Hfl by apply sel_pure.
Qed.

(* ---- the receiver's Connection reads one frame into its user channel ---- *)
Definition vread (v : view) (n : notif) (rest : list notif) : view :=
  mkV (v_per v) (v_killed v) (v_xalive v) (v_xper v) (v_sq v) (v_aq v) (v_cur v) (v_sk v) (v_ws v) (v_acc v)
      rest (v_yalive v) (v_yper v) (v_nq v ++ [n]) (v_evs v) (v_peers v) (v_del v).

Lemma vread_inv v n rest : InvV v -> v_yalive v = true -> v_car v = n :: rest -> InvV (vread v n rest).
Proof.
  intros H Ha Ec. pose proof (i_yal v H Ha) as Ey.
  pose proof (i_t2 v H) as T2. unfold vpipe in T2. rewrite Ec in T2. cbn in T2. inversion T2 as [|? ? Hn T2']; subst.
  assert (Hr : vreading v = true) by (unfold vreading; rewrite Ey, N.ltb_irrefl; exact Ha).
  pose proof (vdead_alive v H Ha) as Hdead.
  pose proof (i_pre v H) as P.
  destruct H. constructor; cbn.
  - assumption.
  - assumption.
  - assumption.
  - assumption.
  - assumption.
  - intros Hlt. specialize (i_unj0 Hlt). congruence.
  - intros Hkl. specialize (i_kill0 Hkl). congruence.
  - assumption.
  - assumption.
  - assumption.
  - unfold vpipe. cbn. exact T2'.
  - assumption.
  - unfold vseen in *. cbn. rewrite app_assoc. apply Forall_app_iff. split; [assumption|].
    repeat constructor. lia.
  - assumption.
  - assumption.
  - assumption.
  - intros Hk Hx _ m. unfold vseen, vpipe in *. cbn. rewrite (i_eq0 Hk Hx Hr m). rewrite Ec. f_equal. reassoc.
  - intros k m. specialize (P k m). unfold vline in *.
    replace (vdead (vread v n rest) k) with (vdead v k) by reflexivity.
    replace (vreading (vread v n rest)) with (vreading v) by reflexivity. cbn.
    rewrite Ec in P. rewrite Hr in *. rewrite andb_true_r in *.
    destruct (k =? v_per v) eqn:Ek.
    + assert (k = v_per v) by lia. subst k. rewrite Hdead in *.
      rewrite proj_app. change (n :: rest) with ([n] ++ rest) in P. rewrite proj_app in P.
      rewrite <- !app_assoc in *. exact P.
    + rewrite proj_app. rewrite (proj_ne k m n) by lia. rewrite !app_nil_r in *. exact P.
Qed.

(* ---- the handle of the receiver ---- *)
Lemma h_scan_spec peers : forall b q r q',
  h_scan true peers b q = (r, q') ->
  exists sk, q = sk ++ opt_list r ++ q' /\ Forall (fun n => passes true peers n = false) sk /\
             (forall n, r = Some n -> passes true peers n = true).
Proof.
  induction b as [|b IH]; intros q r q' H; cbn [h_scan] in H.
  - inversion H; subst. exists []. repeat split; [constructor|discriminate].
  - destruct q as [|n t].
    + inversion H; subst. exists []. repeat split; [constructor|discriminate].
    + destruct (passes true peers n) eqn:Ep.
      * inversion H; subst. exists []. repeat split; [constructor|]. intros n0 E. inversion E; subst. exact Ep.
      * destruct (IH t r q' H) as [sk [E [F G]]]. exists (n :: sk). rewrite E. repeat split; auto.
Qed.

Lemma passes_per k n : passes true (Some k) n = false -> n_per n <> k.
Proof. cbn. intros H. lia. Qed.

Lemma vline_flip v v' k m z :
  v_per v' = v_per v -> v_yalive v' = v_yalive v -> v_yper v' = v_yper v -> v_nq v' = v_nq v ->
  v_del v' = v_del v -> v_car v' = v_car v ->
  (vdead v k = true -> vdead v' k = true) ->
  (vdead v k = false -> vdead v' k = true -> (k =? v_per v) && vreading v = false) ->
  prefix (vline v k m) z -> prefix (vline v' k m) z.
Proof.
  intros E1 E2 E3 E4 E5 E6 Hd Hf P. unfold vline in *.
  replace (vreading v') with (vreading v) by (unfold vreading; now rewrite E1, E2, E3).
  rewrite E1, E4, E5, E6.
  destruct (vdead v k) eqn:D1.
  - rewrite (Hd eq_refl). exact P.
  - destruct (vdead v' k) eqn:D2; [|exact P].
    rewrite (Hf eq_refl eq_refl) in *. eapply prefix_drop_mid. exact P.
Qed.

Definition vevent (v : view) (p : option N) (es : list hev) : view :=
  mkV (v_per v) (v_killed v) (v_xalive v) (v_xper v) (v_sq v) (v_aq v) (v_cur v) (v_sk v) (v_ws v) (v_acc v)
      (v_car v) (v_yalive v) (v_yper v) (v_nq v) es p (v_del v).

Lemma vevent_inv v e es :
  InvV v -> v_evs v = e :: es ->
  InvV (vevent v (match e with HOpened j => Some j | HClosed _ => None end) es).
Proof.
  intros H Ee.
  assert (Hop : forall k, opened_in k (v_evs v) =
                          (match e with HOpened j => j =? k | HClosed _ => false end) || opened_in k es).
  { intros k. rewrite Ee. reflexivity. }
  assert (Hj : v_yalive v = true -> (es = [] /\ e = HOpened (v_yper v)) \/
                                    (exists pre, es = pre ++ [HOpened (v_yper v)])).
  { intros Ha. destruct (i_j v H Ha) as [[_ E]|[pre E]]; [congruence|].
    rewrite Ee in E. destruct pre as [|x pre]; cbn in E; inversion E; subst.
    - left. split; reflexivity.
    - right. now exists pre. }
  pose proof (i_pre v H) as P. pose proof (i_ev v H) as EV. pose proof (i_pe v H) as PE.
  pose proof (i_yal v H) as YA.
  destruct H. constructor; cbn.
  - assumption.
  - assumption.
  - assumption.
  - assumption.
  - assumption.
  - assumption.
  - assumption.
  - assumption.
  - assumption.
  - assumption.
  - assumption.
  - assumption.
  - assumption.
  - intros Ha. destruct (Hj Ha) as [[E1 E2]|E]; [left; subst; split; reflexivity|right; exact E].
  - intros j Hjn. apply EV. rewrite Hop, Hjn. apply orb_true_r.
  - intros j Hjn. destruct e as [j'|j']; [|discriminate]. inversion Hjn; subst.
    apply EV. rewrite Hop, N.eqb_refl. reflexivity.
  - intros Hk Hx Hr m. apply (i_eq0 Hk Hx Hr m).
  - intros k m. apply (vline_flip v); try reflexivity; [| |apply P].
    + unfold vdead. cbn. rewrite Hop. intros D. apply andb_true_iff in D. destruct D as [D1 D2].
      apply negb_true_iff in D2. apply orb_false_iff in D2. destruct D2 as [D2 D3].
      rewrite D3. destruct e as [j|j]; cbn; [rewrite D2|]; reflexivity.
    + intros D1 D2. destruct ((k =? v_per v) && vreading v) eqn:Eb; [exfalso|reflexivity].
      apply andb_true_iff in Eb. destruct Eb as [Ek Er]. assert (k = v_per v) by lia. subst k.
      unfold vdead in D1, D2. cbn in D2. rewrite Hop in D1.
      apply andb_true_iff in D2. destruct D2 as [D2 D3]. apply negb_true_iff in D3.
      unfold vreading in Er. destruct (v_yper v <? v_per v) eqn:El.
      * (* y has not joined the period: its handle cannot know it *)
        rewrite D3, orb_false_r in D1. apply andb_false_iff in D1.
        destruct D1 as [D1|D1]; apply negb_false_iff in D1.
        -- destruct (v_peers v) as [j|] eqn:Ep; [|discriminate]. specialize (PE j eq_refl). lia.
        -- specialize (EV (v_per v)). rewrite Hop, D1 in EV. specialize (EV eq_refl). lia.
      * specialize (YA Er). destruct (Hj Er) as [[E1 E2]|[pre E]].
        -- subst. cbn in D2. rewrite YA, N.eqb_refl in D2. discriminate.
        -- rewrite E, opened_in_last, YA, N.eqb_refl, orb_true_r in D3. discriminate.
Qed.

Definition vscan (v : view) (r : option notif) (q : list notif) : view :=
  mkV (v_per v) (v_killed v) (v_xalive v) (v_xper v) (v_sq v) (v_aq v) (v_cur v) (v_sk v) (v_ws v) (v_acc v)
      (v_car v) (v_yalive v) (v_yper v) q (v_evs v) (v_peers v) (v_del v ++ opt_list r).

Lemma vscan_inv v b r q :
  InvV v -> v_evs v = [] -> h_scan true (v_peers v) b (v_nq v) = (r, q) -> InvV (vscan v r q).
Proof.
  intros H Ee Hs. destruct (h_scan_spec _ _ _ _ _ Hs) as [sk [Eq [Fsk Hr]]].
  (* whatever the filter rejects belongs to a stream the handle has written off *)
  assert (Hskip : forall k m, vdead v k = false -> proj k m sk = []).
  { intros k m D. unfold vdead in D. rewrite Ee in D. cbn in D. rewrite andb_true_r in D.
    apply negb_false_iff in D. destruct (v_peers v) as [j|] eqn:Ep; [|discriminate].
    assert (j = k) by lia. subst j. apply proj_none_ne.
    eapply Forall_impl; [|exact Fsk]. cbn. intros n Hn. lia. }
  assert (Hdel : forall k m, vdead v k = true -> proj k m (opt_list r) = []).
  { intros k m D. destruct r as [n|]; [|reflexivity]. specialize (Hr n eq_refl).
    unfold vdead in D. apply andb_true_iff in D. destruct D as [D _]. apply negb_true_iff in D.
    destruct (v_peers v) as [j|]; [|discriminate]. cbn in Hr. apply proj_ne. lia. }
  pose proof (i_pre v H) as P. pose proof (i_t4 v H) as T4. pose proof (i_yal v H) as YA.
  pose proof (i_j v H) as J.
  destruct H. constructor; cbn.
  - assumption.
  - assumption.
  - assumption.
  - assumption.
  - assumption.
  - assumption.
  - assumption.
  - assumption.
  - assumption.
  - assumption.
  - assumption.
  - assumption.
  - unfold vseen in *. cbn. rewrite Eq in T4. rewrite !Forall_app_iff in *. tauto.
  - assumption.
  - assumption.
  - assumption.
  - intros Hk Hx Hrd m. change (vreading v = true) in Hrd.
    rewrite (i_eq0 Hk Hx Hrd m). unfold vseen. cbn. rewrite Eq. rewrite !proj_app.
    assert (Es : proj (v_per v) m sk = []).
    { unfold vreading in Hrd. destruct (v_yper v <? v_per v) eqn:El.
      - apply (proj_above (v_yper v)); [|lia]. unfold vseen in T4. rewrite Eq in T4.
        rewrite !Forall_app_iff in T4. tauto.
      - apply Hskip. apply vdead_alive; [constructor; assumption|exact Hrd]. }
    rewrite Es. reassoc.
  - intros k m. specialize (P k m). unfold vline in *.
    replace (vdead (vscan v r q) k) with (vdead v k) by reflexivity.
    replace (vreading (vscan v r q)) with (vreading v) by reflexivity. cbn.
    rewrite proj_app. destruct (vdead v k) eqn:D.
    + rewrite (Hdel k m D), app_nil_r. exact P.
    + rewrite Eq in P. rewrite !proj_app in P. rewrite (Hskip k m D) in P. cbn [app] in P.
      rewrite <- !app_assoc in *. exact P.
Qed.

(* ---- the sender's user ---- *)
Definition vaccept (v : view) (n : notif) (ws : list waiter) : view :=
  mkV (v_per v) (v_killed v) (v_xalive v) (v_xper v)
      (if n_sync n then v_sq v ++ [n] else v_sq v) (if n_sync n then v_aq v else v_aq v ++ [n])
      (v_cur v) (v_sk v) ws (v_acc v ++ [n]) (v_car v)
      (v_yalive v) (v_yper v) (v_nq v) (v_evs v) (v_peers v) (v_del v).

Lemma filter_insert_mid {A} (f : A -> bool) X sq n aq :
  filter f aq = [] \/ f n = false ->
  filter f (X ++ (sq ++ [n]) ++ aq) = filter f (X ++ sq ++ aq) ++ filter f [n].
Proof.
  intros H. rewrite !filter_app. destruct H as [H|H].
  - rewrite H. now rewrite !app_nil_r, app_assoc.
  - cbn. rewrite H. now rewrite !app_nil_r.
Qed.

Lemma vaccept_inv v n ws :
  InvV v -> v_xalive v = true -> n_per n = v_xper v ->
  Forall (fun w => n_sync (w_n w) = false /\ n_per (w_n w) <= v_xper v) ws ->
  InvV (vaccept v n ws).
Proof.
  intros H Ha Hn Hws. pose proof (i_xal v H Ha) as Ex. pose proof (i_pre v H) as P.
  pose proof (i_t2 v H) as T2. unfold vpipe in T2. rewrite !Forall_app_iff in T2.
  destruct T2 as (T2a & T2b & T2c & T2d & T2e).
  pose proof (i_t1a v H) as T1a.
  destruct H. constructor; cbn.
  - assumption.
  - assumption.
  - intros Hd. congruence.
  - assumption.
  - assumption.
  - assumption.
  - assumption.
  - destruct (n_sync n) eqn:Em; [|assumption]. apply Forall_app_iff. split; [assumption|]. repeat constructor. exact Em.
  - destruct (n_sync n) eqn:Em; [assumption|]. apply Forall_app_iff. split; [assumption|]. repeat constructor. exact Em.
  - assumption.
  - unfold vpipe. cbn. destruct (n_sync n); rewrite !Forall_app_iff; repeat split; auto;
      repeat constructor; lia.
  - apply Forall_app_iff. split; [assumption|]. repeat constructor. lia.
  - assumption.
  - assumption.
  - assumption.
  - assumption.
  - intros Hk _ Hr m. change (vreading v = true) in Hr. rewrite proj_app. rewrite (i_eq0 Hk Ha Hr m).
    unfold vseen, vpipe. cbn. unfold proj. destruct (n_sync n) eqn:Em.
    + replace ((v_del v ++ v_nq v) ++ v_car v ++ v_sk v ++ opt_list (v_cur v) ++ (v_sq v ++ [n]) ++ v_aq v)
        with (((v_del v ++ v_nq v) ++ v_car v ++ v_sk v ++ opt_list (v_cur v)) ++ (v_sq v ++ [n]) ++ v_aq v)
        by reassoc.
      rewrite filter_insert_mid.
      * f_equal. f_equal. reassoc.
      * destruct m; [left|right; unfold sel; rewrite Em; cbn; apply andb_false_r]. apply filter_none.
        eapply Forall_impl; [|exact T1a]. cbn. intros x Hx. unfold sel. rewrite Hx. cbn. apply andb_false_r.
    + rewrite <- filter_app. f_equal. reassoc.
  - intros k m. specialize (P k m). rewrite proj_app. apply prefix_ext. exact P.
Qed.

Definition vsetws (v : view) (ws : list waiter) : view :=
  mkV (v_per v) (v_killed v) (v_xalive v) (v_xper v) (v_sq v) (v_aq v) (v_cur v) (v_sk v) ws (v_acc v) (v_car v)
      (v_yalive v) (v_yper v) (v_nq v) (v_evs v) (v_peers v) (v_del v).

Lemma vsetws_inv v ws :
  InvV v -> Forall (fun w => n_sync (w_n w) = false /\ n_per (w_n w) <= v_xper v) ws -> InvV (vsetws v ws).
Proof. intros H Hws. destruct H. constructor; cbn; assumption. Qed.

(* ---- the protocol: opening, killing ---- *)
Definition vnewper (v : view) : view :=
  mkV (v_per v + 1) false (v_xalive v) (v_xper v) (v_sq v) (v_aq v) (v_cur v) (v_sk v) (v_ws v) (v_acc v) []
      (v_yalive v) (v_yper v) (v_nq v) (v_evs v) (v_peers v) (v_del v).

Lemma vnewper_inv v : InvV v -> v_xalive v = false -> v_yalive v = false -> v_yper v = v_per v ->
  InvV (vnewper v).
Proof.
  intros H Hx Hy Ey. pose proof (i_pre v H) as P. destruct (i_xdead v H Hx) as (Q1 & Q2 & Q3 & Q4).
  destruct H. constructor; cbn.
  - congruence.
  - lia.
  - assumption.
  - congruence.
  - lia.
  - reflexivity.
  - reflexivity.
  - assumption.
  - assumption.
  - assumption.
  - unfold vpipe. cbn. rewrite Q1, Q2, Q3, Q4. constructor.
  - assumption.
  - assumption.
  - congruence.
  - assumption.
  - assumption.
  - congruence.
  - intros k m. specialize (P k m). unfold vline in *.
    replace (vdead (vnewper v) k) with (vdead v k) by reflexivity. cbn.
    assert (E : vreading v = false) by (unfold vreading; rewrite Ey, N.ltb_irrefl; exact Hy).
    rewrite E, andb_false_r in P. unfold proj at 4. cbn. destruct (_ && _); exact P.
Qed.

Definition vjoin_x (v : view) : view :=
  mkV (v_per v) (v_killed v) true (v_per v) [] [] None [] (v_ws v) (v_acc v) (v_car v)
      (v_yalive v) (v_yper v) (v_nq v) (v_evs v) (v_peers v) (v_del v).

Lemma prefix_nil_inv {A} (a b c : list A) : prefix (a ++ b ++ c) [] -> a = [] /\ b = [] /\ c = [].
Proof.
  intros H. apply prefix_nil_r in H. apply app_eq_nil in H. destruct H as [H1 H2].
  apply app_eq_nil in H2. tauto.
Qed.

Lemma vjoin_x_inv v : InvV v -> v_xalive v = false -> v_xper v < v_per v -> InvV (vjoin_x v).
Proof.
  intros H Hx Hlt. pose proof (i_pre v H) as P. pose proof (i_unj v H Hlt) as Ec.
  assert (Hnone : forall m, proj (v_per v) m (v_acc v) = []).
  { intros m. apply (proj_above (v_xper v)); [exact (i_t3 v H)|exact Hlt]. }
  pose proof (fun m => vmid_per v m H) as Hmid. pose proof (i_t3 v H) as T3. pose proof (i_t1w v H) as T1w.
  destruct H. constructor; cbn.
  - reflexivity.
  - lia.
  - discriminate.
  - assumption.
  - assumption.
  - lia.
  - assumption.
  - constructor.
  - constructor.
  - eapply Forall_impl; [|exact T1w]. cbn. intros w [A B]. split; [exact A|lia].
  - unfold vpipe. cbn. rewrite Ec. constructor.
  - eapply Forall_impl; [|exact T3]. cbn. intros n Hn. lia.
  - assumption.
  - assumption.
  - assumption.
  - assumption.
  - intros Hk _ Hr m. change (vreading v = true) in Hr. rewrite Hnone. symmetry.
    specialize (P (v_per v) m). rewrite Hnone in P. unfold vline in P. rewrite (Hmid m Hr) in P.
    apply prefix_nil_inv in P. destruct P as (P1 & P2 & _).
    unfold vseen, vpipe. cbn. rewrite Ec. rewrite !proj_app, P1, P2. reflexivity.
  - intros k m. exact (P k m).
Qed.

Definition vjoin_y (v : view) : view :=
  mkV (v_per v) (v_killed v) (v_xalive v) (v_xper v) (v_sq v) (v_aq v) (v_cur v) (v_sk v) (v_ws v) (v_acc v)
      (v_car v) true (v_per v) (v_nq v) (v_evs v ++ [HOpened (v_per v)]) (v_peers v) (v_del v).

Lemma vjoin_y_inv v : InvV v -> v_yalive v = false -> v_yper v < v_per v -> InvV (vjoin_y v).
Proof.
  intros H Hy Hlt. pose proof (i_pre v H) as P. pose proof (i_ev v H) as EV. pose proof (i_pe v H) as PE.
  pose proof (i_t4 v H) as T4.
  assert (Hr : vreading v = true) by (unfold vreading; destruct (v_yper v <? v_per v) eqn:E; [reflexivity|lia]).
  destruct H. constructor; cbn.
  - assumption.
  - assumption.
  - assumption.
  - reflexivity.
  - lia.
  - assumption.
  - assumption.
  - assumption.
  - assumption.
  - assumption.
  - assumption.
  - assumption.
  - eapply Forall_impl; [|exact T4]. cbn. intros n Hn. lia.
  - intros _. right. now exists (v_evs v).
  - intros j. rewrite opened_in_last. intros Hj. apply orb_true_iff in Hj. destruct Hj as [Hj|Hj].
    + specialize (EV j Hj). lia.
    + lia.
  - intros j Hj. specialize (PE j Hj). lia.
  - intros Hk Hx _ m. exact (i_eq0 Hk Hx Hr m).
  - intros k m. specialize (P k m). unfold vline in *. cbn.
    replace (vreading (vjoin_y v)) with true by (unfold vreading; cbn; now rewrite N.ltb_irrefl).
    rewrite Hr in P.
    assert (Emid : (if vdead (vjoin_y v) k then [] else proj k m (v_nq v)) =
                   (if vdead v k then [] else proj k m (v_nq v))).
    { unfold vdead. cbn. rewrite opened_in_last. destruct (v_per v =? k) eqn:Ek.
      - assert (k = v_per v) by lia. subst k. rewrite orb_true_r, andb_false_r.
        assert (E0 : proj (v_per v) m (v_nq v) = []).
        { apply (proj_above (v_yper v)); [|exact Hlt]. unfold vseen in T4. apply Forall_app_iff in T4. tauto. }
        cbn. rewrite E0. destruct (negb _ && negb _); reflexivity.
      - now rewrite orb_false_r. }
    rewrite Emid. exact P.
Qed.

Definition vkill (v : view) : view :=
  mkV (v_per v) true (v_xalive v) (v_xper v) (v_sq v) (v_aq v) (v_cur v) (v_sk v) (v_ws v) (v_acc v) []
      (v_yalive v) (v_yper v) (v_nq v) (v_evs v) (v_peers v) (v_del v).

Lemma vkill_inv v : InvV v -> InvV (vkill v).
Proof.
  intros H. pose proof (i_pre v H) as P.
  pose proof (i_t2 v H) as T2. unfold vpipe in T2. apply Forall_app_iff in T2. destruct T2 as [_ T2].
  destruct H. constructor; cbn.
  - assumption.
  - assumption.
  - assumption.
  - assumption.
  - assumption.
  - reflexivity.
  - reflexivity.
  - assumption.
  - assumption.
  - assumption.
  - unfold vpipe. cbn. exact T2.
  - assumption.
  - assumption.
  - assumption.
  - assumption.
  - assumption.
  - discriminate.
  - intros k m. specialize (P k m). unfold vline in *.
    replace (vdead (vkill v) k) with (vdead v k) by reflexivity. cbn.
    unfold proj at 4. cbn. destruct (_ && _); [|exact P].
    eapply prefix_drop_tail. exact P.
Qed.

(* ================================================================== from views to states *)
Lemma assign_forall (Q : notif -> Prop) cn0 : forall k ws,
  Forall (fun w => Q (w_n w)) ws -> Forall (fun w => Q (w_n w)) (assign cn0 k ws).
Proof.
  induction k as [|k IH]; intros ws H; [destruct ws; exact H|].
  induction H as [|w t Hw Ht IHt]; cbn; [constructor|].
  destruct (w_asg w || negb (wlive cn0 w)).
  - constructor; [exact Hw|exact IHt].
  - constructor; [exact Hw|apply IH; exact Ht].
Qed.

Lemma remove_w_forall (P : waiter -> Prop) id : forall ws, Forall P ws -> Forall P (remove_w id ws).
Proof.
  induction 1 as [|w t Hw Ht IH]; cbn; [constructor|]. destruct (w_id w =? id); [exact Ht|constructor; assumption].
Qed.

Definition wsP (p : N) (w : waiter) : Prop := n_sync (w_n w) = false /\ n_per (w_n w) <= p.

Lemma close_dview_x z n s : dview (close z n s) z = vclose_x (dview s z).
Proof. destruct z; reflexivity. Qed.

Lemma close_dview_y z n s : dview (close z n s) (negb z) = vclose_y (dview s (negb z)).
Proof. destruct z; reflexivity. Qed.

Lemma close_invD z n s : (forall x, InvD s x) -> e_alive (cn s z) = true -> forall x, InvD (close z n s) x.
Proof.
  intros H Ha x. unfold InvD. destruct (Bool.eqb x z) eqn:E.
  - apply eqb_prop in E. subst x. rewrite close_dview_x. apply vclose_x_inv. apply H.
  - assert (x = negb z) by (destruct x, z; cbn in E; try discriminate; reflexivity). subst x.
    rewrite close_dview_y. apply vclose_y_inv; [apply H|]. destruct z; exact Ha.
Qed.

Lemma out_phase_dview_y c z b s : e_alive (cn s z) = true ->
  dview (fst (out_phase c z b s)) (negb z) = dview s (negb z).
Proof.
  intros Ha. unfold out_phase, cn in *. destruct (a_loop _ _ _ _) as [cl L]. destruct cl.
  - destruct z; cbn in *; unfold dview, cn, hn, gl; cbn; rewrite Ha; reflexivity.
  - destruct (if wgate (glo s z) then _ else _) as [sk ca].
    destruct z; cbn in *; unfold dview, cn, hn, gl; cbn; rewrite Ha; reflexivity.
Qed.

Lemma out_phase_invD_x c z b s : InvD s z -> e_alive (cn s z) = true -> killed s = false ->
  match out_phase c z b s with
  | (s1, true) => InvD (close z true s1) z
  | (s1, false) => InvD s1 z
  end.
Proof.
  intros H Ha Hk. unfold InvD in *.
  set (fuel := (opt_len (e_cur (ec (gep s z))) +
                N.to_nat (N.min b (len (e_sq (ec (gep s z))) + len (e_aq (ec (gep s z))) + 1)))%nat).
  set (mx := c_max (ecf c z)). set (wg := wgate (glo s z)).
  pose proof (fun ws' => vout_inv (dview s z) fuel mx wg (e_hints (ec (gep s z))) (bad s) ws' H Hk Ha) as V.
  unfold out_phase. fold fuel mx wg.
  change (mkLst (e_cur (ec (gep s z))) (e_sq (ec (gep s z))) (e_aq (ec (gep s z))) (e_sk (ec (gep s z)))
                (carrier (glo s z)) (e_hints (ec (gep s z))) (bad s))
    with (vL (dview s z) (e_hints (ec (gep s z))) (bad s)).
  destruct (a_loop fuel mx wg (vL (dview s z) (e_hints (ec (gep s z))) (bad s))) as [cl L].
  destruct cl.
  - specialize (V [] (Forall_nil _)). rewrite close_dview_x.
    replace (vclose_x _) with (vout_closed (dview s z) L); [exact V|]. destruct z; reflexivity.
  - destruct (if wg then ([], l_ca L ++ l_sk L) else (l_sk L, l_ca L)) as [sk ca] eqn:Ef.
    match goal with |- InvV (dview (mkSt _ _ _ _ _ _ _ _ _) z) => idtac end.
    set (ws' := rebalance (ecf c z) (mkC true (e_per (ec (gep s z))) (e_shut (ec (gep s z))) (l_sq L) (l_aq L)
                                     (l_cur L) sk (l_h L) (e_res (ec (gep s z))) (e_rwait (ec (gep s z))))
                          (e_ws (eh (gep s z)))).
    assert (Hws : Forall (wsP (e_per (ec (gep s z)))) ws').
    { unfold ws', rebalance.
      apply (assign_forall (fun n => n_sync n = false /\ n_per n <= e_per (ec (gep s z)))).
      exact (i_t1w _ H). }
    specialize (V ws' Hws).
    replace (dview _ z) with (vout_open (dview s z) L wg ws'); [exact V|].
    unfold wg in *. destruct (wgate (glo s z)); inversion Ef; subst; destruct z; reflexivity.
Qed.

Lemma set_res_dview z r w s x : dview (set_res z r w s) x = dview s x.
Proof. destruct z, x; reflexivity. Qed.

Lemma read_dview_y z n rest wg rg s :
  dview (push_nq z n (slo s (negb z) (mkL wg rg rest))) (negb z) = vread (dview s (negb z)) n rest.
Proof. destruct z; reflexivity. Qed.

Lemma read_dview_x z n rest wg rg s :
  dview (push_nq z n (slo s (negb z) (mkL wg rg rest))) z = dview s z.
Proof. destruct z; reflexivity. Qed.

Lemma conn_loop_invD c z : forall fuel b s,
  InvP s /\ (forall x, InvD s x) -> e_alive (cn s z) = true ->
  InvP (conn_loop fuel c z b s) /\ forall x, InvD (conn_loop fuel c z b s) x.
Proof.
  apply (conn_loop_gen (fun s => InvP s /\ forall x, InvD s x)).
  - intros s nfy [HP H] Ha. split; [apply close_invP; exact HP|apply close_invD; assumption].
  - intros s b [HP H] Ha Hk.
    pose proof (out_phase_invD_x c z b s (H z) Ha Hk) as Hx.
    pose proof (out_phase_dview_y c z b s Ha) as Hy.
    pose proof (out_phase_frame c z b s Ha) as F. cbn zeta in F.
    pose proof (out_phase_invP c z b s HP Ha Hk) as HP1.
    destruct (out_phase c z b s) as [s1 refused]. cbn [fst] in *.
    destruct F as (Fa & _).
    assert (H1y : InvD s1 (negb z)) by (unfold InvD; rewrite Hy; apply H).
    destruct refused.
    + split; [apply close_invP; exact HP1|]. intros x. unfold InvD. destruct (Bool.eqb x z) eqn:E.
      * apply eqb_prop in E. subst x. exact Hx.
      * assert (x = negb z) by (destruct x, z; cbn in E; try discriminate; reflexivity). subst x.
        rewrite close_dview_y. apply vclose_y_inv; [exact H1y|]. destruct z; exact Fa.
    + split; [exact HP1|]. intros x. destruct (Bool.eqb x z) eqn:E.
      * apply eqb_prop in E. subst x. exact Hx.
      * assert (x = negb z) by (destruct x, z; cbn in E; try discriminate; reflexivity). subst x. exact H1y.
  - intros s [HP H] Ha _. split; [apply set_res_invP; assumption|]. intros x. unfold InvD. rewrite set_res_dview. apply H.
  - intros s [HP H] Ha _. split; [apply set_res_invP; assumption|]. intros x. unfold InvD. rewrite set_res_dview. apply H.
  - intros s n rest [HP H] Ha _ _ _ Ec _. split; [apply read_invP; assumption|].
    intros x. unfold InvD. destruct (Bool.eqb x z) eqn:E.
    + apply eqb_prop in E. subst x. rewrite read_dview_x. apply H.
    + assert (x = negb z) by (destruct x, z; cbn in E; try discriminate; reflexivity). subst x.
      rewrite read_dview_y. apply vread_inv; [apply H| |].
      * destruct z; exact Ha.
      * destruct z; exact Ec.
Qed.

Lemma conn_poll_invD c z b s : InvP s -> (forall x, InvD s x) -> forall x, InvD (conn_poll c z b s) x.
Proof.
  intros HP H. unfold conn_poll. fold (cn s z). destruct (e_alive (cn s z)) eqn:Ea; [|exact H].
  apply conn_loop_invD; [split; assumption|exact Ea].
Qed.

Ltac other x z E := assert (x = negb z) by (destruct x, z; cbn in E; try discriminate; reflexivity); subst x.

Lemma hand_over_dview z b s x : dview (hand_over z b s) x = dview s x.
Proof. unfold hand_over. destruct (_ && _ && _); [apply set_res_dview|reflexivity]. Qed.

Lemma h_poll_invD c z b s : (forall x, InvD s x) -> forall x, InvD (fst (h_poll c z b s)) x.
Proof.
  intros H x. unfold h_poll, h_poll_gen. destruct (b =? 0); [apply H|].
  destruct (e_evs (eh (gep s z))) as [|e es] eqn:Ee.
  - destruct (h_scan true (e_peers (eh (gep s z))) _ (e_nq (eh (gep s z)))) as [r q] eqn:Es.
    unfold InvD. destruct (Bool.eqb x z) eqn:E.
    + apply eqb_prop in E. subst x.
      destruct r; cbn [fst]; rewrite hand_over_dview;
        (replace (dview _ z) with (dview s z) by (destruct z; reflexivity)); apply H.
    + other x z E. specialize (H (negb z)). unfold InvD in H.
      assert (V : InvV (vscan (dview s (negb z)) r q)).
      { eapply vscan_inv; [exact H| |].
        - destruct z; exact Ee.
        - destruct z; exact Es. }
      destruct r as [n|]; cbn [fst]; rewrite hand_over_dview.
      * replace (dview _ (negb z)) with (vscan (dview s (negb z)) (Some n) q); [exact V|].
        destruct z; cbn; unfold vscan, dview, cn, hn, gl; cbn in *; rewrite ?Ee; reflexivity.
      * replace (dview _ (negb z)) with (vscan (dview s (negb z)) None q); [exact V|].
        destruct z; cbn; unfold vscan, dview, cn, hn, gl; cbn in *; rewrite ?Ee, ?app_nil_r; reflexivity.
  - unfold InvD. destruct (Bool.eqb x z) eqn:E.
    + apply eqb_prop in E. subst x.
      destruct e; cbn [fst]; (replace (dview _ z) with (dview s z) by (destruct z; reflexivity)); apply H.
    + other x z E. specialize (H (negb z)). unfold InvD in H.
      pose proof (vevent_inv (dview s (negb z)) e es H) as V.
      assert (Ee' : v_evs (dview s (negb z)) = e :: es) by (destruct z; exact Ee).
      specialize (V Ee').
      destruct e as [k|k]; cbn [fst].
      * replace (dview _ (negb z)) with (vevent (dview s (negb z)) (Some k) es); [exact V|].
        destruct z; reflexivity.
      * replace (dview _ (negb z)) with (vevent (dview s (negb z)) None es); [exact V|].
        destruct z; reflexivity.
Qed.

Lemma send_sync_invD c z s t l : (forall x, InvD s x) -> forall x, InvD (fst (send_sync c z s t l)) x.
Proof.
  intros H x. unfold send_sync. destruct (e_peers (eh (gep s z))) as [k|] eqn:Epe; [|apply H].
  destruct (live s z k) eqn:El; [|apply H]. apply live_alive in El. destruct El as [Ea Ek].
  unfold InvD. destruct (len (e_sq (ec (gep s z))) <? c_s (ecf c z)); cbn [fst].
  - destruct (Bool.eqb x z) eqn:E.
    + apply eqb_prop in E. subst x.
      replace (dview _ z) with (vaccept (dview s z) (mkN z k true t l) (e_ws (hn s z))) by (destruct z; reflexivity).
      apply vaccept_inv; [apply H|exact Ea|cbn; destruct z; exact Ek|exact (i_t1w _ (H z))].
    + other x z E. replace (dview _ (negb z)) with (dview s (negb z)); [apply H|].
      destruct z; cbn; unfold dview, cn, hn, gl; cbn in *; rewrite ?Epe; reflexivity.
  - destruct (e_clog (eh (gep s z))); [apply H|].
    destruct (e_cmds (eh (gep s z)) <? c_c (ecf c z)); cbn [fst];
      (replace (dview _ x) with (dview s x); [apply H|]);
      destruct z, x; cbn; unfold dview, cn, hn, gl; cbn in *; rewrite ?Epe; reflexivity.
Qed.

Lemma sink_sync_invD c z s k t l : (forall x, InvD s x) -> forall x, InvD (fst (sink_sync c z s k t l)) x.
Proof.
  intros H x. unfold sink_sync. destruct (live s z k) eqn:El; [|apply H]. apply live_alive in El. destruct El as [Ea Ek].
  unfold InvD. destruct (len (e_sq (ec (gep s z))) <? c_s (ecf c z)); cbn [fst]; [|apply H].
  destruct (Bool.eqb x z) eqn:E.
  - apply eqb_prop in E. subst x.
    replace (dview _ z) with (vaccept (dview s z) (mkN z k true t l) (e_ws (hn s z))) by (destruct z; reflexivity).
    apply vaccept_inv; [apply H|exact Ea|cbn; destruct z; exact Ek|exact (i_t1w _ (H z))].
  - other x z E. replace (dview _ (negb z)) with (dview s (negb z)); [apply H|].
    destruct z; cbn; unfold dview, cn, hn, gl; cbn in *; reflexivity.
Qed.

Lemma set_async_dview_y z aq ws acc ok err s :
  dview (set_async z aq ws acc ok err s) (negb z) = dview s (negb z).
Proof. destruct z; reflexivity. Qed.

Lemma async_start_invD c z s i t l : (forall x, InvD s x) -> forall x, InvD (fst (async_start c z s i t l)) x.
Proof.
  intros H x. unfold async_start. destruct (find_w i _); [apply H|].
  destruct (e_peers (eh (gep s z))) as [k|] eqn:Epe; [|apply H].
  unfold InvD. destruct (Bool.eqb x z) eqn:E.
  - apply eqb_prop in E. subst x. destruct (live s z k) eqn:El.
    + apply live_alive in El. destruct El as [Ea Ek].
      destruct (0 <? afree _ _ _); cbn [fst].
      * replace (dview _ z) with (vaccept (dview s z) (mkN z k false t l) (e_ws (hn s z)))
          by (destruct z; reflexivity).
        apply vaccept_inv; [apply H|exact Ea|cbn; destruct z; exact Ek|exact (i_t1w _ (H z))].
      * replace (dview _ z) with (vsetws (dview s z) (e_ws (hn s z) ++ [mkW i (mkN z k false t l) false]))
          by (destruct z; reflexivity).
        apply vsetws_inv; [apply H|]. apply Forall_app_iff. split; [exact (i_t1w _ (H z))|].
        repeat constructor. cbn. destruct z; cbn in *; lia.
    + cbn [fst]. replace (dview _ z) with (dview s z) by (destruct z; reflexivity). apply H.
  - other x z E. destruct (live s z k); [destruct (0 <? afree _ _ _)|]; cbn [fst];
      rewrite set_async_dview_y; apply H.
Qed.

Lemma find_w_in i : forall ws w, find_w i ws = Some w -> In w ws.
Proof.
  induction ws as [|a t IH]; intros w H; cbn in H; [discriminate|].
  destruct (w_id a =? i); [inversion H; subst; left; reflexivity|right; apply IH; exact H].
Qed.

Lemma async_poll_invD z s i : (forall x, InvD s x) -> forall x, InvD (fst (async_poll z s i)) x.
Proof.
  intros H x. unfold async_poll. destruct (find_w i _) as [w|] eqn:Ef; [|apply H].
  unfold InvD. destruct (Bool.eqb x z) eqn:E.
  - apply eqb_prop in E. subst x.
    pose proof (i_t1w _ (H z)) as T. pose proof (remove_w_forall _ i _ T) as TR.
    destruct (wlive (ec (gep s z)) w) eqn:El; cbn [negb].
    + apply wlive_alive in El. destruct El as [Ea Ek]. destruct (w_asg w); cbn [fst]; [|apply H].
      replace (dview _ z) with (vaccept (dview s z) (w_n w) (remove_w i (e_ws (hn s z)))).
      * rewrite Forall_forall in T. destruct (T w (find_w_in _ _ _ Ef)) as [Tm _].
        apply vaccept_inv; [apply H|destruct z; exact Ea|destruct z; exact Ek|exact TR].
      * rewrite Forall_forall in T. destruct (T w (find_w_in _ _ _ Ef)) as [Tm _].
        unfold vaccept. rewrite Tm. destruct z; reflexivity.
    + cbn [fst]. replace (dview _ z) with (vsetws (dview s z) (remove_w i (e_ws (hn s z))))
        by (destruct z; reflexivity).
      apply vsetws_inv; [apply H|exact TR].
  - other x z E. destruct (wlive _ w); cbn [negb]; [destruct (w_asg w)|]; cbn [fst];
      rewrite ?set_async_dview_y; apply H.
Qed.

Lemma async_drop_invD c z s i : (forall x, InvD s x) -> forall x, InvD (fst (async_drop c z s i)) x.
Proof.
  intros H x. unfold async_drop. destruct (find_w i _) as [w|]; [|apply H]. cbn [fst].
  unfold InvD. destruct (Bool.eqb x z) eqn:E.
  - apply eqb_prop in E. subst x.
    replace (dview _ z) with
      (vsetws (dview s z) (rebalance (ecf c z) (ec (gep s z)) (remove_w i (e_ws (eh (gep s z))))))
      by (destruct z; reflexivity).
    apply vsetws_inv; [apply H|]. unfold rebalance.
    apply (assign_forall (fun n => n_sync n = false /\ n_per n <= v_xper (dview s z))).
    apply remove_w_forall. exact (i_t1w _ (H z)).
  - other x z E. rewrite set_async_dview_y. apply H.
Qed.

Lemma kill_invD s : (forall x, InvD s x) -> forall x, InvD (kill s) x.
Proof.
  intros H x. unfold InvD. replace (dview (kill s) x) with (vkill (dview s x)) by (destruct x; reflexivity).
  apply vkill_inv. apply H.
Qed.

Lemma open_ep_invD z s :
  (forall x, InvD s x) -> e_alive (cn s z) = false -> e_per (cn s z) < per s ->
  forall x, InvD (open_ep z (per s) s) x.
Proof.
  intros H Hd Hlt x. unfold InvD. destruct (Bool.eqb x z) eqn:E.
  - apply eqb_prop in E. subst x.
    replace (dview _ z) with (vjoin_x (dview s z)).
    + apply vjoin_x_inv; [apply H|exact Hd|exact Hlt].
    + pose proof (i_xdead _ (H z) Hd) as (Q1 & Q2 & Q3 & Q4). unfold vjoin_x. destruct z; reflexivity.
  - other x z E. replace (dview _ (negb z)) with (vjoin_y (dview s (negb z))) by (destruct z; reflexivity).
    apply vjoin_y_inv; [apply H|destruct z; exact Hd|destruct z; exact Hlt].
Qed.

Lemma open_stream_invD z s : InvP s -> (forall x, InvD s x) -> forall x, InvD (fst (open_stream z s)) x.
Proof.
  intros HP H. unfold open_stream. fold (cn s z). fold (cn s (negb z)).
  destruct (e_alive (cn s z)) eqn:Ea; [exact H|].
  destruct (e_per (cn s z) <? per s) eqn:Ep; cbn [fst].
  - apply open_ep_invD; [exact H|exact Ea|lia].
  - destruct (negb (e_alive (cn s (negb z))) && (e_per (cn s (negb z)) =? per s)) eqn:E; cbn [fst]; [|exact H].
    apply andb_true_iff in E. destruct E as [E1 E2]. apply negb_true_iff in E1.
    pose proof (p_le s HP z) as Lz.
    set (s' := mkSt (per s + 1) false (sA s) (sB s) (mkL true true []) (mkL true true []) (nyes s) (bad s)
                    (later_hints s)).
    assert (H' : forall x, InvD s' x).
    { intros x. unfold InvD. replace (dview s' x) with (vnewper (dview s x)) by (destruct x; reflexivity).
      apply vnewper_inv; [apply H| | |].
      - destruct x, z; cbn in *; unfold cn in *; cbn in *; assumption.
      - destruct x, z; cbn in *; unfold cn in *; cbn in *; assumption.
      - destruct x, z; cbn in *; unfold cn in *; cbn in *; lia. }
    change (open_ep z (per s + 1) s') with (open_ep z (per s') s').
    apply open_ep_invD; [exact H'| |].
    + destruct z; exact Ea.
    + unfold s', cn in *. destruct z; cbn in *; lia.
Qed.

Record Inv (s : st) : Prop := mkInv { inv_p : InvP s; inv_d : forall x, InvD s x }.

Lemma do_step_inv c s t : Inv s -> Inv (fst (do_step c s t)).
Proof.
  intros [HP H]. split; [apply do_step_invP; exact HP|].
  destruct t; cbn [do_step].
  - pose proof (send_sync_invD c x s tag ln H). destruct (send_sync c x s tag ln). assumption.
  - pose proof (async_start_invD c x s id tag ln H). destruct (async_start c x s id tag ln). assumption.
  - pose proof (async_poll_invD x s id H). destruct (async_poll x s id). assumption.
  - pose proof (async_drop_invD c x s id H). destruct (async_drop c x s id). assumption.
  - cbn [fst]. apply conn_poll_invD; assumption.
  - pose proof (h_poll_invD c x budget s H). destruct (h_poll c x budget s). assumption.
  - pose proof (open_stream_invD x s HP H). destruct (open_stream x s). assumption.
  - destruct (e_alive (ec (gep s x))) eqn:Ea; cbn [fst]; [|exact H].
    intros y. unfold InvD. replace (dview _ y) with (dview s y); [apply H|].
    destruct x, y; cbn; unfold dview, cn, hn, gl; cbn in *; rewrite ?Ea; reflexivity.
  - destruct (e_cmds (eh (gep s x)) =? 0); cbn [fst]; [exact H|]. apply kill_invD.
    intros y. unfold InvD. replace (dview _ y) with (dview s y) by (destruct x, y; reflexivity). apply H.
  - destruct (e_cmds (eh (gep s x)) =? 0); cbn [fst]; [exact H|].
    intros y. unfold InvD. replace (dview _ y) with (dview s y) by (destruct x, y; reflexivity). apply H.
  - cbn [fst]. intros y. unfold InvD. replace (dview _ y) with (dview s y) by (destruct x, y; reflexivity). apply H.
  - destruct (per s =? 0); cbn [fst]; [exact H|apply kill_invD; exact H].
  - pose proof (sink_sync_invD c x s k tag ln H). destruct (sink_sync c x s k tag ln). assumption.
Qed.

Lemma run_inv c : forall ts s, Inv s -> Inv (fst (run c s ts)).
Proof.
  induction ts as [|t ts IH]; intros s H; cbn [run]; [exact H|].
  pose proof (do_step_inv c s t H) as H1. destruct (do_step c s t) as [s1 v]. cbn [fst] in H1.
  specialize (IH s1 H1). destruct (run c s1 ts) as [s2 vs]. exact IH.
Qed.

Lemma init_inv hs : Inv (init hs).
Proof. split; [apply init_invP|intros x; apply init_invD]. Qed.

Lemma final_inv c hs ts : Inv (final c hs ts).
Proof. unfold final. apply run_inv. apply init_inv. Qed.

(* ---- consequences of the FIFO invariant ---- *)
Lemma fifo_prefix c hs ts x k m :
  let s := final c hs ts in
  prefix (proj k m (e_del (gl s (negb x)))) (proj k m (e_acc (gl s x))).
Proof.
  intros s. pose proof (i_pre _ (inv_d _ (final_inv c hs ts) x) k m) as P. unfold vline in P.
  eapply prefix_app_l. exact P.
Qed.

Lemma no_loss_while_open c hs ts x m :
  let s := final c hs ts in
  killed s = false -> e_alive (cn s x) = true -> reading s (negb x) = true ->
  proj (per s) m (e_acc (gl s x)) =
  proj (per s) m (e_del (gl s (negb x)) ++ e_nq (hn s (negb x)) ++ carrier (glo s x) ++ e_sk (cn s x) ++
                  opt_list (e_cur (cn s x)) ++ e_sq (cn s x) ++ e_aq (cn s x)).
Proof.
  intros s Hk Ha Hr. pose proof (i_eq _ (inv_d _ (final_inv c hs ts) x) Hk Ha Hr m) as E.
  fold s in E. cbn in E. rewrite E. unfold vseen, vpipe. cbn. f_equal. reassoc.
Qed.

