(* C12 — wire formats, model runners and the trace oracles. Definitions only.

   Two case formats, told apart by the first number.

   (1) quiescence stream (first number = cap_s <= 4096; only endpoint A sends):
   case   = cap_s cap_a cap_n max_out max_in, nactions, actions, nperiods, per period: nhints, hints
   action = 0 tag len | 1 tag len | 2 w r | 3 | 4 | 5 | 6 | 7 | 8
            [SendSync, SendAsync, Gate, UserRecv, PollA, CloseA, CloseB, Kill, Reopen]
   trace  = 1, then per action: result, dump
   result = SendSync/SendAsync/Gate/Close/Kill/Reopen: code
            UserRecv: 0 | 1 k | 2 | 3 per mode tag len
            PollA: n, then n times [1 k | 2]
   dump   = a_alive b_alive sync_free async_free waiting async_ok async_err carrier notif_free
            force_closes notify_yes bad_hints

   (2) scheduler stream (first number = 9001; both endpoints send; x = 1 for A, 0 for B):
   case   = 9001, per endpoint (A then B): c_s c_a c_n c_c c_max, nsteps, steps,
            nconnections, per Connection in creation order: nhints, hints
   step   = 0 x tag len | 1 x id tag len | 2 x id | 3 x id | 4 x budget | 5 x budget | 6 x | 7 x | 8 x
            | 9 x w r | 10 | 11 x | 12 x k tag len
            [Sync, AsyncStart, AsyncPoll, AsyncDrop, Conn, Handle, Open, Close, Cmd, Gate, Kill, CmdFail,
             SinkSync: send_sync_notification on a clone of the sink of stream k, without the handle]
            budget of a Conn step: 0..128, or 1000000 = polled under tokio::task::unconstrained
   trace  = 2, then per step: result, dump
   result = code, or for Handle: 0 | 1 k | 2 | 3 from per mode tag len
   dump   = aliveA aliveB sfreeA afreeA sfreeB afreeB nfreeA nfreeB carrierAB carrierBA cmdsA cmdsB
            notify_yes bad_hints *)
From Coq Require Import List NArith Bool.
From V.common Require Import Wire.
From V.C12 Require Import Model.
From V.C12 Require Start StartGlue.
Import ListNotations.
Open Scope N_scope.

Definition SCHED_MARK : N := 9001.

(* ================================================================== quiescence stream *)
Definition p_action : parser action :=
  let* tag := pN in
  match tag with
  | 0 => let* t := pN in let* l := pN in pret (ASendSync t l)
  | 1 => let* t := pN in let* l := pN in pret (ASendAsync t l)
  | 2 => let* w := pBool in let* r := pBool in pret (AGate w r)
  | 3 => pret AUserRecv
  | 4 => pret APollA
  | 5 => pret ACloseA
  | 6 => pret ACloseB
  | 7 => pret AKill
  | 8 => pret AReopen
  | _ => pfail
  end.

(* the handle of A has 64 slots in both of its channels, the sink of B one slot per queue *)
Definition p_cfg : parser cfg :=
  let* a := pN in let* b := pN in let* c := pN in let* d := pN in let* e := pN in
  pret (mkCfg (mkEC a b 64 64 d) (mkEC 1 1 c 64 e)).

Definition wf_size (t l : N) : bool := (4 <=? l) && (l <=? 4194304) && (t <? 65536).

Definition wf_action (x : action) : bool :=
  match x with
  | ASendSync t l | ASendAsync t l => wf_size t l
  | _ => true
  end.

Definition wf_cap (v : N) : bool := (1 <=? v) && (v <=? 4096).
Definition wf_ecfg (e : ecfg) : bool := wf_cap (c_s e) && wf_cap (c_a e) && wf_cap (c_n e) && wf_cap (c_c e).

Definition decode_case (l : list N) : option (cfg * list action * list (list bool)) :=
  match pall (let* c := p_cfg in let* xs := plist p_action in let* hs := plist (plist pBool) in
              pret (c, xs, hs)) l with
  | Some (c, xs, hs) =>
      if wf_ecfg (cfA c) && wf_ecfg (cfB c) && forallb wf_action xs then Some (c, xs, hs) else None
  | None => None
  end.

Definition enc_hev (e : hev) : list N := match e with HOpened k => [1; k] | HClosed _ => [2] end.
Definition enc_ares (r : ares) : list N :=
  match r with
  | ACode x => [x]
  | AUser UPending => [0]
  | AUser (UOpened k) => [1; k]
  | AUser UClosed => [2]
  | AUser (UNotif n) => [3; n_per n; b2n (n_sync n); n_tag n; n_len n]
  | AEvents l => len l :: flat_map enc_hev l
  end.

Definition sfree (c : cfg) (s : st) (x : bool) : N :=
  let cn := ec (gep s x) in if e_alive cn then c_s (ecf c x) - len (e_sq cn) else 0.
Definition afree_d (c : cfg) (s : st) (x : bool) : N :=
  let e := gep s x in if e_alive (ec e) then afree (ecf c x) (ec e) (e_ws (eh e)) else 0.
Definition nfree (c : cfg) (s : st) (x : bool) : N :=
  let e := gep s x in c_n (ecf c x) - len (e_nq (eh e)) - b2n (e_res (ec e)).

Definition adump (c : cfg) (s : st) : list N :=
  let a := gep s true in let b := gep s false in
  [ b2n (e_alive (ec a)); b2n (e_alive (ec b)); sfree c s true; afree_d c s true;
    len (e_ws (eh a)); e_aok (eg a); e_aerr (eg a);
    if e_alive (ec b) then len (carrier (lAB s)) else 0;
    nfree c s false; len (e_fclog (eg a)); nyes s; bad s ].

Fixpoint arun_trace (c : cfg) (i : N) (s : st) (xs : list action) : list N :=
  match xs with
  | [] => []
  | x :: t => let '(s1, r) := astep c i s x in enc_ares r ++ adump c s1 ++ arun_trace c (i + 1) s1 t
  end.

(* ---- decoding a quiescence trace ---- *)
Record obs_dump := mkD {
  d_a : bool; d_b : bool; d_sfree : N; d_afree : N; d_wait : N; d_ok : N; d_err : N;
  d_car : N; d_nfree : N; d_fc : N; d_yes : N; d_bad : N
}.
Definition p_dump : parser obs_dump :=
  let* a := pBool in let* b := pBool in let* sf := pN in let* af := pN in let* w := pN in
  let* ok := pN in let* er := pN in let* ca := pN in let* nf := pN in let* fc := pN in
  let* y := pN in let* bd := pN in pret (mkD a b sf af w ok er ca nf fc y bd).

Definition p_hev : parser hev :=
  let* t := pN in
  match t with 1 => let* k := pN in pret (HOpened k) | 2 => pret (HClosed 0) | _ => pfail end.

Definition p_ares (x : action) : parser ares :=
  match x with
  | AUserRecv =>
      let* t := pN in
      match t with
      | 0 => pret (AUser UPending)
      | 1 => let* k := pN in pret (AUser (UOpened k))
      | 2 => pret (AUser UClosed)
      | 3 => let* p := pN in let* m := pBool in let* tg := pN in let* l := pN in
             pret (AUser (UNotif (mkN true p m tg l)))
      | _ => pfail
      end
  | APollA => let* l := plist p_hev in pret (AEvents l)
  | _ => let* x := pN in pret (ACode x)
  end.

Fixpoint p_blocks (xs : list action) : parser (list (ares * obs_dump)) :=
  match xs with
  | [] => pret []
  | x :: t => let* r := p_ares x in let* d := p_dump in let* rest := p_blocks t in pret ((r, d) :: rest)
  end.

(* ---- shared pieces of the oracles ---- *)
Definition notif_eqb (a b : notif) : bool :=
  Bool.eqb (n_from a) (n_from b) && (n_per a =? n_per b) && Bool.eqb (n_sync a) (n_sync b) &&
  (n_tag a =? n_tag b) && (n_len a =? n_len b).

Fixpoint prefix_b (x y : list notif) : bool :=
  match x, y with
  | [], _ => true
  | a :: x', b :: y' => notif_eqb a b && prefix_b x' y'
  | _ :: _, [] => false
  end.

Definition periods_mono (l : list notif) : bool :=
  (fix go (l : list notif) (last : N) : bool :=
     match l with [] => true | n :: t => (last <=? n_per n) && go t (n_per n) end) l 0.

Definition modes : list bool := [true; false].

(* what x sent and y received: per period and mode a prefix; sizes within both maxima *)
Definition fifo_ok (c : cfg) (x : bool) (nper : N) (acc del : list notif) : bool :=
  forallb (fun k => forallb (fun m => prefix_b (proj k m del) (proj k m acc)) modes)
          (map N.of_nat (seq 0 (S (N.to_nat nper)))) &&
  forallb (fun n => (n_per n <=? nper) && Bool.eqb (n_from n) x) del &&
  forallb (fun n => (n_len n <=? c_max (cfA c)) && (n_len n <=? c_max (cfB c))) del &&
  periods_mono del.

Fixpoint nth_notif (i : nat) (l : list notif) : option notif :=
  match l, i with
  | [], _ => None
  | n :: _, O => Some n
  | _ :: t, S j => nth_notif j t
  end.

Fixpoint take_async (k : nat) (from : nat) (issued : list notif) : list notif :=
  match k with
  | O => []
  | S k' => match nth_notif from issued with
            | Some n => n :: take_async k' (S from) issued
            | None => []
            end
  end.

(* ---- the oracle of the quiescence stream ---- *)
Record ost := mkO {
  o_sink : option N;          (* period of the sink held by handle A *)
  o_acc : list notif;         (* notifications whose send returned Ok *)
  o_issued : list notif;      (* async sends whose future was created, FIFO *)
  o_done : N;                 (* async futures completed so far (ok + err) *)
  o_del : list notif;         (* delivered to user B *)
  o_cur : option N;           (* stream that user B was told is open *)
  o_fc : N;                   (* ForceClose commands seen at the last step *)
  o_fc_in_period : N;         (* ForceClose commands since handle A last saw Opened/Closed *)
  o_ok : bool
}.

Definition o_set_ok (o : ost) (b : bool) : ost :=
  mkO (o_sink o) (o_acc o) (o_issued o) (o_done o) (o_del o) (o_cur o) (o_fc o) (o_fc_in_period o) (o_ok o && b).

Definition has_sink (o : ost) : bool := match o_sink o with Some _ => true | None => false end.

Definition o_step (c : cfg) (p : N) (o : ost) (x : action) (r : ares) (d : obs_dump) : ost :=
  let o1 :=
    match x, r with
    | ASendSync t l, ACode 0 =>
        match o_sink o with
        | Some k => mkO (o_sink o) (o_acc o ++ [mkN true k true t l]) (o_issued o) (o_done o) (o_del o) (o_cur o)
                        (o_fc o) (o_fc_in_period o) (o_ok o)
        | None => o_set_ok o false
        end
    | ASendSync _ _, ACode 3 => o_set_ok o (negb (has_sink o))
    | ASendSync _ _, ACode z =>   (* never blocks: it returned Clogged or NoConnection *)
        o_set_ok o (((z =? 1) || (z =? 2)) && has_sink o)
    | ASendAsync t l, ACode 0 =>
        match o_sink o with
        | Some k => mkO (o_sink o) (o_acc o) (o_issued o ++ [mkN true k false t l]) (o_done o) (o_del o) (o_cur o)
                        (o_fc o) (o_fc_in_period o) (o_ok o)
        | None => o_set_ok o false
        end
    | ASendAsync _ _, ACode z => o_set_ok o ((z =? 3) && negb (has_sink o))
    | AUserRecv, AUser (UNotif n) =>
        (* a notification is reported only as part of the stream it was sent on *)
        mkO (o_sink o) (o_acc o) (o_issued o) (o_done o) (o_del o ++ [n]) (o_cur o) (o_fc o) (o_fc_in_period o)
            (o_ok o && match o_cur o with Some k => n_per n =? k | None => false end)
    | AUserRecv, AUser (UOpened k) =>
        mkO (o_sink o) (o_acc o) (o_issued o) (o_done o) (o_del o) (Some k) (o_fc o) (o_fc_in_period o)
            (o_ok o && match o_cur o with None => true | Some _ => false end)
    | AUserRecv, AUser UClosed =>
        mkO (o_sink o) (o_acc o) (o_issued o) (o_done o) (o_del o) None (o_fc o) (o_fc_in_period o)
            (o_ok o && match o_cur o with None => false | Some _ => true end)
    | APollA, AEvents l =>
        let snk := (fix go (l : list hev) (s : option N) := match l with
                     | [] => s | HOpened k :: t => go t (Some k) | HClosed _ :: t => go t None end) l (o_sink o) in
        mkO snk (o_acc o) (o_issued o) (o_done o) (o_del o) (o_cur o) (o_fc o)
            (match l with [] => o_fc_in_period o | _ => 0 end) (o_ok o)
    | _, _ => o
    end in
  (* async futures complete in FIFO order; within one step the Oks come before the Errs *)
  let done' := d_ok d + d_err d in
  let newly := N.to_nat (done' - o_done o1) in
  let block := take_async newly (N.to_nat (o_done o1)) (o_issued o1) in
  let n_ok_new := N.to_nat (d_ok d - (len (filter (fun n => negb (n_sync n)) (o_acc o1)))) in
  let acc' := o_acc o1 ++ firstn n_ok_new block in
  let fc_new := d_fc d - o_fc o1 in
  let fcp := o_fc_in_period o1 + fc_new in
  mkO (o_sink o1) acc' (o_issued o1) done' (o_del o1) (o_cur o1) (d_fc d) fcp
      (o_ok o1 &&
       (o_done o1 <=? done') && (o_fc o1 <=? d_fc d) &&
       (done' + d_wait d =? len (o_issued o1)) &&
       (d_ok d =? len (filter (fun n => negb (n_sync n)) acc')) &&
       (* at most one ForceClose per open period, and only as a result of a clogged sync send *)
       (fcp <=? 1) &&
       (match x, r with ASendSync _ _, ACode 1 => true | _, _ => fc_new =? 0 end) &&
       (* the async send waits exactly when the queue is full *)
       (if d_a d then (d_wait d =? 0) || (d_afree d =? 0) else d_wait d =? 0) &&
       (* ... and fails only on a closed stream: the error count grows only if A's Connection has ended or
          handle A still holds the sink of an earlier stream (p = streams set up so far) *)
       ((d_err d <=? o_done o1 - len (filter (fun n => negb (n_sync n)) (o_acc o1))) || negb (d_a d) ||
        negb (match o_sink o1 with Some k => k =? p | None => false end)) &&
       (d_sfree d <=? c_s (cfA c)) && (d_afree d <=? c_a (cfA c)) && (d_nfree d <=? c_n (cfB c)) &&
       (d_bad d =? 0)).

Fixpoint o_run (c : cfg) (p : N) (o : ost) (xs : list action) (tr : list (ares * obs_dump)) : ost :=
  match xs, tr with
  | x :: xs', (r, d) :: tr' =>
      let p' := match x, r with AReopen, ACode 0 => p + 1 | _, _ => p end in
      o_run c p' (o_step c p' o x r d) xs' tr'
  | _, _ => o
  end.

Definition count_reopen (xs : list action) : N :=
  len (filter (fun x => match x with AReopen => true | _ => false end) xs).

(* ================================================================== scheduler stream *)
Definition p_step : parser step :=
  let* tag := pN in
  match tag with
  | 0 => let* x := pBool in let* t := pN in let* l := pN in pret (SSync x t l)
  | 1 => let* x := pBool in let* i := pN in let* t := pN in let* l := pN in pret (SAsyncStart x i t l)
  | 2 => let* x := pBool in let* i := pN in pret (SAsyncPoll x i)
  | 3 => let* x := pBool in let* i := pN in pret (SAsyncDrop x i)
  | 4 => let* x := pBool in let* b := pN in pret (SConn x b)
  | 5 => let* x := pBool in let* b := pN in pret (SHandle x b)
  | 6 => let* x := pBool in pret (SOpen x)
  | 7 => let* x := pBool in pret (SClose x)
  | 8 => let* x := pBool in pret (SCmd x)
  | 9 => let* x := pBool in let* w := pBool in let* r := pBool in pret (SGate x w r)
  | 10 => pret SKill
  | 11 => let* x := pBool in pret (SCmdFail x)
  | 12 => let* x := pBool in let* k := pN in let* t := pN in let* l := pN in pret (SSinkSync x k t l)
  | _ => pfail
  end.

Definition p_ecfg : parser ecfg :=
  let* a := pN in let* b := pN in let* c := pN in let* d := pN in let* e := pN in pret (mkEC a b c d e).

Definition wf_step (t : step) : bool :=
  match t with
  | SSync _ t l | SAsyncStart _ _ t l => wf_size t l
  | SSinkSync _ k t l => wf_size t l && (k <=? 255)
  | SHandle _ b => b <=? 128
  | SConn _ b => (b <=? 128) || (b =? BIG)
  | _ => true
  end.

Definition decode_sched (l : list N) : option (cfg * list step * list (list bool)) :=
  match l with
  | m :: rest =>
      if m =? SCHED_MARK then
        match pall (let* a := p_ecfg in let* b := p_ecfg in let* ts := plist p_step in
                    let* hs := plist (plist pBool) in pret (mkCfg a b, ts, hs)) rest with
        | Some (c, ts, hs) =>
            if wf_ecfg (cfA c) && wf_ecfg (cfB c) && forallb wf_step ts then Some (c, ts, hs) else None
        | None => None
        end
      else None
  | [] => None
  end.

Definition enc_uev (e : uev) : list N :=
  match e with
  | UPending => [0]
  | UOpened k => [1; k]
  | UClosed => [2]
  | UNotif n => [3; b2n (n_from n); n_per n; b2n (n_sync n); n_tag n; n_len n]
  end.
Definition enc_res (r : res) : list N := match r with RCode v => [v] | RUser e => enc_uev e end.

Definition sdump (c : cfg) (s : st) : list N :=
  [ b2n (e_alive (ec (sA s))); b2n (e_alive (ec (sB s)));
    sfree c s true; afree_d c s true; sfree c s false; afree_d c s false;
    nfree c s true; nfree c s false; len (carrier (lAB s)); len (carrier (lBA s));
    e_cmds (eh (sA s)); e_cmds (eh (sB s)); nyes s; bad s ].

Fixpoint srun_trace (c : cfg) (s : st) (ts : list step) : list N :=
  match ts with
  | [] => []
  | t :: r => let '(s1, v) := do_step c s t in enc_res v ++ sdump c s1 ++ srun_trace c s1 r
  end.

Definition is_start (l : list N) : bool := match l with m :: _ => m =? StartGlue.MARK | [] => false end.

Definition run_case (l : list N) : list N :=
  if is_start l then StartGlue.run_start l else
  match decode_sched l with
  | Some (c, ts, hs) => 2 :: srun_trace c (init hs) ts
  | None =>
      match decode_case l with
      | Some (c, xs, hs) => 1 :: arun_trace c 0 (init hs) xs
      | None => [0]
      end
  end.

(* ---- decoding a scheduler trace ---- *)
Record sdump_t := mkSD {
  sd_alive : bool -> bool; sd_sfree : bool -> N; sd_afree : bool -> N; sd_nfree : bool -> N;
  sd_car : bool -> N; sd_cmds : bool -> N; sd_yes : N; sd_bad : N
}.
Definition p_sdump : parser sdump_t :=
  let* aa := pBool in let* ab := pBool in let* sa := pN in let* aa' := pN in let* sb := pN in let* ab' := pN in
  let* na := pN in let* nb := pN in let* ca := pN in let* cb := pN in let* ma := pN in let* mb := pN in
  let* y := pN in let* bd := pN in
  pret (mkSD (fun x => if x then aa else ab) (fun x => if x then sa else sb) (fun x => if x then aa' else ab')
             (fun x => if x then na else nb) (fun x => if x then ca else cb) (fun x => if x then ma else mb) y bd).

Definition p_uev : parser uev :=
  let* t := pN in
  match t with
  | 0 => pret UPending
  | 1 => let* k := pN in pret (UOpened k)
  | 2 => pret UClosed
  | 3 => let* f := pBool in let* p := pN in let* m := pBool in let* tg := pN in let* l := pN in
         pret (UNotif (mkN f p m tg l))
  | _ => pfail
  end.

Definition p_res (t : step) : parser res :=
  match t with
  | SHandle _ _ => let* e := p_uev in pret (RUser e)
  | _ => let* v := pN in pret (RCode v)
  end.

Fixpoint p_sblocks (ts : list step) : parser (list (res * sdump_t)) :=
  match ts with
  | [] => pret []
  | t :: r => let* v := p_res t in let* d := p_sdump in let* rest := p_sblocks r in pret ((v, d) :: rest)
  end.

(* what the user of one endpoint can know *)
Record uview := mkU {
  u_sink : option N;              (* stream its handle considers open *)
  u_acc : list notif;             (* its sends that returned Ok *)
  u_pend : list (N * notif);      (* its pending send_async futures *)
  u_del : list notif;             (* what it received *)
  u_maxper : N;                   (* largest period it was told about *)
  u_cmds : N; u_fcp : N           (* command channel at the last step; ForceClose since Opened/Closed *)
}.
(* so_per: streams set up so far; so_cpa / so_cpb: stream of the current (or last) Connection of A / B *)
Record sost := mkSO { so_a : uview; so_b : uview; so_ok : bool; so_per : N; so_cpa : N; so_cpb : N }.
Definition so_cp (o : sost) (x : bool) : N := if x then so_cpa o else so_cpb o.
Definition uv (o : sost) (x : bool) : uview := if x then so_a o else so_b o.
Definition set_uv (o : sost) (x : bool) (u : uview) (ok : bool) : sost :=
  if x then mkSO u (so_b o) (so_ok o && ok) (so_per o) (so_cpa o) (so_cpb o)
  else mkSO (so_a o) u (so_ok o && ok) (so_per o) (so_cpa o) (so_cpb o).

Fixpoint find_p (id : N) (l : list (N * notif)) : option notif :=
  match l with [] => None | (i, n) :: t => if i =? id then Some n else find_p id t end.
Fixpoint remove_p (id : N) (l : list (N * notif)) : list (N * notif) :=
  match l with [] => [] | (i, n) :: t => if i =? id then t else (i, n) :: remove_p id t end.

Definition u_has (u : uview) : bool := match u_sink u with Some _ => true | None => false end.

Definition so_step (c : cfg) (o : sost) (t : step) (v : res) (d : sdump_t) : sost :=
  let o1 :=
    match t, v with
    | SSync x tg l, RCode z =>
        let u := uv o x in
        match u_sink u, z with
        | Some k, 0 => set_uv o x (mkU (u_sink u) (u_acc u ++ [mkN x k true tg l]) (u_pend u) (u_del u) (u_maxper u)
                                       (u_cmds u) (u_fcp u)) true
        | Some _, 1 | Some _, 2 => o
        | None, 3 => o
        | _, _ => set_uv o x u false
        end
    | SSinkSync x k tg l, RCode z =>
        (* accepted (the stream of the sink is the one the notification belongs to), or refused at once: a full
           queue, or a stream that has ended / never existed for this endpoint *)
        let u := uv o x in
        match z with
        | 0 => set_uv o x (mkU (u_sink u) (u_acc u ++ [mkN x k true tg l]) (u_pend u) (u_del u) (u_maxper u)
                              (u_cmds u) (u_fcp u)) (sd_alive d x && (k =? so_cp o x))
        | 1 => set_uv o x u (sd_alive d x && (k =? so_cp o x) && (sd_sfree d x =? 0))
        | 2 => set_uv o x u (negb (sd_alive d x) || negb (k =? so_cp o x))
        | _ => set_uv o x u false
        end
    | SAsyncStart x id tg l, RCode z =>
        let u := uv o x in
        match find_p id (u_pend u), u_sink u, z with
        | Some _, _, 5 => o
        | None, Some k, 0 => set_uv o x (mkU (u_sink u) (u_acc u ++ [mkN x k false tg l]) (u_pend u) (u_del u)
                                             (u_maxper u) (u_cmds u) (u_fcp u)) true
        | None, Some k, 4 =>
            (* it waits only when its queue has no free slot *)
            set_uv o x (mkU (u_sink u) (u_acc u) (u_pend u ++ [(id, mkN x k false tg l)]) (u_del u)
                            (u_maxper u) (u_cmds u) (u_fcp u)) (sd_alive d x && (sd_afree d x =? 0))
        | None, Some k, 2 =>   (* it fails only on a closed stream (or through the sink of an earlier stream) *)
            set_uv o x u (negb (sd_alive d x) || negb (k =? so_cp o x))
        | None, None, 3 => o
        | _, _, _ => set_uv o x u false
        end
    | SAsyncPoll x id, RCode z =>
        let u := uv o x in
        match find_p id (u_pend u), z with
        | None, 5 => o
        | Some n, 0 => set_uv o x (mkU (u_sink u) (u_acc u ++ [n]) (remove_p id (u_pend u)) (u_del u) (u_maxper u)
                                       (u_cmds u) (u_fcp u)) true
        | Some _, 2 => set_uv o x (mkU (u_sink u) (u_acc u) (remove_p id (u_pend u)) (u_del u) (u_maxper u)
                                       (u_cmds u) (u_fcp u)) true
        | Some _, 4 => o
        | _, _ => set_uv o x u false
        end
    | SAsyncDrop x id, RCode z =>
        let u := uv o x in
        match find_p id (u_pend u), z with
        | None, 5 => o
        | Some _, 0 => set_uv o x (mkU (u_sink u) (u_acc u) (remove_p id (u_pend u)) (u_del u) (u_maxper u)
                                       (u_cmds u) (u_fcp u)) true
        | _, _ => set_uv o x u false
        end
    | SHandle x _, RUser (UOpened k) =>
        let u := uv o x in
        (* exactly one Closed between two Opened, periods increase *)
        set_uv o x (mkU (Some k) (u_acc u) (u_pend u) (u_del u) k (u_cmds u) 0)
               (negb (u_has u) && (u_maxper u <? k))
    | SHandle x _, RUser UClosed =>
        let u := uv o x in
        set_uv o x (mkU None (u_acc u) (u_pend u) (u_del u) (u_maxper u) (u_cmds u) 0) (u_has u)
    | SHandle x _, RUser (UNotif n) =>
        let u := uv o x in
        (* reported only as part of the stream it was sent on, and it comes from the peer *)
        set_uv o x (mkU (u_sink u) (u_acc u) (u_pend u) (u_del u ++ [n]) (u_maxper u) (u_cmds u) (u_fcp u))
               (match u_sink u with Some k => n_per n =? k | None => false end && Bool.eqb (n_from n) (negb x))
    | _, _ => o
    end in
  let upd := fun (o : sost) (x : bool) =>
    let u := uv o x in
    let grew := sd_cmds d x - u_cmds u in
    let fcp := u_fcp u + grew in
    set_uv o x (mkU (u_sink u) (u_acc u) (u_pend u) (u_del u) (u_maxper u) (sd_cmds d x) fcp)
           ((fcp <=? 1) &&
            (* ForceClose is queued only by a clogged sync send of that user *)
            (match t, v with
             | SSync y _ _, RCode 1 => if Bool.eqb x y then true else grew =? 0
             | _, _ => grew =? 0 end) &&
            (sd_sfree d x <=? c_s (ecf c x)) && (sd_afree d x <=? c_a (ecf c x)) &&
            (sd_nfree d x <=? c_n (ecf c x)) && (sd_cmds d x <=? c_c (ecf c x))) in
  let o2 := upd (upd o1 true) false in
  (* the protocol sets up streams the way open_stream does *)
  let '(per', cpa', cpb') :=
    match t, v with
    | SOpen x, RCode 0 =>
        if so_cp o x <? so_per o
        then (so_per o, (if x then so_per o else so_cpa o), (if x then so_cpb o else so_per o))
        else (so_per o + 1, (if x then so_per o + 1 else so_cpa o), (if x then so_cpb o else so_per o + 1))
    | _, _ => (so_per o, so_cpa o, so_cpb o)
    end in
  mkSO (so_a o2) (so_b o2) (so_ok o2 && (sd_bad d =? 0)) per' cpa' cpb'.

Fixpoint so_run (c : cfg) (o : sost) (ts : list step) (tr : list (res * sdump_t)) : sost :=
  match ts, tr with
  | t :: ts', (v, d) :: tr' => so_run c (so_step c o t v d) ts' tr'
  | _, _ => o
  end.

Definition count_open (ts : list step) : N :=
  len (filter (fun t => match t with SOpen _ => true | _ => false end) ts).

Definition empty_u : uview := mkU None [] [] [] 0 0 0.

Definition prop_ok (case trace : list N) : bool :=
  if is_start case then StartGlue.prop_start case trace else
  match decode_sched case with
  | Some (c, ts, _) =>
      match trace with
      | 2 :: body =>
          match pall (p_sblocks ts) body with
          | Some tr =>
              let o := so_run c (mkSO empty_u empty_u true 0 0 0) ts tr in
              so_ok o &&
              fifo_ok c true (count_open ts) (u_acc (so_a o)) (u_del (so_b o)) &&
              fifo_ok c false (count_open ts) (u_acc (so_b o)) (u_del (so_a o))
          | None => false
          end
      | _ => false
      end
  | None =>
      match decode_case case, trace with
      | Some (c, xs, _), 1 :: body =>
          match pall (p_blocks xs) body with
          | Some tr =>
              let o := o_run c 0 (mkO None [] [] 0 [] None 0 0 true) xs tr in
              o_ok o && fifo_ok c true (count_reopen xs) (o_acc o) (o_del o)
          | None => false
          end
      | None, [0] => true
      | _, _ => false
      end
  end.

(* No known-finding classes for C12. *)
Definition known_class (case trace : list N) : N := 0.
