(* C12 — wire format, model runner and the trace oracle prop_ok. Definitions only.

   case   = cap_s cap_a cap_n max_out max_in, nactions, actions, nperiods, per period: nhints, hints
   action = 0 tag len | 1 tag len | 2 w r | 3 | 4 | 5 | 6 | 7 | 8
            [SendSync, SendAsync, Gate, UserRecv, PollA, CloseA, CloseB, Kill, Reopen]
   trace  = 1, then per action: result, dump
   result = SendSync/SendAsync/Gate/Close/Kill/Reopen: code
            UserRecv: 0 | 1 k | 2 | 3 per mode tag len
            PollA: n, then n times [1 k | 2]
   dump   = a_alive b_alive sync_free async_free waiting async_ok async_err carrier notif_free
            force_closes notify_yes bad_hints *)
From Coq Require Import List NArith Bool.
From V.common Require Import Wire.
From V.C12 Require Import Model.
Import ListNotations.
Open Scope N_scope.

Definition p_action : parser action :=
  let* tag := pN in
  match tag with
  | 0 => let* t := pN in let* l := pN in pret (ASendSync t l)
  | 1 => let* t := pN in let* l := pN in pret (ASendAsync t l)
  | 2 => let* w := pBool in let* r := pBool in pret (AGate w r)
  | 3 => pret AUserRecv
  | 4 => pret APollA
  | 5 => pret ACloseA
  | 6 => pret ACloseB
  | 7 => pret AKill
  | 8 => pret AReopen
  | _ => pfail
  end.

Definition p_cfg : parser cfg :=
  let* a := pN in let* b := pN in let* c := pN in let* d := pN in let* e := pN in
  pret (mkCfg a b c d e).

Definition wf_action (x : action) : bool :=
  match x with
  | ASendSync t l | ASendAsync t l => (4 <=? l) && (l <=? 4194304) && (t <? 65536)
  | _ => true
  end.

(* channel capacities must be positive (tokio panics on 0); payloads carry a 4-byte header *)
Definition wf_case (c : cfg) (xs : list action) : bool :=
  (1 <=? cap_s c) && (1 <=? cap_a c) && (1 <=? cap_n c) &&
  (cap_s c <=? 4096) && (cap_a c <=? 4096) && (cap_n c <=? 4096) && forallb wf_action xs.

Definition decode_case (l : list N) : option (cfg * list action * list (list bool)) :=
  match pall (let* c := p_cfg in let* xs := plist p_action in let* hs := plist (plist pBool) in
              pret (c, xs, hs)) l with
  | Some (c, xs, hs) => if wf_case c xs then Some (c, xs, hs) else None
  | None => None
  end.

(* ---- encoders ---- *)
Definition enc_hev (e : hev) : list N := match e with HOpened k => [1; k] | HClosed _ => [2] end.
Definition enc_res (r : res) : list N :=
  match r with
  | RCode x => [x]
  | RUser UPending => [0]
  | RUser (UOpened k) => [1; k]
  | RUser UClosed => [2]
  | RUser (UNotif n) => [3; n_per n; b2n (n_sync n); n_tag n; n_len n]
  | REvents l => len l :: flat_map enc_hev l
  end.

Definition dump (c : cfg) (s : st) : list N :=
  let a := sa s in let b := sb s in let g := sg s in
  [ b2n (a_alive a); b2n (b_alive b);
    if a_alive a then cap_s c - len (syncq a) else 0;
    if a_alive a then cap_a c - len (asyncq a) else 0;
    len (waiters a); async_ok g; async_err g;
    if b_alive b then len (carrier (sl s)) else 0;
    cap_n c - len (notifq b) - b2n (reserved b);
    len (fclog g); nyes g; bad g ].

Fixpoint run_trace (c : cfg) (s : st) (xs : list action) : list N :=
  match xs with
  | [] => []
  | x :: t => let '(s1, r) := step c s x in enc_res r ++ dump c s1 ++ run_trace c s1 t
  end.

Definition run_case (l : list N) : list N :=
  match decode_case l with
  | Some (c, xs, hs) => 1 :: run_trace c (init hs) xs
  | None => [0]
  end.

(* ---- decoding a trace (the oracle runs on the implementation's output) ---- *)
Record obs_dump := mkD {
  d_a : bool; d_b : bool; d_sfree : N; d_afree : N; d_wait : N; d_ok : N; d_err : N;
  d_car : N; d_nfree : N; d_fc : N; d_yes : N; d_bad : N
}.
Definition p_dump : parser obs_dump :=
  let* a := pBool in let* b := pBool in let* sf := pN in let* af := pN in let* w := pN in
  let* ok := pN in let* er := pN in let* ca := pN in let* nf := pN in let* fc := pN in
  let* y := pN in let* bd := pN in pret (mkD a b sf af w ok er ca nf fc y bd).

Definition p_hev : parser hev :=
  let* t := pN in
  match t with 1 => let* k := pN in pret (HOpened k) | 2 => pret (HClosed 0) | _ => pfail end.

Definition p_res (x : action) : parser res :=
  match x with
  | AUserRecv =>
      let* t := pN in
      match t with
      | 0 => pret (RUser UPending)
      | 1 => let* k := pN in pret (RUser (UOpened k))
      | 2 => pret (RUser UClosed)
      | 3 => let* p := pN in let* m := pBool in let* tg := pN in let* l := pN in
             pret (RUser (UNotif (mkN p m tg l)))
      | _ => pfail
      end
  | APollA => let* l := plist p_hev in pret (REvents l)
  | _ => let* x := pN in pret (RCode x)
  end.

Fixpoint p_blocks (xs : list action) : parser (list (res * obs_dump)) :=
  match xs with
  | [] => pret []
  | x :: t => let* r := p_res x in let* d := p_dump in let* rest := p_blocks t in pret ((r, d) :: rest)
  end.

(* ---- the oracle: the property judged on an observed trace ---- *)
Definition notif_eqb (a b : notif) : bool :=
  (n_per a =? n_per b) && Bool.eqb (n_sync a) (n_sync b) && (n_tag a =? n_tag b) && (n_len a =? n_len b).

Fixpoint prefix_b (x y : list notif) : bool :=
  match x, y with
  | [], _ => true
  | a :: x', b :: y' => notif_eqb a b && prefix_b x' y'
  | _ :: _, [] => false
  end.

(* what the user of the sending side can know: the sink it holds, what it sent and the results *)
Record ost := mkO {
  o_sink : option N;          (* period of the sink held by handle A *)
  o_acc : list notif;         (* notifications whose send returned Ok *)
  o_issued : list notif;      (* async sends whose future was created, FIFO *)
  o_done : N;                 (* async futures completed so far (ok + err) *)
  o_del : list notif;         (* delivered to user B *)
  o_fc : N;                   (* ForceClose commands seen at the last step *)
  o_fc_in_period : N;         (* ForceClose commands since handle A last saw Opened/Closed *)
  o_ok : bool
}.

Fixpoint nth_notif (i : nat) (l : list notif) : option notif :=
  match l, i with
  | [], _ => None
  | n :: _, O => Some n
  | _ :: t, S j => nth_notif j t
  end.

(* async futures complete in FIFO order: the completed ones are the first (ok+err) issued; a
   future that completed Ok between two dumps is appended to the accepted list *)
Fixpoint take_async (k : nat) (from : nat) (issued : list notif) : list notif :=
  match k with
  | O => []
  | S k' => match nth_notif from issued with
            | Some n => n :: take_async k' (S from) issued
            | None => []
            end
  end.

Definition periods_mono (l : list notif) : bool :=
  (fix go (l : list notif) (last : N) : bool :=
     match l with [] => true | n :: t => (last <=? n_per n) && go t (n_per n) end) l 0.

Definition modes : list bool := [true; false].

Definition fifo_ok (c : cfg) (nper : N) (acc del : list notif) : bool :=
  forallb (fun k => forallb (fun m => prefix_b (proj k m del) (proj k m acc)) modes)
          (map N.of_nat (seq 0 (S (N.to_nat nper)))) &&
  forallb (fun n => n_per n <=? nper) del &&
  forallb (fun n => (n_len n <=? max_out c) && (n_len n <=? max_in c)) del &&
  periods_mono del.

Definition o_step (c : cfg) (o : ost) (x : action) (r : res) (d : obs_dump) : ost :=
  (* completions of async futures since the previous dump: errors first are impossible to tell
     apart from oks by position, so the oracle uses the counters: newly ok futures are a
     contiguous FIFO block only when no error completed in the same step *)
  let o1 :=
    match x, r with
    | ASendSync t l, RCode 0 =>
        match o_sink o with
        | Some k => mkO (o_sink o) (o_acc o ++ [mkN k true t l]) (o_issued o) (o_done o) (o_del o)
                        (o_fc o) (o_fc_in_period o) (o_ok o)
        | None => mkO (o_sink o) (o_acc o) (o_issued o) (o_done o) (o_del o) (o_fc o) (o_fc_in_period o) false
        end
    | ASendSync _ _, RCode 3 =>
        mkO (o_sink o) (o_acc o) (o_issued o) (o_done o) (o_del o) (o_fc o) (o_fc_in_period o)
            (o_ok o && match o_sink o with None => true | Some _ => false end)
    | ASendSync _ _, RCode z =>   (* never blocks: it returned Clogged or NoConnection *)
        mkO (o_sink o) (o_acc o) (o_issued o) (o_done o) (o_del o) (o_fc o) (o_fc_in_period o)
            (o_ok o && ((z =? 1) || (z =? 2)) && match o_sink o with None => false | Some _ => true end)
    | ASendAsync t l, RCode 0 =>
        match o_sink o with
        | Some k => mkO (o_sink o) (o_acc o) (o_issued o ++ [mkN k false t l]) (o_done o) (o_del o)
                        (o_fc o) (o_fc_in_period o) (o_ok o)
        | None => mkO (o_sink o) (o_acc o) (o_issued o) (o_done o) (o_del o) (o_fc o) (o_fc_in_period o) false
        end
    | ASendAsync _ _, RCode z =>
        mkO (o_sink o) (o_acc o) (o_issued o) (o_done o) (o_del o) (o_fc o) (o_fc_in_period o)
            (o_ok o && (z =? 3) && match o_sink o with None => true | Some _ => false end)
    | AUserRecv, RUser (UNotif n) =>
        mkO (o_sink o) (o_acc o) (o_issued o) (o_done o) (o_del o ++ [n]) (o_fc o) (o_fc_in_period o) (o_ok o)
    | APollA, REvents l =>
        let '(snk, _) := pa_events l (o_sink o) false in
        mkO snk (o_acc o) (o_issued o) (o_done o) (o_del o) (o_fc o)
            (match l with [] => o_fc_in_period o | _ => 0 end) (o_ok o)
    | _, _ => o
    end in
  (* async completions *)
  let done' := d_ok d + d_err d in
  let newly := N.to_nat (done' - o_done o1) in
  let block := take_async newly (N.to_nat (o_done o1)) (o_issued o1) in
  (* which of the newly completed were Ok: when the sender is alive after the step none of them
     failed; when it died in this step the oks (if any) are the first ones *)
  let n_ok_new := N.to_nat (d_ok d - (len (filter (fun n => negb (n_sync n)) (o_acc o1)))) in
  let acc' := o_acc o1 ++ firstn n_ok_new block in
  let fc_new := d_fc d - o_fc o1 in
  let fcp := o_fc_in_period o1 + fc_new in
  mkO (o_sink o1) acc' (o_issued o1) done' (o_del o1) (d_fc d) fcp
      (o_ok o1 &&
       (* counters only grow, completed + waiting = issued *)
       (o_done o1 <=? done') && (o_fc o1 <=? d_fc d) &&
       (done' + d_wait d =? len (o_issued o1)) &&
       (d_ok d =? len (filter (fun n => negb (n_sync n)) acc')) &&
       (* at most one ForceClose per open period, and only as a result of a clogged sync send *)
       (fcp <=? 1) &&
       (match x, r with ASendSync _ _, RCode 1 => true | _, _ => fc_new =? 0 end) &&
       (* the async send waits exactly when the queue is full *)
       (if d_a d then (d_wait d =? 0) || (d_afree d =? 0) else d_wait d =? 0) &&
       (* queue bounds *)
       (d_sfree d <=? cap_s c) && (d_afree d <=? cap_a c) && (d_nfree d <=? cap_n c) &&
       (d_bad d =? 0)).

Fixpoint o_run (c : cfg) (o : ost) (xs : list action) (tr : list (res * obs_dump)) : ost :=
  match xs, tr with
  | x :: xs', (r, d) :: tr' => o_run c (o_step c o x r d) xs' tr'
  | _, _ => o
  end.

Definition count_reopen (xs : list action) : N :=
  len (filter (fun x => match x with AReopen => true | _ => false end) xs).

Definition prop_ok (case trace : list N) : bool :=
  match decode_case case, trace with
  | Some (c, xs, _), 1 :: body =>
      match pall (p_blocks xs) body with
      | Some tr =>
          let o := o_run c (mkO None [] [] 0 [] 0 0 true) xs tr in
          o_ok o && fifo_ok c (count_reopen xs) (o_acc o) (o_del o)
      | None => false
      end
  | None, [0] => true
  | _, _ => false
  end.

(* No known-finding classes for C12. *)
Definition known_class (case trace : list N) : N := 0.
