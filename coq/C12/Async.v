(* C12 — the asynchronous sending mode: the bounded queue with waiting senders (tokio mpsc with a fair
   semaphore). Capacity is never exceeded, permits are handed over in FIFO order, no permit stays
   free while a sender waits, a dropped future returns its permit. Over every schedule. *)
From Coq Require Import List NArith Bool Lia.
From Coq Require Import ZifyBool ZifyNat ZifyN.
From V.C12 Require Import Model Proofs Inv2.
Import ListNotations.
Open Scope N_scope.
Arguments N.add : simpl never.
Arguments N.sub : simpl never.
Arguments N.eqb : simpl never.
Arguments N.ltb : simpl never.
Arguments N.leb : simpl never.
Arguments N.of_nat : simpl never.
Arguments N.to_nat : simpl never.

(* liveness of a waiter's stream, in terms of the period and liveness of the Connection *)
Definition wl (p : N) (al : bool) (w : waiter) : bool := (n_per (w_n w) =? p) && al.
(* waiting for a permit / holding a permit, on the live stream *)
Definition ua (p : N) (al : bool) (w : waiter) : bool := negb (w_asg w) && wl p al w.
Definition asg (p : N) (al : bool) (w : waiter) : bool := w_asg w && wl p al w.

Lemma wlive_wl cn w : wlive cn w = wl (e_per cn) (e_alive cn) w.
Proof. reflexivity. Qed.

Lemma held_asg cn ws : held cn ws = len (filter (asg (e_per cn) (e_alive cn)) ws).
Proof. reflexivity. Qed.

(* once a sender without a permit appears in the queue, nobody behind it holds one *)
Fixpoint srt (p : N) (al : bool) (ws : list waiter) : Prop :=
  match ws with
  | [] => True
  | w :: t => if ua p al w then Forall (fun v => asg p al v = false) t else srt p al t
  end.

Lemma srt_of_noasg p al t : Forall (fun v => asg p al v = false) t -> srt p al t.
Proof.
  induction 1 as [|w t Hw Ht IH]; cbn; [exact I|]. destruct (ua p al w); assumption.
Qed.

Lemma srt_tail p al w t : srt p al (w :: t) -> srt p al t.
Proof. cbn. destruct (ua p al w); [apply srt_of_noasg|auto]. Qed.

Lemma srt_snoc p al w : asg p al w = false -> forall ws, srt p al ws -> srt p al (ws ++ [w]).
Proof.
  intros Hw. induction ws as [|v t IH]; intros H; cbn in *.
  - destruct (ua p al w); [constructor|exact I].
  - destruct (ua p al v); [|apply IH; exact H].
    apply Forall_app_iff. split; [exact H|repeat constructor; exact Hw].
Qed.

Lemma srt_remove p al id : forall ws, srt p al ws -> srt p al (remove_w id ws).
Proof.
  induction ws as [|w t IH]; intros H; cbn [remove_w]; [exact H|].
  destruct (w_id w =? id); [eapply srt_tail; exact H|].
  cbn in *. destruct (ua p al w); [apply remove_w_forall; exact H|apply IH; exact H].
Qed.

Lemma assign_ext c1 c2 : e_per c1 = e_per c2 -> e_alive c1 = e_alive c2 ->
  forall k ws, assign c1 k ws = assign c2 k ws.
Proof.
  intros Ep Ea. induction k as [|k IHk]; intros ws; [destruct ws; reflexivity|].
  induction ws as [|w t IHt]; cbn [assign]; [reflexivity|].
  rewrite !wlive_wl, Ep, Ea. rewrite IHt, IHk. reflexivity.
Qed.

Lemma wl_mk p al i b w : wl p al (mkW i (w_n w) b) = wl p al w.
Proof. reflexivity. Qed.

Lemma filter_cons_t {A} (f : A -> bool) x l : f x = true -> filter f (x :: l) = x :: filter f l.
Proof. intros H. cbn. now rewrite H. Qed.
Lemma filter_cons_f {A} (f : A -> bool) x l : f x = false -> filter f (x :: l) = filter f l.
Proof. intros H. cbn. now rewrite H. Qed.

Lemma assign_counts cn : let p := e_per cn in let al := e_alive cn in
  forall ws k,
  length (filter (asg p al) (assign cn k ws)) = (length (filter (asg p al) ws) + Nat.min k (length (filter (ua p al) ws)))%nat /\
  length (filter (ua p al) (assign cn k ws)) = (length (filter (ua p al) ws) - Nat.min k (length (filter (ua p al) ws)))%nat.
Proof.
  intros p al. induction ws as [|w t IH]; intros k.
  - destruct k; cbn; split; lia.
  - destruct k as [|k']; [cbn [assign Nat.min]; split; lia|].
    cbn [assign]. rewrite wlive_wl. fold p al.
    destruct (w_asg w) eqn:Ea, (wl p al w) eqn:El; cbn [orb negb].
    + assert (E1 : asg p al w = true) by (unfold asg; now rewrite Ea, El).
      assert (E2 : ua p al w = false) by (unfold ua; now rewrite Ea).
      destruct (IH (S k')) as [A B].
      rewrite !(filter_cons_t _ _ _ E1), !(filter_cons_f _ _ _ E2). cbn [length]. rewrite A, B. split; lia.
    + assert (E1 : asg p al w = false) by (unfold asg; now rewrite Ea, El).
      assert (E2 : ua p al w = false) by (unfold ua; now rewrite Ea).
      destruct (IH (S k')) as [A B].
      rewrite !(filter_cons_f _ _ _ E1), !(filter_cons_f _ _ _ E2). rewrite A, B. split; lia.
    + assert (E1 : asg p al w = false) by (unfold asg; now rewrite Ea).
      assert (E2 : ua p al w = true) by (unfold ua; now rewrite Ea, El).
      assert (E3 : asg p al (mkW (w_id w) (w_n w) true) = true) by (unfold asg; cbn [w_asg]; now rewrite wl_mk, El).
      assert (E4 : ua p al (mkW (w_id w) (w_n w) true) = false) by reflexivity.
      destruct (IH k') as [A B].
      rewrite (filter_cons_t _ _ _ E3), (filter_cons_f _ _ _ E4), (filter_cons_f _ _ _ E1), (filter_cons_t _ _ _ E2).
      cbn [length]. rewrite A, B. split; lia.
    + assert (E1 : asg p al w = false) by (unfold asg; now rewrite Ea).
      assert (E2 : ua p al w = false) by (unfold ua; now rewrite Ea, El).
      destruct (IH (S k')) as [A B].
      rewrite !(filter_cons_f _ _ _ E1), !(filter_cons_f _ _ _ E2). rewrite A, B. split; lia.
Qed.

Lemma assign_srt cn : let p := e_per cn in let al := e_alive cn in
  forall ws k, srt p al ws -> srt p al (assign cn k ws).
Proof.
  intros p al. induction ws as [|w t IH]; intros k H.
  - destruct k; exact H.
  - destruct k as [|k']; [exact H|]. cbn [assign]. rewrite wlive_wl. fold p al.
    cbn [srt] in H.
    destruct (w_asg w) eqn:Ea, (wl p al w) eqn:El; cbn [orb negb].
    + assert (E2 : ua p al w = false) by (unfold ua; now rewrite Ea).
      rewrite E2 in H. cbn [srt]. rewrite E2. apply IH. exact H.
    + assert (E2 : ua p al w = false) by (unfold ua; now rewrite Ea).
      rewrite E2 in H. cbn [srt]. rewrite E2. apply IH. exact H.
    + assert (E2 : ua p al w = true) by (unfold ua; now rewrite Ea, El).
      rewrite E2 in H. cbn [srt].
      replace (ua p al (mkW (w_id w) (w_n w) true)) with false by reflexivity.
      apply IH. apply srt_of_noasg. exact H.
    + assert (E2 : ua p al w = false) by (unfold ua; now rewrite Ea, El).
      rewrite E2 in H. cbn [srt]. rewrite E2. apply IH. exact H.
Qed.

Lemma filter_nil_forall {A} (f : A -> bool) l : filter f l = [] -> Forall (fun x => f x = false) l.
Proof.
  induction l as [|a l IH]; cbn; intros H; [constructor|].
  destruct (f a) eqn:E; [discriminate|]. constructor; auto.
Qed.

Lemma forall_filter_nil {A} (f : A -> bool) l : Forall (fun x => f x = false) l -> filter f l = [].
Proof. apply filter_none. Qed.

(* ------------------------------------------------------------------ the invariant *)
Record InvWk (ca : N) (p : N) (al : bool) (aq : list notif) (ws : list waiter) : Prop := mkInvWk {
  (* queued notifications plus permits held by waiting senders never exceed the capacity *)
  w_cap : len aq + len (filter (asg p al) ws) <= ca;
  (* permits were handed over in the order in which the senders started to wait *)
  w_srt : srt p al ws;
  (* no permit stays free while a sender of the live stream waits *)
  w_work : len aq + len (filter (asg p al) ws) < ca -> Forall (fun w => ua p al w = false) ws
}.

Definition InvW (c : cfg) (s : st) (z : bool) : Prop :=
  InvWk (c_a (ecf c z)) (e_per (cn s z)) (e_alive (cn s z)) (e_aq (cn s z)) (e_ws (hn s z)).

Lemma afree_lt ce cn ws : 0 < afree ce cn ws <-> len (e_aq cn) + len (filter (asg (e_per cn) (e_alive cn)) ws) < c_a ce.
Proof. unfold afree. rewrite held_asg. lia. Qed.

(* nothing is live: trivial *)
Lemma nolive_inv ca p al ws : Forall (fun w => wl p al w = false) ws -> 0 <= ca -> InvWk ca p al [] ws.
Proof.
  intros H _.
  assert (A : Forall (fun w => asg p al w = false) ws).
  { eapply Forall_impl; [|exact H]. cbn. intros w E. unfold asg. rewrite E. apply andb_false_r. }
  assert (U : Forall (fun w => ua p al w = false) ws).
  { eapply Forall_impl; [|exact H]. cbn. intros w E. unfold ua. rewrite E. apply andb_false_r. }
  constructor.
  - rewrite (forall_filter_nil _ _ A). rewrite (@len_nil notif), (@len_nil waiter). lia.
  - apply srt_of_noasg. exact A.
  - intros _. exact U.
Qed.

Lemma dead_nolive p ws : Forall (fun w => wl p false w = false) ws.
Proof. apply Forall_forall. intros w _. unfold wl. apply andb_false_r. Qed.

(* permits are handed out to the first waiting senders *)
Lemma rebalance_inv ce cn ws :
  len (e_aq cn) + len (filter (asg (e_per cn) (e_alive cn)) ws) <= c_a ce -> srt (e_per cn) (e_alive cn) ws ->
  InvWk (c_a ce) (e_per cn) (e_alive cn) (e_aq cn) (rebalance ce cn ws).
Proof.
  intros Hc Hs. unfold rebalance.
  destruct (assign_counts cn ws (N.to_nat (afree ce cn ws))) as [A B].
  assert (Ek : afree ce cn ws = c_a ce - len (e_aq cn) - len (filter (asg (e_per cn) (e_alive cn)) ws)) by reflexivity.
  unfold len in *.
  constructor.
  - unfold len. rewrite A. lia.
  - apply assign_srt. exact Hs.
  - unfold len. rewrite A. intros Hlt. apply filter_nil_forall.
    apply length_zero_iff_nil. rewrite B. lia.
Qed.

(* ---- the transitions ---- *)
Lemma wk_push ca p al aq ws n : InvWk ca p al aq ws -> len aq + len (filter (asg p al) ws) < ca ->
  InvWk ca p al (aq ++ [n]) ws.
Proof.
  intros [C S W] Hlt. constructor.
  - rewrite len_app. change (len [n]) with 1. lia.
  - exact S.
  - intros _. apply W. exact Hlt.
Qed.

Lemma filter_snoc {A} (f : A -> bool) l x : filter f (l ++ [x]) = filter f l ++ (if f x then [x] else []).
Proof. rewrite filter_app. reflexivity. Qed.

Lemma wk_wait ca p al aq ws i n : InvWk ca p al aq ws -> ~ (len aq + len (filter (asg p al) ws) < ca) ->
  InvWk ca p al aq (ws ++ [mkW i n false]).
Proof.
  intros [C S W] Hn.
  assert (E : asg p al (mkW i n false) = false) by reflexivity.
  constructor.
  - rewrite filter_snoc, E, app_nil_r. exact C.
  - apply srt_snoc; assumption.
  - rewrite filter_snoc, E, app_nil_r. intros Hlt. contradiction.
Qed.

Lemma find_remove id : forall ws w, find_w id ws = Some w ->
  exists a b, ws = a ++ w :: b /\ remove_w id ws = a ++ b.
Proof.
  induction ws as [|v t IH]; intros w H; cbn in *; [discriminate|].
  destruct (w_id v =? id).
  - inversion H; subst. exists [], t. split; reflexivity.
  - destruct (IH w H) as (a & b & E1 & E2). exists (v :: a), b. cbn. rewrite E2, <- E1. split; reflexivity.
Qed.

Lemma wk_poll_ok ca p al aq ws id w : InvWk ca p al aq ws -> find_w id ws = Some w -> asg p al w = true ->
  InvWk ca p al (aq ++ [w_n w]) (remove_w id ws).
Proof.
  intros [C S W] Hf Ha. destruct (find_remove _ _ _ Hf) as (a & b & E1 & E2).
  assert (Eas : len (filter (asg p al) ws) = len (filter (asg p al) (remove_w id ws)) + 1).
  { rewrite E2, E1. rewrite !filter_app. cbn [filter]. rewrite Ha. rewrite !len_app, len_cons. lia. }
  constructor.
  - rewrite len_app. change (len [w_n w]) with 1. lia.
  - apply srt_remove. exact S.
  - rewrite len_app. change (len [w_n w]) with 1. intros Hlt.
    apply remove_w_forall. apply W. lia.
Qed.

Lemma wk_remove_dead ca p al aq ws id w : InvWk ca p al aq ws -> find_w id ws = Some w -> wl p al w = false ->
  InvWk ca p al aq (remove_w id ws).
Proof.
  intros [C S W] Hf Hl. destruct (find_remove _ _ _ Hf) as (a & b & E1 & E2).
  assert (Ha : asg p al w = false) by (unfold asg; rewrite Hl; apply andb_false_r).
  assert (Eas : len (filter (asg p al) ws) = len (filter (asg p al) (remove_w id ws))).
  { rewrite E2, E1. rewrite !filter_app. cbn [filter]. rewrite Ha. reflexivity. }
  constructor.
  - rewrite <- Eas. exact C.
  - apply srt_remove. exact S.
  - rewrite <- Eas. intros Hlt. apply remove_w_forall. apply W. exact Hlt.
Qed.

Lemma filter_remove_le (f : waiter -> bool) id : forall ws, len (filter f (remove_w id ws)) <= len (filter f ws).
Proof.
  induction ws as [|w t IH]; cbn [remove_w]; [lia|].
  destruct (w_id w =? id).
  - cbn [filter]. destruct (f w); [rewrite len_cons|]; lia.
  - cbn [filter]. destruct (f w); [rewrite !len_cons|]; lia.
Qed.

(* ---- steps ---- *)
Definition InvWB (c : cfg) (s : st) : Prop := forall z, InvW c s z.

Ltac other x z E := assert (x = negb z) by (destruct x, z; cbn in E; try discriminate; reflexivity); subst x.

Lemma set_async_invW_other c x aq ws acc ok err s : InvW c s (negb x) -> InvW c (set_async x aq ws acc ok err s) (negb x).
Proof. destruct x; exact (fun H => H). Qed.

Lemma init_invWB c hs : InvWB c (init hs).
Proof.
  intros z. unfold InvW. destruct z; cbn; (apply nolive_inv; [constructor|lia]).
Qed.

Lemma close_invWB c x nfy s : InvWB c s -> InvWB c (close x nfy s).
Proof.
  intros H z. unfold InvW. destruct (Bool.eqb z x) eqn:E.
  - apply eqb_prop in E. subst z.
    replace (e_alive (cn (close x nfy s) x)) with false by (destruct x; reflexivity).
    replace (e_aq (cn (close x nfy s) x)) with (@nil notif) by (destruct x; reflexivity).
    apply nolive_inv; [apply dead_nolive|lia].
  - other z x E. destruct x; apply H.
Qed.

Lemma out_phase_invWB c x b s : InvWB c s -> e_alive (cn s x) = true ->
  match out_phase c x b s with
  | (s1, true) => InvWB c (close x true s1)
  | (s1, false) => InvWB c s1
  end.
Proof.
  intros H Ha.
  pose proof (a_loop_aq (opt_len (e_cur (ec (gep s x))) +
                         N.to_nat (N.min b (len (e_sq (ec (gep s x))) + len (e_aq (ec (gep s x))) + 1)))%nat
                (c_max (ecf c x)) (wgate (glo s x))
                (mkLst (e_cur (ec (gep s x))) (e_sq (ec (gep s x))) (e_aq (ec (gep s x))) (e_sk (ec (gep s x)))
                       (carrier (glo s x)) (e_hints (ec (gep s x))) (bad s))) as Q.
  cbn [l_aq] in Q.
  unfold out_phase, cn in *.
  destruct (a_loop _ _ _ _) as [cl L]. cbn [snd] in Q. destruct cl.
  - (* start_send refused a notification: the Connection closes *)
    intros z. unfold InvW. destruct (Bool.eqb z x) eqn:E.
    + apply eqb_prop in E. subst z.
      match goal with |- InvWk _ (e_per (cn ?S x)) (e_alive (cn ?S x)) (e_aq (cn ?S x)) _ =>
        replace (e_alive (cn S x)) with false by (destruct x; reflexivity);
        replace (e_aq (cn S x)) with (@nil notif) by (destruct x; reflexivity) end.
      apply nolive_inv; [apply dead_nolive|lia].
    + other z x E. destruct x; apply H.
  - destruct (if wgate (glo s x) then _ else _) as [sk ca] eqn:Ef.
    intros z. unfold InvW. destruct (Bool.eqb z x) eqn:E.
    + apply eqb_prop in E. subst z. destruct (H x) as [C S W]. unfold cn, hn in *.
      assert (Hq : len (l_aq L) <= len (e_aq (ec (gep s x)))) by (unfold len; lia).
      set (cn1 := mkC true (e_per (ec (gep s x))) (e_shut (ec (gep s x))) (l_sq L) (l_aq L) (l_cur L) sk (l_h L)
                      (e_res (ec (gep s x))) (e_rwait (ec (gep s x)))).
      pose proof (rebalance_inv (ecf c x) cn1 (e_ws (eh (gep s x)))) as R. cbn [cn1 e_aq e_per e_alive] in R.
      rewrite Ha in *.
      assert (R' := R ltac:(lia) S).
      destruct x; cbn in *; unfold cn, hn; cbn; exact R'.
    + other z x E. destruct x; apply H.
Qed.

Lemma conn_poll_invWB c x b s : InvWB c s -> InvWB c (conn_poll c x b s).
Proof.
  intros H. unfold conn_poll. fold (cn s x). destruct (e_alive (cn s x)) eqn:Ea; [|exact H].
  apply (conn_loop_gen (InvWB c)); auto.
  - intros. apply close_invWB; assumption.
  - intros s0 b0 H0 Ha0 _. apply out_phase_invWB; assumption.
  - intros s0 H0 _ _ z. destruct x, z; apply H0.
  - intros s0 H0 _ _ z. destruct x, z; apply H0.
  - intros s0 n rest H0 _ _ _ _ _ _ z. destruct x, z; apply H0.
Qed.

Lemma async_start_invWB c x s i t l : InvWB c s -> InvWB c (fst (async_start c x s i t l)).
Proof.
  intros H. unfold async_start. destruct (find_w i _); [exact H|].
  destruct (e_peers (eh (gep s x))) as [k|]; [|exact H].
  destruct (live s x k) eqn:El.
  - apply live_alive in El. destruct El as [Ea Ek].
    destruct (0 <? afree (ecf c x) (ec (gep s x)) (e_ws (eh (gep s x)))) eqn:Ef; cbn [fst]; intros z;
      (destruct (Bool.eqb z x) eqn:E; [apply eqb_prop in E; subst z|other z x E; apply set_async_invW_other; apply H]).
    + assert (Hlt : 0 < afree (ecf c x) (ec (gep s x)) (e_ws (eh (gep s x)))) by lia.
      apply afree_lt in Hlt. pose proof (wk_push _ _ _ _ _ (mkN x k false t l) (H x) Hlt) as W.
      unfold InvW in *. destruct x; exact W.
    + assert (Hlt : ~ 0 < afree (ecf c x) (ec (gep s x)) (e_ws (eh (gep s x)))) by lia.
      rewrite afree_lt in Hlt. pose proof (wk_wait _ _ _ _ _ i (mkN x k false t l) (H x) Hlt) as W.
      unfold InvW in *. destruct x; exact W.
  - cbn [fst]. intros z. destruct x, z; apply H.
Qed.

Lemma async_poll_invWB c x s i : InvWB c s -> InvWB c (fst (async_poll x s i)).
Proof.
  intros H. unfold async_poll. destruct (find_w i _) as [w|] eqn:Ef; [|exact H].
  destruct (wlive (ec (gep s x)) w) eqn:El; cbn [negb].
  - destruct (w_asg w) eqn:Eg; cbn [fst]; [|exact H]. intros z.
    destruct (Bool.eqb z x) eqn:E; [apply eqb_prop in E; subst z|other z x E; apply set_async_invW_other; apply H].
    assert (Ha : asg (e_per (cn s x)) (e_alive (cn s x)) w = true).
    { unfold asg. rewrite Eg. cbn. exact El. }
    pose proof (wk_poll_ok _ _ _ _ _ i w (H x) Ef Ha) as W. unfold InvW in *. destruct x; exact W.
  - cbn [fst]. intros z.
    destruct (Bool.eqb z x) eqn:E; [apply eqb_prop in E; subst z|other z x E; apply set_async_invW_other; apply H].
    pose proof (wk_remove_dead _ _ _ _ _ i w (H x) Ef El) as W. unfold InvW in *. destruct x; exact W.
Qed.

Lemma async_drop_invWB c x s i : InvWB c s -> InvWB c (fst (async_drop c x s i)).
Proof.
  intros H. unfold async_drop. destruct (find_w i _) as [w|] eqn:Ef; [|exact H]. cbn [fst]. intros z.
  destruct (Bool.eqb z x) eqn:E; [apply eqb_prop in E; subst z|other z x E; apply set_async_invW_other; apply H].
  destruct (H x) as [C S W].
  pose proof (rebalance_inv (ecf c x) (ec (gep s x)) (remove_w i (e_ws (eh (gep s x))))) as R.
  pose proof (filter_remove_le (asg (e_per (ec (gep s x))) (e_alive (ec (gep s x)))) i (e_ws (eh (gep s x)))) as Q.
  unfold cn, hn in *.
  assert (R' := R ltac:(lia) (srt_remove _ _ _ _ S)).
  unfold InvW. destruct x; cbn in *; unfold cn, hn; cbn; exact R'.
Qed.

Lemma open_ep_invWB c x p s : InvWB c s ->
  Forall (fun w => n_per (w_n w) < p) (e_ws (hn s x)) -> InvWB c (open_ep x p s).
Proof.
  intros H T z. destruct (Bool.eqb z x) eqn:E; [apply eqb_prop in E; subst z|other z x E; destruct x; apply H].
  unfold InvW.
  replace (e_aq (cn (open_ep x p s) x)) with (@nil notif) by (destruct x; reflexivity).
  replace (e_ws (hn (open_ep x p s) x)) with (e_ws (hn s x)) by (destruct x; reflexivity).
  replace (e_per (cn (open_ep x p s) x)) with p by (destruct x; reflexivity).
  apply nolive_inv; [|lia].
  eapply Forall_impl; [|exact T]. cbn. intros w Hw.
  unfold wl. destruct (n_per (w_n w) =? p) eqn:Q; [lia|reflexivity].
Qed.

Lemma open_stream_invWB c x s : Inv s -> InvWB c s -> InvWB c (fst (open_stream x s)).
Proof.
  intros HI H. unfold open_stream. fold (cn s x). fold (cn s (negb x)).
  destruct (e_alive (cn s x)) eqn:Ea; [exact H|].
  pose proof (i_t1w _ (inv_d _ HI x)) as T. cbn in T.
  pose proof (p_le s (inv_p _ HI) x) as Lx.
  destruct (e_per (cn s x) <? per s) eqn:Ep; cbn [fst].
  - apply open_ep_invWB; [exact H|].
    eapply Forall_impl; [|exact T]. cbn. intros w [_ Hw]. lia.
  - destruct (negb (e_alive (cn s (negb x))) && (e_per (cn s (negb x)) =? per s)) eqn:E; cbn [fst]; [|exact H].
    apply open_ep_invWB.
    + intros z. destruct z; apply H.
    + replace (e_ws (hn _ x)) with (e_ws (hn s x)) by (destruct x; reflexivity).
      eapply Forall_impl; [|exact T]. cbn. intros w [_ Hw]. lia.
Qed.

Lemma do_step_invWB c s t : Inv s -> InvWB c s -> InvWB c (fst (do_step c s t)).
Proof.
  intros HI H. destruct t; cbn [do_step].
  - unfold send_sync. destruct (e_peers _); [|exact H]. destruct (live s x n); [|exact H].
    destruct (_ <? _); cbn [fst]; [intros z; destruct x, z; apply H|].
    destruct (e_clog _); [exact H|]. destruct (_ <? _); cbn [fst]; intros z; destruct x, z; apply H.
  - pose proof (async_start_invWB c x s id tag ln H). destruct (async_start c x s id tag ln). assumption.
  - pose proof (async_poll_invWB c x s id H). destruct (async_poll x s id). assumption.
  - pose proof (async_drop_invWB c x s id H). destruct (async_drop c x s id). assumption.
  - cbn [fst]. apply conn_poll_invWB. exact H.
  - unfold h_poll, h_poll_gen. destruct (budget =? 0); [exact H|].
    destruct (e_evs (eh (gep s x))) as [|[k|k] es]; cbn [fst].
    + destruct (h_scan _ _ _ _) as [r q]. destruct r; cbn [fst]; unfold hand_over;
        match goal with |- context [if ?g then _ else _] => destruct g end; intros z; destruct x, z; apply H.
    + intros z; destruct x, z; apply H.
    + intros z; destruct x, z; apply H.
  - pose proof (open_stream_invWB c x s HI H). destruct (open_stream x s). assumption.
  - destruct (e_alive (ec (gep s x))) eqn:Ea; cbn [fst]; [|exact H].
    intros z. pose proof (H z) as Hz. unfold InvW in *.
    destruct x, z; cbn in *; unfold cn, hn in *; cbn in *; rewrite ?Ea in *; exact Hz.
  - destruct (e_cmds (eh (gep s x)) =? 0); cbn [fst]; [exact H|]. intros z; destruct x, z; apply H.
  - destruct (e_cmds (eh (gep s x)) =? 0); cbn [fst]; [exact H|]. intros z; destruct x, z; apply H.
  - cbn [fst]. intros z; destruct x, z; apply H.
  - destruct (per s =? 0); cbn [fst]; [exact H|]. intros z; destruct z; apply H.
  - unfold sink_sync. destruct (live s x k); [|exact H]. destruct (_ <? _); cbn [fst]; [|exact H].
    intros z; destruct x, z; apply H.
Qed.

Lemma run_invWB c : forall ts s, Inv s -> InvWB c s -> InvWB c (fst (run c s ts)).
Proof.
  induction ts as [|t ts IH]; intros s HI H; cbn [run]; [exact H|].
  pose proof (do_step_inv c s t HI) as HI1. pose proof (do_step_invWB c s t HI H) as H1.
  destruct (do_step c s t) as [s1 v]. cbn [fst] in *.
  specialize (IH s1 HI1 H1). destruct (run c s1 ts) as [s2 vs]. exact IH.
Qed.

Lemma final_invWB c hs ts : InvWB c (final c hs ts).
Proof. unfold final. apply run_invWB; [apply init_inv|apply init_invWB]. Qed.
