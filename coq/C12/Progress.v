(* C12 — stage-wise progress: every stage of the pipeline moves its head forward as soon as the next
   stage has room (nothing is stuck behind a free slot). *)
From Coq Require Import List NArith Bool Lia.
From Coq Require Import ZifyBool ZifyNat ZifyN.
From V.C12 Require Import Model Proofs Inv2 Async Sched.
Import ListNotations.
Open Scope N_scope.
Arguments N.add : simpl never.
Arguments N.sub : simpl never.
Arguments N.eqb : simpl never.
Arguments N.ltb : simpl never.
Arguments N.leb : simpl never.
Arguments N.of_nat : simpl never.
Arguments N.to_nat : simpl never.

(* ------------------------------------------------------------------ the outbound loop drains its queues *)
Definition qmeasure (L : lst) : nat := (opt_len (l_cur L) + length (l_sq L) + length (l_aq L))%nat.
Definition queued (L : lst) : list notif := opt_list (l_cur L) ++ l_sq L ++ l_aq L.

Lemma a_next_cases L :
  (a_next L = (None, L) /\ l_cur L = None /\ l_sq L = [] /\ l_aq L = []) \/
  (exists n L1, a_next L = (Some n, L1) /\ l_cur L1 = None /\ l_sk L1 = l_sk L /\ l_ca L1 = l_ca L /\
                S (qmeasure L1) = qmeasure L /\
                forall P : notif -> Prop, Forall P (queued L) -> P n /\ Forall P (queued L1)).
Proof.
  destruct L as [cur sq aq sk ca h bd]. unfold a_next, qmeasure, queued. cbn [l_cur l_sq l_aq l_sk l_ca l_h l_bad].
  destruct cur as [n|].
  - right. exists n, (set_cur None (mkLst (Some n) sq aq sk ca h bd)). cbn. repeat split; auto.
    + inversion H; assumption.
    + inversion H; assumption.
  - pose proof (choose_spec h sq aq) as Hc.
    destruct (choose h sq aq) as [[p h'] b]. destruct p.
    + destruct sq as [|n sq']; [congruence|]. right.
      eexists n, _. split; [reflexivity|]. cbn. repeat split; auto.
      * inversion H; assumption.
      * inversion H; assumption.
    + destruct aq as [|n aq']; [congruence|]. right.
      destruct sq as [|y sq'].
      * eexists n, _. split; [reflexivity|]. cbn. repeat split; auto.
        -- inversion H; assumption.
        -- inversion H; assumption.
      * eexists n, _. split; [reflexivity|]. cbn. repeat split; auto; try lia.
        -- change (y :: sq' ++ n :: aq') with ((y :: sq') ++ [n] ++ aq') in H.
           rewrite !Forall_app_iff in H. destruct H as (_ & H & _). inversion H; assumption.
        -- change (y :: sq' ++ n :: aq') with ((y :: sq') ++ [n] ++ aq') in H.
           change (y :: sq' ++ aq') with ((y :: sq') ++ aq').
           rewrite !Forall_app_iff in *. tauto.
    + destruct Hc as [E1 E2]. left. subst. repeat split; auto.
Qed.

(* with the carrier accepting writes and all sizes within the maximum, one run of the loop sends
   everything that was parked or queued *)
Lemma a_loop_drains mx : forall fuel L,
  (qmeasure L < fuel)%nat -> Forall (fun n => n_len n <= mx) (queued L) ->
  exists L', a_loop fuel mx true L = (false, L') /\ l_cur L' = None /\ l_sq L' = [] /\ l_aq L' = [].
Proof.
  induction fuel as [|fuel IH]; intros L Hm Hs; [lia|]. cbn [a_loop].
  destruct (a_next_cases L) as [(E & E1 & E2 & E3)|(n & L1 & E & Ec & Esk & Eca & Em & HP)].
  - rewrite E. exists L. repeat split; assumption.
  - rewrite E. destruct (HP _ Hs) as [Hn Hs1].
    assert (Hpr : exists sk' ca', poll_ready true (l_sk L1) (l_ca L1) = Some (sk', ca')).
    { unfold poll_ready. destruct (_ <? _); eauto. }
    destruct Hpr as (sk' & ca' & Hpr). rewrite Hpr.
    destruct (mx <? n_len n) eqn:Eo; [lia|].
    apply IH.
    + unfold qmeasure in *. cbn. rewrite Ec in Em. cbn in Em. lia.
    + unfold queued in *. cbn. rewrite Ec in Hs1. exact Hs1.
Qed.

Lemma outbound_progress c x b s :
  e_alive (cn s x) = true -> wgate (glo s x) = true -> qlen s x < b ->
  Forall (fun n => n_len n <= c_max (ecf c x)) (opt_list (e_cur (cn s x)) ++ e_sq (cn s x) ++ e_aq (cn s x)) ->
  let '(s1, refused) := out_phase c x b s in
  refused = false /\ e_cur (cn s1 x) = None /\ e_sq (cn s1 x) = [] /\ e_aq (cn s1 x) = [] /\ e_sk (cn s1 x) = [] /\
  (Forall (fun n => n_sync n = true) (e_sq (cn s x)) -> Forall (fun n => n_sync n = false) (e_aq (cn s x)) ->
   forall k m, proj k m (carrier (glo s1 x)) = proj k m (pipe s x)).
Proof.
  intros Ha Hg Hb Hs. unfold out_phase, cn, pipe, qlen in *.
  set (L0 := mkLst _ _ _ _ _ _ _).
  set (fuel := (opt_len (e_cur (ec (gep s x))) +
                N.to_nat (N.min b (len (e_sq (ec (gep s x))) + len (e_aq (ec (gep s x))) + 1)))%nat).
  destruct (a_loop_drains (c_max (ecf c x)) fuel L0) as (L' & E & E1 & E2 & E3).
  { unfold qmeasure, L0, fuel, len in *. cbn [l_cur l_sq l_aq]. lia. }
  { exact Hs. }
  assert (Q : Forall (fun n => n_sync n = true) (e_sq (ec (gep s x))) ->
              Forall (fun n => n_sync n = false) (e_aq (ec (gep s x))) ->
              forall k m, proj k m (l_ca L' ++ l_sk L') = proj k m (lflat L0)).
  { intros T1 T2 k m. assert (HT : T1L L0) by (split; assumption).
    pose proof (a_loop_core (sel k m) (sel_pure k m) fuel (c_max (ecf c x)) true L0 HT) as R.
    rewrite E in R. destruct R as [_ R]. unfold proj. rewrite <- R. unfold lflat. rewrite E1, E2, E3. cbn.
    now rewrite !app_nil_r. }
  rewrite Hg in *. rewrite E.
  split; [reflexivity|].
  destruct x; cbn; (repeat split; auto); intros T1 T2 k m; apply Q; assumption.
Qed.

(* ------------------------------------------------------------------ the receiving Connection reads *)
Lemma conn_loop_appends c x : forall fuel b s, e_alive (cn s x) = true ->
  exists more, e_nq (hn (conn_loop fuel c x b s) x) = e_nq (hn s x) ++ more.
Proof.
  intros fuel b s Ha.
  apply (conn_loop_gen (fun s' => exists more, e_nq (hn s' x) = e_nq (hn s x) ++ more) c x); auto.
  - intros s0 nfy [m E] _. exists m. rewrite <- E. destruct x; reflexivity.
  - intros s0 b0 [m E] Ha0 _. pose proof (out_phase_frame c x b0 s0 Ha0) as F. cbn zeta in F.
    destruct (out_phase c x b0 s0) as [s1 [|]]; cbn [fst] in F;
      destruct F as (_ & _ & _ & _ & _ & _ & _ & _ & _ & Fn & _); exists m.
    + rewrite <- E, <- Fn. destruct x; reflexivity.
    + now rewrite Fn.
  - intros s0 [m E] _ _. exists m. rewrite <- E. destruct x; reflexivity.
  - intros s0 [m E] _ _. exists m. rewrite <- E. destruct x; reflexivity.
  - intros s0 n rest [m E] _ _ _ _ _ _. exists (m ++ [n]). rewrite app_assoc, <- E. destruct x; reflexivity.
  - exists []. now rewrite app_nil_r.
Qed.

Lemma conn_loop_S f c x b s : conn_loop (S f) c x b s =
      if e_shut (ec (gep s x)) && (0 <? b) then close x false s else
      if killed s then close x true s else
      let '(s1, refused) := out_phase c x b s in
      if refused then close x true s1 else
      let b1 := b - (qlen s x - qlen s1 x) in
      let '(s2, go, b2) := reserve_phase c x b1 s1 in
      if negb go then s2 else
      let li := glo s2 (negb x) in
      if negb (rgate li) then s2 else
      match carrier li with
      | [] => if wclosed s2 (negb x) then close x true s2 else s2
      | n :: rest =>
          if c_max (ecf c x) <? n_len n then close x true s2
          else conn_loop f c x b2 (push_nq x n (slo s2 (negb x) (mkL (wgate li) (rgate li) rest)))
      end.
Proof. reflexivity. Qed.

(* with budget to spare (more than what is queued for sending), a poll of a Connection that can get a
   slot of the handle channel moves at least the first frame of the carrier into that channel *)
Lemma inbound_progress c y b s n rest :
  e_alive (cn s y) = true -> e_shut (cn s y) = false -> killed s = false -> qlen s y < b ->
  snd (out_phase c y b s) = false -> can_reserve c y s = true ->
  rgate (glo s (negb y)) = true -> carrier (glo s (negb y)) = n :: rest -> n_len n <= c_max (ecf c y) ->
  exists more, e_nq (hn (conn_poll c y b s) y) = e_nq (hn s y) ++ n :: more.
Proof.
  intros Ha Hsh Hk Hb Ho Hc Hg Ec Hn.
  assert (Emx : (c_max (ecf c y) <? n_len n) = false) by (clear - Hn; lia).
  unfold conn_poll. fold (cn s y). rewrite Ha.
  rewrite conn_loop_S. fold (cn s y). rewrite Hsh, Hk. cbn [andb].
  pose proof (out_phase_frame c y b s Ha) as F. cbn zeta in F.
  destruct (out_phase c y b s) as [s1 refused]. cbn [fst snd] in *. subst refused.
  destruct F as (Fa & Fk & Fp & _ & _ & Fg & _ & _ & _ & Fn & _ & _ & Fr & Fw & _).
  assert (Hc1 : can_reserve c y s1 = true).
  { unfold can_reserve in *. fold (cn s1 y) (hn s1 y). fold (cn s y) (hn s y) in Hc. now rewrite Fr, Fn. }
  cbn zeta. set (b1 := b - (qlen s y - qlen s1 y)).
  assert (Hb1 : 0 < b1) by (unfold b1; clear - Hb; lia).
  (* in both cases of poll_reserve the slot is held afterwards *)
  assert (R : exists s2 b2, reserve_phase c y b1 s1 = (s2, true, b2) /\ e_alive (cn s2 y) = true /\
                            glo s2 (negb y) = glo s1 (negb y) /\ e_nq (hn s2 y) = e_nq (hn s1 y)).
  { unfold reserve_phase. fold (cn s1 y). destruct (e_res (cn s1 y) && negb (e_rwait (cn s1 y))).
    - exists s1, b1. repeat split; auto.
    - rewrite Hc1. assert (E : (0 <? b1) = true) by (clear - Hb1; lia). rewrite E.
      exists (set_res y true false s1), (b1 - 1). split; [reflexivity|].
      unfold set_res, cn, hn in *. destruct y; cbn in *; repeat split; auto. }
  destruct R as (s2 & b2 & ER & A2 & G2' & N2). rewrite ER. cbn [negb].
  assert (G2 : glo s2 (negb y) = glo s (negb y)) by (now rewrite G2', Fg).
  rewrite G2, Hg, Ec. cbn [negb].
  rewrite Emx.
  set (s3 := push_nq y n _).
  assert (A3 : e_alive (cn s3 y) = true) by (unfold s3, push_nq, slo, cn in *; destruct y; cbn in *; exact A2).
  match goal with |- context [conn_loop ?f c y ?bb s3] => destruct (conn_loop_appends c y f bb s3 A3) as [more Em] end.
  exists more. rewrite Em.
  replace (e_nq (hn s3 y)) with (e_nq (hn s2 y) ++ [n]) by (destruct y; reflexivity).
  rewrite N2, Fn, <- app_assoc. reflexivity.
Qed.

(* ------------------------------------------------------------------ the handle reports the head of its channel *)
Lemma handle_progress c y s k n q b :
  e_evs (hn s y) = [] -> e_peers (hn s y) = Some k -> e_nq (hn s y) = n :: q -> n_per n = k -> b <> 0 ->
  let '(s', e) := h_poll c y b s in
  e = UNotif n /\ e_nq (hn s' y) = q /\ e_del (gl s' y) = e_del (gl s y) ++ [n].
Proof.
  intros Ee Ep Eq Hn Hb. unfold h_poll, h_poll_gen, hn, gl in *.
  destruct (b =? 0) eqn:E0; [lia|]. rewrite Ee, Ep, Eq.
  assert (Hm : exists j, N.to_nat (N.min b (len (n :: q))) = S j).
  { rewrite len_cons. exists (Nat.pred (N.to_nat (N.min b (len q + 1)))). lia. }
  destruct Hm as [j Hj]. rewrite Hj. cbn [h_scan].
  assert (Hp : passes true (Some k) n = true) by (cbn; lia). rewrite Hp.
  unfold hand_over. match goal with |- context [if ?g then _ else _] => destruct g end;
    destruct y; cbn; repeat split; reflexivity.
Qed.
