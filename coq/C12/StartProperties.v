(* C12 — pinned property theorems about the START of a notification stream (statements, `exact`, Print Assumptions).

   Start.v models one endpoint: the real NotificationProtocol state machine, its HandshakeService, the Connection
   tasks it spawns and the NotificationHandle, over substreams that are values carrying the frames the remote wrote
   (s_hist, all of them; s_wire, the unread ones), the frames the local side wrote (s_out) and ghost fields saying
   who consumed what (s_hs: the handshake service, s_cn: the Connection) and how many frames the handshake service
   wrote (s_ohs). `final fx auto l` is the state after ANY list l of operations (calls of the environment and the
   user, single polls of next_event with any visiting order of the handshake service's map, polls of the Connection
   tasks and of the handle); fx = true is the repaired HandshakeService (a queued result goes away with its
   substream), fx = false the original one; auto = the auto-accept option. `tasks s` are all Connections ever
   started, `t_in`/`t_out` their substreams, `t_fwd` what a Connection handed to the handle's channel. *)
From Coq Require Import List NArith Bool.
From V.C12 Require Import Start StartProofs.
From V.gen Require C12Tables.
From V.C04 Require Model Proofs.
From V.Link Require C04_C12.
Import ListNotations.
Open Scope N_scope.

(* The invariant itself (StartProofs.Inv: who consumed which frame of every substream, wherever the substream is:
   in the transport's event channel, in the handshake service's map, in the peer state, in a Connection), after any
   history of the repaired code. *)
Theorem C12_start_invariant :
  forall (auto : bool) (l : list op), Inv (final true auto l).
Proof. exact final_inv. Qed.
Print Assumptions C12_start_invariant.

(* What a Connection's inbound substream holds when the Connection starts, and ever after: the handshake service
   consumed exactly ONE frame of this very substream, the first one the remote wrote (its handshake); every later
   frame was handed to the handle by the Connection, in order, or is still unread; on this substream the local
   side wrote its handshake and nothing else. (Model.v starts a stream with empty carriers: this is why.) *)
Theorem C12_start_inbound_clean :
  forall (auto : bool) (l : list op) (t : task), In t (tasks (final true auto l)) ->
    exists h, s_hs (t_in t) = [h] /\ s_cn (t_in t) = t_fwd t /\
              s_hist (t_in t) = h :: t_fwd t ++ s_wire (t_in t) /\ s_out (t_in t) = [LOCAL_HS].
Proof. exact inbound_clean. Qed.
Print Assumptions C12_start_inbound_clean.

(* The sending side: the first frame on a Connection's outbound substream is the local handshake, written once by
   the handshake service; what the Connection writes follows it; exactly one frame (the remote's answer) was read. *)
Theorem C12_start_outbound_clean :
  forall (auto : bool) (l : list op) (t : task), In t (tasks (final true auto l)) ->
    exists h q, s_out (t_out t) = LOCAL_HS :: q /\ s_ohs (t_out t) = 1 /\ s_hs (t_out t) = [h] /\
                s_hist (t_out t) = h :: s_wire (t_out t).
Proof. exact outbound_clean. Qed.
Print Assumptions C12_start_outbound_clean.

(* A remote that writes its handshake H and then the notifications ns: H is what the handshake service consumed,
   and what the Connection hands to the handle is a prefix of ns — the first delivered notification is the first
   one sent, and nothing that was not sent is delivered. *)
Theorem C12_start_first_forwarded_is_first_sent :
  forall (auto : bool) (l : list op) (t : task) (H : frame) (ns : list frame),
    In t (tasks (final true auto l)) -> s_hist (t_in t) = H :: ns ->
    s_hs (t_in t) = [H] /\ prefix (t_fwd t) ns.
Proof. exact first_forwarded_is_first_sent. Qed.
Print Assumptions C12_start_first_forwarded_is_first_sent.

(* Both ends: endpoint A (history la) and endpoint B (history lb) run this code; B's inbound substream receives
   what A wrote on its outbound one (a prefix of it, in order). Then B's handshake service consumed A's handshake
   and B's Connection hands to B's user a prefix of what A's Connection wrote. *)
Theorem C12_start_end_to_end :
  forall (autoa autob : bool) (la lb : list op) (ta tb : task),
    In ta (tasks (final true autoa la)) -> In tb (tasks (final true autob lb)) ->
    prefix (s_hist (t_in tb)) (s_out (t_out ta)) ->
    exists q, s_out (t_out ta) = LOCAL_HS :: q /\ s_hs (t_in tb) = [LOCAL_HS] /\ prefix (t_fwd tb) q.
Proof. exact end_to_end. Qed.
Print Assumptions C12_start_end_to_end.

(* The handshake the user is asked to validate was read from the substream that will carry the stream. *)
Theorem C12_start_validated_handshake :
  forall (auto : bool) (l : list op) (p : peer) (d : bool) (o : outb) (y : sub) (h : frame),
    ps (final true auto l) p = Some (Validating d o (IValidating y h)) ->
    s_hs y = [h] /\ s_hist y = h :: s_wire y.
Proof. exact validated_handshake. Qed.
Print Assumptions C12_start_validated_handshake.

(* No entry of `ready` outlives its substream. *)
Theorem C12_start_ready_belongs :
  forall (auto : bool) (l : list op) (p : peer) (o : bool) (h : frame),
    In (p, o, h) (ready (final true auto l)) ->
    exists e, hget (final true auto l) p o = Some e /\ (s_hs (e_sub e) = [h] \/ (o = false /\ h = EMPTY)).
Proof. exact ready_belongs. Qed.
Print Assumptions C12_start_ready_belongs.

(* The original code (finding F-C12b, repaired): history w_stale_in = corpus/C12/start.case, witness 1. The user is
   asked to validate handshake 100, read from the peer's FIRST inbound substream; the stream then opens over the
   second one (the remote wrote 101, 7 on it), from which the handshake service read nothing, and the remote's
   handshake 101 is delivered to the user as the first notification. *)
Theorem C12_start_stale_ready_refuted :
  user_events false w_stale_in =
    [UFail 0 E_REJECTED; UValidate 0 100; UOpened 0 false 200; UNotif 0 101; UNotif 0 7] /\
  task_view false w_stale_in = [([101; 7], [], [101; 7])].
Proof. exact stale_in_original. Qed.
Print Assumptions C12_start_stale_ready_refuted.

(* ... the sending side (witness 2): the peer's second outbound substream is reported negotiated with the answer
   200 read from the first one; the local handshake is never written on it: its first frame is the notification 9. *)
Theorem C12_start_stale_ready_sender_refuted :
  map (fun t => (s_out (t_out t), s_hs (t_out t))) (tasks (final false false w_stale_out)) = [([9], [])] /\
  In (UOpened 0 true 200) (user_events false w_stale_out).
Proof. exact stale_out_original. Qed.
Print Assumptions C12_start_stale_ready_sender_refuted.

(* The repaired code on the same two histories. *)
Theorem C12_start_witnesses_repaired :
  (user_events true w_stale_in = [UFail 0 E_REJECTED; UValidate 0 101; UOpened 0 false 200; UNotif 0 7] /\
   task_view true w_stale_in = [([101; 7], [101], [7])]) /\
  (map (fun t => (s_out (t_out t), s_hs (t_out t))) (tasks (final true false w_stale_out)) = [([LOCAL_HS; 9], [201])] /\
   In (UOpened 0 true 201) (user_events true w_stale_out)).
Proof. exact (conj stale_in_repaired stale_out_repaired). Qed.
Print Assumptions C12_start_witnesses_repaired.

(* ---------------------------------------------------------------- the end of a Connection *)

(* close_connection spread over several polls (closing a substream can stay pending): while a Connection task
   waits for its substreams to close it neither reads nor writes nor hands anything to the handle. What the
   sink still accepts meanwhile is never sent: a closed stream delivers a prefix. *)
Theorem C12_start_closing_is_silent :
  forall (s : st) (k : N) (t : task),
    find_task k (tasks s) = Some t -> t_alive t = true -> t_running t = false ->
    exists t', find_task k (tasks (task_poll s k)) = Some t' /\ same_io t t'.
Proof. exact closing_is_silent. Qed.
Print Assumptions C12_start_closing_is_silent.

(* The user has dropped the NotificationHandle (the channel behind notif_tx is closed) and the Connection holds no
   slot of that channel: its next poll ends the stream without reading the inbound substream. *)
Theorem C12_start_handle_gone_closes :
  forall (s : st) (k : N) (t : task),
    find_task k (tasks s) = Some t -> t_ph t = PRun -> hdrop s = true -> t_res t = false ->
    exists t', find_task k (tasks (task_poll s k)) = Some t' /\ t_running t' = false /\
               t_in t' = t_in t /\ t_fwd t' = t_fwd t.
Proof. exact handle_gone_closes. Qed.
Print Assumptions C12_start_handle_gone_closes.

(* ---------------------------------------------------------------- the tie to the source *)

(* The orders and mappings the models hard-wire are the ones of the Rust source (extracted on every check into
   coq/gen/C12Tables.v): the biased select! of next_event and the order of its branches, the order of the stages of
   Connection::poll_next and of close_connection, event channel before notification channel in the handle, the
   mapping of try_send's errors, try_send for the synchronous and send for the asynchronous mode, the calls of the
   HandshakeService that forget a queued result, sane default capacities and negotiation timeout. *)
Theorem C12_tables_in_sync :
  C12Tables.select_biased = true /\ C12Tables.select_order = [1; 2; 3; 4; 5; 6] /\
  C12Tables.conn_poll_order = [1; 2; 3; 4; 5] /\ C12Tables.close_order = [1; 2; 3; 4; 5] /\
  C12Tables.handle_order = [1; 2] /\
  C12Tables.notification_errors = 6 /\ C12Tables.sync_closed_maps_to = 1 /\ C12Tables.sync_full_maps_to = 2 /\
  C12Tables.sync_uses_try_send = true /\ C12Tables.async_uses_send = true /\
  C12Tables.forget_sites = [true; true; true; true; true] /\
  1 <= C12Tables.C12_SYNC_CHANNEL_SIZE /\ 1 <= C12Tables.C12_ASYNC_CHANNEL_SIZE /\
  1 <= C12Tables.C12_NEGOTIATION_TIMEOUT_SECS.
Proof. exact tables_in_sync. Qed.
Print Assumptions C12_tables_in_sync.

(* ---- the carrier hypothesis of C12_start_end_to_end, discharged by C04 (coq/Link/C04_C12.v) ----
   Interpret the frame labels as byte strings by ANY injective `enc`. What A wrote on its outbound
   substream goes on the wire as C04's frames of the substream's codec c (`wire_of`); ANY prefix of those
   bytes (cut at any byte offset) is read at B by C04's incremental reader under ANY script of
   fragmentation, stalls, end of stream and read errors, polled any number of times; what B's inbound
   substream sees is the frames that reader returns. Then the conclusion of C12_start_end_to_end holds —
   the hypothesis `prefix (s_hist (t_in tb)) (s_out (t_out ta))` is no longer assumed but derived from
   C04_reader_roundtrip. Left as a hypothesis: Fits (every frame A wrote is within the codec's maximum,
   which start_send's size check guarantees: C12/Model.v). *)
Theorem C12_start_carrier_prefix_linked :
  forall (enc : frame -> list N), (forall a b, enc a = enc b -> a = b) ->
  forall (c : V.C04.Model.codec) (written received : list frame) (cut : nat)
         (script : list V.C04.Model.rdev) (polls : nat) outs st' wire' script',
    V.C04.Proofs.Fits c (map enc written) ->
    V.C04.Model.run_reader polls c (V.C04.Model.init_r c)
      (firstn cut (V.C04.Model.wire_of c (map enc written))) script = (outs, st', wire', script') ->
    map enc received = V.C04.Model.frames_of outs ->
    prefix received written.
Proof. exact V.Link.C04_C12.carrier_prefix. Qed.
Print Assumptions C12_start_carrier_prefix_linked.

Theorem C12_start_end_to_end_linked :
  forall (enc : frame -> list N), (forall a b, enc a = enc b -> a = b) ->
  forall (c : V.C04.Model.codec) (autoa autob : bool) (la lb : list op) (ta tb : task)
         (cut : nat) (script : list V.C04.Model.rdev) (polls : nat) outs st' wire' script',
    In ta (tasks (final true autoa la)) -> In tb (tasks (final true autob lb)) ->
    V.C04.Proofs.Fits c (map enc (s_out (t_out ta))) ->
    V.C04.Model.run_reader polls c (V.C04.Model.init_r c)
      (firstn cut (V.C04.Model.wire_of c (map enc (s_out (t_out ta))))) script = (outs, st', wire', script') ->
    map enc (s_hist (t_in tb)) = V.C04.Model.frames_of outs ->
    exists q, s_out (t_out ta) = LOCAL_HS :: q /\ s_hs (t_in tb) = [LOCAL_HS] /\ prefix (t_fwd tb) q.
Proof. exact V.Link.C04_C12.end_to_end_over_C04. Qed.
Print Assumptions C12_start_end_to_end_linked.

(* the hypotheses on `enc` are satisfiable (EMPTY is the empty byte string) *)
Theorem C12_start_enc_satisfiable :
  (forall a b, V.Link.C04_C12.enc_example a = V.Link.C04_C12.enc_example b -> a = b) /\
  V.Link.C04_C12.enc_example EMPTY = [].
Proof. split; [exact V.Link.C04_C12.enc_example_inj | reflexivity]. Qed.
Print Assumptions C12_start_enc_satisfiable.
