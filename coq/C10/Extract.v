From Coq Require Import ExtrOcamlBasic.
From V.C10 Require Import Glue.
Extraction Language OCaml.
Extraction "c10_model.ml" run_case prop_ok known_class.
