(* C10 — lemmas about the address-book model. *)
From Coq Require Import List Arith NArith ZArith Bool Lia Sorted Permutation.
From Coq Require Import ZifyBool ZifyNat ZifyN.
From V.gen Require Consts.
From V.C10 Require Import Model.
Import ListNotations.

Arguments N.eqb : simpl never.
Arguments Z.eqb : simpl never.
Arguments Z.ltb : simpl never.
Arguments Z.leb : simpl never.
Arguments Z.min : simpl never.
Arguments Z.max : simpl never.
Arguments Nat.leb : simpl never.
Arguments Nat.ltb : simpl never.
Arguments Nat.min : simpl never.

(* ---------- decidable equality on addresses ---------- *)

Lemma ipclass_eqb_spec a b : ipclass_eqb a b = true <-> a = b.
Proof. destruct a, b; cbn; split; intro H; try reflexivity; discriminate H. Qed.

Lemma comp_eqb_spec a b : comp_eqb a b = true <-> a = b.
Proof.
  destruct a, b; cbn [comp_eqb]; split; intro H; try discriminate H; try reflexivity;
    try (apply andb_true_iff in H; destruct H as [H1 H2]; apply ipclass_eqb_spec in H1;
         apply N.eqb_eq in H2; subst; reflexivity);
    try (apply N.eqb_eq in H; subst; reflexivity);
    try (injection H as -> ->; apply andb_true_iff; split;
         [apply ipclass_eqb_spec; reflexivity | apply N.eqb_refl]);
    try (injection H as ->; apply N.eqb_refl).
Qed.

Lemma maddr_eqb_spec a b : maddr_eqb a b = true <-> a = b.
Proof.
  revert b; induction a as [|x a IH]; intros [|y b]; cbn [maddr_eqb]; split; intro H;
    try discriminate H; try reflexivity.
  - apply andb_true_iff in H. destruct H as [H1 H2].
    apply comp_eqb_spec in H1. apply IH in H2. subst. reflexivity.
  - injection H as -> ->. apply andb_true_iff. split; [apply comp_eqb_spec | apply IH]; reflexivity.
Qed.

Lemma maddr_eqb_refl a : maddr_eqb a a = true.
Proof. apply maddr_eqb_spec. reflexivity. Qed.

Lemma maddr_eqb_neq a b : a <> b -> maddr_eqb a b = false.
Proof.
  intro H. destruct (maddr_eqb a b) eqn:E; [|reflexivity].
  apply maddr_eqb_spec in E. contradiction.
Qed.

Lemma maddr_eqb_false a b : maddr_eqb a b = false -> a <> b.
Proof. intros E ->. rewrite maddr_eqb_refl in E. discriminate. Qed.

Lemma existsb_maddr a l : existsb (maddr_eqb a) l = true <-> In a l.
Proof.
  rewrite existsb_exists. split.
  - intros [x [Hin E]]. apply maddr_eqb_spec in E. subst. exact Hin.
  - intro H. exists a. split; [exact H | apply maddr_eqb_refl].
Qed.

(* ---------- supported_transport => the routed transport parses the address ---------- *)

Definition dialable (c : cfg) (a : maddr) (q : N) : Prop :=
  enabled c (route c a) = true /\
  exists ho p, parse (route c a) a = Some (ho, p, Some q) /\ host_unspecified ho = false.

Lemma first_ok_not h : first_ok h = true -> is_quic h = false /\ is_ws h = false.
Proof. destruct h; cbn; intro H; try discriminate H; split; reflexivity. Qed.

Lemma first_ok_host h :
  first_ok h = true -> exists ho, host_of h = Some ho /\ host_unspecified ho = false.
Proof.
  destruct h; cbn [first_ok host_of]; intro H; try discriminate H;
    eexists; (split; [reflexivity|]); cbn; try reflexivity;
    destruct c; try reflexivity; discriminate H.
Qed.

Lemma supported_dialable c a :
  supported c a = true -> exists q, last a (Other 0) = P2p q /\ dialable c a q.
Proof.
  unfold dialable.
  destruct a as [|h rest]; cbn [supported]; [discriminate|].
  destruct (first_ok h) eqn:Hf; [|discriminate].
  destruct (first_ok_not _ Hf) as [Hq Hw].
  destruct (first_ok_host _ Hf) as [ho [Hho Hun]].
  destruct rest as [|x1 r1]; [discriminate|].
  destruct x1; try discriminate.
  - (* Tcp *)
    destruct r1 as [|x2 r2]; [discriminate|].
    destruct x2; try discriminate.
    + (* Ws *)
      destruct r2 as [|x3 r3]; [discriminate|].
      destruct x3; try discriminate. destruct r3; [|discriminate].
      intro He. exists p. split; [reflexivity|].
      unfold route. cbn [existsb is_quic is_ws]. rewrite Hq, Hw. cbn [orb].
      rewrite andb_false_r.
      pose proof He as He'. cbn [enabled] in He'. apply andb_true_iff in He'.
      destruct He' as [He1 He2]. rewrite He1. cbn [andb]. split; [exact He|].
      exists ho, port. cbn [parse sock_parse port_of]. rewrite Hho. split; [reflexivity | exact Hun].
    + (* Wss *)
      destruct r2 as [|x3 r3]; [discriminate|].
      destruct x3; try discriminate. destruct r3; [|discriminate].
      intro He. exists p. split; [reflexivity|].
      unfold route. cbn [existsb is_quic is_ws]. rewrite Hq, Hw. cbn [orb].
      rewrite andb_false_r.
      pose proof He as He'. cbn [enabled] in He'. apply andb_true_iff in He'.
      destruct He' as [He1 He2]. rewrite He1. cbn [andb]. split; [exact He|].
      exists ho, port. cbn [parse sock_parse port_of]. rewrite Hho. split; [reflexivity | exact Hun].
    + (* P2p *)
      destruct r2; [|discriminate].
      intro He. exists p. split; [reflexivity|].
      unfold route. cbn [existsb is_quic is_ws]. rewrite Hq, Hw. cbn [orb].
      rewrite !andb_false_r. split; [exact He|].
      exists ho, port. cbn [parse sock_parse port_of]. rewrite Hho. split; [reflexivity | exact Hun].
  - (* Udp *)
    destruct r1 as [|x2 r2]; [discriminate|].
    destruct x2; try discriminate.
    destruct r2 as [|x3 r3]; [discriminate|].
    destruct x3; try discriminate. destruct r3; [|discriminate].
    intro He. exists p. split; [reflexivity|].
    unfold route. cbn [existsb is_quic is_ws]. rewrite Hq. cbn [orb].
    pose proof He as He'. cbn [enabled] in He'. apply andb_true_iff in He'.
    destruct He' as [He1 He2]. rewrite He1. cbn [andb]. split; [exact He|].
    exists ho, port. cbn [parse sock_parse port_of]. rewrite Hho. split; [reflexivity | exact Hun].
Qed.

(* ---------- add_known_address: what is accepted ---------- *)

Definition acceptable (c : cfg) (p : N) (a : maddr) : Prop :=
  supported c a = true /\ is_local c a = false /\ last a (Other 0) = P2p p.

Lemma normalise_acceptable c peer a a' :
  normalise c peer a = Some a' -> a' = a /\ acceptable c peer a.
Proof.
  unfold normalise, acceptable.
  destruct (supported c a) eqn:Hs; cbn [negb]; [|discriminate].
  destruct (is_local c a) eqn:Hl; [discriminate|].
  destruct (supported_dialable _ _ Hs) as [q [Hlast _]].
  rewrite Hlast. destruct (N.eqb q peer) eqn:E; [|discriminate].
  intros [= <-]. apply N.eqb_eq in E. subst q. repeat split; assumption.
Qed.

Lemma filter_map_in {A B} (f : A -> option B) l y :
  In y (filter_map f l) -> exists x, In x l /\ f x = Some y.
Proof.
  induction l as [|x t IH]; cbn [filter_map]; [intros []|].
  destruct (f x) eqn:E.
  - intros [<-|H]; [exists x; split; [now left | exact E]|].
    destruct (IH H) as [x' [Hin Hf]]. exists x'. split; [now right | exact Hf].
  - intro H. destruct (IH H) as [x' [Hin Hf]]. exists x'. split; [now right | exact Hf].
Qed.

Lemma dedup_in l a : In a (dedup l) <-> In a l.
Proof.
  induction l as [|x t IH]; cbn [dedup]; [tauto|].
  destruct (existsb (maddr_eqb x) t) eqn:E.
  - rewrite IH. cbn [In]. apply existsb_maddr in E. split; [tauto|].
    intros [<-|H]; assumption.
  - cbn [In]. rewrite IH. tauto.
Qed.

Lemma dedup_nodup l : NoDup (dedup l).
Proof.
  induction l as [|x t IH]; cbn [dedup]; [constructor|].
  destruct (existsb (maddr_eqb x) t) eqn:E; [exact IH|].
  constructor; [|exact IH]. rewrite dedup_in. intro H.
  apply existsb_maddr in H. rewrite H in E. discriminate.
Qed.

Lemma accepted_acceptable c peer l a :
  In a (accepted c peer l) -> In a l /\ acceptable c peer a.
Proof.
  unfold accepted. rewrite dedup_in. intro H.
  destruct (filter_map_in _ _ _ H) as [x [Hin Hn]].
  destruct (normalise_acceptable _ _ _ _ Hn) as [-> Ha]. split; assumption.
Qed.

(* ---------- the store ---------- *)

Definition keys (s : store) : list maddr := map fst s.

Lemma find_none_notin a s : find a s = None <-> ~ In a (keys s).
Proof.
  induction s as [|[b z] t IH]; cbn [find keys map In]; [tauto|].
  destruct (maddr_eqb b a) eqn:E.
  - apply maddr_eqb_spec in E. subst. split; [discriminate | intro H; exfalso; apply H; now left].
  - apply maddr_eqb_false in E. fold (keys t). rewrite IH. tauto.
Qed.

Lemma find_some_in a s z : find a s = Some z -> In (a, z) s.
Proof.
  induction s as [|[b y] t IH]; cbn [find]; [discriminate|].
  destruct (maddr_eqb b a) eqn:E.
  - apply maddr_eqb_spec in E. subst. intros [= ->]. now left.
  - intro H. right. exact (IH H).
Qed.

Lemma in_find_nodup a z s : NoDup (keys s) -> In (a, z) s -> find a s = Some z.
Proof.
  induction s as [|[b y] t IH]; cbn [find keys map]; [intros _ []|].
  intros Hnd [H|H].
  - injection H as -> ->. rewrite maddr_eqb_refl. reflexivity.
  - inversion Hnd as [|? ? Hn Hd]; subst.
    destruct (maddr_eqb b a) eqn:E.
    + apply maddr_eqb_spec in E. subst. exfalso. apply Hn.
      change a with (fst (a, z)). apply in_map. exact H.
    + exact (IH Hd H).
Qed.

Lemma set_score_keys a z s : keys (set_score a z s) = keys s.
Proof.
  induction s as [|[b y] t IH]; cbn [set_score keys map]; [reflexivity|].
  destruct (maddr_eqb b a); cbn [keys map]; [reflexivity|].
  f_equal. exact IH.
Qed.

Lemma set_score_length a z s : length (set_score a z s) = length s.
Proof. rewrite <- (map_length fst), <- (map_length fst s). apply (f_equal (@length _)), set_score_keys. Qed.

Lemma find_set_score a z s b :
  find b (set_score a z s) =
    if maddr_eqb a b then match find a s with Some _ => Some z | None => None end else find b s.
Proof.
  induction s as [|[x y] t IH]; cbn [set_score find].
  - destruct (maddr_eqb a b); reflexivity.
  - destruct (maddr_eqb x a) eqn:E; cbn [find].
    + apply maddr_eqb_spec in E. subst x.
      destruct (maddr_eqb a b); reflexivity.
    + destruct (maddr_eqb x b) eqn:E2.
      * destruct (maddr_eqb a b) eqn:E3; [|reflexivity].
        apply maddr_eqb_spec in E2. apply maddr_eqb_spec in E3. subst.
        rewrite maddr_eqb_refl in E. discriminate.
      * exact IH.
Qed.

Lemma remove_keys_incl a s x : In x (keys (remove a s)) -> In x (keys s).
Proof.
  induction s as [|[b y] t IH]; cbn [remove keys map]; [intros []|].
  destruct (maddr_eqb b a); cbn [keys map In].
  - intro H. right. exact H.
  - intros [H|H]; [now left | right; exact (IH H)].
Qed.

Lemma remove_in_incl a s x : In x (remove a s) -> In x s.
Proof.
  induction s as [|[b y] t IH]; cbn [remove]; [intros []|].
  destruct (maddr_eqb b a); cbn [In].
  - intro H. right. exact H.
  - intros [H|H]; [now left | right; exact (IH H)].
Qed.

Lemma remove_nodup a s : NoDup (keys s) -> NoDup (keys (remove a s)).
Proof.
  induction s as [|[b y] t IH]; cbn [remove keys map]; [auto|].
  intro H. inversion H as [|? ? Hn Hd]; subst.
  destruct (maddr_eqb b a); [exact Hd|].
  cbn [keys map]. constructor; [|exact (IH Hd)].
  intro Hin. apply Hn. exact (remove_keys_incl _ _ _ Hin).
Qed.

Lemma remove_length a s z : find a s = Some z -> S (length (remove a s)) = length s.
Proof.
  induction s as [|[b y] t IH]; cbn [find remove length]; [discriminate|].
  destruct (maddr_eqb b a); [reflexivity|].
  intro H. cbn [length]. f_equal. exact (IH H).
Qed.

Lemma find_remove a s b :
  NoDup (keys s) -> find b (remove a s) = if maddr_eqb a b then None else find b s.
Proof.
  induction s as [|[x y] t IH]; cbn [remove find keys map]; intro Hnd.
  - destruct (maddr_eqb a b); reflexivity.
  - inversion Hnd as [|? ? Hn Hd]; subst.
    destruct (maddr_eqb x a) eqn:E.
    + apply maddr_eqb_spec in E. subst x.
      destruct (maddr_eqb a b) eqn:E2; [|reflexivity].
      apply maddr_eqb_spec in E2. subst b. apply find_none_notin. exact Hn.
    + cbn [find]. destruct (maddr_eqb x b) eqn:E2.
      * destruct (maddr_eqb a b) eqn:E3; [|reflexivity].
        apply maddr_eqb_spec in E2. apply maddr_eqb_spec in E3. subst.
        rewrite maddr_eqb_refl in E. discriminate.
      * exact (IH Hd).
Qed.

Lemma find_app a s1 s2 :
  find a (s1 ++ s2) = match find a s1 with Some z => Some z | None => find a s2 end.
Proof.
  induction s1 as [|[b y] t IH]; cbn [app find]; [reflexivity|].
  destruct (maddr_eqb b a); [reflexivity | exact IH].
Qed.

Lemma keys_app s1 s2 : keys (s1 ++ s2) = keys s1 ++ keys s2.
Proof. apply map_app. Qed.

Lemma nodup_snoc (l : list maddr) a : NoDup l -> ~ In a l -> NoDup (l ++ [a]).
Proof.
  induction l as [|x t IH]; cbn [app]; intros Hnd Hn.
  - constructor; [intros [] | constructor].
  - inversion Hnd as [|? ? Hx Hd]; subst. constructor.
    + rewrite in_app_iff. cbn [In]. intros [H|[H|[]]]; [exact (Hx H)|].
      subst. apply Hn. now left.
    + apply IH; [exact Hd|]. intro H. apply Hn. now right.
Qed.

Open Scope Z_scope.

Lemma min_score_spec s m :
  min_score s = Some m ->
  (forall b z, In (b, z) s -> m <= z) /\ exists b, In (b, m) s.
Proof.
  revert m. induction s as [|[b y] t IH]; cbn [min_score]; intro m; [discriminate|].
  destruct (min_score t) as [m'|] eqn:E.
  - intros [= <-]. destruct (IH m' eq_refl) as [Hall [b' Hb']]. split.
    + intros b0 z [H|H]; [injection H as _ <-; lia|]. specialize (Hall _ _ H). lia.
    + destruct (Z.min_spec y m') as [[_ ->]|[_ ->]];
        [exists b; now left | exists b'; now right].
  - intros [= <-]. destruct t as [|[b' y'] t']; [|cbn [min_score] in E; destruct (min_score t'); discriminate].
    split; [|exists b; now left].
    intros b0 z [H|[]]. injection H as _ <-. lia.
Qed.

Lemma min_score_none s : min_score s = None -> s = [].
Proof.
  destruct s as [|[b y] t]; [reflexivity|]. cbn [min_score].
  destruct (min_score t); discriminate.
Qed.

(* The complete description of AddressStore::insert on a duplicate-free store. *)
Definition new_score (k : scorecfg) (a : maddr) (sc : Z) : Z :=
  if is_global a then sat_add sc (bonus k) else sc.

Section InsertInv.
  Variable P : maddr -> Prop.

  Record SInv (k : scorecfg) (s : store) : Prop := {
    si_bound : (length s <= cap k)%nat;
    si_nodup : NoDup (keys s);
    si_all : Forall (fun x => P (fst x)) s
  }.

  Lemma forall_remove a s : Forall (fun x => P (fst x)) s -> Forall (fun x => P (fst x)) (remove a s).
  Proof.
    intro H. apply Forall_forall. intros x Hx. rewrite Forall_forall in H.
    apply H. exact (remove_in_incl _ _ _ Hx).
  Qed.

  Lemma forall_set_score a z s :
    Forall (fun x => P (fst x)) s -> Forall (fun x => P (fst x)) (set_score a z s).
  Proof.
    induction 1 as [|[b y] t Hh Ht IH]; cbn [set_score]; [constructor|].
    destruct (maddr_eqb b a); constructor; assumption.
  Qed.

  Lemma insert_inv k s a sc v :
    SInv k s -> P a -> SInv k (fst (insert k s a sc v)).
  Proof.
    intros [Hb Hn Ha] Pa. unfold insert.
    destruct (find a s) as [z0|] eqn:Hf.
    - destruct (sc =? 0); cbn [fst]; [split; assumption|].
      split; [rewrite set_score_length; exact Hb | rewrite set_score_keys; exact Hn
             | apply forall_set_score; exact Ha].
    - destruct (cap k <=? length s)%nat eqn:Hc.
      + destruct (min_score s) as [m|]; [|split; assumption].
        destruct (new_score k a sc <? m) eqn:Hlt; unfold new_score in Hlt; rewrite Hlt;
          [split; assumption|].
        destruct v as [v|]; [|split; assumption].
        destruct (find v s) as [vs|] eqn:Hv; [|split; assumption].
        destruct (vs =? m); [|split; assumption].
        cbn [fst]. split.
        * rewrite app_length. cbn [length]. pose proof (remove_length _ _ _ Hv). lia.
        * rewrite keys_app. cbn [keys map]. apply nodup_snoc; [apply remove_nodup; exact Hn|].
          intro Hin. apply remove_keys_incl in Hin. apply find_none_notin in Hf. exact (Hf Hin).
        * apply Forall_app. split; [apply forall_remove; exact Ha|].
          constructor; [exact Pa | constructor].
      + cbn [fst]. split.
        * rewrite app_length. cbn [length]. lia.
        * rewrite keys_app. cbn [keys map]. apply nodup_snoc; [exact Hn|].
          apply find_none_notin. exact Hf.
        * apply Forall_app. split; [exact Ha|]. constructor; [exact Pa | constructor].
  Qed.
End InsertInv.

(* ---------- what insert does, case by case ---------- *)

(* re-adding a known address with score 0 changes nothing *)
Lemma insert_rediscovery k s a v z0 :
  find a s = Some z0 -> insert k s a 0 v = (s, Kept).
Proof. intro H. unfold insert. rewrite H. reflexivity. Qed.

(* a connection event on a known address sets exactly that score *)
Lemma insert_rescore k s a sc v z0 :
  find a s = Some z0 -> sc <> 0 ->
  let s' := fst (insert k s a sc v) in
  snd (insert k s a sc v) = Updated /\
  find a s' = Some sc /\ keys s' = keys s /\
  forall b, b <> a -> find b s' = find b s.
Proof.
  intros H Hsc. unfold insert. rewrite H.
  destruct (sc =? 0) eqn:E; [lia|]. cbn [fst snd].
  split; [reflexivity|]. split; [|split].
  - rewrite find_set_score, maddr_eqb_refl, H. reflexivity.
  - apply set_score_keys.
  - intros b Hb. rewrite find_set_score. rewrite maddr_eqb_neq; [reflexivity | congruence].
Qed.

(* a new address while there is room: appended with the (bonus-adjusted) score *)
Lemma insert_room k s a sc v :
  find a s = None -> (length s < cap k)%nat ->
  insert k s a sc v = (s ++ [(a, new_score k a sc)], Inserted).
Proof.
  intros H Hl. unfold insert, new_score. rewrite H.
  destruct (cap k <=? length s)%nat eqn:E; [lia | reflexivity].
Qed.

(* eviction: only at the bound, the victim has the minimal score, which is not above the
   newcomer's; everything else is untouched *)
Lemma insert_evicts_min k s a sc v w :
  NoDup (keys s) ->
  snd (insert k s a sc v) = Evicted w ->
  let s' := fst (insert k s a sc v) in
  exists m,
    find a s = None /\ (cap k <= length s)%nat /\
    find w s = Some m /\ (forall b z, In (b, z) s -> m <= z) /\ m <= new_score k a sc /\
    find w s' = None /\ find a s' = Some (new_score k a sc) /\
    length s' = length s /\
    forall b, b <> w -> b <> a -> find b s' = find b s.
Proof.
  intros Hnd. unfold insert, new_score.
  destruct (find a s) as [z0|] eqn:Hf; [destruct (sc =? 0); discriminate|].
  destruct (cap k <=? length s)%nat eqn:Hc; [|discriminate].
  destruct (min_score s) as [m|] eqn:Hm; [|discriminate].
  set (sc' := if is_global a then sat_add sc (bonus k) else sc).
  destruct (sc' <? m) eqn:Hlt; [discriminate|].
  destruct v as [v|]; [|discriminate].
  destruct (find v s) as [vs|] eqn:Hv; [|discriminate].
  destruct (vs =? m) eqn:He; [|discriminate].
  cbn [fst snd]. intros [= ->]. exists m.
  destruct (min_score_spec _ _ Hm) as [Hall _].
  assert (Hwa : w <> a) by (intros ->; rewrite Hf in Hv; discriminate).
  repeat split.
  - lia.
  - rewrite Hv. f_equal. lia.
  - exact Hall.
  - lia.
  - rewrite find_app, find_remove, maddr_eqb_refl by exact Hnd. cbn [find].
    rewrite maddr_eqb_neq; [reflexivity | congruence].
  - rewrite find_app, find_remove by exact Hnd.
    rewrite maddr_eqb_neq by exact Hwa. rewrite Hf. cbn [find]. rewrite maddr_eqb_refl. reflexivity.
  - rewrite app_length. cbn [length]. pose proof (remove_length _ _ _ Hv). lia.
  - intros b Hbw Hba. rewrite find_app, find_remove by exact Hnd.
    rewrite maddr_eqb_neq by congruence. cbn [find]. rewrite maddr_eqb_neq by congruence.
    destruct (find b s); reflexivity.
Qed.

(* the newcomer is dropped exactly when the store is full and its score is below the minimum *)
Lemma insert_dropped k s a sc v :
  snd (insert k s a sc v) = Dropped ->
  fst (insert k s a sc v) = s /\ find a s = None /\ (cap k <= length s)%nat /\
  forall b z, In (b, z) s -> new_score k a sc < z.
Proof.
  unfold insert, new_score.
  destruct (find a s) as [z0|] eqn:Hf; [destruct (sc =? 0); discriminate|].
  destruct (cap k <=? length s)%nat eqn:Hc; [|discriminate].
  destruct (min_score s) as [m|] eqn:Hm; [|discriminate].
  set (sc' := if is_global a then sat_add sc (bonus k) else sc).
  destruct (sc' <? m) eqn:Hlt.
  - intros _. cbn [fst]. repeat split; [lia|].
    intros b z Hin. destruct (min_score_spec _ _ Hm) as [Hall _]. specialize (Hall _ _ Hin). lia.
  - destruct v as [v|]; [|discriminate].
    destruct (find v s) as [vs|]; [|discriminate].
    destruct (vs =? m); discriminate.
Qed.

(* whatever happens, nothing but the victim disappears and nothing but `a` appears or changes *)
Lemma insert_frame k s a sc v b :
  NoDup (keys s) -> b <> a ->
  find b (fst (insert k s a sc v)) = find b s \/
  (snd (insert k s a sc v) = Evicted b /\ find b (fst (insert k s a sc v)) = None).
Proof.
  intros Hnd Hb. unfold insert.
  destruct (find a s) as [z0|] eqn:Hf.
  - destruct (sc =? 0); cbn [fst snd]; [now left|].
    left. rewrite find_set_score. rewrite maddr_eqb_neq; [reflexivity | congruence].
  - destruct (cap k <=? length s)%nat.
    + destruct (min_score s) as [m|]; [|now left].
      destruct ((if is_global a then sat_add sc (bonus k) else sc) <? m); [now left|].
      destruct v as [v|]; [|now left].
      destruct (find v s) as [vs|] eqn:Hv; [|now left].
      destruct (vs =? m); [|now left]. cbn [fst snd].
      rewrite find_app, find_remove by exact Hnd. cbn [find].
      rewrite (maddr_eqb_neq a b) by congruence.
      destruct (maddr_eqb v b) eqn:E.
      * apply maddr_eqb_spec in E. subst. right. split; reflexivity.
      * left. destruct (find b s); reflexivity.
    + cbn [fst]. left. rewrite find_app. cbn [find].
      rewrite (maddr_eqb_neq a b) by congruence. destruct (find b s); reflexivity.
Qed.

(* the choice can always be resolved: with the first minimal record as victim, insert never
   reports a bad choice (capacity >= 1) *)
Lemma first_with_find m s :
  NoDup (keys s) -> (exists b, In (b, m) s) ->
  exists w, first_with m s = Some w /\ find w s = Some m.
Proof.
  induction s as [|[b y] t IH]; cbn [first_with find keys map]; intros Hnd [b0 Hin]; [destruct Hin|].
  inversion Hnd as [|? ? Hn Hd]; subst.
  destruct (y =? m) eqn:E.
  - exists b. rewrite maddr_eqb_refl. split; [reflexivity | f_equal; lia].
  - destruct Hin as [H|H]; [injection H as _ ->; lia|].
    destruct (IH Hd (ex_intro _ b0 H)) as [w [Hw Hfw]]. exists w. split; [exact Hw|].
    destruct (maddr_eqb b w) eqn:E2; [|exact Hfw].
    apply maddr_eqb_spec in E2. subst. exfalso. apply Hn.
    apply find_some_in in Hfw. change w with (fst (w, m)). apply in_map. exact Hfw.
Qed.

Lemma insert_pick_min_ok k s a sc :
  NoDup (keys s) -> (1 <= cap k)%nat ->
  snd (insert k s a sc (pick_min s)) <> BadChoice.
Proof.
  intros Hnd Hcap. unfold insert, pick_min.
  destruct (find a s); [destruct (sc =? 0); discriminate|].
  destruct (cap k <=? length s)%nat eqn:Hc; [|discriminate].
  destruct (min_score s) as [m|] eqn:Hm.
  - destruct ((if is_global a then sat_add sc (bonus k) else sc) <? m); [discriminate|].
    destruct (min_score_spec _ _ Hm) as [_ Hex].
    destruct (first_with_find _ _ Hnd Hex) as [w [-> ->]].
    rewrite Z.eqb_refl. discriminate.
  - apply min_score_none in Hm. subst. cbn [length] in Hc. lia.
Qed.

(* ---------- addresses(limit): dial order ---------- *)

Definition ge_score (x y : maddr * Z) : Prop := snd y <= snd x.

Lemma ins_desc_perm x l : Permutation (ins_desc x l) (x :: l).
Proof.
  induction l as [|h t IH]; cbn [ins_desc]; [apply Permutation_refl|].
  destruct (snd h <? snd x); [apply Permutation_refl|].
  eapply Permutation_trans; [apply perm_skip; exact IH | apply perm_swap].
Qed.

Lemma sort_desc_perm s : Permutation (sort_desc s) s.
Proof.
  induction s as [|x t IH]; cbn [sort_desc fold_right]; [constructor|].
  eapply Permutation_trans; [apply ins_desc_perm | apply perm_skip; exact IH].
Qed.

Lemma ins_desc_sorted x l : StronglySorted ge_score l -> StronglySorted ge_score (ins_desc x l).
Proof.
  induction 1 as [|h t Hs IH Hh]; cbn [ins_desc]; [repeat constructor|].
  destruct (snd h <? snd x) eqn:E.
  - constructor; [constructor; assumption|].
    constructor; [unfold ge_score; lia|].
    rewrite Forall_forall in *. intros y Hy. specialize (Hh _ Hy). unfold ge_score in *. lia.
  - constructor; [exact IH|].
    rewrite Forall_forall in *. intros y Hy.
    apply (Permutation_in _ (ins_desc_perm x t)) in Hy. destruct Hy as [<-|Hy].
    + unfold ge_score. lia.
    + exact (Hh _ Hy).
Qed.

Lemma sort_desc_sorted s : StronglySorted ge_score (sort_desc s).
Proof.
  induction s as [|x t IH]; cbn [sort_desc fold_right]; [constructor|].
  apply ins_desc_sorted. exact IH.
Qed.

Lemma sorted_app_inv (l1 l2 : store) :
  StronglySorted ge_score (l1 ++ l2) ->
  StronglySorted ge_score l1 /\ forall x y, In x l1 -> In y l2 -> ge_score x y.
Proof.
  induction l1 as [|h t IH]; cbn [app]; intro H.
  - split; [constructor | intros x y []].
  - inversion H as [|? ? Hs Hh]; subst. destruct (IH Hs) as [Ht Hc]. split.
    + constructor; [exact Ht|]. rewrite Forall_forall in *. intros y Hy. apply Hh.
      apply in_or_app. now left.
    + intros x y [<-|Hx] Hy; [|exact (Hc _ _ Hx Hy)].
      rewrite Forall_forall in Hh. apply Hh. apply in_or_app. now right.
Qed.

Lemma addresses_spec limit s :
  let r := addresses limit s in
  length r = Nat.min limit (length s) /\
  StronglySorted ge_score r /\
  (forall x, In x r -> In x s) /\
  (forall x y, In x r -> In y s -> ~ In y r -> snd y <= snd x).
Proof.
  unfold addresses. set (l := sort_desc s).
  assert (Hp : Permutation l s) by apply sort_desc_perm.
  assert (Hs : StronglySorted ge_score (firstn limit l ++ skipn limit l))
    by (rewrite firstn_skipn; apply sort_desc_sorted).
  destruct (sorted_app_inv _ _ Hs) as [H1 H2]. cbn zeta. repeat split.
  - rewrite firstn_length, (Permutation_length Hp). reflexivity.
  - exact H1.
  - intros x Hx. apply (Permutation_in _ Hp). rewrite <- (firstn_skipn limit l).
    apply in_or_app. now left.
  - intros x y Hx Hy Hny. apply (Permutation_in _ (Permutation_sym Hp)) in Hy.
    rewrite <- (firstn_skipn limit l) in Hy. apply in_app_or in Hy.
    destruct Hy as [Hy|Hy]; [contradiction|]. exact (H2 _ _ Hx Hy).
Qed.

(* ---------- the book: invariants over all histories ---------- *)

Lemma get_put p q s b : get p (put q s b) = if N.eqb q p then Some s else get p b.
Proof.
  induction b as [|[r s0] t IH]; cbn [put get].
  - destruct (N.eqb q p); reflexivity.
  - destruct (N.eqb r q) eqn:E; cbn [get].
    + apply N.eqb_eq in E. subst r. destruct (N.eqb q p); reflexivity.
    + destruct (N.eqb r p) eqn:E2.
      * destruct (N.eqb q p) eqn:E3; [|reflexivity]. lia.
      * exact IH.
Qed.

Section BookInv.
  Variable c : cfg.
  Variable k : scorecfg.
  (* P p a: address a may be stored for peer p *)
  Variable P : N -> maddr -> Prop.
  Hypothesis P_add : forall p a, acceptable c p a -> P p a.

  Definition BInv (b : book) : Prop := forall p s, get p b = Some s -> SInv (P p) k s.

  (* what the environment may feed into the dial-result operations *)
  Definition op_wf (o : op) : Prop :=
    match o with
    | ODialFailure a _ _ => forall p, last a (Other 0) = P2p p -> P p a
    | OEstablished peer a false _ => P peer (with_peer peer a)
    | _ => True
    end.

  Lemma sinv_empty p : SInv (P p) k [].
  Proof. split; [cbn; lia | constructor | constructor]. Qed.

  Lemma binv_get_or_empty b p : BInv b -> SInv (P p) k (get_or_empty p b).
  Proof.
    intro H. unfold get_or_empty. destruct (get p b) eqn:E; [exact (H _ _ E) | apply sinv_empty].
  Qed.

  Lemma binv_put b p s : BInv b -> SInv (P p) k s -> BInv (put p s b).
  Proof.
    intros Hb Hs q s0. rewrite get_put. destruct (N.eqb p q) eqn:E.
    - apply N.eqb_eq in E. subst. intros [= <-]. exact Hs.
    - apply Hb.
  Qed.

  Lemma insert_all_inv p s l victims :
    SInv (P p) k s -> Forall (P p) l -> SInv (P p) k (fst (insert_all k s l victims)).
  Proof.
    revert s victims. induction l as [|a t IH]; intros s victims Hs Hl; cbn [insert_all]; [exact Hs|].
    inversion Hl as [|? ? Ha Ht]; subst.
    set (v := match victims with v :: _ => Some v | [] => None end).
    pose proof (insert_inv (P p) k s a 0 v Hs Ha) as H1.
    destruct (insert k s a 0 v) as [s1 r]. cbn [fst] in H1.
    set (victims' := match r with Evicted _ => tl victims | _ => victims end).
    specialize (IH s1 victims' H1 Ht).
    destruct (insert_all k s1 t victims') as [s2 bad]. exact IH.
  Qed.

  Lemma with_peer_last p a q : last a (Other 0) = P2p q -> with_peer p a = a.
  Proof. intro H. unfold with_peer. rewrite H. reflexivity. Qed.

  Lemma step_inv b o : BInv b -> op_wf o -> BInv (fst (step c k b o)).
  Proof.
    intros Hb Hwf. destruct o as [peer addrs victims | a f victim | peer a listener victim
                                 | peer limit obs | a]; cbn [step].
    - destruct ((2 <=? length addrs)%nat && (cap k <? length (get_or_empty peer b) + length addrs)%nat);
        [exact Hb|].
      pose proof (insert_all_inv peer (get_or_empty peer b) (accepted c peer addrs) victims
                    (binv_get_or_empty b peer Hb)) as H.
      destruct (insert_all k (get_or_empty peer b) (accepted c peer addrs) victims) as [s' bad].
      cbn [fst] in *. apply binv_put; [exact Hb|]. apply H.
      apply Forall_forall. intros x Hx. apply P_add. exact (proj2 (accepted_acceptable _ _ _ _ Hx)).
    - destruct (last a (Other 0)) eqn:Hl; try exact Hb.
      cbn [op_wf] in Hwf. specialize (Hwf _ Hl).
      rewrite (with_peer_last p a p Hl).
      pose proof (insert_inv (P p) k (get_or_empty p b) a (failure_score k f) victim
                    (binv_get_or_empty b p Hb) Hwf) as H.
      destruct (insert k (get_or_empty p b) a (failure_score k f) victim) as [s' r].
      cbn [fst] in *. apply binv_put; assumption.
    - destruct listener; [exact Hb|]. cbn [op_wf] in Hwf.
      pose proof (insert_inv (P peer) k (get_or_empty peer b) (with_peer peer a) (sc_established k)
                    victim (binv_get_or_empty b peer Hb) Hwf) as H.
      destruct (insert k (get_or_empty peer b) (with_peer peer a) (sc_established k) victim) as [s' r].
      cbn [fst] in *. apply binv_put; assumption.
    - exact Hb.
    - exact Hb.
  Qed.

  Lemma run_inv h b : BInv b -> Forall op_wf h -> BInv (fst (run c k b h)).
  Proof.
    revert b. induction h as [|o t IH]; intros b Hb Hw; cbn [run]; [exact Hb|].
    inversion Hw as [|? ? Ho Ht]; subst.
    pose proof (step_inv b o Hb Ho) as H1.
    destruct (step c k b o) as [b1 r]. cbn [fst] in H1.
    specialize (IH b1 H1 Ht). destruct (run c k b1 t) as [b2 rs]. exact IH.
  Qed.

  Lemma final_inv h : Forall op_wf h -> BInv (final c k h).
  Proof. intro H. apply run_inv; [|exact H]. intros p s. cbn [get]. discriminate. Qed.
End BookInv.

(* bound and key uniqueness need no assumption on the environment *)
Lemma op_wf_true o : op_wf (fun _ _ => True) o.
Proof. destruct o as [| | ? ? [|] ?| |]; cbn; auto. Qed.

Lemma final_bound c k h p s :
  get p (final c k h) = Some s -> (length s <= cap k)%nat /\ NoDup (keys s).
Proof.
  intro H.
  assert (Hi : BInv k (fun _ _ => True) (final c k h)).
  { apply final_inv; [auto|]. apply Forall_forall. intros o _. apply op_wf_true. }
  destruct (Hi _ _ H) as [Hb Hn _]. split; assumption.
Qed.

(* attribution, locality and dialability of everything remembered, provided the dial results
   reported by the transports are about addresses that were acceptable for that peer *)
Lemma final_acceptable c k h p s a z :
  Forall (op_wf (acceptable c)) h ->
  get p (final c k h) = Some s -> In (a, z) s ->
  acceptable c p a /\ dialable c a p.
Proof.
  intros Hw Hg Hin.
  assert (Hi : BInv k (acceptable c) (final c k h)) by (apply final_inv; auto).
  destruct (Hi _ _ Hg) as [_ _ Ha]. rewrite Forall_forall in Ha.
  specialize (Ha _ Hin). cbn [fst] in Ha. split; [exact Ha|].
  destruct Ha as [Hs [_ Hl]]. destruct (supported_dialable _ _ Hs) as [q [Hq Hd]].
  rewrite Hl in Hq. injection Hq as <-. exact Hd.
Qed.

(* add_known_address on addresses that are all known already changes nothing *)
Lemma insert_all_rediscovery k s l victims :
  (forall a, In a l -> find a s <> None) -> insert_all k s l victims = (s, false).
Proof.
  revert victims. induction l as [|a t IH]; intros victims H; cbn [insert_all]; [reflexivity|].
  destruct (find a s) as [z0|] eqn:Hf; [|exfalso; apply (H a); [now left | exact Hf]].
  rewrite (insert_rediscovery k s a _ z0 Hf).
  rewrite IH; [reflexivity|]. intros b Hb. apply H. now right.
Qed.

Lemma final_bound_default c h p s :
  get p (final c default_scores h) = Some s ->
  (N.of_nat (length s) <= Consts.MAX_ADDRESSES)%N.
Proof.
  intro H. destruct (final_bound _ _ _ _ _ H) as [Hb _]. cbn [cap default_scores] in Hb. lia.
Qed.

(* ---------- the validator of an observed addresses(limit) means what it says ---------- *)

Lemma nonincreasing_sorted (l : list Z) :
  nonincreasing l = true -> StronglySorted (fun x y => y <= x) l.
Proof.
  induction l as [|x t IH]; [constructor|].
  cbn [nonincreasing]. destruct t as [|y t'].
  - intros _. constructor; constructor.
  - intro H. apply andb_true_iff in H. destruct H as [H1 H2].
    specialize (IH H2). constructor; [exact IH|].
    inversion IH as [|? ? Hs Hy]; subst. constructor; [lia|].
    rewrite Forall_forall in *. intros z Hz. specialize (Hy _ Hz). lia.
Qed.

Lemma nodup_addrs_spec l : nodup_addrs l = true -> NoDup l.
Proof.
  induction l as [|a t IH]; cbn [nodup_addrs]; [constructor|].
  intro H. apply andb_true_iff in H. destruct H as [H1 H2]. constructor; [|exact (IH H2)].
  intro Hin. apply existsb_maddr in Hin. rewrite Hin in H1. discriminate.
Qed.

Lemma addresses_ok_sound limit s obs :
  addresses_ok limit s obs = true ->
  length obs = Nat.min limit (length s) /\
  (forall a z, In (a, z) obs -> find a s = Some z) /\
  NoDup (map fst obs) /\
  StronglySorted (fun x y => y <= x) (map snd obs) /\
  (forall b y, In (b, y) s -> ~ In b (map fst obs) -> forall a z, In (a, z) obs -> y <= z).
Proof.
  unfold addresses_ok. intro H.
  apply andb_true_iff in H. destruct H as [H Htop].
  apply andb_true_iff in H. destruct H as [H Hsorted].
  apply andb_true_iff in H. destruct H as [H Hnd].
  apply andb_true_iff in H. destruct H as [H Hfind].
  repeat split.
  - apply Nat.eqb_eq in H. exact H.
  - intros a z Hin. rewrite forallb_forall in Hfind. specialize (Hfind _ Hin). cbn [fst snd] in Hfind.
    destruct (find a s) as [z'|]; [|discriminate]. f_equal. lia.
  - apply nodup_addrs_spec. exact Hnd.
  - apply nonincreasing_sorted. exact Hsorted.
  - intros b y Hin Hnot a z Hobs. rewrite forallb_forall in Htop. specialize (Htop _ Hin).
    cbn [fst snd] in Htop. apply orb_true_iff in Htop. destruct Htop as [Hex|Hall].
    + apply existsb_maddr in Hex. contradiction.
    + rewrite forallb_forall in Hall. specialize (Hall _ Hobs). cbn [snd] in Hall. lia.
Qed.

(* ... and the model's own selection passes it (the validator is satisfiable) *)
Lemma sorted_nonincreasing (l : list Z) :
  StronglySorted (fun x y => y <= x) l -> nonincreasing l = true.
Proof.
  induction 1 as [|x t Hs IH Hx]; [reflexivity|].
  cbn [nonincreasing]. destruct t as [|y t']; [reflexivity|].
  apply andb_true_iff. split; [|exact IH].
  inversion Hx as [|? ? Hy _]; subst. lia.
Qed.

Lemma nodup_addrs_complete l : NoDup l -> nodup_addrs l = true.
Proof.
  induction 1 as [|a t Hn Hd IH]; cbn [nodup_addrs]; [reflexivity|].
  apply andb_true_iff. split; [|exact IH].
  destruct (existsb (maddr_eqb a) t) eqn:E; [|reflexivity].
  apply existsb_maddr in E. contradiction.
Qed.

Lemma sorted_map_snd (l : store) :
  StronglySorted ge_score l -> StronglySorted (fun x y => y <= x) (map snd l).
Proof.
  induction 1 as [|x t Hs IH Hx]; cbn [map]; constructor; [exact IH|].
  rewrite Forall_forall in *. intros z Hz. apply in_map_iff in Hz.
  destruct Hz as [y [<- Hy]]. exact (Hx _ Hy).
Qed.

Lemma nodup_firstn {A} (l : list A) n : NoDup l -> NoDup (firstn n l).
Proof.
  revert n. induction l as [|x t IH]; intros n Hnd; destruct n; cbn [firstn]; try constructor.
  - inversion Hnd as [|? ? Hx Hd]; subst. intro Hin. apply Hx.
    rewrite <- (firstn_skipn n t). apply in_or_app. now left.
  - inversion Hnd as [|? ? Hx Hd]; subst. exact (IH n Hd).
Qed.

Lemma addresses_ok_complete limit s :
  NoDup (keys s) -> addresses_ok limit s (addresses limit s) = true.
Proof.
  intro Hnd. destruct (addresses_spec limit s) as [Hlen [Hsort [Hin Htop]]].
  unfold addresses_ok. repeat (apply andb_true_iff; split).
  - apply Nat.eqb_eq. exact Hlen.
  - apply forallb_forall. intros [a z] Hx. cbn [fst snd].
    rewrite (in_find_nodup a z s Hnd (Hin _ Hx)). apply Z.eqb_refl.
  - apply nodup_addrs_complete. unfold addresses. rewrite <- firstn_map. apply nodup_firstn.
    apply (Permutation_NoDup (l := keys s)); [|exact Hnd].
    apply Permutation_sym, Permutation_map, sort_desc_perm.
  - apply sorted_nonincreasing, sorted_map_snd. exact Hsort.
  - apply forallb_forall. intros y Hy.
    destruct (existsb (maddr_eqb (fst y)) (map fst (addresses limit s))) eqn:E; [reflexivity|].
    cbn [orb]. apply forallb_forall. intros x Hx.
    assert (Hny : ~ In y (addresses limit s)).
    { intro Hc. assert (Hk : In (fst y) (map fst (addresses limit s))) by (apply in_map; exact Hc).
      apply existsb_maddr in Hk. rewrite Hk in E. discriminate. }
    specialize (Htop x y Hx Hy Hny). lia.
Qed.
