(* C10 — lemmas about the address-book model. *)
From Coq Require Import List Arith NArith ZArith Bool Lia Sorted Permutation.
From Coq Require Import ZifyBool ZifyNat ZifyN.
From V.gen Require Consts.
From V.C10 Require Import Model.
Import ListNotations.

Arguments N.eqb : simpl never.
Arguments Z.eqb : simpl never.
Arguments Z.ltb : simpl never.
Arguments Z.leb : simpl never.
Arguments Z.min : simpl never.
Arguments Z.max : simpl never.
Arguments Nat.leb : simpl never.
Arguments Nat.ltb : simpl never.
Arguments Nat.min : simpl never.

(* ---------- decidable equality on addresses ---------- *)

Lemma ipclass_eqb_spec a b : ipclass_eqb a b = true <-> a = b.
Proof. destruct a, b; cbn; split; intro H; try reflexivity; discriminate H. Qed.

Lemma comp_eqb_spec a b : comp_eqb a b = true <-> a = b.
Proof.
  destruct a, b; cbn [comp_eqb]; split; intro H; try discriminate H; try reflexivity;
    try (apply andb_true_iff in H; destruct H as [H1 H2]; apply ipclass_eqb_spec in H1;
         apply N.eqb_eq in H2; subst; reflexivity);
    try (apply N.eqb_eq in H; subst; reflexivity);
    try (injection H as -> ->; apply andb_true_iff; split;
         [apply ipclass_eqb_spec; reflexivity | apply N.eqb_refl]);
    try (injection H as ->; apply N.eqb_refl).
Qed.

Lemma maddr_eqb_spec a b : maddr_eqb a b = true <-> a = b.
Proof.
  revert b; induction a as [|x a IH]; intros [|y b]; cbn [maddr_eqb]; split; intro H;
    try discriminate H; try reflexivity.
  - apply andb_true_iff in H. destruct H as [H1 H2].
    apply comp_eqb_spec in H1. apply IH in H2. subst. reflexivity.
  - injection H as -> ->. apply andb_true_iff. split; [apply comp_eqb_spec | apply IH]; reflexivity.
Qed.

Lemma maddr_eqb_refl a : maddr_eqb a a = true.
Proof. apply maddr_eqb_spec. reflexivity. Qed.

Lemma maddr_eqb_neq a b : a <> b -> maddr_eqb a b = false.
Proof.
  intro H. destruct (maddr_eqb a b) eqn:E; [|reflexivity].
  apply maddr_eqb_spec in E. contradiction.
Qed.

Lemma maddr_eqb_false a b : maddr_eqb a b = false -> a <> b.
Proof. intros E ->. rewrite maddr_eqb_refl in E. discriminate. Qed.

Lemma existsb_maddr a l : existsb (maddr_eqb a) l = true <-> In a l.
Proof.
  rewrite existsb_exists. split.
  - intros [x [Hin E]]. apply maddr_eqb_spec in E. subst. exact Hin.
  - intro H. exists a. split; [exact H | apply maddr_eqb_refl].
Qed.

(* ---------- supported_transport => the routed transport parses the address ---------- *)

Definition dialable (c : cfg) (a : maddr) (q : N) : Prop :=
  enabled c (route c a) = true /\
  exists ho p, parse (route c a) a = Some (ho, p, Some q) /\ host_unspecified ho = false.

Lemma first_ok_not h : first_ok h = true -> is_quic h = false /\ is_ws h = false.
Proof. destruct h; cbn; intro H; try discriminate H; split; reflexivity. Qed.

Lemma first_ok_host h :
  first_ok h = true -> exists ho, host_of h = Some ho /\ host_unspecified ho = false.
Proof.
  destruct h; cbn [first_ok host_of]; intro H; try discriminate H;
    eexists; (split; [reflexivity|]); cbn; try reflexivity;
    destruct c; try reflexivity; discriminate H.
Qed.

Lemma supported_dialable c a :
  supported c a = true -> exists q, last a (Other 0) = P2p q /\ dialable c a q.
Proof.
  unfold dialable.
  destruct a as [|h rest]; cbn [supported]; [discriminate|].
  destruct (first_ok h) eqn:Hf; [|discriminate].
  destruct (first_ok_not _ Hf) as [Hq Hw].
  destruct (first_ok_host _ Hf) as [ho [Hho Hun]].
  destruct rest as [|x1 r1]; [discriminate|].
  destruct x1; try discriminate.
  - (* Tcp *)
    destruct r1 as [|x2 r2]; [discriminate|].
    destruct x2; try discriminate.
    + (* Ws *)
      destruct r2 as [|x3 r3]; [discriminate|].
      destruct x3; try discriminate. destruct r3; [|discriminate].
      intro He. exists p. split; [reflexivity|].
      unfold route. cbn [existsb is_quic is_ws]. rewrite Hq, Hw. cbn [orb].
      rewrite andb_false_r.
      pose proof He as He'. cbn [enabled] in He'. apply andb_true_iff in He'.
      destruct He' as [He1 He2]. rewrite He1. cbn [andb]. split; [exact He|].
      exists ho, port. cbn [parse sock_parse port_of]. rewrite Hho. split; [reflexivity | exact Hun].
    + (* Wss *)
      destruct r2 as [|x3 r3]; [discriminate|].
      destruct x3; try discriminate. destruct r3; [|discriminate].
      intro He. exists p. split; [reflexivity|].
      unfold route. cbn [existsb is_quic is_ws]. rewrite Hq, Hw. cbn [orb].
      rewrite andb_false_r.
      pose proof He as He'. cbn [enabled] in He'. apply andb_true_iff in He'.
      destruct He' as [He1 He2]. rewrite He1. cbn [andb]. split; [exact He|].
      exists ho, port. cbn [parse sock_parse port_of]. rewrite Hho. split; [reflexivity | exact Hun].
    + (* P2p *)
      destruct r2; [|discriminate].
      intro He. exists p. split; [reflexivity|].
      unfold route. cbn [existsb is_quic is_ws]. rewrite Hq, Hw. cbn [orb].
      rewrite !andb_false_r. split; [exact He|].
      exists ho, port. cbn [parse sock_parse port_of]. rewrite Hho. split; [reflexivity | exact Hun].
  - (* Udp *)
    destruct r1 as [|x2 r2]; [discriminate|].
    destruct x2; try discriminate.
    destruct r2 as [|x3 r3]; [discriminate|].
    destruct x3; try discriminate. destruct r3; [|discriminate].
    intro He. exists p. split; [reflexivity|].
    unfold route. cbn [existsb is_quic is_ws]. rewrite Hq. cbn [orb].
    pose proof He as He'. cbn [enabled] in He'. apply andb_true_iff in He'.
    destruct He' as [He1 He2]. rewrite He1. cbn [andb]. split; [exact He|].
    exists ho, port. cbn [parse sock_parse port_of]. rewrite Hho. split; [reflexivity | exact Hun].
Qed.

(* ---------- add_known_address: what is accepted ---------- *)

Definition acceptable (c : cfg) (ls : list maddr) (p : N) (a : maddr) : Prop :=
  supported c a = true /\ is_local c ls a = false /\ last a (Other 0) = P2p p.

Lemma normalise_acceptable c ls peer a a' :
  normalise c ls peer a = Some a' -> a' = a /\ acceptable c ls peer a.
Proof.
  unfold normalise, acceptable.
  destruct (supported c a) eqn:Hs; cbn [negb]; [|discriminate].
  destruct (is_local c ls a) eqn:Hl; [discriminate|].
  destruct (supported_dialable _ _ Hs) as [q [Hlast _]].
  rewrite Hlast. destruct (N.eqb q peer) eqn:E; [|discriminate].
  intros [= <-]. apply N.eqb_eq in E. subst q. repeat split; assumption.
Qed.

Lemma filter_map_in {A B} (f : A -> option B) l y :
  In y (filter_map f l) -> exists x, In x l /\ f x = Some y.
Proof.
  induction l as [|x t IH]; cbn [filter_map]; [intros []|].
  destruct (f x) eqn:E.
  - intros [<-|H]; [exists x; split; [now left | exact E]|].
    destruct (IH H) as [x' [Hin Hf]]. exists x'. split; [now right | exact Hf].
  - intro H. destruct (IH H) as [x' [Hin Hf]]. exists x'. split; [now right | exact Hf].
Qed.

Lemma dedup_in l a : In a (dedup l) <-> In a l.
Proof.
  induction l as [|x t IH]; cbn [dedup]; [tauto|].
  destruct (existsb (maddr_eqb x) t) eqn:E.
  - rewrite IH. cbn [In]. apply existsb_maddr in E. split; [tauto|].
    intros [<-|H]; assumption.
  - cbn [In]. rewrite IH. tauto.
Qed.

Lemma dedup_nodup l : NoDup (dedup l).
Proof.
  induction l as [|x t IH]; cbn [dedup]; [constructor|].
  destruct (existsb (maddr_eqb x) t) eqn:E; [exact IH|].
  constructor; [|exact IH]. rewrite dedup_in. intro H.
  apply existsb_maddr in H. rewrite H in E. discriminate.
Qed.

Lemma accepted_acceptable c ls peer l a :
  In a (accepted c ls peer l) -> In a l /\ acceptable c ls peer a.
Proof.
  unfold accepted. rewrite dedup_in. intro H.
  destruct (filter_map_in _ _ _ H) as [x [Hin Hn]].
  destruct (normalise_acceptable _ _ _ _ _ Hn) as [-> Ha]. split; assumption.
Qed.

Lemma accepted_nodup c ls peer l : NoDup (accepted c ls peer l).
Proof. apply dedup_nodup. Qed.

(* registering more listen addresses only makes more addresses local *)
Lemma existsb_incl {A} (f : A -> bool) l1 l2 :
  incl l1 l2 -> existsb f l2 = false -> existsb f l1 = false.
Proof.
  intros Hi H. destruct (existsb f l1) eqn:E; [|reflexivity].
  apply existsb_exists in E. destruct E as [x [Hx Hf]].
  assert (existsb f l2 = true) by (apply existsb_exists; exists x; split; [apply Hi; exact Hx | exact Hf]).
  congruence.
Qed.

Lemma listen_set_incl c l1 l2 : incl l1 l2 -> incl (listen_set c l1) (listen_set c l2).
Proof.
  intros Hi x Hx. unfold listen_set in *. apply in_flat_map in Hx. destruct Hx as [l [Hl Hx]].
  apply in_flat_map. exists l. split; [apply Hi; exact Hl | exact Hx].
Qed.

Lemma is_local_mono c l1 l2 a : incl l1 l2 -> is_local c l2 a = false -> is_local c l1 a = false.
Proof.
  intros Hi. unfold is_local. pose proof (listen_set_incl c _ _ Hi) as Hs.
  destruct (existsb (maddr_eqb (strip_p2p a)) (listen_set c l2)) eqn:E2; [discriminate|].
  rewrite (existsb_incl _ _ _ Hs E2).
  destruct (extract_ip_port (strip_p2p a)) as [[ip port]|]; [|reflexivity].
  intro H. exact (existsb_incl _ _ _ Hs H).
Qed.

(* ---------- the store ---------- *)

Definition keys (s : store) : list maddr := map fst s.

Lemma find_none_notin a s : find a s = None <-> ~ In a (keys s).
Proof.
  induction s as [|[b z] t IH]; cbn [find keys map In]; [tauto|].
  destruct (maddr_eqb b a) eqn:E.
  - apply maddr_eqb_spec in E. subst. split; [discriminate | intro H; exfalso; apply H; now left].
  - apply maddr_eqb_false in E. fold (keys t). rewrite IH. tauto.
Qed.

Lemma find_some_in a s z : find a s = Some z -> In (a, z) s.
Proof.
  induction s as [|[b y] t IH]; cbn [find]; [discriminate|].
  destruct (maddr_eqb b a) eqn:E.
  - apply maddr_eqb_spec in E. subst. intros [= ->]. now left.
  - intro H. right. exact (IH H).
Qed.

Lemma in_find_nodup a z s : NoDup (keys s) -> In (a, z) s -> find a s = Some z.
Proof.
  induction s as [|[b y] t IH]; cbn [find keys map]; [intros _ []|].
  intros Hnd [H|H].
  - injection H as -> ->. rewrite maddr_eqb_refl. reflexivity.
  - inversion Hnd as [|? ? Hn Hd]; subst.
    destruct (maddr_eqb b a) eqn:E.
    + apply maddr_eqb_spec in E. subst. exfalso. apply Hn.
      change a with (fst (a, z)). apply in_map. exact H.
    + exact (IH Hd H).
Qed.

Lemma set_score_keys a z s : keys (set_score a z s) = keys s.
Proof.
  induction s as [|[b y] t IH]; cbn [set_score keys map]; [reflexivity|].
  destruct (maddr_eqb b a); cbn [keys map]; [reflexivity|].
  f_equal. exact IH.
Qed.

Lemma set_score_length a z s : length (set_score a z s) = length s.
Proof. rewrite <- (map_length fst), <- (map_length fst s). apply (f_equal (@length _)), set_score_keys. Qed.

Lemma find_set_score a z s b :
  find b (set_score a z s) =
    if maddr_eqb a b then match find a s with Some _ => Some z | None => None end else find b s.
Proof.
  induction s as [|[x y] t IH]; cbn [set_score find].
  - destruct (maddr_eqb a b); reflexivity.
  - destruct (maddr_eqb x a) eqn:E; cbn [find].
    + apply maddr_eqb_spec in E. subst x.
      destruct (maddr_eqb a b); reflexivity.
    + destruct (maddr_eqb x b) eqn:E2.
      * destruct (maddr_eqb a b) eqn:E3; [|reflexivity].
        apply maddr_eqb_spec in E2. apply maddr_eqb_spec in E3. subst.
        rewrite maddr_eqb_refl in E. discriminate.
      * exact IH.
Qed.

Lemma remove_keys_incl a s x : In x (keys (remove a s)) -> In x (keys s).
Proof.
  induction s as [|[b y] t IH]; cbn [remove keys map]; [intros []|].
  destruct (maddr_eqb b a); cbn [keys map In].
  - intro H. right. exact H.
  - intros [H|H]; [now left | right; exact (IH H)].
Qed.

Lemma remove_in_incl a s x : In x (remove a s) -> In x s.
Proof.
  induction s as [|[b y] t IH]; cbn [remove]; [intros []|].
  destruct (maddr_eqb b a); cbn [In].
  - intro H. right. exact H.
  - intros [H|H]; [now left | right; exact (IH H)].
Qed.

Lemma remove_nodup a s : NoDup (keys s) -> NoDup (keys (remove a s)).
Proof.
  induction s as [|[b y] t IH]; cbn [remove keys map]; [auto|].
  intro H. inversion H as [|? ? Hn Hd]; subst.
  destruct (maddr_eqb b a); [exact Hd|].
  cbn [keys map]. constructor; [|exact (IH Hd)].
  intro Hin. apply Hn. exact (remove_keys_incl _ _ _ Hin).
Qed.

Lemma remove_length a s z : find a s = Some z -> S (length (remove a s)) = length s.
Proof.
  induction s as [|[b y] t IH]; cbn [find remove length]; [discriminate|].
  destruct (maddr_eqb b a); [reflexivity|].
  intro H. cbn [length]. f_equal. exact (IH H).
Qed.

Lemma find_remove a s b :
  NoDup (keys s) -> find b (remove a s) = if maddr_eqb a b then None else find b s.
Proof.
  induction s as [|[x y] t IH]; cbn [remove find keys map]; intro Hnd.
  - destruct (maddr_eqb a b); reflexivity.
  - inversion Hnd as [|? ? Hn Hd]; subst.
    destruct (maddr_eqb x a) eqn:E.
    + apply maddr_eqb_spec in E. subst x.
      destruct (maddr_eqb a b) eqn:E2; [|reflexivity].
      apply maddr_eqb_spec in E2. subst b. apply find_none_notin. exact Hn.
    + cbn [find]. destruct (maddr_eqb x b) eqn:E2.
      * destruct (maddr_eqb a b) eqn:E3; [|reflexivity].
        apply maddr_eqb_spec in E2. apply maddr_eqb_spec in E3. subst.
        rewrite maddr_eqb_refl in E. discriminate.
      * exact (IH Hd).
Qed.

Lemma find_app a s1 s2 :
  find a (s1 ++ s2) = match find a s1 with Some z => Some z | None => find a s2 end.
Proof.
  induction s1 as [|[b y] t IH]; cbn [app find]; [reflexivity|].
  destruct (maddr_eqb b a); [reflexivity | exact IH].
Qed.

Lemma keys_app s1 s2 : keys (s1 ++ s2) = keys s1 ++ keys s2.
Proof. apply map_app. Qed.

Lemma nodup_snoc (l : list maddr) a : NoDup l -> ~ In a l -> NoDup (l ++ [a]).
Proof.
  induction l as [|x t IH]; cbn [app]; intros Hnd Hn.
  - constructor; [intros [] | constructor].
  - inversion Hnd as [|? ? Hx Hd]; subst. constructor.
    + rewrite in_app_iff. cbn [In]. intros [H|[H|[]]]; [exact (Hx H)|].
      subst. apply Hn. now left.
    + apply IH; [exact Hd|]. intro H. apply Hn. now right.
Qed.

Open Scope Z_scope.

Lemma min_score_spec s m :
  min_score s = Some m ->
  (forall b z, In (b, z) s -> m <= z) /\ exists b, In (b, m) s.
Proof.
  revert m. induction s as [|[b y] t IH]; cbn [min_score]; intro m; [discriminate|].
  destruct (min_score t) as [m'|] eqn:E.
  - intros [= <-]. destruct (IH m' eq_refl) as [Hall [b' Hb']]. split.
    + intros b0 z [H|H]; [injection H as _ <-; lia|]. specialize (Hall _ _ H). lia.
    + destruct (Z.min_spec y m') as [[_ ->]|[_ ->]];
        [exists b; now left | exists b'; now right].
  - intros [= <-]. destruct t as [|[b' y'] t']; [|cbn [min_score] in E; destruct (min_score t'); discriminate].
    split; [|exists b; now left].
    intros b0 z [H|[]]. injection H as _ <-. lia.
Qed.

Lemma min_score_none s : min_score s = None -> s = [].
Proof.
  destruct s as [|[b y] t]; [reflexivity|]. cbn [min_score].
  destruct (min_score t); discriminate.
Qed.

(* The complete description of AddressStore::insert on a duplicate-free store. *)
Definition new_score (k : scorecfg) (a : maddr) (sc : Z) : Z :=
  if is_global a then sat_add sc (bonus k) else sc.

Section InsertInv.
  Variable P : maddr -> Prop.

  Record SInv (k : scorecfg) (s : store) : Prop := {
    si_bound : (length s <= cap k)%nat;
    si_nodup : NoDup (keys s);
    si_all : Forall (fun x => P (fst x)) s
  }.

  Lemma forall_remove a s : Forall (fun x => P (fst x)) s -> Forall (fun x => P (fst x)) (remove a s).
  Proof.
    intro H. apply Forall_forall. intros x Hx. rewrite Forall_forall in H.
    apply H. exact (remove_in_incl _ _ _ Hx).
  Qed.

  Lemma forall_set_score a z s :
    Forall (fun x => P (fst x)) s -> Forall (fun x => P (fst x)) (set_score a z s).
  Proof.
    induction 1 as [|[b y] t Hh Ht IH]; cbn [set_score]; [constructor|].
    destruct (maddr_eqb b a); constructor; assumption.
  Qed.

  Lemma insert_inv k s a sc v :
    SInv k s -> P a -> SInv k (fst (insert k s a sc v)).
  Proof.
    intros [Hb Hn Ha] Pa. unfold insert.
    destruct (find a s) as [z0|] eqn:Hf.
    - destruct (sc =? 0); cbn [fst]; [split; assumption|].
      split; [rewrite set_score_length; exact Hb | rewrite set_score_keys; exact Hn
             | apply forall_set_score; exact Ha].
    - destruct (cap k <=? length s)%nat eqn:Hc.
      + destruct (min_score s) as [m|]; [|split; assumption].
        destruct (new_score k a sc <? m) eqn:Hlt; unfold new_score in Hlt; rewrite Hlt;
          [split; assumption|].
        destruct v as [v|]; [|split; assumption].
        destruct (find v s) as [vs|] eqn:Hv; [|split; assumption].
        destruct (vs =? m); [|split; assumption].
        cbn [fst]. split.
        * rewrite app_length. cbn [length]. pose proof (remove_length _ _ _ Hv). lia.
        * rewrite keys_app. cbn [keys map]. apply nodup_snoc; [apply remove_nodup; exact Hn|].
          intro Hin. apply remove_keys_incl in Hin. apply find_none_notin in Hf. exact (Hf Hin).
        * apply Forall_app. split; [apply forall_remove; exact Ha|].
          constructor; [exact Pa | constructor].
      + cbn [fst]. split.
        * rewrite app_length. cbn [length]. lia.
        * rewrite keys_app. cbn [keys map]. apply nodup_snoc; [exact Hn|].
          apply find_none_notin. exact Hf.
        * apply Forall_app. split; [exact Ha|]. constructor; [exact Pa | constructor].
  Qed.
End InsertInv.

(* ---------- what insert does, case by case ---------- *)

(* re-adding a known address with score 0 changes nothing *)
Lemma insert_rediscovery k s a v z0 :
  find a s = Some z0 -> insert k s a 0 v = (s, Kept).
Proof. intro H. unfold insert. rewrite H. reflexivity. Qed.

(* a connection event on a known address sets exactly that score *)
Lemma insert_rescore k s a sc v z0 :
  find a s = Some z0 -> sc <> 0 ->
  let s' := fst (insert k s a sc v) in
  snd (insert k s a sc v) = Updated /\
  find a s' = Some sc /\ keys s' = keys s /\
  forall b, b <> a -> find b s' = find b s.
Proof.
  intros H Hsc. unfold insert. rewrite H.
  destruct (sc =? 0) eqn:E; [lia|]. cbn [fst snd].
  split; [reflexivity|]. split; [|split].
  - rewrite find_set_score, maddr_eqb_refl, H. reflexivity.
  - apply set_score_keys.
  - intros b Hb. rewrite find_set_score. rewrite maddr_eqb_neq; [reflexivity | congruence].
Qed.

(* a new address while there is room: appended with the (bonus-adjusted) score *)
Lemma insert_room k s a sc v :
  find a s = None -> (length s < cap k)%nat ->
  insert k s a sc v = (s ++ [(a, new_score k a sc)], Inserted).
Proof.
  intros H Hl. unfold insert, new_score. rewrite H.
  destruct (cap k <=? length s)%nat eqn:E; [lia | reflexivity].
Qed.

(* eviction: only at the bound, the victim has the minimal score, which is not above the
   newcomer's; everything else is untouched *)
Lemma insert_evicts_min k s a sc v w :
  NoDup (keys s) ->
  snd (insert k s a sc v) = Evicted w ->
  let s' := fst (insert k s a sc v) in
  exists m,
    find a s = None /\ (cap k <= length s)%nat /\
    find w s = Some m /\ (forall b z, In (b, z) s -> m <= z) /\ m <= new_score k a sc /\
    find w s' = None /\ find a s' = Some (new_score k a sc) /\
    length s' = length s /\
    forall b, b <> w -> b <> a -> find b s' = find b s.
Proof.
  intros Hnd. unfold insert, new_score.
  destruct (find a s) as [z0|] eqn:Hf; [destruct (sc =? 0); discriminate|].
  destruct (cap k <=? length s)%nat eqn:Hc; [|discriminate].
  destruct (min_score s) as [m|] eqn:Hm; [|discriminate].
  set (sc' := if is_global a then sat_add sc (bonus k) else sc).
  destruct (sc' <? m) eqn:Hlt; [discriminate|].
  destruct v as [v|]; [|discriminate].
  destruct (find v s) as [vs|] eqn:Hv; [|discriminate].
  destruct (vs =? m) eqn:He; [|discriminate].
  cbn [fst snd]. intros [= ->]. exists m.
  destruct (min_score_spec _ _ Hm) as [Hall _].
  assert (Hwa : w <> a) by (intros ->; rewrite Hf in Hv; discriminate).
  repeat split.
  - lia.
  - rewrite Hv. f_equal. lia.
  - exact Hall.
  - lia.
  - rewrite find_app, find_remove, maddr_eqb_refl by exact Hnd. cbn [find].
    rewrite maddr_eqb_neq; [reflexivity | congruence].
  - rewrite find_app, find_remove by exact Hnd.
    rewrite maddr_eqb_neq by exact Hwa. rewrite Hf. cbn [find]. rewrite maddr_eqb_refl. reflexivity.
  - rewrite app_length. cbn [length]. pose proof (remove_length _ _ _ Hv). lia.
  - intros b Hbw Hba. rewrite find_app, find_remove by exact Hnd.
    rewrite maddr_eqb_neq by congruence. cbn [find]. rewrite maddr_eqb_neq by congruence.
    destruct (find b s); reflexivity.
Qed.

(* the newcomer is dropped exactly when the store is full and its score is below the minimum *)
Lemma insert_dropped k s a sc v :
  snd (insert k s a sc v) = Dropped ->
  fst (insert k s a sc v) = s /\ find a s = None /\ (cap k <= length s)%nat /\
  forall b z, In (b, z) s -> new_score k a sc < z.
Proof.
  unfold insert, new_score.
  destruct (find a s) as [z0|] eqn:Hf; [destruct (sc =? 0); discriminate|].
  destruct (cap k <=? length s)%nat eqn:Hc; [|discriminate].
  destruct (min_score s) as [m|] eqn:Hm; [|discriminate].
  set (sc' := if is_global a then sat_add sc (bonus k) else sc).
  destruct (sc' <? m) eqn:Hlt.
  - intros _. cbn [fst]. repeat split; [lia|].
    intros b z Hin. destruct (min_score_spec _ _ Hm) as [Hall _]. specialize (Hall _ _ Hin). lia.
  - destruct v as [v|]; [|discriminate].
    destruct (find v s) as [vs|]; [|discriminate].
    destruct (vs =? m); discriminate.
Qed.

(* whatever happens, nothing but the victim disappears and nothing but `a` appears or changes *)
Lemma insert_frame k s a sc v b :
  NoDup (keys s) -> b <> a ->
  find b (fst (insert k s a sc v)) = find b s \/
  (snd (insert k s a sc v) = Evicted b /\ find b (fst (insert k s a sc v)) = None).
Proof.
  intros Hnd Hb. unfold insert.
  destruct (find a s) as [z0|] eqn:Hf.
  - destruct (sc =? 0); cbn [fst snd]; [now left|].
    left. rewrite find_set_score. rewrite maddr_eqb_neq; [reflexivity | congruence].
  - destruct (cap k <=? length s)%nat.
    + destruct (min_score s) as [m|]; [|now left].
      destruct ((if is_global a then sat_add sc (bonus k) else sc) <? m); [now left|].
      destruct v as [v|]; [|now left].
      destruct (find v s) as [vs|] eqn:Hv; [|now left].
      destruct (vs =? m); [|now left]. cbn [fst snd].
      rewrite find_app, find_remove by exact Hnd. cbn [find].
      rewrite (maddr_eqb_neq a b) by congruence.
      destruct (maddr_eqb v b) eqn:E.
      * apply maddr_eqb_spec in E. subst. right. split; reflexivity.
      * left. destruct (find b s); reflexivity.
    + cbn [fst]. left. rewrite find_app. cbn [find].
      rewrite (maddr_eqb_neq a b) by congruence. destruct (find b s); reflexivity.
Qed.

(* the choice can always be resolved: with the first minimal record as victim, insert never
   reports a bad choice (capacity >= 1) *)
Lemma first_with_find m s :
  NoDup (keys s) -> (exists b, In (b, m) s) ->
  exists w, first_with m s = Some w /\ find w s = Some m.
Proof.
  induction s as [|[b y] t IH]; cbn [first_with find keys map]; intros Hnd [b0 Hin]; [destruct Hin|].
  inversion Hnd as [|? ? Hn Hd]; subst.
  destruct (y =? m) eqn:E.
  - exists b. rewrite maddr_eqb_refl. split; [reflexivity | f_equal; lia].
  - destruct Hin as [H|H]; [injection H as _ ->; lia|].
    destruct (IH Hd (ex_intro _ b0 H)) as [w [Hw Hfw]]. exists w. split; [exact Hw|].
    destruct (maddr_eqb b w) eqn:E2; [|exact Hfw].
    apply maddr_eqb_spec in E2. subst. exfalso. apply Hn.
    apply find_some_in in Hfw. change w with (fst (w, m)). apply in_map. exact Hfw.
Qed.

Lemma insert_pick_min_ok k s a sc :
  NoDup (keys s) -> (1 <= cap k)%nat ->
  snd (insert k s a sc (pick_min s)) <> BadChoice.
Proof.
  intros Hnd Hcap. unfold insert, pick_min.
  destruct (find a s); [destruct (sc =? 0); discriminate|].
  destruct (cap k <=? length s)%nat eqn:Hc; [|discriminate].
  destruct (min_score s) as [m|] eqn:Hm.
  - destruct ((if is_global a then sat_add sc (bonus k) else sc) <? m); [discriminate|].
    destruct (min_score_spec _ _ Hm) as [_ Hex].
    destruct (first_with_find _ _ Hnd Hex) as [w [-> ->]].
    rewrite Z.eqb_refl. discriminate.
  - apply min_score_none in Hm. subst. cbn [length] in Hc. lia.
Qed.

(* ---------- addresses(limit): dial order ---------- *)

Definition ge_score (x y : maddr * Z) : Prop := snd y <= snd x.

Lemma ins_desc_perm x l : Permutation (ins_desc x l) (x :: l).
Proof.
  induction l as [|h t IH]; cbn [ins_desc]; [apply Permutation_refl|].
  destruct (snd h <? snd x); [apply Permutation_refl|].
  eapply Permutation_trans; [apply perm_skip; exact IH | apply perm_swap].
Qed.

Lemma sort_desc_perm s : Permutation (sort_desc s) s.
Proof.
  induction s as [|x t IH]; cbn [sort_desc fold_right]; [constructor|].
  eapply Permutation_trans; [apply ins_desc_perm | apply perm_skip; exact IH].
Qed.

Lemma ins_desc_sorted x l : StronglySorted ge_score l -> StronglySorted ge_score (ins_desc x l).
Proof.
  induction 1 as [|h t Hs IH Hh]; cbn [ins_desc]; [repeat constructor|].
  destruct (snd h <? snd x) eqn:E.
  - constructor; [constructor; assumption|].
    constructor; [unfold ge_score; lia|].
    rewrite Forall_forall in *. intros y Hy. specialize (Hh _ Hy). unfold ge_score in *. lia.
  - constructor; [exact IH|].
    rewrite Forall_forall in *. intros y Hy.
    apply (Permutation_in _ (ins_desc_perm x t)) in Hy. destruct Hy as [<-|Hy].
    + unfold ge_score. lia.
    + exact (Hh _ Hy).
Qed.

Lemma sort_desc_sorted s : StronglySorted ge_score (sort_desc s).
Proof.
  induction s as [|x t IH]; cbn [sort_desc fold_right]; [constructor|].
  apply ins_desc_sorted. exact IH.
Qed.

Lemma sorted_app_inv (l1 l2 : store) :
  StronglySorted ge_score (l1 ++ l2) ->
  StronglySorted ge_score l1 /\ forall x y, In x l1 -> In y l2 -> ge_score x y.
Proof.
  induction l1 as [|h t IH]; cbn [app]; intro H.
  - split; [constructor | intros x y []].
  - inversion H as [|? ? Hs Hh]; subst. destruct (IH Hs) as [Ht Hc]. split.
    + constructor; [exact Ht|]. rewrite Forall_forall in *. intros y Hy. apply Hh.
      apply in_or_app. now left.
    + intros x y [<-|Hx] Hy; [|exact (Hc _ _ Hx Hy)].
      rewrite Forall_forall in Hh. apply Hh. apply in_or_app. now right.
Qed.

Lemma addresses_spec limit s :
  let r := addresses limit s in
  length r = Nat.min limit (length s) /\
  StronglySorted ge_score r /\
  (forall x, In x r -> In x s) /\
  (forall x y, In x r -> In y s -> ~ In y r -> snd y <= snd x).
Proof.
  unfold addresses. set (l := sort_desc s).
  assert (Hp : Permutation l s) by apply sort_desc_perm.
  assert (Hs : StronglySorted ge_score (firstn limit l ++ skipn limit l))
    by (rewrite firstn_skipn; apply sort_desc_sorted).
  destruct (sorted_app_inv _ _ Hs) as [H1 H2]. cbn zeta. repeat split.
  - rewrite firstn_length, (Permutation_length Hp). reflexivity.
  - exact H1.
  - intros x Hx. apply (Permutation_in _ Hp). rewrite <- (firstn_skipn limit l).
    apply in_or_app. now left.
  - intros x y Hx Hy Hny. apply (Permutation_in _ (Permutation_sym Hp)) in Hy.
    rewrite <- (firstn_skipn limit l) in Hy. apply in_app_or in Hy.
    destruct Hy as [Hy|Hy]; [contradiction|]. exact (H2 _ _ Hx Hy).
Qed.

(* ---------- the book: invariants over all histories ---------- *)

Lemma get_put p q s b : get p (put q s b) = if N.eqb q p then Some s else get p b.
Proof.
  induction b as [|[r s0] t IH]; cbn [put get].
  - destruct (N.eqb q p); reflexivity.
  - destruct (N.eqb r q) eqn:E; cbn [get].
    + apply N.eqb_eq in E. subst r. destruct (N.eqb q p); reflexivity.
    + destruct (N.eqb r p) eqn:E2.
      * destruct (N.eqb q p) eqn:E3; [|reflexivity]. lia.
      * exact IH.
Qed.

Lemma with_peer_last p a q : last a (Other 0) = P2p q -> with_peer p a = a.
Proof. intro H. unfold with_peer. rewrite H. reflexivity. Qed.

Lemma mem_in a s : mem a s = true <-> In a (keys s).
Proof.
  unfold mem. destruct (find a s) eqn:E.
  - split; [intros _|reflexivity]. apply find_some_in in E.
    change a with (fst (a, z)). apply in_map. exact E.
  - split; [discriminate|]. intro H. apply find_none_notin in E. contradiction.
Qed.

(* an insert on a known address keeps the key set *)
Lemma insert_known_keys k s a sc v :
  In a (keys s) -> keys (fst (insert k s a sc v)) = keys s.
Proof.
  intro H. unfold insert. destruct (find a s) eqn:E.
  - destruct (sc =? 0); cbn [fst]; [reflexivity | apply set_score_keys].
  - apply find_none_notin in E. contradiction.
Qed.

Lemma combine_fst {A B} (l : list A) (m : list B) : length l = length m -> map fst (combine l m) = l.
Proof.
  revert m. induction l as [|x t IH]; intros [|y m] H; cbn in *; try reflexivity; try discriminate.
  f_equal. apply IH. congruence.
Qed.

Lemma tag_errs_fst errs off l : map fst (tag_errs errs off l) = l.
Proof. unfold tag_errs. apply combine_fst. rewrite map_length, seq_length. reflexivity. Qed.

Lemma sel_fst d want l a : In a (map fst (sel d want l)) -> In a (map fst l).
Proof. unfold sel. destruct (d =? want)%nat; [auto | intros []]. Qed.

Lemma sel2_fst d1 w1 l1 d2 w2 l2 a :
  In a (map fst (sel d1 w1 l1 ++ sel d2 w2 l2)) -> In a (map fst l1) \/ In a (map fst l2).
Proof.
  rewrite map_app. intro H. apply in_app_or in H. destruct H as [H|H]; apply sel_fst in H; auto.
Qed.

Section InsertKnown.
  Variable P : maddr -> Prop.

  Lemma insert_known_inv k s a sc v :
    In a (keys s) -> SInv P k s -> SInv P k (fst (insert k s a sc v)).
  Proof.
    intros H [Hb Hn Ha]. unfold insert. destruct (find a s) eqn:E.
    - destruct (sc =? 0); cbn [fst]; [split; assumption|].
      split; [rewrite set_score_length; exact Hb | rewrite set_score_keys; exact Hn
             | apply forall_set_score; exact Ha].
    - apply find_none_notin in E. contradiction.
  Qed.

  Lemma fail_each_inv k s l :
    (forall a, In a (map fst l) -> In a (keys s)) -> SInv P k s ->
    SInv P k (fail_each k s l) /\ keys (fail_each k s l) = keys s.
  Proof.
    revert s. induction l as [|[a e] t IH]; intros s Hl Hs; cbn [fail_each]; [split; [exact Hs | reflexivity]|].
    assert (Ha : In a (keys s)) by (apply Hl; now left).
    pose proof (insert_known_keys k s a (error_score k e) None Ha) as Hk.
    destruct (IH (fst (insert k s a (error_score k e) None))) as [H1 H2].
    - intros b Hb. rewrite Hk. apply Hl. now right.
    - apply insert_known_inv; assumption.
    - split; [exact H1 | rewrite H2; exact Hk].
  Qed.

  Lemma succeed_at_inv k s peer l j :
    (forall a, In a (map fst l) -> In a (keys s) /\ names peer a = true) -> SInv P k s ->
    SInv P k (succeed_at k s peer l j).
  Proof.
    intros Hl Hs. unfold succeed_at.
    destruct (fail_each_inv k s (firstn j l)) as [H1 Hk]; [|exact Hs|].
    { intros a Ha. apply Hl. rewrite <- (firstn_skipn j l), map_app. apply in_or_app. now left. }
    destruct (nth_error l j) as [[a e]|] eqn:E; [|exact H1].
    apply nth_error_In in E. destruct (Hl a) as [Hin Hn].
    { change a with (fst (a, e)). apply in_map. exact E. }
    assert (Hw : with_peer peer a = a).
    { unfold names in Hn. destruct (last a (Other 0)) eqn:El; try discriminate.
      exact (with_peer_last _ _ _ El). }
    rewrite Hw. apply insert_known_inv.
    - rewrite insert_known_keys; rewrite Hk; exact Hin.
    - apply insert_known_inv; [rewrite Hk; exact Hin | exact H1].
  Qed.

  Lemma succeed_at_keys_inv k s peer l j :
    (forall a, In a (map fst l) -> In a (keys s) /\ names peer a = true) -> SInv P k s ->
    keys (succeed_at k s peer l j) = keys s.
  Proof.
    intros Hl Hs. unfold succeed_at.
    destruct (fail_each_inv k s (firstn j l)) as [H1 Hk]; [|exact Hs|].
    { intros a Ha. apply Hl. rewrite <- (firstn_skipn j l), map_app. apply in_or_app. now left. }
    destruct (nth_error l j) as [[a e]|] eqn:E; [|exact Hk].
    apply nth_error_In in E. destruct (Hl a) as [Hin Hn].
    { change a with (fst (a, e)). apply in_map. exact E. }
    assert (Hw : with_peer peer a = a).
    { unfold names in Hn. destruct (last a (Other 0)) eqn:El; try discriminate.
      exact (with_peer_last _ _ _ El). }
    rewrite Hw. rewrite insert_known_keys.
    - rewrite insert_known_keys; [exact Hk | rewrite Hk; exact Hin].
    - rewrite insert_known_keys; rewrite Hk; exact Hin.
  Qed.

  Lemma mixed_outcome_inv k s peer before l j after :
    (forall a, In a (map fst before) -> In a (keys s)) ->
    (forall a, In a (map fst l) -> In a (keys s) /\ names peer a = true) ->
    (forall a, In a (map fst after) -> In a (keys s)) ->
    SInv P k s -> SInv P k (mixed_outcome k s peer before l j after).
  Proof.
    intros Hb Hl Ha Hs. unfold mixed_outcome.
    destruct (fail_each_inv k s before Hb Hs) as [H1 Hk1].
    assert (Hl1 : forall a, In a (map fst l) ->
                            In a (keys (fail_each k s before)) /\ names peer a = true).
    { intros a Hin. rewrite Hk1. exact (Hl a Hin). }
    pose proof (succeed_at_inv k _ peer l j Hl1 H1) as H2.
    pose proof (succeed_at_keys_inv k _ peer l j Hl1 H1) as Hk2.
    destruct (fail_each_inv k (succeed_at k (fail_each k s before) peer l j) after) as [H3 _];
      [|exact H2|exact H3].
    intros a Hin. rewrite Hk2, Hk1. exact (Ha a Hin).
  Qed.

  Lemma dial_outcome_inv k s peer outcome errs tcp ws qu :
    (forall a, In a (tcp ++ ws ++ qu) -> In a (keys s) /\ names peer a = true) -> SInv P k s ->
    SInv P k (dial_outcome k s peer outcome errs tcp ws qu).
  Proof.
    intros Hl Hs. unfold dial_outcome.
    assert (Ht : forall a, In a (map fst (tag_errs errs 0 tcp)) -> In a (keys s) /\ names peer a = true).
    { intros a Ha. rewrite tag_errs_fst in Ha. apply Hl. apply in_or_app. now left. }
    assert (Hw : forall a, In a (map fst (tag_errs errs (length tcp) ws)) -> In a (keys s) /\ names peer a = true).
    { intros a Ha. rewrite tag_errs_fst in Ha. apply Hl. apply in_or_app. right. apply in_or_app. now left. }
    assert (Hq : forall a, In a (map fst (tag_errs errs (length tcp + length ws) qu)) ->
                           In a (keys s) /\ names peer a = true).
    { intros a Ha. rewrite tag_errs_fst in Ha. apply Hl. apply in_or_app. right. apply in_or_app. now right. }
    destruct outcome as [|j0].
    - destruct (fail_each_inv k s (tag_errs errs 0 tcp)) as [H1 Hk]; [|exact Hs|].
      { intros a Ha. exact (proj1 (Ht a Ha)). }
      destruct (fail_each_inv k (fail_each k s (tag_errs errs 0 tcp)) (tag_errs errs (length tcp) ws))
        as [H2 Hk2]; [|exact H1|].
      { intros a Ha. rewrite Hk. exact (proj1 (Hw a Ha)). }
      destruct (fail_each_inv k (fail_each k (fail_each k s (tag_errs errs 0 tcp)) (tag_errs errs (length tcp) ws))
                  (tag_errs errs (length tcp + length ws) qu)) as [H3 _]; [|exact H2|exact H3].
      intros a Ha. rewrite Hk2, Hk. exact (proj1 (Hq a Ha)).
    - unfold dial_episode.
      destruct (j0 mod (length tcp + length ws + length qu) <? length tcp)%nat;
        [|destruct (j0 mod (length tcp + length ws + length qu) <? length tcp + length ws)%nat];
        (apply mixed_outcome_inv; [| assumption | | exact Hs];
         intros a Hin; apply sel2_fst in Hin; destruct Hin as [H|H];
         first [exact (proj1 (Ht a H)) | exact (proj1 (Hw a H)) | exact (proj1 (Hq a H))]).
  Qed.
End InsertKnown.

(* ---------- dial_address: what its address check lets through ---------- *)

Lemma is_host_not h : is_host h = true -> is_quic h = false /\ is_ws h = false.
Proof. destruct h; cbn; intro H; try discriminate H; split; reflexivity. Qed.

Lemma is_host_host h : is_host h = true -> exists ho, host_of h = Some ho.
Proof. destruct h; cbn; intro H; try discriminate H; eexists; reflexivity. Qed.

(* names its peer, belongs to an enabled transport, and that transport's parser accepts it with
   that peer (the host may be the unspecified address) *)
Definition remembered_ok (c : cfg) (p : N) (a : maddr) : Prop :=
  last a (Other 0) = P2p p /\ enabled c (route c a) = true /\
  exists ho port, parse (route c a) a = Some (ho, port, Some p).

Lemma own_listen_false c ls a :
  own_listen c ls a = false ->
  existsb (maddr_eqb a) (listen_set c ls) = false /\
  existsb (maddr_eqb (strip_p2p a)) (listen_set c ls) = false.
Proof. unfold own_listen. intro H. apply orb_false_iff in H. exact H. Qed.

Lemma dial_addr_ok_spec c st a t q :
  dial_addr_check c st a = DAOk t q ->
  free_capacity c st 0 <> None /\
  own_listen c (lst st) a = false /\
  route c a = t /\ remembered_ok c q a.
Proof.
  unfold dial_addr_check, remembered_ok.
  destruct (free_capacity c st 0) as [lim|]; [|discriminate].
  destruct (last a (Other 0)) eqn:Hl; try discriminate.
  destruct (own_listen c (lst st) a) eqn:Hself; [discriminate|].
  destruct a as [|h rest]; [discriminate|].
  destruct (is_host h) eqn:Hh; [|discriminate].
  destruct (is_host_not _ Hh) as [Hq Hw]. destruct (is_host_host _ Hh) as [ho Hho].
  destruct rest as [|x1 r1]; [discriminate|].
  destruct x1; try discriminate.
  - (* Tcp *)
    destruct r1 as [|x2 r2]; [discriminate|].
    destruct x2; try discriminate.
    + (* Ws *)
      destruct r2 as [|x3 r3]; [discriminate|].
      destruct x3; try discriminate. destruct r3; [|discriminate].
      destruct (enabled c TWs) eqn:He; [|discriminate]. intros [= <- <-].
      cbn [last] in Hl. injection Hl as ->.
      assert (Hr : route c [h; Tcp port; Ws; P2p p] = TWs).
      { unfold route. cbn [existsb is_quic is_ws]. rewrite Hq, Hw. cbn [orb].
        rewrite andb_false_r. cbn [enabled] in He. apply andb_true_iff in He. destruct He as [-> _].
        reflexivity. }
      rewrite Hr. repeat split; try congruence.
      exists ho, port. cbn [parse sock_parse port_of]. rewrite Hho. reflexivity.
    + (* Wss *)
      destruct r2 as [|x3 r3]; [discriminate|].
      destruct x3; try discriminate. destruct r3; [|discriminate].
      destruct (enabled c TWs) eqn:He; [|discriminate]. intros [= <- <-].
      cbn [last] in Hl. injection Hl as ->.
      assert (Hr : route c [h; Tcp port; Wss; P2p p] = TWs).
      { unfold route. cbn [existsb is_quic is_ws]. rewrite Hq, Hw. cbn [orb].
        rewrite andb_false_r. cbn [enabled] in He. apply andb_true_iff in He. destruct He as [-> _].
        reflexivity. }
      rewrite Hr. repeat split; try congruence.
      exists ho, port. cbn [parse sock_parse port_of]. rewrite Hho. reflexivity.
    + (* P2p *)
      destruct r2; [|discriminate].
      destruct (enabled c TTcp) eqn:He; [|discriminate]. intros [= <- <-].
      cbn [last] in Hl. injection Hl as ->.
      assert (Hr : route c [h; Tcp port; P2p p] = TTcp).
      { unfold route. cbn [existsb is_quic is_ws]. rewrite Hq, Hw. cbn [orb].
        rewrite !andb_false_r. reflexivity. }
      rewrite Hr. repeat split; try congruence.
      exists ho, port. cbn [parse sock_parse port_of]. rewrite Hho. reflexivity.
  - (* Udp *)
    destruct r1 as [|x2 r2]; [discriminate|].
    destruct x2; try discriminate.
    destruct r2 as [|x3 r3]; [discriminate|].
    destruct x3; try discriminate. destruct r3; [|discriminate].
    destruct (enabled c TQuic) eqn:He; [|discriminate]. intros [= <- <-].
    cbn [last] in Hl. injection Hl as ->.
    assert (Hr : route c [h; Udp port; QuicV1; P2p p] = TQuic).
    { unfold route. cbn [existsb is_quic is_ws]. rewrite Hq. cbn [orb].
      cbn [enabled] in He. apply andb_true_iff in He. destruct He as [-> _]. reflexivity. }
    rewrite Hr. repeat split; try congruence.
    exists ho, port. cbn [parse sock_parse port_of]. rewrite Hho. reflexivity.
Qed.

(* the two filters agree on shapes: what add_known_address would accept, dial_address dials
   (given free capacity, and unless it is literally a listen address) through the same transport *)
Lemma first_ok_is_host h : first_ok h = true -> is_host h = true.
Proof. destruct h; cbn; intro H; try discriminate H; reflexivity. Qed.

Lemma supported_dial_addr c st a :
  supported c a = true -> free_capacity c st 0 <> None ->
  own_listen c (lst st) a = false ->
  exists q, last a (Other 0) = P2p q /\ dial_addr_check c st a = DAOk (route c a) q.
Proof.
  intros Hs Hc Hself. destruct (supported_dialable _ _ Hs) as [q [Hl [He _]]].
  exists q. split; [exact Hl|]. unfold dial_addr_check.
  destruct (free_capacity c st 0); [|congruence]. rewrite Hl, Hself.
  destruct a as [|h rest]; cbn [supported] in Hs; [discriminate|].
  destruct (first_ok h) eqn:Hf; [|discriminate]. rewrite (first_ok_is_host _ Hf).
  destruct (first_ok_not _ Hf) as [Hq Hw].
  destruct rest as [|x1 r1]; [discriminate|].
  destruct x1; try discriminate.
  - destruct r1 as [|x2 r2]; [discriminate|].
    destruct x2; try discriminate.
    + destruct r2 as [|x3 r3]; [discriminate|].
      destruct x3; try discriminate. destruct r3; [|discriminate].
      rewrite Hs. f_equal. unfold route. cbn [existsb is_quic is_ws]. rewrite Hq, Hw. cbn [orb].
      rewrite andb_false_r. cbn [enabled] in Hs. apply andb_true_iff in Hs. destruct Hs as [-> _].
      reflexivity.
    + destruct r2 as [|x3 r3]; [discriminate|].
      destruct x3; try discriminate. destruct r3; [|discriminate].
      rewrite Hs. f_equal. unfold route. cbn [existsb is_quic is_ws]. rewrite Hq, Hw. cbn [orb].
      rewrite andb_false_r. cbn [enabled] in Hs. apply andb_true_iff in Hs. destruct Hs as [-> _].
      reflexivity.
    + destruct r2; [|discriminate].
      rewrite Hs. f_equal. unfold route. cbn [existsb is_quic is_ws]. rewrite Hq, Hw. cbn [orb].
      rewrite !andb_false_r. reflexivity.
  - destruct r1 as [|x2 r2]; [discriminate|].
    destruct x2; try discriminate.
    destruct r2 as [|x3 r3]; [discriminate|].
    destruct x3; try discriminate. destruct r3; [|discriminate].
    rewrite Hs. f_equal. unfold route. cbn [existsb is_quic is_ws]. rewrite Hq. cbn [orb].
    cbn [enabled] in Hs. apply andb_true_iff in Hs. destruct Hs as [-> _]. reflexivity.
Qed.

Section BookInv.
  Variable c : cfg.
  Variable k : scorecfg.
  (* L0: listen addresses registered before the history starts *)
  Variable L0 : list maddr.
  (* P p a: address a may be stored for peer p *)
  Variable P : N -> maddr -> Prop.
  (* what the user may hand to dial_address *)
  Variable dial_wf : maddr -> Prop.
  Hypothesis P_add : forall ls p a, incl L0 ls -> acceptable c ls p a -> P p a.
  Hypothesis P_dial : forall st a t q, incl L0 (lst st) -> dial_wf a -> dial_addr_check c st a = DAOk t q -> P q a.

  Definition BInv (b : book) : Prop := forall p s, get p b = Some s -> SInv (P p) k s.
  Definition StInv (st : state) : Prop := incl L0 (lst st) /\ BInv (bk st).

  (* what the environment may feed into the raw dial-result operations and dial_address *)
  Definition op_wf (o : op) : Prop :=
    match o with
    | ODialFailure a _ _ => forall p, last a (Other 0) = P2p p -> P p a
    | OEstablished peer a false _ => P peer (with_peer peer a)
    | OInsert peer a _ _ => P peer (with_peer peer a)
    | ODialAddr a _ _ => dial_wf a
    | ODialAddrRefused a _ => dial_wf a
    | _ => True
    end.

  Lemma sinv_empty p : SInv (P p) k [].
  Proof. split; [cbn; lia | constructor | constructor]. Qed.

  Lemma binv_get_or_empty b p : BInv b -> SInv (P p) k (get_or_empty p b).
  Proof.
    intro H. unfold get_or_empty. destruct (get p b) eqn:E; [exact (H _ _ E) | apply sinv_empty].
  Qed.

  Lemma binv_put b p s : BInv b -> SInv (P p) k s -> BInv (put p s b).
  Proof.
    intros Hb Hs q s0. rewrite get_put. destruct (N.eqb p q) eqn:E.
    - apply N.eqb_eq in E. subst. intros [= <-]. exact Hs.
    - apply Hb.
  Qed.

  Lemma insert_all_inv p s l victims :
    SInv (P p) k s -> Forall (P p) l -> SInv (P p) k (fst (insert_all k s l victims)).
  Proof.
    revert s victims. induction l as [|a t IH]; intros s victims Hs Hl; cbn [insert_all]; [exact Hs|].
    inversion Hl as [|? ? Ha Ht]; subst.
    set (v := match victims with v :: _ => Some v | [] => None end).
    pose proof (insert_inv (P p) k s a 0 v Hs Ha) as H1.
    destruct (insert k s a 0 v) as [s1 r]. cbn [fst] in H1.
    set (victims' := match r with Evicted _ => tl victims | _ => victims end).
    specialize (IH s1 victims' H1 Ht).
    destruct (insert_all k s1 t victims') as [s2 bad]. exact IH.
  Qed.

  Lemma same_set_incl order acc a : same_set order acc = true -> In a order -> In a acc.
  Proof.
    unfold same_set. intros H Hin. apply andb_true_iff in H. destruct H as [_ H].
    rewrite forallb_forall in H. apply existsb_maddr. exact (H _ Hin).
  Qed.

  Lemma step_inv st o : StInv st -> op_wf o -> StInv (fst (step c k st o)).
  Proof.
    intros [Hl Hb] Hwf.
    destruct o as [peer addrs order victims | a f victim | peer a listener victim
                  | peer limit obs | a | a | n | peer outcome errs tcp ws qu
                  | peer a sc victim | a res victims | a | a | a victims]; cbn [step].
    - destruct (same_set order (accepted c (lst st) peer addrs)) eqn:Hss; [|split; assumption].
      pose proof (insert_all_inv peer (get_or_empty peer (bk st)) order victims
                    (binv_get_or_empty (bk st) peer Hb)) as H.
      destruct (insert_all k (get_or_empty peer (bk st)) order victims) as [s' bad].
      cbn [fst set_bk lst bk] in *. split; [exact Hl|]. apply binv_put; [exact Hb|]. apply H.
      apply Forall_forall. intros x Hx. apply (P_add (lst st)); [exact Hl|].
      exact (proj2 (accepted_acceptable _ _ _ _ _ (same_set_incl _ _ _ Hss Hx))).
    - destruct (last a (Other 0)) eqn:Hla; try (split; assumption).
      cbn [op_wf] in Hwf. specialize (Hwf _ Hla).
      rewrite (with_peer_last p a p Hla).
      pose proof (insert_inv (P p) k (get_or_empty p (bk st)) a (error_score k f) victim
                    (binv_get_or_empty (bk st) p Hb) Hwf) as H.
      destruct (insert k (get_or_empty p (bk st)) a (error_score k f) victim) as [s' r].
      cbn [fst set_bk lst bk] in *. split; [exact Hl|]. apply binv_put; assumption.
    - destruct listener; [split; assumption|]. cbn [op_wf] in Hwf.
      pose proof (insert_inv (P peer) k (get_or_empty peer (bk st)) (with_peer peer a)
                    (sc_established k) victim (binv_get_or_empty (bk st) peer Hb) Hwf) as H.
      destruct (insert k (get_or_empty peer (bk st)) (with_peer peer a) (sc_established k) victim)
        as [s' r].
      cbn [fst set_bk lst bk] in *. split; [exact Hl|]. apply binv_put; assumption.
    - split; assumption.
    - split; assumption.
    - cbn [fst lst bk]. split; [|exact Hb]. intros x Hx. apply in_or_app. left. exact (Hl _ Hx).
    - destruct (en_tcp c || feat_ws c && en_ws c || feat_quic c && en_quic c); cbn [fst lst bk]; split; assumption.
    - set (s := get_or_empty peer (bk st)).
      destruct (existsb (fun x => negb (enabled c (route c (fst x)) && names peer (fst x))) s) eqn:Hg;
        [split; assumption|].
      destruct (free_capacity c st (length s)) as [limit|]; [|split; assumption].
      destruct (N.eqb peer (local_peer c)); [split; assumption|].
      destruct s as [|x0 s0] eqn:Hs; [split; assumption|]. rewrite <- Hs in *.
      destruct (forallb (fun a => mem a s) (tcp ++ ws ++ qu)) eqn:Hm; cbn [andb]; [|split; assumption].
      destruct (forallb (fun a => match route c a with TTcp => true | _ => false end) tcp &&
                forallb (fun a => match route c a with TWs => true | _ => false end) ws &&
                forallb (fun a => match route c a with TQuic => true | _ => false end) qu &&
                addresses_ok limit s (merge_desc (merge_desc (with_scores s tcp) (with_scores s ws))
                                                 (with_scores s qu)));
        [|split; assumption].
      cbn [fst set_bk lst bk]. split; [exact Hl|]. apply binv_put; [exact Hb|].
      apply dial_outcome_inv; [|exact (binv_get_or_empty (bk st) peer Hb)].
      intros a Ha. rewrite forallb_forall in Hm. specialize (Hm _ Ha). apply mem_in in Hm.
      split; [exact Hm|].
      apply in_map_iff in Hm. destruct Hm as [x [Hx1 Hx2]].
      destruct (names peer a) eqn:Hn; [reflexivity|].
      assert (existsb (fun x => negb (enabled c (route c (fst x)) && names peer (fst x))) s = true).
      { apply existsb_exists. exists x. split; [exact Hx2|]. rewrite Hx1, Hn, andb_false_r. reflexivity. }
      congruence.
    - cbn [op_wf] in Hwf.
      pose proof (insert_inv (P peer) k (get_or_empty peer (bk st)) (with_peer peer a)
                    sc victim (binv_get_or_empty (bk st) peer Hb) Hwf) as H.
      destruct (insert k (get_or_empty peer (bk st)) (with_peer peer a) sc victim) as [s' r].
      cbn [fst set_bk lst bk] in *. split; [exact Hl|]. apply binv_put; assumption.
    - cbn [op_wf] in Hwf.
      destruct (dial_addr_check c st a) as [| | | |t q] eqn:Hd; try (split; assumption).
      pose proof (P_dial st a t q Hl Hwf Hd) as Pa.
      pose proof (insert_inv (P q) k (get_or_empty q (bk st)) a 0 (hd_error victims)
                    (binv_get_or_empty (bk st) q Hb) Pa) as H1.
      destruct (insert k (get_or_empty q (bk st)) a 0 (hd_error victims)) as [s1 r1].
      cbn [fst] in H1.
      set (victims1 := match r1 with Evicted _ => tl victims | _ => victims end).
      set (sc := match res with Some e => error_score k e | None => sc_established k end).
      pose proof (insert_inv (P q) k s1 a sc (hd_error victims1) H1 Pa) as H2.
      destruct (insert k s1 a sc (hd_error victims1)) as [s2 r2].
      cbn [fst set_bk lst bk] in *. split; [exact Hl|]. apply binv_put; assumption.
    - destruct (public_add c (pubs st) a) as [ps r]. cbn [fst lst bk]. split; assumption.
    - cbn [fst lst bk]. split; assumption.
    - cbn [op_wf] in Hwf.
      destruct (dial_addr_check c st a) as [| | | |t q] eqn:Hd; try (split; assumption).
      pose proof (P_dial st a t q Hl Hwf Hd) as Pa.
      pose proof (insert_inv (P q) k (get_or_empty q (bk st)) a 0 (hd_error victims)
                    (binv_get_or_empty (bk st) q Hb) Pa) as H1.
      destruct (insert k (get_or_empty q (bk st)) a 0 (hd_error victims)) as [s1 r1].
      cbn [fst set_bk lst bk] in *. split; [exact Hl|]. apply binv_put; assumption.
  Qed.

  Lemma run_inv h st : StInv st -> Forall op_wf h -> StInv (fst (run c k st h)).
  Proof.
    revert st. induction h as [|o t IH]; intros st Hs Hw; cbn [run]; [exact Hs|].
    inversion Hw as [|? ? Ho Ht]; subst.
    pose proof (step_inv st o Hs Ho) as H1.
    destruct (step c k st o) as [st1 r]. cbn [fst] in H1.
    specialize (IH st1 H1 Ht). destruct (run c k st1 t) as [st2 rs]. exact IH.
  Qed.

  Lemma stinv_start : StInv (mkState [] L0 0 []).
  Proof. split; [apply incl_refl|]. intros p s. cbn [bk get]. discriminate. Qed.
End BookInv.

(* bound and key uniqueness need no assumption on the environment *)
Lemma op_wf_true o : op_wf (fun _ _ => True) (fun _ => True) o.
Proof. destruct o as [| | ? ? [|] ?| | | | | | | | | |]; cbn; auto. Qed.

Lemma final_bound c k h p s :
  get p (bk (final c k h)) = Some s -> (length s <= cap k)%nat /\ NoDup (keys s).
Proof.
  intro H.
  assert (Hi : StInv k [] (fun _ _ => True) (final c k h)).
  { apply (run_inv c k [] (fun _ _ => True) (fun _ => True)); [auto | auto | apply (stinv_start k []) |].
    apply Forall_forall. intros o _. apply op_wf_true. }
  destruct Hi as [_ Hi]. destruct (Hi _ _ H) as [Hb Hn _]. split; assumption.
Qed.

(* what may be handed to dial_address when the strong invariant is wanted: an address that
   add_known_address would have accepted for the peer it names *)
Definition dial_acceptable (c : cfg) (L0 : list maddr) (a : maddr) : Prop :=
  forall q, last a (Other 0) = P2p q -> acceptable c L0 q a.
Definition op_ok (c : cfg) (L0 : list maddr) : op -> Prop :=
  op_wf (acceptable c L0) (dial_acceptable c L0).

Lemma acceptable_hyps c L0 :
  (forall ls p a, incl L0 ls -> acceptable c ls p a -> acceptable c L0 p a) /\
  (forall st a t q, incl L0 (lst st) -> dial_acceptable c L0 a -> dial_addr_check c st a = DAOk t q -> acceptable c L0 q a).
Proof.
  split.
  - intros ls q b Hincl [H1 [H2 H3]]. repeat split; [exact H1 | | exact H3].
    exact (is_local_mono _ _ _ _ Hincl H2).
  - intros st a t q _ Hw Hd. apply Hw.
    destruct (dial_addr_ok_spec _ _ _ _ _ Hd) as [_ [_ [_ [Hl _]]]]. exact Hl.
Qed.

(* attribution, locality and dialability of everything remembered: if the node registered the
   listen addresses L0 first, the dial results reported by the transports are about addresses
   acceptable for that peer and so are the addresses handed to dial_address, then whatever happens
   afterwards (including further listen addresses) every remembered address names its peer, is
   supported, dialable, and is not local with respect to L0 *)
Lemma run_acceptable c k L0 h p s a z :
  Forall (op_ok c L0) h ->
  get p (bk (fst (run c k (mkState [] L0 0 []) h))) = Some s -> In (a, z) s ->
  acceptable c L0 p a /\ dialable c a p.
Proof.
  intros Hw Hg Hin. destruct (acceptable_hyps c L0) as [Ha1 Ha2].
  assert (Hi : StInv k L0 (acceptable c L0) (fst (run c k (mkState [] L0 0 []) h))).
  { apply (run_inv c k L0 _ (dial_acceptable c L0)); [exact Ha1|exact Ha2|apply stinv_start|exact Hw]. }
  destruct Hi as [_ Hi]. destruct (Hi _ _ Hg) as [_ _ Ha]. rewrite Forall_forall in Ha.
  specialize (Ha _ Hin). cbn [fst] in Ha. split; [exact Ha|].
  destruct Ha as [Hs [_ Hl]]. destruct (supported_dialable _ _ Hs) as [q [Hq Hd]].
  rewrite Hl in Hq. injection Hq as <-. exact Hd.
Qed.

(* the invariant is inductive from any state *)
Lemma step_acceptable c k L0 st o :
  StInv k L0 (acceptable c L0) st -> op_ok c L0 o ->
  StInv k L0 (acceptable c L0) (fst (step c k st o)).
Proof.
  destruct (acceptable_hyps c L0) as [Ha1 Ha2].
  apply (step_inv c k L0 _ (dial_acceptable c L0)); assumption.
Qed.

(* the weaker statement that also covers everything dial_address stores, whatever it is handed:
   every remembered address names its peer and is parsed, with that peer, by the enabled transport
   it is routed to. (dial_address does not apply the unspecified-host and is_local filters of
   add_known_address; it only refuses addresses that literally are listen addresses.) *)
Definition op_weak (c : cfg) : op -> Prop := op_wf (remembered_ok c) (fun _ => True).

Lemma acceptable_remembered c ls p a : acceptable c ls p a -> remembered_ok c p a.
Proof.
  intros [Hs [_ Hl]]. destruct (supported_dialable _ _ Hs) as [q [Hq [He [ho [port [Hp _]]]]]].
  rewrite Hl in Hq. injection Hq as <-. split; [exact Hl|]. split; [exact He|].
  exists ho, port. exact Hp.
Qed.

Lemma run_remembered c k L0 h p s a z :
  Forall (op_weak c) h ->
  get p (bk (fst (run c k (mkState [] L0 0 []) h))) = Some s -> In (a, z) s ->
  remembered_ok c p a.
Proof.
  intros Hw Hg Hin.
  assert (Hi : StInv k L0 (remembered_ok c) (fst (run c k (mkState [] L0 0 []) h))).
  { apply (run_inv c k L0 _ (fun _ => True)); [| |apply stinv_start|exact Hw].
    - intros ls q b _ Ha. exact (acceptable_remembered _ _ _ _ Ha).
    - intros st b t q _ _ Hd. exact (proj2 (proj2 (proj2 (dial_addr_ok_spec _ _ _ _ _ Hd)))). }
  destruct Hi as [_ Hi]. destruct (Hi _ _ Hg) as [_ _ Ha]. rewrite Forall_forall in Ha.
  exact (Ha _ Hin).
Qed.

(* ... and none of them is one of the node's own listen addresses L0, under whatever peer id:
   add_known_address strips the /p2p suffix before it looks the address up in the listen set, and
   so does dial_address (TriedToDialSelf). No condition on what dial_address is handed. *)
Definition not_own (c : cfg) (ls : list maddr) (a : maddr) : Prop :=
  existsb (maddr_eqb (strip_p2p a)) (listen_set c ls) = false.
Definition remembered_strict (c : cfg) (L0 : list maddr) (p : N) (a : maddr) : Prop :=
  remembered_ok c p a /\ not_own c L0 a.
Definition op_strict (c : cfg) (L0 : list maddr) : op -> Prop :=
  op_wf (remembered_strict c L0) (fun _ => True).

Lemma not_own_mono c l1 l2 a : incl l1 l2 -> not_own c l2 a -> not_own c l1 a.
Proof.
  unfold not_own. intros Hi H. exact (existsb_incl _ _ _ (listen_set_incl c _ _ Hi) H).
Qed.

Lemma is_local_not_own c ls a : is_local c ls a = false -> not_own c ls a.
Proof.
  unfold is_local, not_own.
  destruct (existsb (maddr_eqb (strip_p2p a)) (listen_set c ls)); [discriminate|reflexivity].
Qed.

Lemma not_own_spec c ls a :
  not_own c ls a <->
  forall l, In l ls -> strip_p2p a <> l /\ strip_p2p a <> l ++ [P2p (local_peer c)].
Proof.
  unfold not_own. split.
  - intros H l Hl.
    assert (Hn : forall x, In x (listen_set c ls) -> strip_p2p a <> x).
    { intros x Hx Heq. assert (existsb (maddr_eqb (strip_p2p a)) (listen_set c ls) = true).
      { apply existsb_maddr. rewrite Heq. exact Hx. } congruence. }
    split; apply Hn; unfold listen_set; apply in_flat_map; exists l; (split; [exact Hl|]); cbn; auto.
  - intro H. destruct (existsb (maddr_eqb (strip_p2p a)) (listen_set c ls)) eqn:E; [|reflexivity].
    apply existsb_maddr in E. unfold listen_set in E. apply in_flat_map in E.
    destruct E as [l [Hl Hx]]. destruct (H l Hl) as [H1 H2].
    cbn in Hx. destruct Hx as [Hx|[Hx|[]]]; congruence.
Qed.

Lemma run_strict c k L0 h p s a z :
  Forall (op_strict c L0) h ->
  get p (bk (fst (run c k (mkState [] L0 0 []) h))) = Some s -> In (a, z) s ->
  remembered_strict c L0 p a.
Proof.
  intros Hw Hg Hin.
  assert (Hi : StInv k L0 (remembered_strict c L0) (fst (run c k (mkState [] L0 0 []) h))).
  { apply (run_inv c k L0 _ (fun _ => True)); [| |apply stinv_start|exact Hw].
    - intros ls q b Hincl Ha. split; [exact (acceptable_remembered _ _ _ _ Ha)|].
      destruct Ha as [_ [Hloc _]]. exact (not_own_mono _ _ _ _ Hincl (is_local_not_own _ _ _ Hloc)).
    - intros st b t q Hincl _ Hd.
      destruct (dial_addr_ok_spec _ _ _ _ _ Hd) as [_ [Hown [_ Hr]]]. split; [exact Hr|].
      exact (not_own_mono _ _ _ _ Hincl (proj2 (own_listen_false _ _ _ Hown))). }
  destruct Hi as [_ Hi]. destruct (Hi _ _ Hg) as [_ _ Ha]. rewrite Forall_forall in Ha.
  exact (Ha _ Hin).
Qed.

(* TransportService::add_known_address: what is remembered is an offered address that names the
   peer, or an offered address that ends in no peer id with the id appended *)
Lemma ts_prepare_spec peer l : ts_prepare peer l = map (with_peer peer) l.
Proof. reflexivity. Qed.

Lemma service_offer c ls peer l a :
  In a (accepted c ls peer (ts_prepare peer l)) ->
  (exists a0, In a0 l /\
     ((last a0 (Other 0) = P2p peer /\ a = a0) \/
      ((forall q, last a0 (Other 0) <> P2p q) /\ a = a0 ++ [P2p peer]))) /\
  supported c a = true /\ is_local c ls a = false /\ last a (Other 0) = P2p peer.
Proof.
  intro H. destruct (accepted_acceptable _ _ _ _ _ H) as [Hin [Hs [Hloc Hl]]].
  split; [|repeat split; assumption].
  unfold ts_prepare in Hin. apply in_map_iff in Hin. destruct Hin as [a0 [Ha Hin]].
  exists a0. split; [exact Hin|].
  destruct (last a0 (Other 0)) eqn:E;
    try (right; split; [intros q; discriminate | symmetry; exact Ha]).
  left. subst a. rewrite E in Hl. injection Hl as ->. split; reflexivity.
Qed.

(* Litep2p level: Litep2p::new registers the listen addresses ls of its transports and then adds
   the configured known addresses; afterwards only add_known_address is used. Whatever is
   remembered is supported, names its peer and is not local with respect to ls. *)
Definition only_adds (h : list op) : Prop :=
  Forall (fun o => match o with OAdd _ _ _ _ => True | _ => False end) h.

Lemma litep2p_level c k ls h p s a z :
  only_adds h ->
  get p (bk (fst (run c k (mkState [] ls 0 []) h))) = Some s -> In (a, z) s ->
  acceptable c ls p a /\ dialable c a p.
Proof.
  intros Ho. apply run_acceptable. unfold only_adds in Ho. rewrite Forall_forall in *.
  intros o Hin. specialize (Ho o Hin). destruct o; try contradiction. exact I.
Qed.

(* add_known_address on addresses that are all known already changes nothing *)
Lemma insert_all_rediscovery k s l victims :
  (forall a, In a l -> find a s <> None) -> insert_all k s l victims = (s, false).
Proof.
  revert victims. induction l as [|a t IH]; intros victims H; cbn [insert_all]; [reflexivity|].
  destruct (find a s) as [z0|] eqn:Hf; [|exfalso; apply (H a); [now left | exact Hf]].
  rewrite (insert_rediscovery k s a _ z0 Hf).
  rewrite IH; [reflexivity|]. intros b Hb. apply H. now right.
Qed.

Lemma final_bound_default c h p s :
  get p (bk (final c default_scores h)) = Some s ->
  (N.of_nat (length s) <= Consts.MAX_ADDRESSES)%N.
Proof.
  intro H. destruct (final_bound _ _ _ _ _ H) as [Hb _]. cbn [cap default_scores] in Hb. lia.
Qed.

(* ---------- the validator of an observed addresses(limit) means what it says ---------- *)

Lemma nonincreasing_sorted (l : list Z) :
  nonincreasing l = true -> StronglySorted (fun x y => y <= x) l.
Proof.
  induction l as [|x t IH]; [constructor|].
  cbn [nonincreasing]. destruct t as [|y t'].
  - intros _. constructor; constructor.
  - intro H. apply andb_true_iff in H. destruct H as [H1 H2].
    specialize (IH H2). constructor; [exact IH|].
    inversion IH as [|? ? Hs Hy]; subst. constructor; [lia|].
    rewrite Forall_forall in *. intros z Hz. specialize (Hy _ Hz). lia.
Qed.

Lemma nodup_addrs_spec l : nodup_addrs l = true -> NoDup l.
Proof.
  induction l as [|a t IH]; cbn [nodup_addrs]; [constructor|].
  intro H. apply andb_true_iff in H. destruct H as [H1 H2]. constructor; [|exact (IH H2)].
  intro Hin. apply existsb_maddr in Hin. rewrite Hin in H1. discriminate.
Qed.

Lemma addresses_ok_sound limit s obs :
  addresses_ok limit s obs = true ->
  length obs = Nat.min limit (length s) /\
  (forall a z, In (a, z) obs -> find a s = Some z) /\
  NoDup (map fst obs) /\
  StronglySorted (fun x y => y <= x) (map snd obs) /\
  (forall b y, In (b, y) s -> ~ In b (map fst obs) -> forall a z, In (a, z) obs -> y <= z).
Proof.
  unfold addresses_ok. intro H.
  apply andb_true_iff in H. destruct H as [H Htop].
  apply andb_true_iff in H. destruct H as [H Hsorted].
  apply andb_true_iff in H. destruct H as [H Hnd].
  apply andb_true_iff in H. destruct H as [H Hfind].
  repeat split.
  - apply Nat.eqb_eq in H. exact H.
  - intros a z Hin. rewrite forallb_forall in Hfind. specialize (Hfind _ Hin). cbn [fst snd] in Hfind.
    destruct (find a s) as [z'|]; [|discriminate]. f_equal. lia.
  - apply nodup_addrs_spec. exact Hnd.
  - apply nonincreasing_sorted. exact Hsorted.
  - intros b y Hin Hnot a z Hobs. rewrite forallb_forall in Htop. specialize (Htop _ Hin).
    cbn [fst snd] in Htop. apply orb_true_iff in Htop. destruct Htop as [Hex|Hall].
    + apply existsb_maddr in Hex. contradiction.
    + rewrite forallb_forall in Hall. specialize (Hall _ Hobs). cbn [snd] in Hall. lia.
Qed.

(* ... and the model's own selection passes it (the validator is satisfiable) *)
Lemma sorted_nonincreasing (l : list Z) :
  StronglySorted (fun x y => y <= x) l -> nonincreasing l = true.
Proof.
  induction 1 as [|x t Hs IH Hx]; [reflexivity|].
  cbn [nonincreasing]. destruct t as [|y t']; [reflexivity|].
  apply andb_true_iff. split; [|exact IH].
  inversion Hx as [|? ? Hy _]; subst. lia.
Qed.

Lemma nodup_addrs_complete l : NoDup l -> nodup_addrs l = true.
Proof.
  induction 1 as [|a t Hn Hd IH]; cbn [nodup_addrs]; [reflexivity|].
  apply andb_true_iff. split; [|exact IH].
  destruct (existsb (maddr_eqb a) t) eqn:E; [|reflexivity].
  apply existsb_maddr in E. contradiction.
Qed.

Lemma sorted_map_snd (l : store) :
  StronglySorted ge_score l -> StronglySorted (fun x y => y <= x) (map snd l).
Proof.
  induction 1 as [|x t Hs IH Hx]; cbn [map]; constructor; [exact IH|].
  rewrite Forall_forall in *. intros z Hz. apply in_map_iff in Hz.
  destruct Hz as [y [<- Hy]]. exact (Hx _ Hy).
Qed.

Lemma nodup_firstn {A} (l : list A) n : NoDup l -> NoDup (firstn n l).
Proof.
  revert n. induction l as [|x t IH]; intros n Hnd; destruct n; cbn [firstn]; try constructor.
  - inversion Hnd as [|? ? Hx Hd]; subst. intro Hin. apply Hx.
    rewrite <- (firstn_skipn n t). apply in_or_app. now left.
  - inversion Hnd as [|? ? Hx Hd]; subst. exact (IH n Hd).
Qed.

Lemma addresses_ok_complete limit s :
  NoDup (keys s) -> addresses_ok limit s (addresses limit s) = true.
Proof.
  intro Hnd. destruct (addresses_spec limit s) as [Hlen [Hsort [Hin Htop]]].
  unfold addresses_ok. repeat (apply andb_true_iff; split).
  - apply Nat.eqb_eq. exact Hlen.
  - apply forallb_forall. intros [a z] Hx. cbn [fst snd].
    rewrite (in_find_nodup a z s Hnd (Hin _ Hx)). apply Z.eqb_refl.
  - apply nodup_addrs_complete. unfold addresses. rewrite <- firstn_map. apply nodup_firstn.
    apply (Permutation_NoDup (l := keys s)); [|exact Hnd].
    apply Permutation_sym, Permutation_map, sort_desc_perm.
  - apply sorted_nonincreasing, sorted_map_snd. exact Hsort.
  - apply forallb_forall. intros y Hy.
    destruct (existsb (maddr_eqb (fst y)) (map fst (addresses limit s))) eqn:E; [reflexivity|].
    cbn [orb]. apply forallb_forall. intros x Hx.
    assert (Hny : ~ In y (addresses limit s)).
    { intro Hc. assert (Hk : In (fst y) (map fst (addresses limit s))) by (apply in_map; exact Hc).
      apply existsb_maddr in Hk. rewrite Hk in E. discriminate. }
    specialize (Htop x y Hx Hy Hny). lia.
Qed.

(* ---------- dial(peer): what is tried and how the outcome is recorded ---------- *)

Lemma merge_desc_perm l1 l2 : Permutation (merge_desc l1 l2) (l1 ++ l2).
Proof.
  revert l2. induction l1 as [|x t1 IH]; intro l2.
  - destruct l2; apply Permutation_refl.
  - induction l2 as [|y t2 IH2].
    + cbn [merge_desc]. rewrite app_nil_r. apply Permutation_refl.
    + cbn [merge_desc]. destruct (snd x <? snd y).
      * eapply Permutation_trans; [apply perm_skip; exact IH2|].
        apply (Permutation_middle (x :: t1) t2 y).
      * cbn [app]. apply perm_skip. apply IH.
Qed.

Lemma in_keys_find a s : In a (keys s) -> exists z, find a s = Some z.
Proof.
  intro H. destruct (find a s) as [z|] eqn:E; [exists z; reflexivity|].
  apply find_none_notin in E. contradiction.
Qed.

Lemma classic_in (b : maddr) l : In b l \/ ~ In b l.
Proof.
  destruct (existsb (maddr_eqb b) l) eqn:E.
  - left. apply existsb_maddr. exact E.
  - right. intro H. apply existsb_maddr in H. congruence.
Qed.

(* the error kind recorded for an address in a list of failed attempts *)
Fixpoint lookup_err (b : maddr) (l : list (maddr * dial_error)) : option dial_error :=
  match l with
  | [] => None
  | (a, e) :: t => if maddr_eqb a b then Some e else lookup_err b t
  end.

Lemma lookup_err_none b l : lookup_err b l = None <-> ~ In b (map fst l).
Proof.
  induction l as [|[a e] t IH]; cbn [lookup_err map fst In]; [tauto|].
  destruct (maddr_eqb a b) eqn:E.
  - apply maddr_eqb_spec in E. subst. split; [discriminate | intro H; exfalso; apply H; now left].
  - apply maddr_eqb_false in E. rewrite IH. tauto.
Qed.

Lemma lookup_err_some b l e : lookup_err b l = Some e -> In b (map fst l).
Proof.
  intro H. destruct (lookup_err_none b l) as [_ H2].
  destruct (classic_in b (map fst l)) as [Hin|Hn]; [exact Hin|].
  rewrite (H2 Hn) in H. discriminate.
Qed.

Lemma lookup_err_app b l1 l2 :
  lookup_err b (l1 ++ l2) = match lookup_err b l1 with Some e => Some e | None => lookup_err b l2 end.
Proof.
  induction l1 as [|[a e] t IH]; cbn [app lookup_err]; [reflexivity|].
  destruct (maddr_eqb a b); [reflexivity | exact IH].
Qed.

Lemma fail_each_keys k s l :
  (forall a, In a (map fst l) -> In a (keys s)) -> keys (fail_each k s l) = keys s.
Proof.
  revert s. induction l as [|[a e] t IH]; intros s Hl; cbn [fail_each]; [reflexivity|].
  assert (Ha : In a (keys s)) by (apply Hl; now left).
  pose proof (insert_known_keys k s a (error_score k e) None Ha) as Hk.
  rewrite IH; [exact Hk|]. intros x Hx. rewrite Hk. apply Hl. now right.
Qed.

(* every failed attempt re-scores exactly its address to the score of its error kind *)
Lemma fail_each_find k s l b :
  NoDup (keys s) -> NoDup (map fst l) -> (forall a, In a (map fst l) -> In a (keys s)) ->
  (forall e, error_score k e <> 0) ->
  find b (fail_each k s l) =
    match lookup_err b l with Some e => Some (error_score k e) | None => find b s end.
Proof.
  intros Hnd Hndl Hl Hf. revert s Hnd Hl.
  induction l as [|[a e] t IH]; intros s Hnd Hl; cbn [fail_each lookup_err]; [reflexivity|].
  inversion Hndl as [|? ? Hna Hndt]; subst.
  assert (Ha : In a (keys s)) by (apply Hl; now left).
  destruct (in_keys_find _ _ Ha) as [z0 Hz].
  destruct (insert_rescore k s a (error_score k e) None z0 Hz (Hf e)) as [_ [H1 [H2 H3]]].
  rewrite (IH Hndt).
  - destruct (maddr_eqb a b) eqn:E.
    + apply maddr_eqb_spec in E. subst b.
      assert (Hn : lookup_err a t = None) by (apply lookup_err_none; exact Hna).
      rewrite Hn. exact H1.
    + destruct (lookup_err b t); [reflexivity|].
      apply H3. intros ->. rewrite maddr_eqb_refl in E. discriminate.
  - rewrite H2. exact Hnd.
  - intros x Hx. rewrite H2. apply Hl. now right.
Qed.

Lemma nodup_app_l {A} (l1 l2 : list A) : NoDup (l1 ++ l2) -> NoDup l1.
Proof.
  induction l1 as [|x t IH]; cbn [app]; intro H; [constructor|].
  inversion H as [|? ? Hx Hd]; subst. constructor; [|exact (IH Hd)].
  intro Hin. apply Hx. apply in_or_app. now left.
Qed.

Lemma nodup_app_r {A} (l1 l2 : list A) : NoDup (l1 ++ l2) -> NoDup l2.
Proof.
  induction l1 as [|x t IH]; cbn [app]; intro H; [exact H|].
  inversion H; subst. apply IH. assumption.
Qed.

Lemma fail_each_app k s l1 l2 : fail_each k (fail_each k s l1) l2 = fail_each k s (l1 ++ l2).
Proof.
  revert s. induction l1 as [|[a e] t IH]; intro s; cbn [fail_each app]; [reflexivity|]. apply IH.
Qed.

(* the attempts of a dial, in the order tcp ++ ws ++ qu, each with its error kind *)
Definition attempts (errs : list dial_error) (tcp ws qu : list maddr) : list (maddr * dial_error) :=
  tag_errs errs 0 tcp ++ tag_errs errs (length tcp) ws ++ tag_errs errs (length tcp + length ws) qu.

Lemma attempts_fst errs tcp ws qu : map fst (attempts errs tcp ws qu) = tcp ++ ws ++ qu.
Proof. unfold attempts. rewrite !map_app, !tag_errs_fst. reflexivity. Qed.

(* every attempt failed: exactly the tried addresses are re-scored, each to the score of the
   error kind its attempt failed with *)
Lemma dial_all_fail_find k s peer errs tcp ws qu b :
  NoDup (keys s) -> NoDup (tcp ++ ws ++ qu) -> (forall a, In a (tcp ++ ws ++ qu) -> In a (keys s)) ->
  (forall e, error_score k e <> 0) ->
  find b (dial_outcome k s peer 0 errs tcp ws qu) =
    match lookup_err b (attempts errs tcp ws qu) with
    | Some e => Some (error_score k e)
    | None => find b s
    end.
Proof.
  intros Hnd Hndl Hl Hf. cbn [dial_outcome]. rewrite !fail_each_app.
  fold (attempts errs tcp ws qu).
  apply fail_each_find; [exact Hnd | rewrite attempts_fst; exact Hndl | | exact Hf].
  intros a Ha. rewrite attempts_fst in Ha. exact (Hl a Ha).
Qed.

(* attempt j succeeded after the earlier ones on that transport failed: the address used gets
   the established score, the earlier ones the score of their error kind, nothing else changes *)
Lemma succeed_at_find k s peer l j a e0 b :
  NoDup (keys s) -> NoDup (map fst l) -> (forall x, In x (map fst l) -> In x (keys s)) ->
  nth_error l j = Some (a, e0) -> names peer a = true ->
  (forall e, error_score k e <> 0) -> sc_established k <> 0 ->
  find b (succeed_at k s peer l j) =
    if maddr_eqb b a then Some (sc_established k)
    else match lookup_err b (firstn j l) with
         | Some e => Some (error_score k e)
         | None => find b s
         end.
Proof.
  intros Hnd Hndl Hl Hj Hn Hf He. unfold succeed_at. rewrite Hj.
  assert (Hw : with_peer peer a = a).
  { unfold names in Hn. destruct (last a (Other 0)) eqn:El; try discriminate.
    exact (with_peer_last _ _ _ El). }
  rewrite Hw.
  assert (Hfl : forall x, In x (map fst (firstn j l)) -> In x (keys s)).
  { intros x Hx. apply Hl. rewrite <- (firstn_skipn j l), map_app. apply in_or_app. now left. }
  assert (Hndf : NoDup (map fst (firstn j l))).
  { rewrite <- (firstn_skipn j l), map_app in Hndl. exact (nodup_app_l _ _ Hndl). }
  set (s1 := fail_each k s (firstn j l)).
  assert (Hk1 : keys s1 = keys s) by (apply fail_each_keys; exact Hfl).
  assert (Ha1 : In a (keys s1)).
  { rewrite Hk1. apply Hl. change a with (fst (a, e0)). apply in_map. exact (nth_error_In _ _ Hj). }
  destruct (in_keys_find _ _ Ha1) as [z1 Hz1].
  destruct (insert_rescore k s1 a (sc_established k) None z1 Hz1 He) as [_ [H1 [H2 H3]]].
  set (s2 := fst (insert k s1 a (sc_established k) None)) in *.
  destruct (insert_rescore k s2 a (sc_established k) None _ H1 He) as [_ [H4 [H5 H6]]].
  destruct (maddr_eqb b a) eqn:E.
  - apply maddr_eqb_spec in E. subst b. exact H4.
  - assert (Hba : b <> a) by (intros ->; rewrite maddr_eqb_refl in E; discriminate).
    rewrite (H6 _ Hba), (H3 _ Hba). unfold s1. apply fail_each_find; assumption.
Qed.

(* ---------- a dial whose selection spans several transports ---------- *)

Lemma succeed_at_keys k s peer l j a e0 :
  (forall x, In x (map fst l) -> In x (keys s)) -> nth_error l j = Some (a, e0) ->
  names peer a = true -> keys (succeed_at k s peer l j) = keys s.
Proof.
  intros Hl Hj Hn. unfold succeed_at. rewrite Hj.
  assert (Hw : with_peer peer a = a).
  { unfold names in Hn. destruct (last a (Other 0)) eqn:El; try discriminate.
    exact (with_peer_last _ _ _ El). }
  rewrite Hw.
  assert (Hk : keys (fail_each k s (firstn j l)) = keys s).
  { apply fail_each_keys. intros x Hx. apply Hl.
    rewrite <- (firstn_skipn j l), map_app. apply in_or_app. now left. }
  assert (Ha : In a (keys s)).
  { apply Hl. change a with (fst (a, e0)). apply in_map. exact (nth_error_In _ _ Hj). }
  rewrite insert_known_keys.
  - rewrite insert_known_keys; [exact Hk | rewrite Hk; exact Ha].
  - rewrite insert_known_keys; rewrite Hk; exact Ha.
Qed.

Lemma lookup_err_in b l e : lookup_err b l = Some e -> In b (map fst l).
Proof.
  intro H. destruct (lookup_err b l) eqn:E; [|discriminate].
  destruct (in_dec (fun x y => match maddr_eqb x y as r return maddr_eqb x y = r -> {x = y} + {x <> y} with
                               | true => fun Q => left (proj1 (maddr_eqb_spec x y) Q)
                               | false => fun Q => right (fun H0 => eq_ind (maddr_eqb x y) (fun r => r = false -> False)
                                                  (fun Q' => diff_true_false
                                                     (eq_trans (eq_sym (proj2 (maddr_eqb_spec x y) H0)) Q')) _ eq_refl Q)
                               end eq_refl) b (map fst l)) as [Hin|Hnin]; [exact Hin|].
  apply lookup_err_none in Hnin. congruence.
Qed.

Lemma nodup_app_disj {A} (l1 l2 : list A) x : NoDup (l1 ++ l2) -> In x l1 -> In x l2 -> False.
Proof.
  induction l1 as [|y t IH]; cbn [app In]; intros H H1 H2; [contradiction|].
  inversion H as [|? ? Hy Hd]; subst. destruct H1 as [->|H1].
  - apply Hy. apply in_or_app. now right.
  - exact (IH Hd H1 H2).
Qed.

(* Any interleaving of OpenFailure events of other transports (before / after) with the one
   ConnectionOpened event: every address reported failed carries the score of its error kind, the
   address that connected the established score, nothing else changes. *)
Lemma mixed_outcome_find k s peer before l j after a e0 b :
  NoDup (keys s) -> NoDup (map fst (before ++ l ++ after)) ->
  (forall x, In x (map fst (before ++ l ++ after)) -> In x (keys s)) ->
  nth_error l j = Some (a, e0) -> names peer a = true ->
  (forall e, error_score k e <> 0) -> sc_established k <> 0 ->
  find b (mixed_outcome k s peer before l j after) =
    if maddr_eqb b a then Some (sc_established k)
    else match lookup_err b (before ++ firstn j l ++ after) with
         | Some e => Some (error_score k e)
         | None => find b s
         end.
Proof.
  intros Hnd Hndl Hl Hj Hn Hf He. unfold mixed_outcome.
  rewrite !map_app in Hndl.
  assert (HlB : forall x, In x (map fst before) -> In x (keys s)).
  { intros x Hx. apply Hl. rewrite !map_app. apply in_or_app. now left. }
  assert (HlL : forall x, In x (map fst l) -> In x (keys s)).
  { intros x Hx. apply Hl. rewrite !map_app. apply in_or_app. right. apply in_or_app. now left. }
  assert (HlA : forall x, In x (map fst after) -> In x (keys s)).
  { intros x Hx. apply Hl. rewrite !map_app. apply in_or_app. right. apply in_or_app. now right. }
  assert (HndB : NoDup (map fst before)) by exact (nodup_app_l _ _ Hndl).
  assert (HndLA : NoDup (map fst l ++ map fst after)) by exact (nodup_app_r _ _ Hndl).
  assert (HndL : NoDup (map fst l)) by exact (nodup_app_l _ _ HndLA).
  assert (HndA : NoDup (map fst after)) by exact (nodup_app_r _ _ HndLA).
  set (s1 := fail_each k s before).
  assert (Hk1 : keys s1 = keys s) by (apply fail_each_keys; exact HlB).
  assert (HlL1 : forall x, In x (map fst l) -> In x (keys s1)) by (intros x Hx; rewrite Hk1; auto).
  set (s2 := succeed_at k s1 peer l j).
  assert (Hk2 : keys s2 = keys s1) by (exact (succeed_at_keys k s1 peer l j a e0 HlL1 Hj Hn)).
  assert (HaL : In a (map fst l)).
  { change a with (fst (a, e0)). apply in_map. exact (nth_error_In _ _ Hj). }
  assert (Hfj : forall x, In x (map fst (firstn j l)) -> In x (map fst l)).
  { intros x Hx. rewrite <- (firstn_skipn j l), map_app. apply in_or_app. now left. }
  rewrite (fail_each_find k s2 after b); [| rewrite Hk2, Hk1; exact Hnd | exact HndA
                                          | intros x Hx; rewrite Hk2, Hk1; auto | exact Hf].
  unfold s2. rewrite (succeed_at_find k s1 peer l j a e0 b);
    [| rewrite Hk1; exact Hnd | exact HndL | exact HlL1 | exact Hj | exact Hn | exact Hf | exact He].
  unfold s1. rewrite (fail_each_find k s before b Hnd HndB HlB Hf).
  rewrite !lookup_err_app.
  destruct (maddr_eqb b a) eqn:Eba.
  - apply maddr_eqb_spec in Eba. subst b.
    assert (HnA : lookup_err a after = None).
    { apply lookup_err_none. intro HA. exact (nodup_app_disj _ _ _ HndLA HaL HA). }
    rewrite HnA. reflexivity.
  - destruct (lookup_err b after) as [eA|] eqn:EA;
      destruct (lookup_err b (firstn j l)) as [eL|] eqn:EL;
      destruct (lookup_err b before) as [eB|] eqn:EB; try reflexivity; exfalso.
    + apply lookup_err_in in EA, EB.
      apply (nodup_app_disj _ _ b Hndl EB). apply in_or_app. now right.
    + apply lookup_err_in in EA, EL. exact (nodup_app_disj _ _ b HndLA (Hfj _ EL) EA).
    + apply lookup_err_in in EA, EB.
      apply (nodup_app_disj _ _ b Hndl EB). apply in_or_app. now right.
    + apply lookup_err_in in EL, EB.
      apply (nodup_app_disj _ _ b Hndl EB). apply in_or_app. left. exact (Hfj _ EL).
Qed.

Definition maddr_eq_dec (x y : maddr) : {x = y} + {x <> y}.
Proof.
  destruct (maddr_eqb x y) eqn:E.
  - left. apply maddr_eqb_spec. exact E.
  - right. intros ->. rewrite maddr_eqb_refl in E. discriminate.
Defined.

(* the episode a dial outcome denotes: the roles are well formed - no address is reported twice,
   every reported address was handed to a transport, the winning position exists *)
Lemma dial_episode_shape errs tcp ws qu j0 before l j after :
  dial_episode errs tcp ws qu j0 = (before, l, j, after) ->
  NoDup (tcp ++ ws ++ qu) -> (0 < length tcp + length ws + length qu)%nat ->
  NoDup (map fst (before ++ l ++ after)) /\
  (forall x, In x (map fst (before ++ l ++ after)) -> In x (tcp ++ ws ++ qu)) /\
  (forall x, In x (before ++ l ++ after) -> In x (attempts errs tcp ws qu)) /\
  (j < length l)%nat /\
  (l = tag_errs errs 0 tcp \/ l = tag_errs errs (length tcp) ws \/
   l = tag_errs errs (length tcp + length ws) qu).
Proof.
  intros E Hnd Hpos. unfold dial_episode in E.
  set (n := (length tcp + length ws + length qu)%nat) in *.
  assert (Hj : (j0 mod n < n)%nat) by (apply Nat.mod_upper_bound; lia).
  set (d1 := ((j0 / n) mod 3)%nat) in *. set (d2 := ((j0 / n / 3) mod 3)%nat) in *.
  assert (Hlen : forall off x, length (tag_errs errs off x) = length x).
  { intros off x. unfold tag_errs. rewrite combine_length, map_length, seq_length. lia. }
  rewrite (NoDup_count_occ maddr_eq_dec) in Hnd.
  destruct (j0 mod n <? length tcp)%nat eqn:C1;
    [|destruct (j0 mod n <? length tcp + length ws)%nat eqn:C2];
    injection E as <- <- <- <-;
    (split; [|split; [|split; [|split]]]);
    try (rewrite Hlen; apply Nat.ltb_lt in C1 || apply Nat.ltb_ge in C1;
         try (apply Nat.ltb_lt in C2 || apply Nat.ltb_ge in C2); unfold n in Hj; lia);
    try (right; left; reflexivity); try (left; reflexivity); try (right; right; reflexivity);
    try (intros x Hx; unfold attempts; unfold sel in Hx;
         destruct (d1 =? 1)%nat, (d1 =? 2)%nat, (d2 =? 1)%nat, (d2 =? 2)%nat;
         cbn [app] in Hx; rewrite ?app_nil_r in Hx; rewrite ?in_app_iff in *; cbn [In] in Hx; tauto);
    try (intros x Hx; unfold sel in Hx;
         destruct (d1 =? 1)%nat, (d1 =? 2)%nat, (d2 =? 1)%nat, (d2 =? 2)%nat;
         cbn [app] in Hx; rewrite ?app_nil_r in Hx; rewrite ?map_app, ?tag_errs_fst in Hx;
         rewrite ?in_app_iff in *; cbn [In map] in Hx; tauto);
    (apply (NoDup_count_occ maddr_eq_dec); intro x; specialize (Hnd x);
     rewrite !count_occ_app in Hnd; unfold sel;
     destruct (d1 =? 1)%nat eqn:E1, (d1 =? 2)%nat eqn:E2;
     try (apply Nat.eqb_eq in E1; apply Nat.eqb_eq in E2; lia);
     destruct (d2 =? 1)%nat eqn:E3, (d2 =? 2)%nat eqn:E4;
     try (apply Nat.eqb_eq in E3; apply Nat.eqb_eq in E4; lia);
     cbn [app]; rewrite ?app_nil_r; rewrite ?map_app, ?tag_errs_fst, ?count_occ_app;
     cbn [map count_occ]; lia).
Qed.

Lemma dial_first_transport_failure_counts :
  forall k s peer errs a w ws b,
  NoDup (keys s) -> NoDup (a :: w :: ws) -> (forall x, In x (a :: w :: ws) -> In x (keys s)) ->
  names peer w = true -> (forall e, error_score k e <> 0) -> sc_established k <> 0 ->
  (* outcome: position 1 (the first WebSocket address) wins, first other transport (TCP) reports
     its failure before the ConnectionOpened event: j0 = 1 + n * 1 with n = 2 + |ws| *)
  find b (dial_outcome k s peer (S (3 + length ws)) errs [a] (w :: ws) []) =
    if maddr_eqb b w then Some (sc_established k)
    else if maddr_eqb a b then Some (error_score k (err_at errs 0))
    else find b s.
Proof.
  intros k s peer errs a w ws b Hnd Hndl Hl Hn Hf He.
  cbn [dial_outcome]. unfold dial_episode.
  assert (Hn0 : (length [a] + length (w :: ws) + length (@nil maddr) = 2 + length ws)%nat)
    by (cbn [length]; lia).
  rewrite Hn0.
  assert (Hm : ((3 + length ws) mod (2 + length ws) = 1)%nat).
  { replace (3 + length ws)%nat with (1 + 1 * (2 + length ws))%nat by lia.
    rewrite Nat.mod_add by lia. apply Nat.mod_small. lia. }
  assert (Hd : ((3 + length ws) / (2 + length ws) = 1)%nat).
  { replace (3 + length ws)%nat with (1 + 1 * (2 + length ws))%nat by lia.
    rewrite Nat.div_add by lia. rewrite Nat.div_small by lia. lia. }
  rewrite Hm, Hd. cbn [length Nat.ltb Nat.leb Nat.add Nat.sub].
  change ((1 mod 3)%nat) with 1%nat. change ((1 / 3 mod 3)%nat) with 0%nat.
  unfold sel. cbn [Nat.eqb app].
  change (1 <? 1)%nat with false. change (1 <? S (S (length ws)))%nat with true. cbv iota beta.
  assert (Hw0 : exists e0, nth_error (tag_errs errs 1 (w :: ws)) 0 = Some (w, e0)).
  { unfold tag_errs. cbn [length seq map combine nth_error]. eexists. reflexivity. }
  destruct Hw0 as [e0 Hw0].
  rewrite (mixed_outcome_find k s peer _ _ 0 _ w e0 b Hnd); try assumption.
  - cbn [firstn app]. unfold tag_errs at 1. cbn [length seq map combine app lookup_err].
    destruct (maddr_eqb b w); [reflexivity|]. destruct (maddr_eqb a b); reflexivity.
  - rewrite !map_app, !tag_errs_fst. cbn [map app]. rewrite app_nil_r. exact Hndl.
  - intros x Hx. rewrite !map_app, !tag_errs_fst in Hx. cbn [map app] in Hx.
    rewrite app_nil_r in Hx. exact (Hl x Hx).
Qed.

Lemma free_capacity_spec c st n limit :
  free_capacity c st n = Some limit ->
  match max_out c with
  | Some m => (held st < m)%nat /\ limit = (m - held st)%nat
  | None => limit = n
  end.
Proof.
  unfold free_capacity. destruct (max_out c) as [m|].
  - destruct (m <=? held st)%nat eqn:E; [discriminate|]. intros [= <-]. split; [lia | reflexivity].
  - intros [= <-]. reflexivity.
Qed.

(* dial(peer): the lists handed to the transports' open() are, merged, a valid
   addresses(limit) selection for limit = free outbound capacity; every address goes to the
   installed transport it is routed to; the outcome is then recorded by dial_outcome *)
Lemma step_dial_tried c k st peer outcome errs tcp ws qu t w q st' :
  step c k st (ODial peer outcome errs tcp ws qu) = (st', RDial (DTried t w q)) ->
  let s := get_or_empty peer (bk st) in
  exists limit,
    free_capacity c st (length s) = Some limit /\
    peer <> local_peer c /\
    t = with_scores s tcp /\ w = with_scores s ws /\ q = with_scores s qu /\
    addresses_ok limit s (merge_desc (merge_desc t w) q) = true /\
    Permutation (merge_desc (merge_desc t w) q) (t ++ w ++ q) /\
    Forall (fun a => In a (keys s) /\ names peer a = true /\ route c a = TTcp /\ enabled c TTcp = true) tcp /\
    Forall (fun a => In a (keys s) /\ names peer a = true /\ route c a = TWs /\ enabled c TWs = true) ws /\
    Forall (fun a => In a (keys s) /\ names peer a = true /\ route c a = TQuic /\ enabled c TQuic = true) qu /\
    st' = set_bk st (put peer (dial_outcome k s peer outcome errs tcp ws qu) (bk st)).
Proof.
  cbn [step]. set (s := get_or_empty peer (bk st)). cbn zeta.
  destruct (existsb (fun x => negb (enabled c (route c (fst x)) && names peer (fst x))) s) eqn:Hg;
    [discriminate|].
  destruct (free_capacity c st (length s)) as [limit|] eqn:Hc; [|discriminate].
  destruct (N.eqb peer (local_peer c)) eqn:Hp; [discriminate|].
  destruct s as [|x0 s0] eqn:Hs; [discriminate|]. rewrite <- Hs in *.
  destruct (forallb (fun a => mem a s) (tcp ++ ws ++ qu)) eqn:Hm; cbn [andb]; [|discriminate].
  destruct (forallb (fun a => match route c a with TTcp => true | _ => false end) tcp) eqn:Hrt;
    cbn [andb]; [|discriminate].
  destruct (forallb (fun a => match route c a with TWs => true | _ => false end) ws) eqn:Hrw;
    cbn [andb]; [|discriminate].
  destruct (forallb (fun a => match route c a with TQuic => true | _ => false end) qu) eqn:Hrq;
    cbn [andb]; [|discriminate].
  destruct (addresses_ok limit s (merge_desc (merge_desc (with_scores s tcp) (with_scores s ws))
                                             (with_scores s qu))) eqn:Hok;
    [|discriminate].
  intros [= <- <- <- <-]. exists limit.
  assert (Hfacts : forall a, In a (tcp ++ ws ++ qu) ->
            In a (keys s) /\ names peer a = true /\ enabled c (route c a) = true).
  { intros a Ha. rewrite forallb_forall in Hm. specialize (Hm _ Ha). apply mem_in in Hm.
    split; [exact Hm|]. apply in_map_iff in Hm. destruct Hm as [x [Hx1 Hx2]].
    destruct (enabled c (route c a) && names peer a) eqn:E.
    - apply andb_true_iff in E. destruct E. split; assumption.
    - assert (existsb (fun x => negb (enabled c (route c (fst x)) && names peer (fst x))) s = true).
      { apply existsb_exists. exists x. split; [exact Hx2|]. rewrite Hx1, E. reflexivity. }
      congruence. }
  repeat split; try reflexivity.
  - apply N.eqb_neq. exact Hp.
  - exact Hok.
  - eapply Permutation_trans; [apply merge_desc_perm|]. rewrite app_assoc.
    apply Permutation_app_tail. apply merge_desc_perm.
  - apply Forall_forall. intros a Ha. rewrite forallb_forall in Hrt. specialize (Hrt _ Ha).
    destruct (Hfacts a (in_or_app _ _ _ (or_introl Ha))) as [H1 [H2 H3]].
    destruct (route c a) eqn:Hr; try discriminate. repeat split; assumption.
  - apply Forall_forall. intros a Ha. rewrite forallb_forall in Hrw. specialize (Hrw _ Ha).
    destruct (Hfacts a (in_or_app _ _ _ (or_intror (in_or_app _ _ _ (or_introl Ha))))) as [H1 [H2 H3]].
    destruct (route c a) eqn:Hr; try discriminate. repeat split; assumption.
  - apply Forall_forall. intros a Ha. rewrite forallb_forall in Hrq. specialize (Hrq _ Ha).
    destruct (Hfacts a (in_or_app _ _ _ (or_intror (in_or_app _ _ _ (or_intror Ha))))) as [H1 [H2 H3]].
    destruct (route c a) eqn:Hr; try discriminate. repeat split; assumption.
Qed.

(* ====================================================================================== *)
(* ---------- DialError: the enumeration is complete, codes are unambiguous ---------- *)

Lemma all_dial_errors_complete e : In e all_dial_errors.
Proof.
  destruct e as [|[]|[]|[| | | | |[]| | | |[]|]]; cbn;
    repeat (first [left; reflexivity | right]).
Qed.

Lemma forall_errors (Pb : dial_error -> bool) :
  forallb Pb all_dial_errors = true -> forall e, Pb e = true.
Proof. intros H e. rewrite forallb_forall in H. apply H, all_dial_errors_complete. Qed.

Lemma err_code_roundtrip e : err_of_code (err_code e) = Some e.
Proof. destruct e as [|[]|[]|[| | | | |[]| | | |[]|]]; vm_compute; reflexivity. Qed.

Lemma err_of_code_sound code e : err_of_code code = Some e -> err_code e = code.
Proof.
  unfold err_of_code. generalize all_dial_errors. induction l as [|x t IH]; cbn [find_code]; [discriminate|].
  destruct (N.eqb (err_code x) code) eqn:E; [|exact IH].
  intros [= <-]. apply N.eqb_eq. exact E.
Qed.

(* the position functions agree with the enumerations (variant i of the Rust enum is the i-th
   constructor) *)
Lemma ae_index_nth e : nth_error all_address_errors (N.to_nat (ae_index e)) = Some e.
Proof. destruct e; reflexivity. Qed.
Lemma de_index_nth e : nth_error all_dns_errors (N.to_nat (de_index e)) = Some e.
Proof. destruct e; reflexivity. Qed.
Lemma pe_index_nth e : nth_error all_parse_errors (N.to_nat (pe_index e)) = Some e.
Proof. destruct e; reflexivity. Qed.
Lemma qe_index_nth e : nth_error all_quic_errors (N.to_nat (qe_index e)) = Some e.
Proof. destruct e; reflexivity. Qed.

(* ---------- error_score with the arms of the source ---------- *)

Definition in_i32 (z : Z) : Prop := I32_MIN <= z <= I32_MAX.

Lemma error_score_negative e : error_score default_scores e < 0.
Proof.
  apply Z.ltb_lt. revert e. apply (forall_errors (fun e => error_score default_scores e <? 0)).
  vm_compute. reflexivity.
Qed.

Lemma error_score_nonzero e : error_score default_scores e <> 0.
Proof. pose proof (error_score_negative e). lia. Qed.

Lemma error_score_i32 e : in_i32 (error_score default_scores e).
Proof.
  assert (H : (I32_MIN <=? error_score default_scores e) && (error_score default_scores e <=? I32_MAX) = true).
  { revert e. apply (forall_errors (fun e => (I32_MIN <=? error_score default_scores e) &&
                                              (error_score default_scores e <=? I32_MAX))).
    vm_compute. reflexivity. }
  apply andb_true_iff in H. unfold in_i32. lia.
Qed.

Definition is_address_error (e : dial_error) : bool :=
  match e with EAddress _ => true | _ => false end.

(* the mapping as it stands: AddressError -> ADDRESS_FAILURE, everything else -> CONNECTION_FAILURE *)
Lemma error_score_table e :
  error_score default_scores e =
    if is_address_error e then - Z.of_N Consts.SCORE_ADDRESS_FAILURE_NEG
    else - Z.of_N Consts.SCORE_CONNECTION_FAILURE_NEG.
Proof.
  apply Z.eqb_eq. revert e.
  apply (forall_errors (fun e => error_score default_scores e =?
           (if is_address_error e then - Z.of_N Consts.SCORE_ADDRESS_FAILURE_NEG
            else - Z.of_N Consts.SCORE_CONNECTION_FAILURE_NEG))).
  vm_compute. reflexivity.
Qed.

Lemma error_score_banned_iff e :
  error_score default_scores e = I32_MIN <-> exists ae, e = EAddress ae.
Proof.
  split.
  - intro H. destruct e as [|ae|d|n]; [|exists ae; reflexivity| |];
      exfalso; revert H; rewrite error_score_table; cbn [is_address_error]; vm_compute; discriminate.
  - intros [ae ->]. rewrite error_score_table. reflexivity.
Qed.

Lemma established_positive : 0 < sc_established default_scores /\ in_i32 (sc_established default_scores) /\
                             0 <= bonus default_scores.
Proof. unfold in_i32. vm_compute. repeat split; discriminate. Qed.

(* a dial failure of any kind on a stored address is never taken for a rediscovery: it re-scores
   exactly that address, to the score of the kind *)
Lemma failure_rescores_any_kind s a e v z0 :
  find a s = Some z0 ->
  let sc := error_score default_scores e in
  let s' := fst (insert default_scores s a sc v) in
  sc < 0 /\ snd (insert default_scores s a sc v) = Updated /\
  find a s' = Some sc /\ keys s' = keys s /\ forall b, b <> a -> find b s' = find b s.
Proof.
  intros H. cbn zeta. split; [apply error_score_negative|].
  exact (insert_rescore default_scores s a _ v z0 H (error_score_nonzero e)).
Qed.

(* ---------- state level: a dial result touches one address of one peer ---------- *)

Lemma get_put_same p s b : get p (put p s b) = Some s.
Proof. rewrite get_put, N.eqb_refl. reflexivity. Qed.

Lemma get_put_other p q s b : q <> p -> get q (put p s b) = get q b.
Proof. intro H. rewrite get_put. destruct (N.eqb p q) eqn:E; [apply N.eqb_eq in E; congruence | reflexivity]. Qed.

Lemma step_dial_failure_known c k st a e v p z0 :
  last a (Other 0) = P2p p -> find a (get_or_empty p (bk st)) = Some z0 -> error_score k e <> 0 ->
  let s := get_or_empty p (bk st) in
  let st' := fst (step c k st (ODialFailure a e v)) in
  (exists s', get p (bk st') = Some s' /\ find a s' = Some (error_score k e) /\ keys s' = keys s /\
              forall b, b <> a -> find b s' = find b s) /\
  (forall q, q <> p -> get q (bk st') = get q (bk st)) /\
  lst st' = lst st /\ held st' = held st /\ pubs st' = pubs st.
Proof.
  intros Hl Hf Hne. cbn [step]. rewrite Hl. rewrite (with_peer_last p a p Hl).
  destruct (insert_rescore k (get_or_empty p (bk st)) a (error_score k e) v z0 Hf Hne) as [_ [H1 [H2 H3]]].
  destruct (insert k (get_or_empty p (bk st)) a (error_score k e) v) as [s' r].
  cbn [fst set_bk bk lst held pubs] in *. repeat split.
  - exists s'. rewrite get_put_same. repeat split; assumption.
  - intros q Hq. apply get_put_other. exact Hq.
Qed.

Lemma step_established_known c k st peer a v z0 :
  find (with_peer peer a) (get_or_empty peer (bk st)) = Some z0 -> sc_established k <> 0 ->
  let s := get_or_empty peer (bk st) in
  let st' := fst (step c k st (OEstablished peer a false v)) in
  (exists s', get peer (bk st') = Some s' /\ find (with_peer peer a) s' = Some (sc_established k) /\
              keys s' = keys s /\ forall b, b <> with_peer peer a -> find b s' = find b s) /\
  (forall q, q <> peer -> get q (bk st') = get q (bk st)) /\
  lst st' = lst st /\ held st' = held st /\ pubs st' = pubs st.
Proof.
  intros Hf Hne. cbn [step].
  destruct (insert_rescore k (get_or_empty peer (bk st)) (with_peer peer a) (sc_established k) v z0 Hf Hne)
    as [_ [H1 [H2 H3]]].
  destruct (insert k (get_or_empty peer (bk st)) (with_peer peer a) (sc_established k) v) as [s' r].
  cbn [fst set_bk bk lst held pubs] in *. repeat split.
  - exists s'. rewrite get_put_same. repeat split; assumption.
  - intros q Hq. apply get_put_other. exact Hq.
Qed.

(* ---------- i32: scores saturate at both ends and never leave the range ---------- *)

Lemma sat_add_spec a b :
  in_i32 (sat_add a b) /\
  (a + b <= I32_MIN -> sat_add a b = I32_MIN) /\
  (I32_MAX <= a + b -> sat_add a b = I32_MAX) /\
  (I32_MIN <= a + b <= I32_MAX -> sat_add a b = a + b).
Proof. unfold sat_add, in_i32, I32_MIN, I32_MAX. lia. Qed.

Definition kwf (k : scorecfg) : Prop :=
  in_i32 (sc_established k) /\ Forall (fun x => in_i32 (snd x)) (err_arms k).

Lemma arm_score_range arms path : Forall (fun x => in_i32 (snd x)) arms -> in_i32 (arm_score arms path).
Proof.
  induction 1 as [|[p z] t Hh Ht IH]; cbn [arm_score]; [unfold in_i32, I32_MIN, I32_MAX; lia|].
  destruct (is_prefix p path); [exact Hh | exact IH].
Qed.

Lemma kwf_error_score k e : kwf k -> in_i32 (error_score k e).
Proof. intros [_ H]. apply arm_score_range. exact H. Qed.

Lemma kwf_default : kwf default_scores.
Proof.
  split; [exact (proj1 (proj2 established_positive))|].
  cbn [err_arms default_scores]. unfold in_i32.
  apply Forall_forall. intros x Hx.
  assert (H : forallb (fun x => (I32_MIN <=? snd x) && (snd x <=? I32_MAX)) DialErrors.error_score_arms = true)
    by (vm_compute; reflexivity).
  rewrite forallb_forall in H. specialize (H _ Hx). apply andb_true_iff in H. lia.
Qed.

Definition ranged (s : store) : Prop := Forall (fun x => in_i32 (snd x)) s.

Lemma ranged_set_score a z s : ranged s -> in_i32 z -> ranged (set_score a z s).
Proof.
  unfold ranged. induction 1 as [|[b y] t Hh Ht IH]; cbn [set_score]; intro Hz; [constructor|].
  destruct (maddr_eqb b a).
  - constructor; [exact Hz | exact Ht].
  - constructor; [exact Hh | exact (IH Hz)].
Qed.

Lemma ranged_remove a s : ranged s -> ranged (remove a s).
Proof.
  intro H. apply Forall_forall. intros x Hx. unfold ranged in H. rewrite Forall_forall in H.
  apply H. exact (remove_in_incl _ _ _ Hx).
Qed.

Lemma insert_ranged k s a sc v : ranged s -> in_i32 sc -> ranged (fst (insert k s a sc v)).
Proof.
  intros Hs Hsc. unfold insert.
  assert (Hn : in_i32 (if is_global a then sat_add sc (bonus k) else sc)).
  { destruct (is_global a); [exact (proj1 (sat_add_spec _ _)) | exact Hsc]. }
  destruct (find a s).
  - destruct (sc =? 0); cbn [fst]; [exact Hs | apply ranged_set_score; assumption].
  - destruct (cap k <=? length s)%nat.
    + destruct (min_score s) as [m|]; [|exact Hs].
      destruct ((if is_global a then sat_add sc (bonus k) else sc) <? m); [exact Hs|].
      destruct v as [v|]; [|exact Hs]. destruct (find v s) as [vs|]; [|exact Hs].
      destruct (vs =? m); [|exact Hs]. cbn [fst]. apply Forall_app. split; [apply ranged_remove; exact Hs|].
      constructor; [exact Hn | constructor].
    + cbn [fst]. apply Forall_app. split; [exact Hs|]. constructor; [exact Hn | constructor].
Qed.

Lemma zero_i32 : in_i32 0.
Proof. unfold in_i32, I32_MIN, I32_MAX. lia. Qed.

Lemma insert_all_ranged k s l victims : ranged s -> ranged (fst (insert_all k s l victims)).
Proof.
  revert s victims. induction l as [|a t IH]; intros s victims Hs; cbn [insert_all]; [exact Hs|].
  set (v := match victims with v :: _ => Some v | [] => None end).
  pose proof (insert_ranged k s a 0 v Hs zero_i32) as H1.
  destruct (insert k s a 0 v) as [s1 r]. cbn [fst] in H1.
  set (victims' := match r with Evicted _ => tl victims | _ => victims end).
  specialize (IH s1 victims' H1). destruct (insert_all k s1 t victims') as [s2 bad]. exact IH.
Qed.

Lemma fail_each_ranged k s l : kwf k -> ranged s -> ranged (fail_each k s l).
Proof.
  intro Hk. revert s. induction l as [|[a e] t IH]; intros s Hs; cbn [fail_each]; [exact Hs|].
  apply IH. apply insert_ranged; [exact Hs | apply kwf_error_score; exact Hk].
Qed.

Lemma succeed_at_ranged k s peer l j : kwf k -> ranged s -> ranged (succeed_at k s peer l j).
Proof.
  intros Hk Hs. unfold succeed_at. pose proof (fail_each_ranged k s (firstn j l) Hk Hs) as H1.
  destruct (nth_error l j) as [[a e]|]; [|exact H1].
  apply insert_ranged; [|exact (proj1 Hk)]. apply insert_ranged; [exact H1 | exact (proj1 Hk)].
Qed.

Lemma mixed_outcome_ranged k s peer before l j after :
  kwf k -> ranged s -> ranged (mixed_outcome k s peer before l j after).
Proof.
  intros Hk Hs. unfold mixed_outcome. apply fail_each_ranged; [exact Hk|].
  apply succeed_at_ranged; [exact Hk|]. apply fail_each_ranged; assumption.
Qed.

Lemma dial_outcome_ranged k s peer outcome errs tcp ws qu :
  kwf k -> ranged s -> ranged (dial_outcome k s peer outcome errs tcp ws qu).
Proof.
  intros Hk Hs. unfold dial_outcome. destruct outcome as [|j0].
  - apply fail_each_ranged; [exact Hk|]. apply fail_each_ranged; [exact Hk|].
    apply fail_each_ranged; assumption.
  - destruct (dial_episode errs tcp ws qu j0) as [[[before l] j] after].
    apply mixed_outcome_ranged; assumption.
Qed.

Definition RInv (b : book) : Prop := forall p s, get p b = Some s -> ranged s.

(* raw inserts must carry an i32 *)
Definition op_i32 (o : op) : Prop :=
  match o with OInsert _ _ sc _ => in_i32 sc | _ => True end.

Lemma rinv_get_or_empty b p : RInv b -> ranged (get_or_empty p b).
Proof. intro H. unfold get_or_empty. destruct (get p b) eqn:E; [exact (H _ _ E) | constructor]. Qed.

Lemma rinv_put b p s : RInv b -> ranged s -> RInv (put p s b).
Proof.
  intros Hb Hs q s0. rewrite get_put. destruct (N.eqb p q); [intros [= <-]; exact Hs | apply Hb].
Qed.

Lemma step_ranged c k st o : kwf k -> RInv (bk st) -> op_i32 o -> RInv (bk (fst (step c k st o))).
Proof.
  intros Hk Hb Hw.
  destruct o as [peer addrs order victims | a f victim | peer a listener victim
                | peer limit obs | a | a | n | peer outcome errs tcp ws qu
                | peer a sc victim | a res victims | a | a | a victims]; cbn [step].
  - destruct (same_set order (accepted c (lst st) peer addrs)); [|exact Hb].
    pose proof (insert_all_ranged k (get_or_empty peer (bk st)) order victims (rinv_get_or_empty _ peer Hb)) as H.
    destruct (insert_all k (get_or_empty peer (bk st)) order victims) as [s' bad].
    cbn [fst set_bk bk] in *. apply rinv_put; assumption.
  - destruct (last a (Other 0)); try exact Hb.
    pose proof (insert_ranged k (get_or_empty p (bk st)) (with_peer p a) (error_score k f) victim
                  (rinv_get_or_empty _ p Hb) (kwf_error_score k f Hk)) as H.
    destruct (insert k (get_or_empty p (bk st)) (with_peer p a) (error_score k f) victim) as [s' r].
    cbn [fst set_bk bk] in *. apply rinv_put; assumption.
  - destruct listener; [exact Hb|].
    pose proof (insert_ranged k (get_or_empty peer (bk st)) (with_peer peer a) (sc_established k) victim
                  (rinv_get_or_empty _ peer Hb) (proj1 Hk)) as H.
    destruct (insert k (get_or_empty peer (bk st)) (with_peer peer a) (sc_established k) victim) as [s' r].
    cbn [fst set_bk bk] in *. apply rinv_put; assumption.
  - exact Hb.
  - exact Hb.
  - exact Hb.
  - destruct (en_tcp c || feat_ws c && en_ws c || feat_quic c && en_quic c); exact Hb.
  - destruct (existsb _ (get_or_empty peer (bk st))); [exact Hb|].
    destruct (free_capacity c st (length (get_or_empty peer (bk st)))); [|exact Hb].
    destruct (N.eqb peer (local_peer c)); [exact Hb|].
    destruct (get_or_empty peer (bk st)) eqn:Hs; [exact Hb|]. rewrite <- Hs.
    match goal with |- context [if ?X then _ else _] => destruct X end; [|exact Hb].
    cbn [fst set_bk bk]. apply rinv_put; [exact Hb|].
    apply dial_outcome_ranged; [exact Hk | apply rinv_get_or_empty; exact Hb].
  - cbn [op_i32] in Hw.
    pose proof (insert_ranged k (get_or_empty peer (bk st)) (with_peer peer a) sc victim
                  (rinv_get_or_empty _ peer Hb) Hw) as H.
    destruct (insert k (get_or_empty peer (bk st)) (with_peer peer a) sc victim) as [s' r].
    cbn [fst set_bk bk] in *. apply rinv_put; assumption.
  - destruct (dial_addr_check c st a) as [| | | |t q]; try exact Hb.
    pose proof (insert_ranged k (get_or_empty q (bk st)) a 0 (hd_error victims)
                  (rinv_get_or_empty _ q Hb) zero_i32) as H1.
    destruct (insert k (get_or_empty q (bk st)) a 0 (hd_error victims)) as [s1 r1]. cbn [fst] in H1.
    set (victims1 := match r1 with Evicted _ => tl victims | _ => victims end).
    set (sc := match res with Some e => error_score k e | None => sc_established k end).
    assert (Hsc : in_i32 sc) by (unfold sc; destruct res; [apply kwf_error_score; exact Hk | exact (proj1 Hk)]).
    pose proof (insert_ranged k s1 a sc (hd_error victims1) H1 Hsc) as H2.
    destruct (insert k s1 a sc (hd_error victims1)) as [s2 r2].
    cbn [fst set_bk bk] in *. apply rinv_put; assumption.
  - destruct (public_add c (pubs st) a). exact Hb.
  - exact Hb.
  - destruct (dial_addr_check c st a) as [| | | |t q]; try exact Hb.
    pose proof (insert_ranged k (get_or_empty q (bk st)) a 0 (hd_error victims)
                  (rinv_get_or_empty _ q Hb) zero_i32) as H1.
    destruct (insert k (get_or_empty q (bk st)) a 0 (hd_error victims)) as [s1 r1].
    cbn [fst set_bk bk] in *. apply rinv_put; assumption.
Qed.

Lemma run_ranged c k h st : kwf k -> RInv (bk st) -> Forall op_i32 h -> RInv (bk (fst (run c k st h))).
Proof.
  intro Hk. revert st. induction h as [|o t IH]; intros st Hs Hw; cbn [run]; [exact Hs|].
  inversion Hw as [|? ? Ho Ht]; subst.
  pose proof (step_ranged c k st o Hk Hs Ho) as H1.
  destruct (step c k st o) as [st1 r]. cbn [fst] in H1.
  specialize (IH st1 H1 Ht). destruct (run c k st1 t) as [st2 rs]. exact IH.
Qed.

Lemma final_scores_i32 c h p s a z :
  Forall op_i32 h -> get p (bk (final c default_scores h)) = Some s -> In (a, z) s -> in_i32 z.
Proof.
  intros Hw Hg Hin.
  assert (H : RInv (bk (final c default_scores h))).
  { apply run_ranged; [apply kwf_default | intros q s0; cbn; discriminate | exact Hw]. }
  specialize (H _ _ Hg). unfold ranged in H. rewrite Forall_forall in H. exact (H _ Hin).
Qed.

(* ---------- PublicAddresses and the listen set: the /p2p suffix rule ---------- *)

Definition pub_ok (c : cfg) (a : maddr) : Prop := a <> [] /\ last a (Other 0) = P2p (local_peer c).

Lemma last_snoc {A} (l : list A) x d : last (l ++ [x]) d = x.
Proof. induction l as [|y t IH]; [reflexivity|]. cbn [app]. destruct (t ++ [x]) eqn:E; [destruct t; discriminate|]. exact IH. Qed.

Definition public_form (c : cfg) (a : maddr) : maddr :=
  match last a (Other 0) with P2p _ => a | _ => a ++ [P2p (local_peer c)] end.

Lemma public_add_spec c ps a :
  match snd (public_add c ps a) with
  | PubEmpty => a = [] /\ fst (public_add c ps a) = ps
  | PubDifferent => (exists q, last a (Other 0) = P2p q /\ q <> local_peer c) /\ fst (public_add c ps a) = ps
  | PubAdded new =>
      a <> [] /\ pub_ok c (public_form c a) /\
      new = negb (existsb (maddr_eqb (public_form c a)) ps) /\
      fst (public_add c ps a) = if new then ps ++ [public_form c a] else ps
  end.
Proof.
  unfold public_add, public_form. destruct a as [|x t]; [split; reflexivity|].
  set (a := x :: t). destruct (last a (Other 0)) eqn:Hl;
    try (destruct (existsb (maddr_eqb (a ++ [P2p (local_peer c)])) ps) eqn:E; cbn [fst snd];
         (split; [discriminate|]); (split; [split; [destruct a; discriminate | apply last_snoc]|]);
         split; reflexivity).
  destruct (N.eqb p (local_peer c)) eqn:Ep.
  - apply N.eqb_eq in Ep. subst p.
    destruct (existsb (maddr_eqb a) ps) eqn:E; cbn [fst snd];
      (split; [discriminate|]); (split; [split; [discriminate | exact Hl]|]); split; reflexivity.
  - cbn [fst snd]. split; [|reflexivity]. exists p. split; [reflexivity|]. apply N.eqb_neq. exact Ep.
Qed.

Lemma remove_addr_in a l x : In x (remove_addr a l) -> In x l.
Proof.
  induction l as [|b t IH]; cbn [remove_addr]; [intros []|].
  destruct (maddr_eqb b a); cbn [In]; [intro H; now right|].
  intros [H|H]; [now left | right; exact (IH H)].
Qed.

Lemma remove_addr_nodup a l : NoDup l -> NoDup (remove_addr a l).
Proof.
  induction 1 as [|b t Hn Hd IH]; cbn [remove_addr]; [constructor|].
  destruct (maddr_eqb b a); [exact Hd|]. constructor; [|exact IH].
  intro H. apply Hn. exact (remove_addr_in _ _ _ H).
Qed.

Lemma remove_addr_spec a l x : NoDup l -> (In x (remove_addr a l) <-> In x l /\ x <> a).
Proof.
  induction 1 as [|b t Hn Hd IH]; cbn [remove_addr In]; [tauto|].
  destruct (maddr_eqb b a) eqn:E.
  - apply maddr_eqb_spec in E. subst b. split.
    + intro H. split; [now right|]. intros ->. contradiction.
    + intros [[H|H] Hx]; [congruence | exact H].
  - apply maddr_eqb_false in E. cbn [In]. rewrite IH. split.
    + intros [H|[H1 H2]]; [subst; split; [now left | exact E] | split; [now right | exact H2]].
    + intros [[H|H] Hx]; [now left | right; split; assumption].
Qed.

Definition PInv (c : cfg) (st : state) : Prop := Forall (pub_ok c) (pubs st) /\ NoDup (pubs st).

Lemma step_pubs c k st o : PInv c st -> PInv c (fst (step c k st o)).
Proof.
  intros [Hf Hn].
  assert (Hsame : forall st', pubs st' = pubs st -> PInv c st') by (intros st' E; unfold PInv; rewrite E; split; assumption).
  destruct o as [peer addrs order victims | a f victim | peer a listener victim
                | peer limit obs | a | a | n | peer outcome errs tcp ws qu
                | peer a sc victim | a res victims | a | a | a victims]; cbn [step].
  - destruct (same_set _ _); [|apply Hsame; reflexivity].
    destruct (insert_all _ _ _ _). apply Hsame. reflexivity.
  - destruct (last a (Other 0)); try (apply Hsame; reflexivity).
    destruct (insert _ _ _ _ _). apply Hsame. reflexivity.
  - destruct listener; [apply Hsame; reflexivity|]. destruct (insert _ _ _ _ _). apply Hsame. reflexivity.
  - apply Hsame. reflexivity.
  - apply Hsame. reflexivity.
  - apply Hsame. reflexivity.
  - destruct (en_tcp c || feat_ws c && en_ws c || feat_quic c && en_quic c); apply Hsame; reflexivity.
  - destruct (existsb _ _); [apply Hsame; reflexivity|].
    destruct (free_capacity _ _ _); [|apply Hsame; reflexivity].
    destruct (N.eqb _ _); [apply Hsame; reflexivity|].
    destruct (get_or_empty peer (bk st)); [apply Hsame; reflexivity|].
    match goal with |- context [if ?X then _ else _] => destruct X end; apply Hsame; reflexivity.
  - destruct (insert _ _ _ _ _). apply Hsame. reflexivity.
  - destruct (dial_addr_check c st a); try (apply Hsame; reflexivity).
    destruct (insert _ _ _ _ _) as [s1 r1]. destruct (insert _ _ _ _ _). apply Hsame. reflexivity.
  - pose proof (public_add_spec c (pubs st) a) as H.
    destruct (public_add c (pubs st) a) as [ps r]. cbn [fst snd pubs] in *.
    destruct r as [| |new].
    + destruct H as [_ ->]. split; assumption.
    + destruct H as [_ ->]. split; assumption.
    + destruct H as [_ [Hok [Hnew ->]]]. destruct new; [|split; assumption]. split.
      * apply Forall_app. split; [exact Hf|]. constructor; [exact Hok | constructor].
      * apply nodup_snoc; [exact Hn|]. intro Hin. apply existsb_maddr in Hin.
        rewrite Hin in Hnew. discriminate.
  - cbn [fst pubs]. split; [|apply remove_addr_nodup; exact Hn].
    apply Forall_forall. intros x Hx. rewrite Forall_forall in Hf. apply Hf.
    exact (remove_addr_in _ _ _ Hx).
  - destruct (dial_addr_check c st a); try (apply Hsame; reflexivity).
    destruct (insert _ _ _ _ _) as [s1 r1]. apply Hsame. reflexivity.
Qed.

Lemma run_pubs c k h st : PInv c st -> PInv c (fst (run c k st h)).
Proof.
  revert st. induction h as [|o t IH]; intros st Hs; cbn [run]; [exact Hs|].
  pose proof (step_pubs c k st o Hs) as H1.
  destruct (step c k st o) as [st1 r]. cbn [fst] in H1.
  specialize (IH st1 H1). destruct (run c k st1 t) as [st2 rs]. exact IH.
Qed.

Lemma final_pubs c k h a : In a (pubs (final c k h)) -> pub_ok c a.
Proof.
  intro H. assert (Hi : PInv c (final c k h)) by (apply run_pubs; split; constructor).
  destruct Hi as [Hf _]. rewrite Forall_forall in Hf. exact (Hf _ H).
Qed.

Lemma listen_set_spec c ls a :
  In a (listen_set c ls) <-> exists l, In l ls /\ (a = l \/ a = l ++ [P2p (local_peer c)]).
Proof.
  unfold listen_set. rewrite in_flat_map. split.
  - intros [l [Hl [H|[H|[]]]]]; exists l; split; auto.
  - intros [l [Hl [H|H]]]; exists l; (split; [exact Hl|]); subst; cbn; auto.
Qed.

(* ---------- dial_address at the level of the whole state ---------- *)

(* the address is already stored: its record is kept (score 0 = rediscovery), then the result of
   the dial re-scores exactly it *)
Lemma step_dial_addr_known c k st a res vs t q z0 :
  dial_addr_check c st a = DAOk t q -> find a (get_or_empty q (bk st)) = Some z0 ->
  let sc := match res with Some e => error_score k e | None => sc_established k end in
  sc <> 0 ->
  let s := get_or_empty q (bk st) in
  let st' := fst (step c k st (ODialAddr a res vs)) in
  (exists s', get q (bk st') = Some s' /\ find a s' = Some sc /\ keys s' = keys s /\
              forall b, b <> a -> find b s' = find b s) /\
  (forall p, p <> q -> get p (bk st') = get p (bk st)) /\
  lst st' = lst st /\ held st' = held st /\ pubs st' = pubs st.
Proof.
  intros Hd Hf sc Hsc. cbn [step]. rewrite Hd.
  rewrite (insert_rediscovery k _ a (hd_error vs) z0 Hf).
  destruct (insert_rescore k (get_or_empty q (bk st)) a sc (hd_error vs) z0 Hf Hsc) as [_ [H1 [H2 H3]]].
  fold sc. destruct (insert k (get_or_empty q (bk st)) a sc (hd_error vs)) as [s' r].
  cbn [fst set_bk bk lst held pubs] in *. repeat split.
  - exists s'. rewrite get_put_same. repeat split; assumption.
  - intros p Hp. apply get_put_other. exact Hp.
Qed.

(* the address is new and there is room: it is remembered, with the score of the dial's result
   (no bonus: the bonus went to the score-0 record stored before dialing) *)
Lemma step_dial_addr_new c k st a res vs t q :
  dial_addr_check c st a = DAOk t q -> find a (get_or_empty q (bk st)) = None ->
  (length (get_or_empty q (bk st)) < cap k)%nat ->
  let sc := match res with Some e => error_score k e | None => sc_established k end in
  sc <> 0 ->
  let s := get_or_empty q (bk st) in
  let st' := fst (step c k st (ODialAddr a res vs)) in
  (exists s', get q (bk st') = Some s' /\ find a s' = Some sc /\ keys s' = keys s ++ [a] /\
              forall b, b <> a -> find b s' = find b s) /\
  (forall p, p <> q -> get p (bk st') = get p (bk st)).
Proof.
  intros Hd Hf Hroom sc Hsc. cbn [step]. rewrite Hd.
  rewrite (insert_room k _ a 0 (hd_error vs) Hf Hroom).
  set (s1 := get_or_empty q (bk st) ++ [(a, new_score k a 0)]).
  assert (Hf1 : find a s1 = Some (new_score k a 0)).
  { unfold s1. rewrite find_app, Hf. cbn [find]. rewrite maddr_eqb_refl. reflexivity. }
  destruct (insert_rescore k s1 a sc (hd_error vs) _ Hf1 Hsc) as [_ [H1 [H2 H3]]].
  fold sc. destruct (insert k s1 a sc (hd_error vs)) as [s' r].
  cbn [fst set_bk bk] in *. split.
  - exists s'. rewrite get_put_same. repeat split; try assumption.
    + rewrite H2. unfold s1. rewrite keys_app. reflexivity.
    + intros b Hb. rewrite (H3 b Hb). unfold s1. rewrite find_app. cbn [find].
      rewrite (maddr_eqb_neq a b) by congruence. destruct (find b (get_or_empty q (bk st))); reflexivity.
  - intros p Hp. apply get_put_other. exact Hp.
Qed.

(* ---------- below the bound no addition ever changes a recorded score ---------- *)

Lemma insert_all_keeps_scores k s l vs b z :
  NoDup (keys s) -> (length s + length l <= cap k)%nat -> find b s = Some z ->
  find b (fst (insert_all k s l vs)) = Some z /\ snd (insert_all k s l vs) = false.
Proof.
  revert s vs. induction l as [|a t IH]; intros s vs Hnd Hlen Hb; cbn [insert_all]; [split; [exact Hb | reflexivity]|].
  cbn [length] in Hlen.
  set (v := match vs with v :: _ => Some v | [] => None end).
  destruct (find a s) as [z0|] eqn:Ha.
  - rewrite (insert_rediscovery k s a v z0 Ha).
    destruct (IH s vs Hnd ltac:(lia) Hb) as [H1 H2].
    destruct (insert_all k s t vs) as [s2 bad]. cbn [fst snd] in *. split; assumption.
  - rewrite (insert_room k s a 0 v Ha ltac:(lia)).
    set (s1 := s ++ [(a, new_score k a 0)]).
    assert (Hnd1 : NoDup (keys s1)).
    { unfold s1. rewrite keys_app. cbn [keys map]. apply nodup_snoc; [exact Hnd|].
      apply find_none_notin. exact Ha. }
    assert (Hb1 : find b s1 = Some z) by (unfold s1; rewrite find_app, Hb; reflexivity).
    assert (Hl1 : (length s1 + length t <= cap k)%nat).
    { unfold s1. rewrite app_length. cbn [length]. lia. }
    destruct (IH s1 vs Hnd1 Hl1 Hb1) as [H1 H2].
    destruct (insert_all k s1 t vs) as [s2 bad]. cbn [fst snd] in *. split; assumption.
Qed.

(* dial_address when the transport's dial() returns an error (the dial is not started): a stored
   address keeps its score; a new one, while there is room, is remembered as untested (score 0, or
   the public bonus) - it passed dial_address's check (C10_dial_address_filter) *)
Lemma step_dial_addr_refused c k st a vs t q :
  dial_addr_check c st a = DAOk t q ->
  let s := get_or_empty q (bk st) in
  let st' := fst (step c k st (ODialAddrRefused a vs)) in
  (forall z0, find a s = Some z0 -> get q (bk st') = Some s) /\
  (find a s = None -> (length s < cap k)%nat ->
     get q (bk st') = Some (s ++ [(a, new_score k a 0)])) /\
  (forall p, p <> q -> get p (bk st') = get p (bk st)) /\
  lst st' = lst st /\ held st' = held st /\ pubs st' = pubs st.
Proof.
  intros Hd s st'. unfold st'. cbn [step]. rewrite Hd. fold s.
  repeat split.
  - intros z0 Hf. rewrite (insert_rediscovery k s a (hd_error vs) z0 Hf). cbn [fst set_bk bk].
    apply get_put_same.
  - intros Hf Hl. rewrite (insert_room k s a 0 (hd_error vs) Hf Hl). cbn [fst set_bk bk].
    apply get_put_same.
  - intros p Hp. destruct (insert k s a 0 (hd_error vs)) as [s1 r1]. cbn [fst set_bk bk].
    apply get_put_other. exact Hp.
  - destruct (insert k s a 0 (hd_error vs)) as [s1 r1]. reflexivity.
  - destruct (insert k s a 0 (hd_error vs)) as [s1 r1]. reflexivity.
  - destruct (insert k s a 0 (hd_error vs)) as [s1 r1]. reflexivity.
Qed.

(* histories made of API calls and complete dial episodes only (no dial result reported out of the
   blue, no raw store insert): nothing has to be assumed about the environment *)
Definition api_op (o : op) : Prop :=
  match o with
  | ODialFailure _ _ _ | OEstablished _ _ false _ | OInsert _ _ _ _ => False
  | _ => True
  end.

Lemma api_op_strict c L0 o : api_op o -> op_strict c L0 o.
Proof. destruct o as [| | ? ? [|] ?| | | | | | | | | |]; cbn; intro H; try contradiction; exact I. Qed.

Lemma run_api c k L0 h p s a z :
  Forall api_op h ->
  get p (bk (fst (run c k (mkState [] L0 0 []) h))) = Some s -> In (a, z) s ->
  remembered_strict c L0 p a.
Proof.
  intro H. apply run_strict. rewrite Forall_forall in *. intros o Ho. apply api_op_strict. exact (H o Ho).
Qed.
