(* C10 — the classification of concrete IP addresses that the address book depends on:

     std::net::Ipv4Addr / Ipv6Addr   is_unspecified, is_loopback       (handle.rs supported_transport,
                                                                         is_local_address)
     ip_network 0.4.1                 IpNetwork::from(ip).is_global()   (address.rs is_global_multiaddr:
                                                                         the public-address bonus)

   transcribed predicate by predicate for host addresses (netmask 32 / 128), and the proof that the
   four classes of Model.v (Unspec / Loop / Priv / Glob) lose nothing: the three predicates the code
   evaluates are functions of the class. An IPv4 address is a number below 2^32, an IPv6 address a
   number below 2^128 (network byte order). The correspondence harness drives the real code on the
   first, last and neighbouring addresses of every range below, on one address of every /8 (IPv4)
   and of every value of the first byte (IPv6), and on random addresses; the version of ip_network
   in Cargo.lock is pinned by C10_ip_network_version. Definitions and their proofs. *)
From Coq Require Import List NArith Bool Lia.
From V.C10 Require Import Model.
Import ListNotations.
Open Scope N_scope.

Definition ip4 (a b c d : N) : N := ((a * 256 + b) * 256 + c) * 256 + d.
Definition octet (ip : N) (i : N) : N := N.land (N.shiftr ip (8 * (3 - i))) 255.
(* segment i (0..7) of an IPv6 address *)
Definition seg (ip : N) (i : N) : N := N.land (N.shiftr ip (16 * (7 - i))) 65535.

(* ---------- std::net::Ipv4Addr ---------- *)
Definition v4_unspecified (ip : N) : bool := ip =? 0.
Definition v4_loopback (ip : N) : bool := octet ip 0 =? 127.
Definition v4_link_local (ip : N) : bool := (octet ip 0 =? 169) && (octet ip 1 =? 254).
Definition v4_broadcast (ip : N) : bool := ip =? 4294967295.
Definition v4_documentation (ip : N) : bool :=
  ((octet ip 0 =? 192) && (octet ip 1 =? 0) && (octet ip 2 =? 2)) ||
  ((octet ip 0 =? 198) && (octet ip 1 =? 51) && (octet ip 2 =? 100)) ||
  ((octet ip 0 =? 203) && (octet ip 1 =? 0) && (octet ip 2 =? 113)).

(* ---------- ip_network::Ipv4Network with netmask 32 ---------- *)
Definition n4_local_identification (ip : N) : bool := octet ip 0 =? 0.
Definition n4_private (ip : N) : bool :=
  (octet ip 0 =? 10) ||
  ((octet ip 0 =? 172) && (16 <=? octet ip 1) && (octet ip 1 <=? 31)) ||
  ((octet ip 0 =? 192) && (octet ip 1 =? 168)).
Definition n4_ietf_protocol_assignments (ip : N) : bool :=
  (octet ip 0 =? 192) && (octet ip 1 =? 0) && (octet ip 2 =? 0).
Definition n4_shared_address_space (ip : N) : bool :=
  (octet ip 0 =? 100) && (N.land (octet ip 1) 192 =? 64).
Definition n4_benchmarking (ip : N) : bool :=
  (octet ip 0 =? 198) && (N.land (octet ip 1) 254 =? 18).
Definition n4_reserved (ip : N) : bool :=
  (N.land (octet ip 0) 240 =? 240) && negb (v4_broadcast ip).

Definition v4_global (ip : N) : bool :=
  (ip =? ip4 192 0 0 9) || (ip =? ip4 192 0 0 10) ||
  negb (n4_local_identification ip || n4_private ip || n4_ietf_protocol_assignments ip ||
        n4_shared_address_space ip || v4_loopback ip || v4_link_local ip || v4_broadcast ip ||
        v4_documentation ip || n4_benchmarking ip || n4_reserved ip).

(* ---------- std::net::Ipv6Addr and ip_network::Ipv6Network with netmask 128 ---------- *)
Definition v6_unspecified (ip : N) : bool := ip =? 0.
Definition v6_loopback (ip : N) : bool := ip =? 1.
Definition v6_multicast (ip : N) : bool := N.land (seg ip 0) 65280 =? 65280.
Definition n6_unique_local (ip : N) : bool := N.land (seg ip 0) 65024 =? 64512.          (* fc00::/7 *)
Definition n6_unicast_link_local (ip : N) : bool := N.land (seg ip 0) 65472 =? 65152.    (* fe80::/10 *)
Definition n6_unicast_site_local (ip : N) : bool := N.land (seg ip 0) 65472 =? 65216.    (* fec0::/10 *)
Definition n6_documentation (ip : N) : bool := (seg ip 0 =? 8193) && (seg ip 1 =? 3512). (* 2001:db8::/32 *)
Definition n6_unicast_global (ip : N) : bool :=
  negb (v6_multicast ip) && negb (v6_loopback ip) && negb (n6_unicast_link_local ip) &&
  negb (n6_unicast_site_local ip) && negb (n6_unique_local ip) && negb (v6_unspecified ip) &&
  negb (n6_documentation ip).
(* multicast_scope: Some(Global) for scope 14; Some(other) for 1, 2, 3, 4, 5, 8; None otherwise *)
Definition v6_global (ip : N) : bool :=
  if v6_multicast ip then
    let scope := N.land (seg ip 0) 15 in
    if scope =? 14 then true
    else if (scope =? 1) || (scope =? 2) || (scope =? 3) || (scope =? 4) || (scope =? 5) || (scope =? 8)
         then false
         else n6_unicast_global ip
  else n6_unicast_global ip.

(* ---------- the class of an address ---------- *)
Definition class_of_flags (unspec loop glob : bool) : ipclass :=
  if unspec then Unspec else if loop then Loop else if glob then Glob else Priv.
Definition classify4 (ip : N) : ipclass :=
  class_of_flags (v4_unspecified ip) (v4_loopback ip) (v4_global ip).
Definition classify6 (ip : N) : ipclass :=
  class_of_flags (v6_unspecified ip) (v6_loopback ip) (v6_global ip).

Definition is_glob (c : ipclass) : bool := match c with Glob => true | _ => false end.

(* ---------- the abstraction is exact ---------- *)

Lemma eqb_const_false ip c :
  octet ip 0 =? 127 = true -> (octet c 0 =? 127) = false -> (ip =? c) = false.
Proof.
  intros H Hc. destruct (N.eqb_spec ip c) as [->|]; [|reflexivity]. rewrite H in Hc. discriminate.
Qed.

Lemma octet0_127_not_others ip :
  octet ip 0 =? 127 = true ->
  (ip =? 0) = false /\ (ip =? ip4 192 0 0 9) = false /\ (ip =? ip4 192 0 0 10) = false.
Proof.
  intro H. repeat split; apply (eqb_const_false _ _ H); reflexivity.
Qed.

(* unspecified and loopback IPv4 addresses are never global, and never both *)
Lemma v4_exclusive ip :
  (v4_unspecified ip = true -> v4_loopback ip = false /\ v4_global ip = false) /\
  (v4_loopback ip = true -> v4_global ip = false).
Proof.
  split.
  - unfold v4_unspecified. intro H. apply N.eqb_eq in H. subst. split; reflexivity.
  - unfold v4_loopback. intro H. destruct (octet0_127_not_others ip H) as [_ [H9 H10]].
    unfold v4_global. rewrite H9, H10. unfold v4_loopback. rewrite H.
    rewrite !orb_true_r. reflexivity.
Qed.

Lemma v6_exclusive ip :
  (v6_unspecified ip = true -> v6_loopback ip = false /\ v6_global ip = false) /\
  (v6_loopback ip = true -> v6_global ip = false).
Proof.
  split.
  - unfold v6_unspecified. intro H. apply N.eqb_eq in H. subst. split; reflexivity.
  - unfold v6_loopback. intro H. apply N.eqb_eq in H. subst. reflexivity.
Qed.

(* the predicates the code evaluates are functions of the class *)
Lemma classify4_exact ip :
  is_unspec (classify4 ip) = v4_unspecified ip /\
  is_loop (classify4 ip) = v4_loopback ip /\
  is_glob (classify4 ip) = v4_global ip.
Proof.
  destruct (v4_exclusive ip) as [H1 H2]. unfold classify4, class_of_flags.
  destruct (v4_unspecified ip) eqn:Eu.
  - destruct (H1 eq_refl) as [-> ->]. repeat split; reflexivity.
  - destruct (v4_loopback ip) eqn:El.
    + rewrite (H2 eq_refl). repeat split; reflexivity.
    + destruct (v4_global ip); repeat split; reflexivity.
Qed.

Lemma classify6_exact ip :
  is_unspec (classify6 ip) = v6_unspecified ip /\
  is_loop (classify6 ip) = v6_loopback ip /\
  is_glob (classify6 ip) = v6_global ip.
Proof.
  destruct (v6_exclusive ip) as [H1 H2]. unfold classify6, class_of_flags.
  destruct (v6_unspecified ip) eqn:Eu.
  - destruct (H1 eq_refl) as [-> ->]. repeat split; reflexivity.
  - destruct (v6_loopback ip) eqn:El.
    + rewrite (H2 eq_refl). repeat split; reflexivity.
    + destruct (v6_global ip); repeat split; reflexivity.
Qed.

(* ---------- concrete addresses in the model's grammar ---------- *)

(* the component that stands for a concrete address: its class, and the address itself as the
   identifier (so that two components are equal exactly when the addresses are) *)
Definition comp_of_ip4 (ip : N) : comp := Ip4 (classify4 ip) ip.
Definition comp_of_ip6 (ip : N) : comp := Ip6 (classify6 ip) ip.

Lemma comp_of_ip4_inj a b : comp_of_ip4 a = comp_of_ip4 b -> a = b.
Proof. unfold comp_of_ip4. intros [= _ H]. exact H. Qed.
Lemma comp_of_ip6_inj a b : comp_of_ip6 a = comp_of_ip6 b -> a = b.
Proof. unfold comp_of_ip6. intros [= _ H]. exact H. Qed.

(* what handle.rs and address.rs compute on an address that starts with a concrete IP: exactly
   the std / ip_network predicates *)
Lemma first_ok_ip4 ip : first_ok (comp_of_ip4 ip) = negb (v4_unspecified ip).
Proof. unfold comp_of_ip4. cbn. rewrite (proj1 (classify4_exact ip)). reflexivity. Qed.
Lemma first_ok_ip6 ip : first_ok (comp_of_ip6 ip) = negb (v6_unspecified ip).
Proof. unfold comp_of_ip6. cbn. rewrite (proj1 (classify6_exact ip)). reflexivity. Qed.

Lemma is_global_ip4 ip rest : is_global (comp_of_ip4 ip :: rest) = v4_global ip.
Proof.
  unfold comp_of_ip4. cbn. rewrite <- (proj2 (proj2 (classify4_exact ip))).
  destruct (classify4 ip); reflexivity.
Qed.
Lemma is_global_ip6 ip rest : is_global (comp_of_ip6 ip :: rest) = v6_global ip.
Proof.
  unfold comp_of_ip6. cbn. rewrite <- (proj2 (proj2 (classify6_exact ip))).
  destruct (classify6 ip); reflexivity.
Qed.

(* is_local_address's comparison of a listen socket (lip, port) with an offered one (ip, port):
   same IP, or an unspecified listener and a loopback address, or two loopback addresses *)
Definition ipaddr_of4 (ip : N) : ipaddr := (false, classify4 ip, ip).
Definition ipaddr_of6 (ip : N) : ipaddr := (true, classify6 ip, ip).
Definition conc_unspecified (v6 : bool) (ip : N) : bool := if v6 then v6_unspecified ip else v4_unspecified ip.
Definition conc_loopback (v6 : bool) (ip : N) : bool := if v6 then v6_loopback ip else v4_loopback ip.
Definition ipaddr_of (v6 : bool) (ip : N) : ipaddr := if v6 then ipaddr_of6 ip else ipaddr_of4 ip.

Lemma ipaddr_of_class v6 ip :
  is_unspec (ip_class (ipaddr_of v6 ip)) = conc_unspecified v6 ip /\
  is_loop (ip_class (ipaddr_of v6 ip)) = conc_loopback v6 ip.
Proof.
  destruct v6; cbn.
  - destruct (classify6_exact ip) as [H1 [H2 _]]. split; assumption.
  - destruct (classify4_exact ip) as [H1 [H2 _]]. split; assumption.
Qed.

Lemma ip_eqb_conc v w a b :
  ip_eqb (ipaddr_of v a) (ipaddr_of w b) = Bool.eqb v w && (a =? b).
Proof.
  destruct v, w; cbn; try reflexivity.
  - destruct (N.eqb_spec a b) as [->|Hn].
    + destruct (classify6 b); cbn; rewrite ?N.eqb_refl; reflexivity.
    + rewrite andb_false_r. reflexivity.
  - destruct (N.eqb_spec a b) as [->|Hn].
    + destruct (classify4 b); cbn; rewrite ?N.eqb_refl; reflexivity.
    + rewrite andb_false_r. reflexivity.
Qed.

Definition ip_comp (v6 : bool) (ip : N) : comp := if v6 then comp_of_ip6 ip else comp_of_ip4 ip.

(* the comparison of is_local_address on concrete sockets *)
Lemma local_match_conc v a port w l lport rest :
  local_match (ipaddr_of v a) port (ip_comp w l :: Tcp lport :: rest) =
    (port =? lport) &&
    ((Bool.eqb w v && (l =? a)) ||
     (conc_unspecified w l && conc_loopback v a) ||
     (conc_loopback w l && conc_loopback v a)).
Proof.
  unfold local_match.
  assert (He : extract_ip_port (ip_comp w l :: Tcp lport :: rest) = Some (ipaddr_of w l, lport)).
  { destruct w; reflexivity. }
  rewrite He. rewrite ip_eqb_conc.
  destruct (ipaddr_of_class w l) as [-> ->]. destruct (ipaddr_of_class v a) as [_ ->].
  reflexivity.
Qed.

(* ---------- the ranges the harness maps the abstract classes to ---------- *)
Definition mapped4 (c : ipclass) (id : N) : N :=
  match c with
  | Unspec => 0
  | Loop => ip4 127 1 0 0 + id
  | Priv => ip4 10 7 0 0 + id
  | Glob => ip4 8 8 0 0 + id
  end.

Definition mapped6 (c : ipclass) (id : N) : N :=
  match c with
  | Unspec => 0
  | Loop => 1
  | Priv => 64768 * 2 ^ 112 + 7 * 65536 + id            (* fd00::7:<id> *)
  | Glob => 8193 * 2 ^ 112 + 18528 * 2 ^ 96 + id        (* 2001:4860::<id> *)
  end.

(* every address the harness makes for an abstract (class, id) pair has that class: the class the
   decoder of the correspondence run attaches to a mapped address is the class of the address *)
Lemma octet0_of a r : a < 256 -> r < 16777216 -> octet (a * 16777216 + r) 0 = a.
Proof.
  intros Ha Hr. unfold octet. change (8 * (3 - 0)) with 24. rewrite N.shiftr_div_pow2.
  change (2 ^ 24) with 16777216.
  rewrite N.div_add_l by lia. rewrite (N.div_small _ _ Hr), N.add_0_r.
  change 255 with (N.ones 8). rewrite N.land_ones. apply N.mod_small. exact Ha.
Qed.

Lemma neq_by_octet0 ip c : octet ip 0 <> octet c 0 -> (ip =? c) = false.
Proof. intro H. destruct (N.eqb_spec ip c) as [->|]; [contradiction|reflexivity]. Qed.

Lemma mapped4_class c id : id < 65536 -> classify4 (mapped4 c id) = c.
Proof.
  intro H. destruct c; try reflexivity.
  - assert (E : mapped4 Loop id = 127 * 16777216 + (65536 + id)) by (unfold mapped4, ip4; lia).
    remember (mapped4 Loop id) as ip eqn:Hip. clear Hip.
    assert (O : octet ip 0 = 127) by (rewrite E; apply octet0_of; lia).
    unfold classify4, class_of_flags, v4_unspecified, v4_loopback. rewrite O.
    rewrite (neq_by_octet0 ip 0) by (rewrite O; discriminate). reflexivity.
  - assert (E : mapped4 Priv id = 10 * 16777216 + (7 * 65536 + id)) by (unfold mapped4, ip4; lia).
    remember (mapped4 Priv id) as ip eqn:Hip. clear Hip.
    assert (O : octet ip 0 = 10) by (rewrite E; apply octet0_of; lia).
    unfold classify4, class_of_flags, v4_unspecified, v4_loopback, v4_global, n4_private. rewrite O.
    rewrite (neq_by_octet0 ip 0) by (rewrite O; discriminate).
    rewrite (neq_by_octet0 ip (ip4 192 0 0 9)) by (rewrite O; discriminate).
    rewrite (neq_by_octet0 ip (ip4 192 0 0 10)) by (rewrite O; discriminate).
    cbn [N.eqb Pos.eqb orb]. rewrite !orb_true_r. reflexivity.
  - assert (E : mapped4 Glob id = 8 * 16777216 + (8 * 65536 + id)) by (unfold mapped4, ip4; lia).
    remember (mapped4 Glob id) as ip eqn:Hip. clear Hip.
    assert (O : octet ip 0 = 8) by (rewrite E; apply octet0_of; lia).
    unfold classify4, class_of_flags, v4_unspecified, v4_loopback, v4_global, n4_private,
      n4_local_identification, n4_ietf_protocol_assignments, n4_shared_address_space, v4_link_local,
      v4_broadcast, v4_documentation, n4_benchmarking, n4_reserved, v4_loopback, v4_broadcast.
    rewrite O.
    rewrite (neq_by_octet0 ip 0) by (rewrite O; discriminate).
    rewrite (neq_by_octet0 ip 4294967295) by (rewrite O; discriminate).
    rewrite (neq_by_octet0 ip (ip4 192 0 0 9)) by (rewrite O; discriminate).
    rewrite (neq_by_octet0 ip (ip4 192 0 0 10)) by (rewrite O; discriminate).
    cbn [N.eqb Pos.eqb N.land Pos.land andb orb negb]. reflexivity.
Qed.

Lemma div_hi a x P : P <> 0 -> x < P -> (a * P + x) / P = a.
Proof. intros HP Hx. rewrite N.div_add_l by exact HP. rewrite (N.div_small _ _ Hx). lia. Qed.

Lemma land16 a : a < 65536 -> N.land a 65535 = a.
Proof. intro H. change 65535 with (N.ones 16). rewrite N.land_ones. apply N.mod_small. exact H. Qed.

Lemma seg0_of a b r : a < 65536 -> b < 65536 -> r < 2 ^ 96 -> seg (a * 2 ^ 112 + b * 2 ^ 96 + r) 0 = a.
Proof.
  intros Ha Hb Hr. unfold seg. change (16 * (7 - 0)) with 112.
  rewrite N.shiftr_div_pow2.
  assert (HP : 2 ^ 112 = 65536 * 2 ^ 96) by reflexivity.
  assert (H0 : 2 ^ 96 <> 0) by (apply N.pow_nonzero; lia).
  remember (2 ^ 96) as P. remember (2 ^ 112) as Q.
  rewrite <- N.add_assoc. rewrite div_hi; [apply land16; exact Ha | lia | ].
  rewrite HP. Timeout 20 nia.
Qed.

Lemma seg1_of a b r : a < 65536 -> b < 65536 -> r < 2 ^ 96 -> seg (a * 2 ^ 112 + b * 2 ^ 96 + r) 1 = b.
Proof.
  intros Ha Hb Hr. unfold seg. change (16 * (7 - 1)) with 96.
  rewrite N.shiftr_div_pow2.
  assert (HP : 2 ^ 112 = 65536 * 2 ^ 96) by reflexivity.
  assert (H0 : 2 ^ 96 <> 0) by (apply N.pow_nonzero; lia).
  remember (2 ^ 96) as P. remember (2 ^ 112) as Q. rewrite HP.
  replace (a * (65536 * P) + b * P + r) with ((a * 65536 + b) * P + r) by lia.
  rewrite div_hi by assumption.
  change 65535 with (N.ones 16). rewrite N.land_ones.
  rewrite N.add_comm, N.mod_add by lia. apply N.mod_small. exact Hb.
Qed.

Lemma big_not_small ip x : 2 ^ 112 <= ip -> x < 2 -> (ip =? x) = false.
Proof.
  intros H Hx. destruct (N.eqb_spec ip x) as [->|]; [|reflexivity].
  assert (2 <= 2 ^ 112) by (change 2 with (2 ^ 1) at 1; apply N.pow_le_mono_r; lia). lia.
Qed.

Lemma mapped6_class c id : id < 65536 -> classify6 (mapped6 c id) = c.
Proof.
  intro H. destruct c; try reflexivity.
  - (* fd00::7:<id> *)
    assert (E : mapped6 Priv id = 64768 * 2 ^ 112 + 0 * 2 ^ 96 + (7 * 65536 + id)).
    { unfold mapped6. rewrite N.mul_0_l, N.add_0_r. rewrite N.add_assoc. reflexivity. }
    remember (mapped6 Priv id) as ip eqn:Hip. clear Hip.
    assert (H96 : 2 ^ 32 <= 2 ^ 96) by (apply N.pow_le_mono_r; lia).
    assert (Hr : 7 * 65536 + id < 2 ^ 96) by (change (2 ^ 32) with 4294967296 in H96; lia).
    assert (S0 : seg ip 0 = 64768) by (rewrite E; apply seg0_of; [lia | lia | exact Hr]).
    assert (Hbig : 2 ^ 112 <= ip) by (rewrite E; remember (2 ^ 112) as Q; remember (2 ^ 96) as P; lia).
    assert (Hm : v6_multicast ip = false) by (unfold v6_multicast; rewrite S0; reflexivity).
    assert (Hu : n6_unique_local ip = true) by (unfold n6_unique_local; rewrite S0; reflexivity).
    unfold classify6, class_of_flags, v6_unspecified, v6_loopback.
    rewrite (big_not_small ip 0 Hbig) by lia. rewrite (big_not_small ip 1 Hbig) by lia.
    unfold v6_global, n6_unicast_global. rewrite Hm, Hu. cbn [negb andb].
    rewrite !andb_false_r. reflexivity.
  - (* 2001:4860::<id> *)
    assert (E : mapped6 Glob id = 8193 * 2 ^ 112 + 18528 * 2 ^ 96 + id) by reflexivity.
    remember (mapped6 Glob id) as ip eqn:Hip. clear Hip.
    assert (H96 : 2 ^ 32 <= 2 ^ 96) by (apply N.pow_le_mono_r; lia).
    assert (Hr : id < 2 ^ 96) by (change (2 ^ 32) with 4294967296 in H96; lia).
    assert (S0 : seg ip 0 = 8193) by (rewrite E; apply seg0_of; [lia | lia | exact Hr]).
    assert (S1 : seg ip 1 = 18528) by (rewrite E; apply seg1_of; [lia | lia | exact Hr]).
    assert (Hbig : 2 ^ 112 <= ip) by (rewrite E; remember (2 ^ 112) as Q; remember (2 ^ 96) as P; lia).
    assert (Hm : v6_multicast ip = false) by (unfold v6_multicast; rewrite S0; reflexivity).
    assert (Hu : n6_unique_local ip = false) by (unfold n6_unique_local; rewrite S0; reflexivity).
    assert (Hl : n6_unicast_link_local ip = false) by (unfold n6_unicast_link_local; rewrite S0; reflexivity).
    assert (Hs : n6_unicast_site_local ip = false) by (unfold n6_unicast_site_local; rewrite S0; reflexivity).
    assert (Hd : n6_documentation ip = false) by (unfold n6_documentation; rewrite S0, S1; reflexivity).
    unfold classify6, class_of_flags, v6_global, n6_unicast_global, v6_unspecified, v6_loopback.
    rewrite (big_not_small ip 0 Hbig) by lia. rewrite (big_not_small ip 1 Hbig) by lia.
    rewrite Hm, Hu, Hl, Hs, Hd. reflexivity.
Qed.
