(* C10 — pinned property theorems. This file contains statements, `exact`, and
   Print Assumptions only. The pins in tools/pins/C10.v re-check the statements. *)
From Coq Require Import List NArith ZArith Bool Sorted.
From V.gen Require Consts.
From V.C10 Require Import Model Proofs.
Import ListNotations.

(* Bound: in every reachable book (any configuration, any capacity, any history of additions,
   dial results and rediscoveries with any victim choices) every peer's store holds at most
   `cap` pairwise distinct addresses. No assumption on the environment. *)
Theorem C10_bound :
  forall c k h p s, get p (final c k h) = Some s ->
    (length s <= cap k)%nat /\ NoDup (keys s).
Proof. exact final_bound. Qed.
Print Assumptions C10_bound.

(* ... in particular with the constants of address.rs (regenerated from the source). *)
Theorem C10_bound_default :
  forall c h p s, get p (final c default_scores h) = Some s ->
    (N.of_nat (length s) <= Consts.MAX_ADDRESSES)%N.
Proof. exact final_bound_default. Qed.
Print Assumptions C10_bound_default.

(* Accept implies dialable, over the whole grammar: an address accepted by supported_transport
   ends in /p2p/q, the transport that dial(peer) routes it to is enabled, and that transport's
   own parser accepts it, yields peer q and a host that is not the unspecified IP. *)
Theorem C10_accept_implies_dialable :
  forall c a, supported c a = true ->
    exists q, last a (Other 0) = P2p q /\
      enabled c (route c a) = true /\
      exists ho port, parse (route c a) a = Some (ho, port, Some q) /\
                      host_unspecified ho = false.
Proof. exact supported_dialable. Qed.
Print Assumptions C10_accept_implies_dialable.

(* What add_known_address lets through: the address unchanged, supported, not a local listen
   address, and naming the peer it was offered for. *)
Theorem C10_offer_filter :
  forall c peer l a, In a (accepted c peer l) ->
    In a l /\ supported c a = true /\ is_local c a = false /\ last a (Other 0) = P2p peer.
Proof. exact accepted_acceptable. Qed.
Print Assumptions C10_offer_filter.

(* Attributable, not local, dialable — for everything remembered after any history, provided
   the dial results reported by the transports concern addresses acceptable for that peer
   (they were taken from the store). *)
Theorem C10_remembered_acceptable :
  forall c k h p s a z,
    Forall (op_wf (acceptable c)) h ->
    get p (final c k h) = Some s -> In (a, z) s ->
    (supported c a = true /\ is_local c a = false /\ last a (Other 0) = P2p p) /\
    (enabled c (route c a) = true /\
     exists ho port, parse (route c a) a = Some (ho, port, Some p) /\
                     host_unspecified ho = false).
Proof. exact final_acceptable. Qed.
Print Assumptions C10_remembered_acceptable.

(* Eviction happens only at the bound and removes a record of minimal score, not above the
   newcomer's score; nothing else changes. *)
Theorem C10_evict_min :
  forall k s a sc v w,
  NoDup (keys s) ->
  snd (insert k s a sc v) = Evicted w ->
  let s' := fst (insert k s a sc v) in
  exists m,
    find a s = None /\ (cap k <= length s)%nat /\
    find w s = Some m /\ (forall b z, In (b, z) s -> (m <= z)%Z) /\ (m <= new_score k a sc)%Z /\
    find w s' = None /\ find a s' = Some (new_score k a sc) /\
    length s' = length s /\
    forall b, b <> w -> b <> a -> find b s' = find b s.
Proof. exact insert_evicts_min. Qed.
Print Assumptions C10_evict_min.

(* The newcomer is refused only when the store is full and every record scores higher. *)
Theorem C10_drop_only_below_min :
  forall k s a sc v,
  snd (insert k s a sc v) = Dropped ->
  fst (insert k s a sc v) = s /\ find a s = None /\ (cap k <= length s)%nat /\
  forall b z, In (b, z) s -> (new_score k a sc < z)%Z.
Proof. exact insert_dropped. Qed.
Print Assumptions C10_drop_only_below_min.

(* Whatever insert does, an address other than the inserted one keeps its score or is the
   reported victim. *)
Theorem C10_insert_frame :
  forall k s a sc v b,
  NoDup (keys s) -> b <> a ->
  find b (fst (insert k s a sc v)) = find b s \/
  (snd (insert k s a sc v) = Evicted b /\ find b (fst (insert k s a sc v)) = None).
Proof. exact insert_frame. Qed.
Print Assumptions C10_insert_frame.

(* A dial success or failure on a known address sets exactly that address's score to the
   event's score; the key set and all other scores are unchanged. *)
Theorem C10_rescore_exact :
  forall k s a sc v z0,
  find a s = Some z0 -> sc <> 0%Z ->
  let s' := fst (insert k s a sc v) in
  snd (insert k s a sc v) = Updated /\
  find a s' = Some sc /\ keys s' = keys s /\
  forall b, b <> a -> find b s' = find b s.
Proof. exact insert_rescore. Qed.
Print Assumptions C10_rescore_exact.

(* Rediscovery keeps the history: re-adding known addresses changes nothing. *)
Theorem C10_rediscovery_keeps :
  forall k s l victims,
  (forall a, In a l -> find a s <> None) -> insert_all k s l victims = (s, false).
Proof. exact insert_all_rediscovery. Qed.
Print Assumptions C10_rediscovery_keeps.

(* Dial order: addresses(limit) has min(limit, |store|) entries of the store in non-increasing
   score order, and no address left out scores higher than one that was taken. *)
Theorem C10_dial_order :
  forall limit s,
  let r := addresses limit s in
  length r = Nat.min limit (length s) /\
  StronglySorted ge_score r /\
  (forall x, In x r -> In x s) /\
  (forall x y, In x r -> In y s -> ~ In y r -> (snd y <= snd x)%Z).
Proof. exact addresses_spec. Qed.
Print Assumptions C10_dial_order.

(* The check of an observed addresses(limit) result used in the differential run means what
   it says (length, membership with the stored scores, no repetition, non-increasing scores,
   nothing better left out) ... *)
Theorem C10_dial_order_validator_sound :
  forall limit s obs,
  addresses_ok limit s obs = true ->
  length obs = Nat.min limit (length s) /\
  (forall a z, In (a, z) obs -> find a s = Some z) /\
  NoDup (map fst obs) /\
  StronglySorted (fun x y => (y <= x)%Z) (map snd obs) /\
  (forall b y, In (b, y) s -> ~ In b (map fst obs) -> forall a z, In (a, z) obs -> (y <= z)%Z).
Proof. exact addresses_ok_sound. Qed.
Print Assumptions C10_dial_order_validator_sound.

(* ... and it is satisfiable: the model's own selection passes it. *)
Theorem C10_dial_order_validator_complete :
  forall limit s, NoDup (keys s) -> addresses_ok limit s (addresses limit s) = true.
Proof. exact addresses_ok_complete. Qed.
Print Assumptions C10_dial_order_validator_complete.

(* The victim choice can always be resolved (capacity >= 1): the model never gets stuck on the
   validation of the implementation's choice when a minimal record is supplied. *)
Theorem C10_choice_resolvable :
  forall k s a sc, NoDup (keys s) -> (1 <= cap k)%nat ->
  snd (insert k s a sc (pick_min s)) <> BadChoice.
Proof. exact insert_pick_min_ok. Qed.
Print Assumptions C10_choice_resolvable.

(* non-vacuity: a capacity-2 store, a failure, an eviction of the failed address, a rescore *)
Example C10_nonvacuous :
  let c := mkCfg true false true true false 0 [[Ip4 Unspec 0; Tcp 30]] in
  let k := mkScores 2 1 100 (-100) (-2147483648) in
  let a1 := [Ip4 Priv 1; Tcp 1; P2p 1] in
  let a2 := [Ip4 Glob 2; Tcp 2; Ws; P2p 1] in
  let a3 := [Dns 3; Tcp 3; P2p 1] in
  let h := [OAdd 1 [a1] []; OAdd 1 [[Ip4 Loop 9; Tcp 30; P2p 1]] []; OAdd 1 [a2] [];
            ODialFailure a1 ConnFailure None; OAdd 1 [a3] [a1];
            OEstablished 1 a2 false None; OAdd 1 [a2] []] in
  get 1 (final c k h) = Some [(a2, 100%Z); (a3, 1%Z)] /\
  supported c a2 = true /\ route c a2 = TWs.
Proof. vm_compute. repeat split; reflexivity. Qed.
