(* C10 — pinned property theorems. This file contains statements, `exact`, and
   Print Assumptions only. The pins in tools/pins/C10.v re-check the statements. *)
From Coq Require Import List NArith ZArith Bool Sorted Permutation.
From V.gen Require Consts DialErrors.
From V.C10 Require Import Model IpClass Proofs.
From V.C10 Require ErrNames KadStore.
From V.C14 Require AddrModel.
Import ListNotations.

(* Bound: in every reachable book (any configuration, any capacity, any history of additions,
   dial results and rediscoveries with any victim choices) every peer's store holds at most
   `cap` pairwise distinct addresses. No assumption on the environment. *)
Theorem C10_bound :
  forall c k h p s, get p (bk (final c k h)) = Some s ->
    (length s <= cap k)%nat /\ NoDup (keys s).
Proof. exact final_bound. Qed.
Print Assumptions C10_bound.

(* ... in particular with the constants of address.rs (regenerated from the source). *)
Theorem C10_bound_default :
  forall c h p s, get p (bk (final c default_scores h)) = Some s ->
    (N.of_nat (length s) <= Consts.MAX_ADDRESSES)%N.
Proof. exact final_bound_default. Qed.
Print Assumptions C10_bound_default.

(* Accept implies dialable, over the whole grammar: an address accepted by supported_transport
   ends in /p2p/q, the transport that dial(peer) routes it to is enabled, and that transport's
   own parser accepts it, yields peer q and a host that is not the unspecified IP. *)
Theorem C10_accept_implies_dialable :
  forall c a, supported c a = true ->
    exists q, last a (Other 0) = P2p q /\
      enabled c (route c a) = true /\
      exists ho port, parse (route c a) a = Some (ho, port, Some q) /\
                      host_unspecified ho = false.
Proof. exact supported_dialable. Qed.
Print Assumptions C10_accept_implies_dialable.

(* What add_known_address lets through: the address unchanged, supported, not local with respect
   to the listen addresses registered so far, and naming the peer it was offered for. *)
Theorem C10_offer_filter :
  forall c ls peer l a, In a (accepted c ls peer l) ->
    In a l /\ supported c a = true /\ is_local c ls a = false /\ last a (Other 0) = P2p peer.
Proof. exact accepted_acceptable. Qed.
Print Assumptions C10_offer_filter.

(* The same through a protocol's TransportService (Kademlia, user protocols): the service appends
   /p2p/<peer> to an offered address that ends in no peer id. What is remembered is therefore an
   offered address that names the peer, or an offered address without a peer id with the id
   appended - and it passed the filter above. *)
Theorem C10_service_offer_filter :
  forall c ls peer l a, In a (accepted c ls peer (ts_prepare peer l)) ->
    (exists a0, In a0 l /\
       ((last a0 (Other 0) = P2p peer /\ a = a0) \/
        ((forall q, last a0 (Other 0) <> P2p q) /\ a = a0 ++ [P2p peer]))) /\
    supported c a = true /\ is_local c ls a = false /\ last a (Other 0) = P2p peer.
Proof. exact service_offer. Qed.
Print Assumptions C10_service_offer_filter.

(* Litep2p level: new() registers the listen addresses ls of the configured transports and then
   adds Litep2pConfig::known_addresses; afterwards Litep2p::add_known_address. After any such
   history every remembered address is supported, names its peer, is not local with respect to ls
   and is dialable. No assumption. *)
Theorem C10_litep2p_level :
  forall c k ls h p s a z,
    only_adds h ->
    get p (bk (fst (run c k (mkState [] ls 0 []) h))) = Some s -> In (a, z) s ->
    (supported c a = true /\ is_local c ls a = false /\ last a (Other 0) = P2p p) /\
    (enabled c (route c a) = true /\
     exists ho port, parse (route c a) a = Some (ho, port, Some p) /\
                     host_unspecified ho = false).
Proof. exact litep2p_level. Qed.
Print Assumptions C10_litep2p_level.

(* Registering further listen addresses can only make more addresses local. *)
Theorem C10_listen_monotone :
  forall c l1 l2 a, incl l1 l2 -> is_local c l2 a = false -> is_local c l1 a = false.
Proof. exact is_local_mono. Qed.
Print Assumptions C10_listen_monotone.

(* Attributable, not local, dialable — for everything remembered after any history (additions,
   dial results, whole dial(peer) and dial_address episodes, further listen addresses, held
   connections, raw inserts) that starts after the listen addresses L0 were registered, provided
   the dial results reported outside dial(peer) episodes, the raw inserts and the addresses handed
   to dial_address concern addresses acceptable for that peer. *)
Theorem C10_remembered_acceptable :
  forall c k L0 h p s a z,
    Forall (op_ok c L0) h ->
    get p (bk (fst (run c k (mkState [] L0 0 []) h))) = Some s -> In (a, z) s ->
    (supported c a = true /\ is_local c L0 a = false /\ last a (Other 0) = P2p p) /\
    (enabled c (route c a) = true /\
     exists ho port, parse (route c a) a = Some (ho, port, Some p) /\
                     host_unspecified ho = false).
Proof. exact run_acceptable. Qed.
Print Assumptions C10_remembered_acceptable.

(* Without any condition on what dial_address is handed (its own address check is weaker than
   add_known_address: no unspecified-host and no is_local filter, only literal listen addresses are
   refused): every remembered address still names its peer and is parsed, with that peer, by the
   enabled transport it is routed to. *)
Theorem C10_remembered_dialable :
  forall c k L0 h p s a z,
    Forall (op_weak c) h ->
    get p (bk (fst (run c k (mkState [] L0 0 []) h))) = Some s -> In (a, z) s ->
    last a (Other 0) = P2p p /\ enabled c (route c a) = true /\
    exists ho port, parse (route c a) a = Some (ho, port, Some p).
Proof. exact run_remembered. Qed.
Print Assumptions C10_remembered_dialable.

(* ... and, again without any condition on what dial_address is handed, none of the remembered
   addresses is one of the node's own listen addresses L0 under whatever peer id: with the /p2p
   suffix taken off it is neither a listen address nor a listen address followed by /p2p/<local>
   (add_known_address and, since the repair of dial_address, dial_address both look the stripped
   address up in the listen set). *)
Theorem C10_remembered_not_own_listen :
  forall c k L0 h p s a z,
    Forall (op_strict c L0) h ->
    get p (bk (fst (run c k (mkState [] L0 0 []) h))) = Some s -> In (a, z) s ->
    (last a (Other 0) = P2p p /\ enabled c (route c a) = true /\
     exists ho port, parse (route c a) a = Some (ho, port, Some p)) /\
    forall l, In l L0 -> strip_p2p a <> l /\ strip_p2p a <> l ++ [P2p (local_peer c)].
Proof.
  intros c k L0 h p s a z Hw Hg Hin. destruct (run_strict c k L0 h p s a z Hw Hg Hin) as [H1 H2].
  split; [exact H1 | exact (proj1 (not_own_spec _ _ _) H2)].
Qed.
Print Assumptions C10_remembered_not_own_listen.

(* In particular for histories that consist of API calls (add_known_address at any level,
   register_listen_address, dial_address, public addresses, held connections, probes) and complete
   dial(peer) / dial_address episodes - i.e. without dial results reported out of the blue and raw
   store inserts - nothing is assumed at all. *)
Theorem C10_api_histories :
  forall c k L0 h p s a z,
    Forall api_op h ->
    get p (bk (fst (run c k (mkState [] L0 0 []) h))) = Some s -> In (a, z) s ->
    (last a (Other 0) = P2p p /\ enabled c (route c a) = true /\
     exists ho port, parse (route c a) a = Some (ho, port, Some p)) /\
    forall l, In l L0 -> strip_p2p a <> l /\ strip_p2p a <> l ++ [P2p (local_peer c)].
Proof.
  intros c k L0 h p s a z Hw Hg Hin. destruct (run_api c k L0 h p s a z Hw Hg Hin) as [H1 H2].
  split; [exact H1 | exact (proj1 (not_own_spec _ _ _) H2)].
Qed.
Print Assumptions C10_api_histories.

(* What dial_address lets through (and stores with score 0 before dialing): free outbound
   capacity, not a registered listen address - neither literally nor with its /p2p suffix taken
   off, i.e. under another peer id - and an address that names q and is parsed with q by the
   enabled transport t it is handed to. *)
Theorem C10_dial_address_filter :
  forall c st a t q,
    dial_addr_check c st a = DAOk t q ->
    free_capacity c st 0 <> None /\
    (existsb (maddr_eqb a) (listen_set c (lst st)) = false /\
     existsb (maddr_eqb (strip_p2p a)) (listen_set c (lst st)) = false) /\
    route c a = t /\
    (last a (Other 0) = P2p q /\ enabled c (route c a) = true /\
     exists ho port, parse (route c a) a = Some (ho, port, Some q)).
Proof.
  intros c st a t q H. destruct (dial_addr_ok_spec _ _ _ _ _ H) as [H1 [H2 H3]].
  split; [exact H1|]. split; [exact (own_listen_false _ _ _ H2) | exact H3].
Qed.
Print Assumptions C10_dial_address_filter.

(* The two address checks agree on shapes: whatever add_known_address would accept, dial_address
   dials through the same transport (given capacity, unless it is a listen address). *)
Theorem C10_supported_implies_dial_address :
  forall c st a,
    supported c a = true -> free_capacity c st 0 <> None ->
    own_listen c (lst st) a = false ->
    exists q, last a (Other 0) = P2p q /\ dial_addr_check c st a = DAOk (route c a) q.
Proof. exact supported_dial_addr. Qed.
Print Assumptions C10_supported_implies_dial_address.

(* ... and that invariant (with the bound and key uniqueness) is inductive from any state. *)
Theorem C10_step_preserves :
  forall c k L0 st o,
    StInv k L0 (acceptable c L0) st -> op_ok c L0 o ->
    StInv k L0 (acceptable c L0) (fst (step c k st o)).
Proof. exact step_acceptable. Qed.
Print Assumptions C10_step_preserves.

(* Eviction happens only at the bound and removes a record of minimal score, not above the
   newcomer's score; nothing else changes. *)
Theorem C10_evict_min :
  forall k s a sc v w,
  NoDup (keys s) ->
  snd (insert k s a sc v) = Evicted w ->
  let s' := fst (insert k s a sc v) in
  exists m,
    find a s = None /\ (cap k <= length s)%nat /\
    find w s = Some m /\ (forall b z, In (b, z) s -> (m <= z)%Z) /\ (m <= new_score k a sc)%Z /\
    find w s' = None /\ find a s' = Some (new_score k a sc) /\
    length s' = length s /\
    forall b, b <> w -> b <> a -> find b s' = find b s.
Proof. exact insert_evicts_min. Qed.
Print Assumptions C10_evict_min.

(* The newcomer is refused only when the store is full and every record scores higher. *)
Theorem C10_drop_only_below_min :
  forall k s a sc v,
  snd (insert k s a sc v) = Dropped ->
  fst (insert k s a sc v) = s /\ find a s = None /\ (cap k <= length s)%nat /\
  forall b z, In (b, z) s -> (new_score k a sc < z)%Z.
Proof. exact insert_dropped. Qed.
Print Assumptions C10_drop_only_below_min.

(* Whatever insert does, an address other than the inserted one keeps its score or is the
   reported victim. *)
Theorem C10_insert_frame :
  forall k s a sc v b,
  NoDup (keys s) -> b <> a ->
  find b (fst (insert k s a sc v)) = find b s \/
  (snd (insert k s a sc v) = Evicted b /\ find b (fst (insert k s a sc v)) = None).
Proof. exact insert_frame. Qed.
Print Assumptions C10_insert_frame.

(* A dial success or failure on a known address sets exactly that address's score to the
   event's score; the key set and all other scores are unchanged. *)
Theorem C10_rescore_exact :
  forall k s a sc v z0,
  find a s = Some z0 -> sc <> 0%Z ->
  let s' := fst (insert k s a sc v) in
  snd (insert k s a sc v) = Updated /\
  find a s' = Some sc /\ keys s' = keys s /\
  forall b, b <> a -> find b s' = find b s.
Proof. exact insert_rescore. Qed.
Print Assumptions C10_rescore_exact.

(* Rediscovery keeps the history: re-adding known addresses changes nothing. *)
Theorem C10_rediscovery_keeps :
  forall k s l victims,
  (forall a, In a l -> find a s <> None) -> insert_all k s l victims = (s, false).
Proof. exact insert_all_rediscovery. Qed.
Print Assumptions C10_rediscovery_keeps.

(* ... and more generally: as long as the additions fit under the bound, offering any addresses
   (new ones, known ones, in any order) never changes a recorded score - a dial failure or success
   is not erased by later rediscovery. (At the bound a record can only disappear as the reported
   minimal victim: C10_insert_frame, C10_evict_min.) *)
Theorem C10_additions_keep_scores :
  forall k s l vs b z,
  NoDup (keys s) -> (length s + length l <= cap k)%nat -> find b s = Some z ->
  find b (fst (insert_all k s l vs)) = Some z /\ snd (insert_all k s l vs) = false.
Proof. exact insert_all_keeps_scores. Qed.
Print Assumptions C10_additions_keep_scores.

(* Dial order: addresses(limit) has min(limit, |store|) entries of the store in non-increasing
   score order, and no address left out scores higher than one that was taken. *)
Theorem C10_dial_order :
  forall limit s,
  let r := addresses limit s in
  length r = Nat.min limit (length s) /\
  StronglySorted ge_score r /\
  (forall x, In x r -> In x s) /\
  (forall x y, In x r -> In y s -> ~ In y r -> (snd y <= snd x)%Z).
Proof. exact addresses_spec. Qed.
Print Assumptions C10_dial_order.

(* The check of an observed addresses(limit) result used in the differential run means what
   it says (length, membership with the stored scores, no repetition, non-increasing scores,
   nothing better left out) ... *)
Theorem C10_dial_order_validator_sound :
  forall limit s obs,
  addresses_ok limit s obs = true ->
  length obs = Nat.min limit (length s) /\
  (forall a z, In (a, z) obs -> find a s = Some z) /\
  NoDup (map fst obs) /\
  StronglySorted (fun x y => (y <= x)%Z) (map snd obs) /\
  (forall b y, In (b, y) s -> ~ In b (map fst obs) -> forall a z, In (a, z) obs -> (y <= z)%Z).
Proof. exact addresses_ok_sound. Qed.
Print Assumptions C10_dial_order_validator_sound.

(* ... and it is satisfiable: the model's own selection passes it. *)
Theorem C10_dial_order_validator_complete :
  forall limit s, NoDup (keys s) -> addresses_ok limit s (addresses limit s) = true.
Proof. exact addresses_ok_complete. Qed.
Print Assumptions C10_dial_order_validator_complete.

(* dial(peer) end to end: when the model accepts the address lists that the implementation
   handed to the open() of its TCP, WebSocket and QUIC transports, then the peer is not the local
   one, there was free outbound capacity `limit` (max_outgoing_connections minus the established
   outbound connections, or everything when unlimited), the three lists merged by score are a
   valid addresses(limit) selection of the peer's store (see C10_dial_order_validator_sound),
   every address went to the installed transport it is routed to and names the peer, and the
   store afterwards is the recorded outcome. *)
Theorem C10_dial_tries :
  forall c k st peer outcome errs tcp ws qu t w q st',
  step c k st (ODial peer outcome errs tcp ws qu) = (st', RDial (DTried t w q)) ->
  let s := get_or_empty peer (bk st) in
  exists limit,
    free_capacity c st (length s) = Some limit /\
    peer <> local_peer c /\
    t = with_scores s tcp /\ w = with_scores s ws /\ q = with_scores s qu /\
    addresses_ok limit s (merge_desc (merge_desc t w) q) = true /\
    Permutation (merge_desc (merge_desc t w) q) (t ++ w ++ q) /\
    Forall (fun a => In a (keys s) /\ names peer a = true /\ route c a = TTcp /\ enabled c TTcp = true) tcp /\
    Forall (fun a => In a (keys s) /\ names peer a = true /\ route c a = TWs /\ enabled c TWs = true) ws /\
    Forall (fun a => In a (keys s) /\ names peer a = true /\ route c a = TQuic /\ enabled c TQuic = true) qu /\
    st' = set_bk st (put peer (dial_outcome k s peer outcome errs tcp ws qu) (bk st)).
Proof. exact step_dial_tried. Qed.
Print Assumptions C10_dial_tries.

Theorem C10_free_capacity :
  forall c st n limit,
  free_capacity c st n = Some limit ->
  match max_out c with
  | Some m => (held st < m)%nat /\ limit = (m - held st)%nat
  | None => limit = n
  end.
Proof. exact free_capacity_spec. Qed.
Print Assumptions C10_free_capacity.

(* All attempts of a dial fail, attempt i with error kind errs[i mod |errs|]: exactly the tried
   addresses are re-scored, each to the score of the error kind its attempt failed with. *)
Theorem C10_dial_all_fail :
  forall k s peer errs tcp ws qu b,
  NoDup (keys s) -> NoDup (tcp ++ ws ++ qu) -> (forall a, In a (tcp ++ ws ++ qu) -> In a (keys s)) ->
  (forall e, error_score k e <> 0%Z) ->
  find b (dial_outcome k s peer 0 errs tcp ws qu) =
    match lookup_err b (tag_errs errs 0 tcp ++ tag_errs errs (length tcp) ws ++
                        tag_errs errs (length tcp + length ws) qu) with
    | Some e => Some (error_score k e)
    | None => find b s
    end.
Proof. exact dial_all_fail_find. Qed.
Print Assumptions C10_dial_all_fail.

(* Attempt j of a transport's list succeeds after the earlier ones failed: the address used gets
   the established score, the earlier ones the score of their error kind, nothing else changes. *)
Theorem C10_dial_success :
  forall k s peer l j a e0 b,
  NoDup (keys s) -> NoDup (map fst l) -> (forall x, In x (map fst l) -> In x (keys s)) ->
  nth_error l j = Some (a, e0) -> names peer a = true ->
  (forall e, error_score k e <> 0%Z) -> sc_established k <> 0%Z ->
  find b (succeed_at k s peer l j) =
    if maddr_eqb b a then Some (sc_established k)
    else match lookup_err b (firstn j l) with
         | Some e => Some (error_score k e)
         | None => find b s
         end.
Proof. exact succeed_at_find. Qed.
Print Assumptions C10_dial_success.

(* A dial whose selection spans several transports. Whatever the other transports report - an
   OpenFailure for their addresses before the ConnectionOpened event of the transport that
   connects (they are not the last transport, the manager has nothing to report yet) or after it
   (there is no dial left to conclude) - every address reported failed, in an OpenFailure event or
   in ConnectionOpened.errors, carries the score of its error kind, the address that connected
   the established score, and nothing else changes. *)
Theorem C10_dial_mixed_outcome :
  forall k s peer before l j after a e0 b,
  NoDup (keys s) -> NoDup (map fst (before ++ l ++ after)) ->
  (forall x, In x (map fst (before ++ l ++ after)) -> In x (keys s)) ->
  nth_error l j = Some (a, e0) -> names peer a = true ->
  (forall e, error_score k e <> 0%Z) -> sc_established k <> 0%Z ->
  find b (mixed_outcome k s peer before l j after) =
    if maddr_eqb b a then Some (sc_established k)
    else match lookup_err b (before ++ firstn j l ++ after) with
         | Some e => Some (error_score k e)
         | None => find b s
         end.
Proof. exact mixed_outcome_find. Qed.
Print Assumptions C10_dial_mixed_outcome.

(* The outcome the model records for a dial(peer) episode in which one attempt connects IS such a
   mixed outcome: the reported addresses are distinct addresses handed to the transports, each
   with the error kind of its attempt, the winning position exists; in particular every failed
   address ends strictly negative and the winner positive (C10_error_score_negative). *)
Theorem C10_dial_outcome_is_mixed :
  forall k s peer j0 errs tcp ws qu,
  NoDup (tcp ++ ws ++ qu) -> (0 < length tcp + length ws + length qu)%nat ->
  exists before l j after,
    dial_outcome k s peer (S j0) errs tcp ws qu = mixed_outcome k s peer before l j after /\
    NoDup (map fst (before ++ l ++ after)) /\
    (forall x, In x (map fst (before ++ l ++ after)) -> In x (tcp ++ ws ++ qu)) /\
    (forall x, In x (before ++ l ++ after) -> In x (attempts errs tcp ws qu)) /\
    (j < length l)%nat /\
    (l = tag_errs errs 0 tcp \/ l = tag_errs errs (length tcp) ws \/
     l = tag_errs errs (length tcp + length ws) qu).
Proof.
  intros k s peer j0 errs tcp ws qu Hnd Hpos. cbn [dial_outcome].
  destruct (dial_episode errs tcp ws qu j0) as [[[before l] j] after] eqn:E.
  exists before, l, j, after. split; [reflexivity|].
  exact (dial_episode_shape errs tcp ws qu j0 before l j after E Hnd Hpos).
Qed.
Print Assumptions C10_dial_outcome_is_mixed.

(* The failure of a transport that is not the last one is not lost when another transport opens
   the connection: TCP fails all its addresses, then WebSocket connects on its first address. *)
Theorem C10_dial_first_transport_failure_counts :
  forall k s peer errs a w ws b,
  NoDup (keys s) -> NoDup (a :: w :: ws) -> (forall x, In x (a :: w :: ws) -> In x (keys s)) ->
  names peer w = true -> (forall e, error_score k e <> 0%Z) -> sc_established k <> 0%Z ->
  (* outcome: position 1 (the first WebSocket address) wins, first other transport (TCP) reports
     its failure before the ConnectionOpened event: j0 = 1 + n * 1 with n = 2 + |ws| *)
  find b (dial_outcome k s peer (S (3 + length ws)) errs [a] (w :: ws) []) =
    if maddr_eqb b w then Some (sc_established k)
    else if maddr_eqb a b then Some (error_score k (err_at errs 0))
    else find b s.
Proof. exact dial_first_transport_failure_counts. Qed.
Print Assumptions C10_dial_first_transport_failure_counts.

(* ---------- the kind of a dial failure ---------- *)

(* The model's DialError has exactly the variants of src/error.rs, in order, two levels deep
   (names and cfg gates extracted from the source on every check), and the wire codes used by the
   correspondence run enumerate it without loss. *)
Theorem C10_error_variants_in_sync :
  ErrNames.model_variants = DialErrors.variants /\ ErrNames.model_gates = DialErrors.gates.
Proof. exact ErrNames.variants_in_sync. Qed.
Print Assumptions C10_error_variants_in_sync.

(* The manager writes into a peer's address store at exactly five places (extracted from
   src/transport/manager/*.rs on every check), each covered by a model operation (see ErrNames.v);
   no code path replaces or removes a peer's context. *)
Theorem C10_store_sites_in_sync : ErrNames.model_store_sites = DialErrors.store_sites.
Proof. exact ErrNames.store_sites_in_sync. Qed.
Print Assumptions C10_store_sites_in_sync.

(* The places of the crate where an address is offered to the book (calls of add_known_address /
   dial_address in src/**/*.rs, extracted on every check) are the ten the model covers (see
   ErrNames.v; identify.rs and mdns.rs offer none), and in Litep2p::new the configured known
   addresses are added after the transports have registered their listen addresses. *)
Theorem C10_entry_sites_in_sync :
  ErrNames.model_entry_sites = DialErrors.entry_sites /\
  ErrNames.listen_before_known DialErrors.new_call_order = true.
Proof. exact ErrNames.entry_sites_in_sync. Qed.
Print Assumptions C10_entry_sites_in_sync.

Theorem C10_error_kinds_enumerated :
  forall e, In e all_dial_errors /\ err_of_code (err_code e) = Some e.
Proof. intro e. split; [apply all_dial_errors_complete | apply err_code_roundtrip]. Qed.
Print Assumptions C10_error_kinds_enumerated.

(* Every failure kind maps (by the arms of AddressStore::error_score as they stand in the source)
   to a strictly negative i32: it can never be mistaken for a rediscovery (score 0) and ranks the
   address below every untested one. *)
Theorem C10_error_score_negative :
  forall e, (error_score default_scores e < 0)%Z /\ in_i32 (error_score default_scores e).
Proof. intro e. split; [apply error_score_negative | apply error_score_i32]. Qed.
Print Assumptions C10_error_score_negative.

(* AddressError is the only kind that bans an address (i32::MIN); every other kind gets
   CONNECTION_FAILURE. *)
Theorem C10_address_error_only_banned :
  forall e, error_score default_scores e = I32_MIN <-> exists ae, e = EAddress ae.
Proof. exact error_score_banned_iff. Qed.
Print Assumptions C10_address_error_only_banned.

Theorem C10_error_score_table :
  forall e, error_score default_scores e =
    if is_address_error e then (- Z.of_N Consts.SCORE_ADDRESS_FAILURE_NEG)%Z
    else (- Z.of_N Consts.SCORE_CONNECTION_FAILURE_NEG)%Z.
Proof. exact error_score_table. Qed.
Print Assumptions C10_error_score_table.

(* A success is recorded with a strictly positive score. *)
Theorem C10_success_score_positive :
  (0 < sc_established default_scores)%Z /\ in_i32 (sc_established default_scores) /\
  (0 <= bonus default_scores)%Z.
Proof. exact established_positive. Qed.
Print Assumptions C10_success_score_positive.

(* Whatever the kind, a failure on a stored address (whatever its score) re-scores exactly that
   address to the score of the kind: the key set and all other scores are unchanged. *)
Theorem C10_failure_rescores_any_kind :
  forall s a e v z0,
  find a s = Some z0 ->
  let sc := error_score default_scores e in
  let s' := fst (insert default_scores s a sc v) in
  (sc < 0)%Z /\ snd (insert default_scores s a sc v) = Updated /\
  find a s' = Some sc /\ keys s' = keys s /\ forall b, b <> a -> find b s' = find b s.
Proof. exact failure_rescores_any_kind. Qed.
Print Assumptions C10_failure_rescores_any_kind.

(* ... and at the level of the whole state: update_address_on_dial_failure touches one address of
   one peer; all other peers, the listen and public addresses and the held connections are
   untouched. *)
Theorem C10_dial_failure_step :
  forall c k st a e v p z0,
  last a (Other 0) = P2p p -> find a (get_or_empty p (bk st)) = Some z0 -> error_score k e <> 0%Z ->
  let s := get_or_empty p (bk st) in
  let st' := fst (step c k st (ODialFailure a e v)) in
  (exists s', get p (bk st') = Some s' /\ find a s' = Some (error_score k e) /\ keys s' = keys s /\
              forall b, b <> a -> find b s' = find b s) /\
  (forall q, q <> p -> get q (bk st') = get q (bk st)) /\
  lst st' = lst st /\ held st' = held st /\ pubs st' = pubs st.
Proof. exact step_dial_failure_known. Qed.
Print Assumptions C10_dial_failure_step.

(* The same for update_address_on_connection_established on the dialing side. *)
Theorem C10_established_step :
  forall c k st peer a v z0,
  find (with_peer peer a) (get_or_empty peer (bk st)) = Some z0 -> sc_established k <> 0%Z ->
  let s := get_or_empty peer (bk st) in
  let st' := fst (step c k st (OEstablished peer a false v)) in
  (exists s', get peer (bk st') = Some s' /\ find (with_peer peer a) s' = Some (sc_established k) /\
              keys s' = keys s /\ forall b, b <> with_peer peer a -> find b s' = find b s) /\
  (forall q, q <> peer -> get q (bk st') = get q (bk st)) /\
  lst st' = lst st /\ held st' = held st /\ pubs st' = pubs st.
Proof. exact step_established_known. Qed.
Print Assumptions C10_established_step.

(* dial_address end to end on an address that is already stored: the stored record is kept
   (score 0 is a rediscovery) and the result of the dial - a DialFailure of any kind or the
   established connection - re-scores exactly it. *)
Theorem C10_dial_address_known_step :
  forall c k st a res vs t q z0,
  dial_addr_check c st a = DAOk t q -> find a (get_or_empty q (bk st)) = Some z0 ->
  let sc := match res with Some e => error_score k e | None => sc_established k end in
  sc <> 0%Z ->
  let s := get_or_empty q (bk st) in
  let st' := fst (step c k st (ODialAddr a res vs)) in
  (exists s', get q (bk st') = Some s' /\ find a s' = Some sc /\ keys s' = keys s /\
              forall b, b <> a -> find b s' = find b s) /\
  (forall p, p <> q -> get p (bk st') = get p (bk st)) /\
  lst st' = lst st /\ held st' = held st /\ pubs st' = pubs st.
Proof. exact step_dial_addr_known. Qed.
Print Assumptions C10_dial_address_known_step.

(* ... and on a new address while there is room: it is remembered with the score of the result. *)
Theorem C10_dial_address_new_step :
  forall c k st a res vs t q,
  dial_addr_check c st a = DAOk t q -> find a (get_or_empty q (bk st)) = None ->
  (length (get_or_empty q (bk st)) < cap k)%nat ->
  let sc := match res with Some e => error_score k e | None => sc_established k end in
  sc <> 0%Z ->
  let s := get_or_empty q (bk st) in
  let st' := fst (step c k st (ODialAddr a res vs)) in
  (exists s', get q (bk st') = Some s' /\ find a s' = Some sc /\ keys s' = keys s ++ [a] /\
              forall b, b <> a -> find b s' = find b s) /\
  (forall p, p <> q -> get p (bk st') = get p (bk st)).
Proof. exact step_dial_addr_new. Qed.
Print Assumptions C10_dial_address_new_step.

(* ... and when the transport refuses to start the dial (its dial() returns an error): a stored
   address keeps its score, a new one is remembered as untested (score 0, or the public bonus);
   nothing else changes. *)
Theorem C10_dial_address_refused_step :
  forall c k st a vs t q,
  dial_addr_check c st a = DAOk t q ->
  let s := get_or_empty q (bk st) in
  let st' := fst (step c k st (ODialAddrRefused a vs)) in
  (forall z0, find a s = Some z0 -> get q (bk st') = Some s) /\
  (find a s = None -> (length s < cap k)%nat ->
     get q (bk st') = Some (s ++ [(a, new_score k a 0%Z)])) /\
  (forall p, p <> q -> get p (bk st') = get p (bk st)) /\
  lst st' = lst st /\ held st' = held st /\ pubs st' = pubs st.
Proof. exact step_dial_addr_refused. Qed.
Print Assumptions C10_dial_address_refused_step.

(* i32: the public-address bonus saturates at both ends ... *)
Theorem C10_saturation :
  forall a b,
  in_i32 (sat_add a b) /\
  ((a + b <= I32_MIN)%Z -> sat_add a b = I32_MIN) /\
  ((I32_MAX <= a + b)%Z -> sat_add a b = I32_MAX) /\
  ((I32_MIN <= a + b <= I32_MAX)%Z -> sat_add a b = (a + b)%Z).
Proof. exact sat_add_spec. Qed.
Print Assumptions C10_saturation.

(* ... and no stored score ever leaves the i32 range, in any history (raw inserts carry an i32). *)
Theorem C10_scores_in_i32 :
  forall c h p s a z,
  Forall op_i32 h -> get p (bk (final c default_scores h)) = Some s -> In (a, z) s -> in_i32 z.
Proof. exact final_scores_i32. Qed.
Print Assumptions C10_scores_in_i32.

(* ---------- concrete IP addresses ---------- *)

(* The four address classes of the model lose nothing: for a concrete IPv4 / IPv6 address the
   three predicates the code evaluates - std's is_unspecified and is_loopback, ip_network's
   is_global (transcribed range by range in IpClass.v) - are functions of its class; in particular
   an unspecified or loopback address is never global. *)
Theorem C10_ip_classes_exact :
  (forall ip, is_unspec (classify4 ip) = v4_unspecified ip /\ is_loop (classify4 ip) = v4_loopback ip /\
              is_glob (classify4 ip) = v4_global ip) /\
  (forall ip, is_unspec (classify6 ip) = v6_unspecified ip /\ is_loop (classify6 ip) = v6_loopback ip /\
              is_glob (classify6 ip) = v6_global ip).
Proof. split; [exact classify4_exact | exact classify6_exact]. Qed.
Print Assumptions C10_ip_classes_exact.

(* ... so what the model computes on an address that starts with a concrete IP is what the code
   computes: supported_transport refuses exactly the unspecified addresses, the public-address
   bonus goes exactly to the addresses ip_network calls global, and is_local_address compares
   sockets as the code does (same IP; unspecified listener and loopback address; two loopback
   addresses - IPv4 and IPv6 alike). *)
Theorem C10_ip_predicates_concrete :
  (forall ip, first_ok (comp_of_ip4 ip) = negb (v4_unspecified ip)) /\
  (forall ip, first_ok (comp_of_ip6 ip) = negb (v6_unspecified ip)) /\
  (forall ip rest, is_global (comp_of_ip4 ip :: rest) = v4_global ip) /\
  (forall ip rest, is_global (comp_of_ip6 ip :: rest) = v6_global ip) /\
  (forall v a port w l lport rest,
     local_match (ipaddr_of v a) port (ip_comp w l :: Tcp lport :: rest) =
       N.eqb port lport &&
       ((Bool.eqb w v && N.eqb l a) ||
        (conc_unspecified w l && conc_loopback v a) ||
        (conc_loopback w l && conc_loopback v a))).
Proof.
  repeat split; [exact first_ok_ip4 | exact first_ok_ip6 | exact is_global_ip4 | exact is_global_ip6
                | exact local_match_conc].
Qed.
Print Assumptions C10_ip_predicates_concrete.

(* The ranges the correspondence run maps the abstract (class, id) pairs to - 0.0.0.0, 127.1/16,
   10.7/16, 8.8/16, ::, ::1, fd00::7:x, 2001:4860::x - have the class they stand for. *)
Theorem C10_mapped_ranges :
  forall c id, (id < 65536)%N -> classify4 (mapped4 c id) = c /\ classify6 (mapped6 c id) = c.
Proof. intros c id H. split; [exact (mapped4_class c id H) | exact (mapped6_class c id H)]. Qed.
Print Assumptions C10_mapped_ranges.

(* The special ranges were transcribed from ip_network 0.4.1; Cargo.lock still names that version. *)
Theorem C10_ip_network_version : DialErrors.ip_network_version = ErrNames.ip_network_0_4_1.
Proof. exact ErrNames.ip_network_version_pinned. Qed.
Print Assumptions C10_ip_network_version.

(* ---------- the address stores inside the Kademlia routing table (C14) ---------- *)

(* coq/C14/AddrModel.v models KademliaPeer.address_store - the same AddressStore type - over
   abstract addresses. Its addresses embed injectively into the multiaddress grammar of this model,
   preserving "global" and AddressRecord::new's "append the peer id unless there is one" ... *)
Theorem C10_kad_embedding :
  forall p,
    (forall a b, KadStore.emb p a = KadStore.emb p b -> a = b) /\
    (forall a, is_global (KadStore.emb p a) = AddrModel.is_global a) /\
    (forall a, with_peer p (KadStore.emb p a) = KadStore.emb p (AddrModel.with_p2p a)).
Proof.
  intro p. split; [exact (KadStore.emb_inj p)|]. split; [exact (KadStore.emb_global p) | exact (KadStore.emb_with_peer p)].
Qed.
Print Assumptions C10_kad_embedding.

(* ... and C14's insert is the image of this model's insert under the embedding, with the
   constants of address.rs, for every capacity, store, address, victim choice and every score whose
   sum with the public bonus is an i32 (C14 writes the bonus without saturation; it uses the scores
   0 and +-100 only): the routing table's stores are instances of the store of C10 ... *)
Theorem C10_kad_store_is_instance :
  forall p n s a sc v,
    (I32_MIN <= sc + AddrModel.S_BONUS <= I32_MAX)%Z ->
    insert (KadStore.kad_scores n) (KadStore.emb_store p s) (KadStore.emb p a) sc (option_map (KadStore.emb p) v) =
      (KadStore.emb_store p (fst (AddrModel.sinsert n s a sc v)),
       KadStore.emb_res p (snd (AddrModel.sinsert n s a sc v))).
Proof. exact KadStore.sinsert_sim. Qed.
Print Assumptions C10_kad_store_is_instance.

(* ... with the capacity and constants C14 reads from address.rs this is default_scores, and the
   lists KademliaPeer::addresses() reports are the image of addresses(limit). *)
Theorem C10_kad_addresses_is_instance :
  KadStore.kad_scores AddrModel.CAP = default_scores /\
  forall p limit s,
    addresses limit (KadStore.emb_store p s) = KadStore.emb_store p (AddrModel.reported limit s).
Proof. split; [exact KadStore.kad_scores_default | exact KadStore.reported_sim]. Qed.
Print Assumptions C10_kad_addresses_is_instance.

(* Theorems about one store therefore carry over; for example C10_evict_min and
   C10_rescore_exact read on the routing table's stores: *)
Theorem C10_kad_evict_min :
  forall (p : N) n s a sc v w,
    (I32_MIN <= sc + AddrModel.S_BONUS <= I32_MAX)%Z -> NoDup (map fst s) ->
    snd (AddrModel.sinsert n s a sc v) = AddrModel.IEvicted w ->
    exists m, AddrModel.sfind a s = None /\ (n <= length s)%nat /\ AddrModel.sfind w s = Some m /\
              (forall b z, In (b, z) s -> (m <= z)%Z) /\
              AddrModel.sfind w (fst (AddrModel.sinsert n s a sc v)) = None /\
              length (fst (AddrModel.sinsert n s a sc v)) = length s.
Proof. exact KadStore.kad_evict_min. Qed.
Print Assumptions C10_kad_evict_min.

Theorem C10_kad_rescore_exact :
  forall (p : N) n s a sc v z0,
    (I32_MIN <= sc + AddrModel.S_BONUS <= I32_MAX)%Z -> AddrModel.sfind a s = Some z0 -> sc <> 0%Z ->
    snd (AddrModel.sinsert n s a sc v) = AddrModel.IUpdated /\
    AddrModel.sfind a (fst (AddrModel.sinsert n s a sc v)) = Some sc /\
    forall b, b <> a -> AddrModel.sfind b (fst (AddrModel.sinsert n s a sc v)) = AddrModel.sfind b s.
Proof. exact KadStore.kad_rescore_exact. Qed.
Print Assumptions C10_kad_rescore_exact.

(* ---------- the node's own addresses: the /p2p suffix rule ---------- *)

(* PublicAddresses: after any history every public address is non-empty and ends in
   /p2p/<local peer>. *)
Theorem C10_public_addresses_local :
  forall c k h a, In a (pubs (final c k h)) ->
    a <> [] /\ last a (Other 0) = P2p (local_peer c).
Proof. exact final_pubs. Qed.
Print Assumptions C10_public_addresses_local.

(* add_address: refused when empty or naming another peer; otherwise the address is stored as is
   when it ends in /p2p/<local>, with the local id appended when it ends in no peer id, and the
   result says whether it is new. *)
Theorem C10_public_add :
  forall c ps a,
  match snd (public_add c ps a) with
  | PubEmpty => a = [] /\ fst (public_add c ps a) = ps
  | PubDifferent => (exists q, last a (Other 0) = P2p q /\ q <> local_peer c) /\ fst (public_add c ps a) = ps
  | PubAdded new =>
      a <> [] /\ pub_ok c (public_form c a) /\
      new = negb (existsb (maddr_eqb (public_form c a)) ps) /\
      fst (public_add c ps a) = if new then ps ++ [public_form c a] else ps
  end.
Proof. exact public_add_spec. Qed.
Print Assumptions C10_public_add.

(* remove_address removes exactly the given address. *)
Theorem C10_public_remove :
  forall a l x, NoDup l -> (In x (remove_addr a l) <-> In x l /\ x <> a).
Proof. exact remove_addr_spec. Qed.
Print Assumptions C10_public_remove.

(* register_listen_address keeps every listen address with and without /p2p/<local>. *)
Theorem C10_listen_set :
  forall c ls a,
  In a (listen_set c ls) <-> exists l, In l ls /\ (a = l \/ a = l ++ [P2p (local_peer c)]).
Proof. exact listen_set_spec. Qed.
Print Assumptions C10_listen_set.

(* The victim choice can always be resolved (capacity >= 1): the model never gets stuck on the
   validation of the implementation's choice when a minimal record is supplied. *)
Theorem C10_choice_resolvable :
  forall k s a sc, NoDup (keys s) -> (1 <= cap k)%nat ->
  snd (insert k s a sc (pick_min s)) <> BadChoice.
Proof. exact insert_pick_min_ok. Qed.
Print Assumptions C10_choice_resolvable.

(* non-vacuity: capacity 2, a listen address registered on the way, a multi-address add in the
   implementation's order, an eviction, dial failures of several kinds, a full dial episode under
   an outbound limit, a dial_address episode, public addresses *)
Example C10_nonvacuous :
  let c := mkCfg true false true true false 0 (Some 3%nat) in
  let k := mkScores 2 1 100 [([1%N], -2147483648); ([], -100)]%Z in
  let a1 := [Ip4 Priv 1; Tcp 1; P2p 1] in
  let a2 := [Ip4 Glob 2; Tcp 2; Ws; P2p 1] in
  let a3 := [Dns 3; Tcp 3; P2p 1] in
  let h := [OListen [Ip4 Unspec 0; Tcp 30];
            OAdd 1 [a2; [Ip4 Loop 9; Tcp 30; P2p 1]; a1; a2] [a1; a2] [];
            ODialFailure a1 (EDns DeResolveError) None; OAdd 1 [a3] [a3] [a1];
            OHold 2;
            ODial 1 1 [ENegotiation NeTimeout] [a3] [] [];
            OAdd 1 [a2] [a2] [];
            ODialAddr a2 (Some (EAddress AeInvalidProtocol)) [];
            ODialAddr [Ip4 Unspec 0; Tcp 30; P2p 0] None [];
            OPublicAdd [Dns 5; Tcp 5]; OPublicAdd [Dns 5; Tcp 5; P2p 1]] in
  get 1 (bk (final c k h)) = Some [(a2, -2147483648); (a3, 100)]%Z /\
  snd (run c k init h) =
    [RListen; RAdd 2 false; RIns (Some Updated); RAdd 1 false; RHold 2;
     RDial (DTried [(a3, 1%Z)] [] []); RAdd 1 false; RDialAddr (DAOk TWs 1) false;
     RDialAddr DASelf false; RPub (PubAdded true); RPub PubDifferent] /\
  pubs (final c k h) = [[Dns 5; Tcp 5; P2p 0]] /\
  supported c a2 = true /\ route c a2 = TWs.
Proof. vm_compute. repeat split; reflexivity. Qed.
