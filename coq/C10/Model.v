(* C10 — executable model of litep2p's peer address book:
     src/transport/manager/handle.rs   supported_transport, is_local_address, add_known_address
     src/transport/manager/address.rs  AddressRecord::new, AddressStore::{insert, addresses}
     src/transport/manager/mod.rs      register_listen_address, dial(peer) (capacity, selection,
                                       routing to the transports' open()), the address updates
                                       of the DialFailure / OpenFailure / ConnectionOpened /
                                       ConnectionEstablished events
     src/transport/manager/limits.rs   on_dial_address (free outbound capacity)
     src/transport/common/listener.rs  multiaddr_to_socket_address (TCP and WebSocket)
     src/transport/quic/listener.rs    get_socket_address
   Definitions only; proofs are in Proofs.v.

   Abstractions (all diffed by the correspondence harness):
   - a multiaddress is a list of abstract components; IP addresses are a class
     (unspecified / loopback / private / global) plus an identifier, DNS names and peer ids are
     identifiers, ports are numbers; every other protocol is `Other tag`;
   - `is_global` of the ip_network crate is the class `Glob` (the harness maps classes to real
     IPs, so a wrong classification shows up as a score difference);
   - a /p2p component always carries a valid peer id (guaranteed by multiaddr 0.18's type
     `Protocol::P2p(PeerId)`);
   - the per-peer HashMap<Multiaddr, AddressRecord> is an association list; where the
     implementation's result depends on HashMap / HashSet iteration order (which of several
     minimal records is evicted, order of equal scores in `addresses(limit)`, order in which one
     add_known_address call inserts its addresses) the implementation's choice is an input of
     the model step and is validated, never guessed;
   - scores are integers (Z) with i32 saturation written out. *)
From Coq Require Import List NArith ZArith Bool.
From V.gen Require Consts.
Import ListNotations.

(* ---------- the multiaddress grammar ---------- *)

Inductive ipclass := Unspec | Loop | Priv | Glob.

Inductive comp :=
| Ip4 (c : ipclass) (id : N)
| Ip6 (c : ipclass) (id : N)
| Dns (id : N)
| Dns4 (id : N)
| Dns6 (id : N)
| Tcp (port : N)
| Udp (port : N)
| Ws
| Wss
| QuicV1
| P2p (p : N)
| Other (t : N).

Definition maddr := list comp.

Definition ipclass_eqb (a b : ipclass) : bool :=
  match a, b with
  | Unspec, Unspec | Loop, Loop | Priv, Priv | Glob, Glob => true
  | _, _ => false
  end.

Definition comp_eqb (a b : comp) : bool :=
  match a, b with
  | Ip4 c i, Ip4 d j => ipclass_eqb c d && N.eqb i j
  | Ip6 c i, Ip6 d j => ipclass_eqb c d && N.eqb i j
  | Dns i, Dns j => N.eqb i j
  | Dns4 i, Dns4 j => N.eqb i j
  | Dns6 i, Dns6 j => N.eqb i j
  | Tcp i, Tcp j => N.eqb i j
  | Udp i, Udp j => N.eqb i j
  | Ws, Ws => true
  | Wss, Wss => true
  | QuicV1, QuicV1 => true
  | P2p i, P2p j => N.eqb i j
  | Other i, Other j => N.eqb i j
  | _, _ => false
  end.

Fixpoint maddr_eqb (a b : maddr) : bool :=
  match a, b with
  | [], [] => true
  | x :: a', y :: b' => comp_eqb x y && maddr_eqb a' b'
  | _, _ => false
  end.

(* ---------- configuration ---------- *)

(* feat_*: cargo features compiled in; en_*: transports registered with the manager. *)
Record cfg := mkCfg {
  feat_ws : bool;
  feat_quic : bool;
  en_tcp : bool;
  en_ws : bool;
  en_quic : bool;
  local_peer : N;
  max_out : option nat       (* ConnectionLimitsConfig::max_outgoing_connections *)
}.

Inductive transport := TTcp | TWs | TQuic.

Definition enabled (c : cfg) (t : transport) : bool :=
  match t with
  | TTcp => en_tcp c
  | TWs => feat_ws c && en_ws c
  | TQuic => feat_quic c && en_quic c
  end.

(* ---------- handle.rs: supported_transport ---------- *)

Definition is_unspec (c : ipclass) : bool := match c with Unspec => true | _ => false end.
Definition is_loop (c : ipclass) : bool := match c with Loop => true | _ => false end.

Definition first_ok (h : comp) : bool :=
  match h with
  | Ip4 c _ | Ip6 c _ => negb (is_unspec c)
  | Dns _ | Dns4 _ | Dns6 _ => true
  | _ => false
  end.

Definition supported (c : cfg) (a : maddr) : bool :=
  match a with
  | [] => false
  | h :: rest =>
      if first_ok h then
        match rest with
        | [Tcp _; P2p _] => enabled c TTcp
        | [Tcp _; Ws; P2p _] => enabled c TWs
        | [Tcp _; Wss; P2p _] => enabled c TWs
        | [Udp _; QuicV1; P2p _] => enabled c TQuic
        | _ => false
        end
      else false
  end.

(* ---------- handle.rs: is_local_address ---------- *)

Definition is_p2p (x : comp) : bool := match x with P2p _ => true | _ => false end.

Fixpoint strip_p2p (a : maddr) : maddr :=
  match a with
  | [] => []
  | x :: t => if is_p2p x then [] else x :: strip_p2p t
  end.

(* IpAddr: (is_v6, class, id) *)
Definition ipaddr := (bool * ipclass * N)%type.
Definition ip_eqb (a b : ipaddr) : bool :=
  let '(v, c, i) := a in let '(w, d, j) := b in
  Bool.eqb v w && ipclass_eqb c d && N.eqb i j.
Definition ip_class (a : ipaddr) : ipclass := snd (fst a).

Definition extract_ip_port (a : maddr) : option (ipaddr * N) :=
  match a with
  | Ip4 c i :: Tcp p :: _ | Ip4 c i :: Udp p :: _ => Some ((false, c, i), p)
  | Ip6 c i :: Tcp p :: _ | Ip6 c i :: Udp p :: _ => Some ((true, c, i), p)
  | _ => None
  end.

(* the set kept by register_listen_address: each address with and without /p2p/<local> *)
Definition listen_set (c : cfg) (ls : list maddr) : list maddr :=
  flat_map (fun l => [l; l ++ [P2p (local_peer c)]]) ls.

Definition local_match (ip : ipaddr) (port : N) (l : maddr) : bool :=
  match extract_ip_port l with
  | None => false
  | Some (lip, lport) =>
      N.eqb port lport &&
      (ip_eqb lip ip
       || (is_unspec (ip_class lip) && is_loop (ip_class ip))
       || (is_loop (ip_class lip) && is_loop (ip_class ip)))
  end.

(* ls: the addresses given to register_listen_address so far (none contains /p2p) *)
Definition is_local (c : cfg) (ls : list maddr) (a : maddr) : bool :=
  let a' := strip_p2p a in
  if existsb (maddr_eqb a') (listen_set c ls) then true
  else match extract_ip_port a' with
       | None => false
       | Some (ip, port) => existsb (local_match ip port) (listen_set c ls)
       end.

(* ---------- handle.rs: add_known_address, the per-address filter ---------- *)

(* Some a' : the address is accepted and a' is what is handed to the store *)
Definition normalise (c : cfg) (ls : list maddr) (peer : N) (a : maddr) : option maddr :=
  if negb (supported c a) then None
  else if is_local c ls a then None
  else match last a (Other 0) with
       | P2p q => if N.eqb q peer then Some a else None
       | _ => Some (a ++ [P2p peer])
       end.

(* HashSet<Multiaddr>: the distinct accepted addresses (in no particular order) *)
Fixpoint dedup (l : list maddr) : list maddr :=
  match l with
  | [] => []
  | a :: t => if existsb (maddr_eqb a) t then dedup t else a :: dedup t
  end.

Fixpoint filter_map {A B} (f : A -> option B) (l : list A) : list B :=
  match l with
  | [] => []
  | x :: t => match f x with Some y => y :: filter_map f t | None => filter_map f t end
  end.

Definition accepted (c : cfg) (ls : list maddr) (peer : N) (l : list maddr) : list maddr :=
  dedup (filter_map (normalise c ls peer) l).

(* ---------- the transports' own parsers ---------- *)

Inductive host :=
| HIp (ip : ipaddr)
| HDns (kind : N) (id : N).    (* kind 0 = dns, 4 = dns4, 6 = dns6 *)

Definition host_of (h : comp) : option host :=
  match h with
  | Ip4 c i => Some (HIp (false, c, i))
  | Ip6 c i => Some (HIp (true, c, i))
  | Dns i => Some (HDns 0 i)
  | Dns4 i => Some (HDns 4 i)
  | Dns6 i => Some (HDns 6 i)
  | _ => None
  end.

Definition port_of (udp : bool) (x : comp) : option N :=
  match x, udp with
  | Tcp p, false => Some p
  | Udp p, true => Some p
  | _, _ => None
  end.

Definition sock_parse (udp : bool) (a : maddr) : option (host * N * maddr) :=
  match a with
  | h :: t :: r =>
      match host_of h, port_of udp t with
      | Some ho, Some p => Some (ho, p, r)
      | _, _ => None
      end
  | _ => None
  end.

(* `P2p` or end of address; anything after the /p2p is not looked at *)
Definition peer_part (r : maddr) : option (option N) :=
  match r with
  | [] => Some None
  | P2p p :: _ => Some (Some p)
  | _ => None
  end.

Definition parsed := (host * N * option N)%type.

Definition finish (ho : host) (p : N) (r : maddr) : option parsed :=
  match peer_part r with Some q => Some (ho, p, q) | None => None end.

Definition parse (t : transport) (a : maddr) : option parsed :=
  match t with
  | TTcp => match sock_parse false a with
            | Some (ho, p, r) => finish ho p r
            | None => None
            end
  | TWs => match sock_parse false a with
           | Some (ho, p, Ws :: r) | Some (ho, p, Wss :: r) => finish ho p r
           | _ => None
           end
  | TQuic => match sock_parse true a with
             | Some (ho, p, QuicV1 :: r) => finish ho p r
             | _ => None
             end
  end.

(* mod.rs supported_transports_addresses: the transport dial(peer) hands an address to *)
Definition is_quic (x : comp) : bool := match x with QuicV1 => true | _ => false end.
Definition is_ws (x : comp) : bool := match x with Ws | Wss => true | _ => false end.

Definition route (c : cfg) (a : maddr) : transport :=
  if feat_quic c && existsb is_quic a then TQuic
  else if feat_ws c && existsb is_ws a then TWs
  else TTcp.

Definition host_unspecified (h : host) : bool :=
  match h with HIp ip => is_unspec (ip_class ip) | HDns _ _ => false end.

(* ---------- address.rs: scores and the store ---------- *)

Open Scope Z_scope.

Definition I32_MAX : Z := 2147483647.
Definition I32_MIN : Z := -2147483648.
Definition sat_add (a b : Z) : Z := Z.max I32_MIN (Z.min I32_MAX (a + b)).

Record scorecfg := mkScores {
  cap : nat;                (* MAX_ADDRESSES *)
  bonus : Z;                (* PUBLIC_ADDRESS_BONUS *)
  sc_established : Z;       (* CONNECTION_ESTABLISHED *)
  sc_failure : Z;           (* CONNECTION_FAILURE *)
  sc_addr_failure : Z       (* ADDRESS_FAILURE *)
}.

(* the constants of address.rs (gen/Consts.v is regenerated from the source on every check;
   the two negative scores are read as magnitudes) *)
Definition default_scores : scorecfg :=
  mkScores (N.to_nat Consts.MAX_ADDRESSES)
           (Z.of_N Consts.SCORE_PUBLIC_ADDRESS_BONUS)
           (Z.of_N Consts.SCORE_CONNECTION_ESTABLISHED)
           (- Z.of_N Consts.SCORE_CONNECTION_FAILURE_NEG)
           (- Z.of_N Consts.SCORE_ADDRESS_FAILURE_NEG).

Definition store := list (maddr * Z).

(* is_global_multiaddr: the first IP or DNS component decides *)
Fixpoint is_global (a : maddr) : bool :=
  match a with
  | [] => false
  | Ip4 c _ :: _ | Ip6 c _ :: _ => match c with Glob => true | _ => false end
  | Dns _ :: _ | Dns4 _ :: _ | Dns6 _ :: _ => true
  | _ :: t => is_global t
  end.

Fixpoint find (a : maddr) (s : store) : option Z :=
  match s with
  | [] => None
  | (b, z) :: t => if maddr_eqb b a then Some z else find a t
  end.

Fixpoint set_score (a : maddr) (z : Z) (s : store) : store :=
  match s with
  | [] => []
  | (b, y) :: t => if maddr_eqb b a then (b, z) :: t else (b, y) :: set_score a z t
  end.

Fixpoint remove (a : maddr) (s : store) : store :=
  match s with
  | [] => []
  | (b, y) :: t => if maddr_eqb b a then t else (b, y) :: remove a t
  end.

Fixpoint min_score (s : store) : option Z :=
  match s with
  | [] => None
  | (_, z) :: t => match min_score t with Some m => Some (Z.min z m) | None => Some z end
  end.

(* what insert did *)
Inductive ins :=
| Kept            (* rediscovery of a known address: nothing changes *)
| Updated         (* known address re-scored *)
| Inserted        (* new address, room left *)
| Dropped         (* store full and the new record is worse than the minimum *)
| Evicted (v : maddr)
| BadChoice.      (* the supplied victim is not a minimal record (or capacity 0: the code panics) *)

(* AddressStore::insert; `victim` is the implementation's choice among the minimal records *)
Definition insert (k : scorecfg) (s : store) (a : maddr) (sc : Z) (victim : option maddr)
  : store * ins :=
  match find a s with
  | Some _ => if sc =? 0 then (s, Kept) else (set_score a sc s, Updated)
  | None =>
      let sc' := if is_global a then sat_add sc (bonus k) else sc in
      if (cap k <=? length s)%nat then
        match min_score s with
        | None => (s, BadChoice)
        | Some m =>
            if sc' <? m then (s, Dropped)
            else match victim with
                 | None => (s, BadChoice)
                 | Some v =>
                     match find v s with
                     | Some vs => if vs =? m then (remove v s ++ [(a, sc')], Evicted v)
                                  else (s, BadChoice)
                     | None => (s, BadChoice)
                     end
                 end
        end
      else (s ++ [(a, sc')], Inserted)
  end.

(* a deterministic resolution of the choice: the first minimal record *)
Fixpoint first_with (m : Z) (s : store) : option maddr :=
  match s with
  | [] => None
  | (b, z) :: t => if z =? m then Some b else first_with m t
  end.
Definition pick_min (s : store) : option maddr :=
  match min_score s with Some m => first_with m s | None => None end.

(* AddressRecord::new: append /p2p/<peer> unless the address already ends in /p2p *)
Definition with_peer (peer : N) (a : maddr) : maddr :=
  match last a (Other 0) with
  | P2p _ => a
  | _ => a ++ [P2p peer]
  end.

(* AddressStore::addresses(limit): stable sort by decreasing score, first `limit` *)
Fixpoint ins_desc (x : maddr * Z) (l : store) : store :=
  match l with
  | [] => [x]
  | h :: t => if snd h <? snd x then x :: l else h :: ins_desc x t
  end.
Definition sort_desc (s : store) : store := fold_right ins_desc [] s.
Definition addresses (limit : nat) (s : store) : store := firstn limit (sort_desc s).

Fixpoint nonincreasing (l : list Z) : bool :=
  match l with
  | [] => true
  | x :: t => match t with [] => true | y :: _ => (y <=? x) && nonincreasing t end
  end.

Fixpoint nodup_addrs (l : list maddr) : bool :=
  match l with
  | [] => true
  | a :: t => negb (existsb (maddr_eqb a) t) && nodup_addrs t
  end.

(* validation of an observed `addresses(limit)` result (any order among equal scores) *)
Definition addresses_ok (limit : nat) (s : store) (obs : store) : bool :=
  (length obs =? Nat.min limit (length s))%nat &&
  forallb (fun x => match find (fst x) s with Some z => z =? snd x | None => false end) obs &&
  nodup_addrs (map fst obs) &&
  nonincreasing (map snd obs) &&
  forallb (fun y => existsb (maddr_eqb (fst y)) (map fst obs)
                    || forallb (fun x => snd y <=? snd x) obs) s.

(* ---------- the book: one store per peer ---------- *)

Definition book := list (N * store).

Fixpoint get (p : N) (b : book) : option store :=
  match b with
  | [] => None
  | (q, s) :: t => if N.eqb q p then Some s else get p t
  end.

Fixpoint put (p : N) (s : store) (b : book) : book :=
  match b with
  | [] => [(p, s)]
  | (q, s0) :: t => if N.eqb q p then (q, s) :: t else (q, s0) :: put p s t
  end.

Definition get_or_empty (p : N) (b : book) : store :=
  match get p b with Some s => s | None => [] end.

(* ---------- the state: books, listen addresses, outbound connections held ---------- *)

Record state := mkState {
  bk : book;
  lst : list maddr;      (* register_listen_address calls so far *)
  held : nat             (* established outbound connections counted by ConnectionLimits *)
}.

Definition init : state := mkState [] [] 0.
Definition set_bk (st : state) (b : book) : state := mkState b (lst st) (held st).

(* ---------- operations ---------- *)

Inductive failure := ConnFailure | AddrFailure.

Inductive op :=
| OAdd (peer : N) (addrs : list maddr) (order : list maddr) (victims : list maddr)
      (* add_known_address; order = the order in which the implementation's HashSet yielded the
         accepted addresses, victims = the records it evicted, in order *)
| ODialFailure (a : maddr) (f : failure) (victim : option maddr) (* update_address_on_dial_failure *)
| OEstablished (peer : N) (a : maddr) (listener : bool) (victim : option maddr)
                                                   (* update_address_on_connection_established *)
| ODialAddrs (peer : N) (limit : nat) (obs : list maddr)         (* AddressStore::addresses(limit) *)
| OProbe (a : maddr)                                             (* stateless: filters and parsers *)
| OListen (a : maddr)                                            (* register_listen_address *)
| OHold (n : nat)         (* bring the number of established outbound connections (to other peers) to n *)
| ODial (peer : N) (outcome : nat) (tcp ws : list maddr).
      (* dial(peer) end to end; tcp / ws = the address lists the implementation handed to the
         open() of the TCP / WebSocket transport; outcome 0: every attempt times out, j+1: the
         attempt on address j of tcp ++ ws succeeds after the ones before it on the same transport
         timed out, the connection is established and closed again *)

Inductive dial_result :=
| DLimit                 (* no free outbound capacity *)
| DSelf                  (* TriedToDialSelf *)
| DNoAddress             (* NoAddressAvailable *)
| DUnroutable            (* the store holds an address of a transport that is not installed, or one
                            that does not name the peer (possible only through ill-formed dial
                            results): the call is skipped *)
| DBadChoice             (* the supplied open() lists are not a valid selection *)
| DTried (tcp ws : store).

Inductive out :=
| RAdd (n : N) (bad : bool)
| RIns (r : option ins)
| RAddrs (l : option store)
| RProbe (sup : bool) (rt : transport) (ptcp pws pquic : option parsed) (loc : bool)
| RListen
| RHold (n : nat)
| RDial (r : dial_result).

(* inserting a list of fresh records with score 0, consuming one victim per eviction *)
Fixpoint insert_all (k : scorecfg) (s : store) (l : list maddr) (victims : list maddr)
  : store * bool :=
  match l with
  | [] => (s, false)
  | a :: t =>
      let v := match victims with v :: _ => Some v | [] => None end in
      let '(s1, r) := insert k s a 0 v in
      let victims' := match r with Evicted _ => tl victims | _ => victims end in
      let '(s2, bad) := insert_all k s1 t victims' in
      (s2, match r with BadChoice => true | _ => bad end)
  end.

Definition failure_score (k : scorecfg) (f : failure) : Z :=
  match f with ConnFailure => sc_failure k | AddrFailure => sc_addr_failure k end.

(* `order` enumerates exactly the set `acc` *)
Definition same_set (order acc : list maddr) : bool :=
  (length order =? length acc)%nat && nodup_addrs order &&
  forallb (fun a => existsb (maddr_eqb a) acc) order.

(* ---- dial(peer) ---- *)

Definition mem (a : maddr) (s : store) : bool :=
  match find a s with Some _ => true | None => false end.
Definition names (p : N) (a : maddr) : bool :=
  match last a (Other 0) with P2p q => N.eqb q p | _ => false end.

Definition with_scores (s : store) (l : list maddr) : store :=
  map (fun a => (a, match find a s with Some z => z | None => 0 end)) l.

(* merging two lists by non-increasing score *)
Fixpoint merge_desc (l1 : store) : store -> store :=
  fix inner (l2 : store) : store :=
    match l1, l2 with
    | [], _ => l2
    | _, [] => l1
    | x :: t1, y :: t2 => if snd x <? snd y then y :: inner t2 else x :: merge_desc t1 l2
    end.

(* limits.rs on_dial_address: None = MaxOutgoingConnectionsExceeded; usize::MAX is "everything" *)
Definition free_capacity (c : cfg) (st : state) (n : nat) : option nat :=
  match max_out c with
  | Some m => if (m <=? held st)%nat then None else Some (m - held st)%nat
  | None => Some n
  end.

(* every attempt in l timed out *)
Fixpoint fail_all (k : scorecfg) (s : store) (l : list maddr) : store :=
  match l with
  | [] => s
  | a :: t => fail_all k (fst (insert k s a (sc_failure k) None)) t
  end.

(* the attempt on element j of l succeeds after the earlier ones timed out: the errors of the
   ConnectionOpened event, then on_connection_opened and on_connection_established *)
Definition succeed_at (k : scorecfg) (s : store) (peer : N) (l : list maddr) (j : nat) : store :=
  let s1 := fail_all k s (firstn j l) in
  match nth_error l j with
  | Some a =>
      let s2 := fst (insert k s1 (with_peer peer a) (sc_established k) None) in
      fst (insert k s2 (with_peer peer a) (sc_established k) None)
  | None => s1
  end.

Definition dial_outcome (k : scorecfg) (s : store) (peer : N) (outcome : nat) (tcp ws : list maddr)
  : store :=
  match outcome with
  | O => fail_all k (fail_all k s tcp) ws
  | S j0 =>
      let n := (length tcp + length ws)%nat in
      let j := (j0 mod n)%nat in
      if (j <? length tcp)%nat then succeed_at k s peer tcp j
      else succeed_at k s peer ws (j - length tcp)
  end.

Definition step (c : cfg) (k : scorecfg) (st : state) (o : op) : state * out :=
  let b := bk st in
  match o with
  | OAdd peer addrs order victims =>
      let s := get_or_empty peer b in
      let acc := accepted c (lst st) peer addrs in
      if same_set order acc then
        let '(s', bad) := insert_all k s order victims in
        (set_bk st (put peer s' b), RAdd (N.of_nat (length acc)) bad)
      else (st, RAdd (N.of_nat (length acc)) true)
  | ODialFailure a f victim =>
      match last a (Other 0) with
      | P2p p =>
          let '(s', r) := insert k (get_or_empty p b) (with_peer p a) (failure_score k f) victim in
          (set_bk st (put p s' b), RIns (Some r))
      | _ => (st, RIns None)
      end
  | OEstablished peer a listener victim =>
      if listener then (st, RIns None)
      else
        let '(s', r) := insert k (get_or_empty peer b) (with_peer peer a) (sc_established k) victim in
        (set_bk st (put peer s' b), RIns (Some r))
  | ODialAddrs peer limit obs =>
      let s := get_or_empty peer b in
      let obs' := with_scores s obs in
      (st, RAddrs (if addresses_ok limit s obs' then Some obs' else None))
  | OProbe a =>
      (st, RProbe (supported c a) (route c a) (parse TTcp a) (parse TWs a) (parse TQuic a)
                  (is_local c (lst st) a))
  | OListen a => (mkState b (lst st ++ [a]) (held st), RListen)
  | OHold n =>
      (* connections are established through an installed transport and accepted only while
         below the outbound limit *)
      if en_tcp c || (feat_ws c && en_ws c) then
        let n' := match max_out c with Some m => Nat.min n m | None => n end in
        (mkState b (lst st) n', RHold n')
      else (st, RHold (held st))
  | ODial peer outcome tcp ws =>
      let s := get_or_empty peer b in
      (* the harness does not call dial(peer) for a store it could wedge on *)
      if existsb (fun x => negb (enabled c (route c (fst x)) && names peer (fst x))) s
      then (st, RDial DUnroutable) else
      match free_capacity c st (length s) with
      | None => (st, RDial DLimit)
      | Some limit =>
          if N.eqb peer (local_peer c) then (st, RDial DSelf)
          else match s with
               | [] => (st, RDial DNoAddress)
               | _ =>
                   let t := with_scores s tcp in
                   let w := with_scores s ws in
                   if forallb (fun a => mem a s) (tcp ++ ws) &&
                      forallb (fun a => match route c a with TTcp => true | _ => false end) tcp &&
                      forallb (fun a => match route c a with TWs => true | _ => false end) ws &&
                      addresses_ok limit s (merge_desc t w)
                   then (set_bk st (put peer (dial_outcome k s peer outcome tcp ws) b),
                         RDial (DTried t w))
                   else (st, RDial DBadChoice)
               end
      end
  end.

Fixpoint run (c : cfg) (k : scorecfg) (st : state) (h : list op) : state * list out :=
  match h with
  | [] => (st, [])
  | o :: t =>
      let '(st1, r) := step c k st o in
      let '(st2, rs) := run c k st1 t in (st2, r :: rs)
  end.

Definition final (c : cfg) (k : scorecfg) (h : list op) : state := fst (run c k init h).
