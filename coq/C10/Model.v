(* C10 — executable model of litep2p's peer address book:
     src/transport/manager/handle.rs   supported_transport, is_local_address, add_known_address
     src/transport/manager/address.rs  AddressRecord::new, AddressStore::{insert, addresses, error_score}
     src/error.rs                      DialError and the enums nested in it (AddressError, DnsError,
                                       NegotiationError, ParseError, QuicError), one constructor per variant
     src/transport/manager/mod.rs      register_listen_address, dial(peer) (capacity, selection,
                                       routing to the transports' open()), dial_address (its address
                                       check and the record it stores), the address updates of the
                                       DialFailure / OpenFailure / ConnectionOpened /
                                       ConnectionEstablished events
     src/addresses.rs                  PublicAddresses::{add_address, remove_address}
     src/transport/manager/limits.rs   on_dial_address (free outbound capacity)
     src/transport/common/listener.rs  multiaddr_to_socket_address (TCP and WebSocket)
     src/transport/quic/listener.rs    get_socket_address
   Definitions only; proofs are in Proofs.v.

   Abstractions (all diffed by the correspondence harness):
   - a multiaddress is a list of abstract components; IP addresses are a class
     (unspecified / loopback / private / global) plus an identifier, DNS names and peer ids are
     identifiers, ports are numbers; every other protocol is `Other tag`;
   - `is_global` of the ip_network crate is the class `Glob` (the harness maps classes to real
     IPs, so a wrong classification shows up as a score difference);
   - a /p2p component always carries a valid peer id (guaranteed by multiaddr 0.18's type
     `Protocol::P2p(PeerId)`);
   - the per-peer HashMap<Multiaddr, AddressRecord> is an association list; where the
     implementation's result depends on HashMap / HashSet iteration order (which of several
     minimal records is evicted, order of equal scores in `addresses(limit)`, order in which one
     add_known_address call inserts its addresses) the implementation's choice is an input of
     the model step and is validated, never guessed;
   - scores are integers (Z) with i32 saturation written out. *)
From Coq Require Import List NArith ZArith Bool.
From V.gen Require Consts DialErrors.
Import ListNotations.

(* ---------- the multiaddress grammar ---------- *)

Inductive ipclass := Unspec | Loop | Priv | Glob.

Inductive comp :=
| Ip4 (c : ipclass) (id : N)
| Ip6 (c : ipclass) (id : N)
| Dns (id : N)
| Dns4 (id : N)
| Dns6 (id : N)
| Tcp (port : N)
| Udp (port : N)
| Ws
| Wss
| QuicV1
| P2p (p : N)
| Other (t : N).

Definition maddr := list comp.

Definition ipclass_eqb (a b : ipclass) : bool :=
  match a, b with
  | Unspec, Unspec | Loop, Loop | Priv, Priv | Glob, Glob => true
  | _, _ => false
  end.

Definition comp_eqb (a b : comp) : bool :=
  match a, b with
  | Ip4 c i, Ip4 d j => ipclass_eqb c d && N.eqb i j
  | Ip6 c i, Ip6 d j => ipclass_eqb c d && N.eqb i j
  | Dns i, Dns j => N.eqb i j
  | Dns4 i, Dns4 j => N.eqb i j
  | Dns6 i, Dns6 j => N.eqb i j
  | Tcp i, Tcp j => N.eqb i j
  | Udp i, Udp j => N.eqb i j
  | Ws, Ws => true
  | Wss, Wss => true
  | QuicV1, QuicV1 => true
  | P2p i, P2p j => N.eqb i j
  | Other i, Other j => N.eqb i j
  | _, _ => false
  end.

Fixpoint maddr_eqb (a b : maddr) : bool :=
  match a, b with
  | [], [] => true
  | x :: a', y :: b' => comp_eqb x y && maddr_eqb a' b'
  | _, _ => false
  end.

(* ---------- configuration ---------- *)

(* feat_*: cargo features compiled in; en_*: transports registered with the manager. *)
Record cfg := mkCfg {
  feat_ws : bool;
  feat_quic : bool;
  en_tcp : bool;
  en_ws : bool;
  en_quic : bool;
  local_peer : N;
  max_out : option nat       (* ConnectionLimitsConfig::max_outgoing_connections *)
}.

Inductive transport := TTcp | TWs | TQuic.

Definition enabled (c : cfg) (t : transport) : bool :=
  match t with
  | TTcp => en_tcp c
  | TWs => feat_ws c && en_ws c
  | TQuic => feat_quic c && en_quic c
  end.

(* ---------- handle.rs: supported_transport ---------- *)

Definition is_unspec (c : ipclass) : bool := match c with Unspec => true | _ => false end.
Definition is_loop (c : ipclass) : bool := match c with Loop => true | _ => false end.

Definition first_ok (h : comp) : bool :=
  match h with
  | Ip4 c _ | Ip6 c _ => negb (is_unspec c)
  | Dns _ | Dns4 _ | Dns6 _ => true
  | _ => false
  end.

Definition supported (c : cfg) (a : maddr) : bool :=
  match a with
  | [] => false
  | h :: rest =>
      if first_ok h then
        match rest with
        | [Tcp _; P2p _] => enabled c TTcp
        | [Tcp _; Ws; P2p _] => enabled c TWs
        | [Tcp _; Wss; P2p _] => enabled c TWs
        | [Udp _; QuicV1; P2p _] => enabled c TQuic
        | _ => false
        end
      else false
  end.

(* ---------- handle.rs: is_local_address ---------- *)

Definition is_p2p (x : comp) : bool := match x with P2p _ => true | _ => false end.

Fixpoint strip_p2p (a : maddr) : maddr :=
  match a with
  | [] => []
  | x :: t => if is_p2p x then [] else x :: strip_p2p t
  end.

(* IpAddr: (is_v6, class, id) *)
Definition ipaddr := (bool * ipclass * N)%type.
Definition ip_eqb (a b : ipaddr) : bool :=
  let '(v, c, i) := a in let '(w, d, j) := b in
  Bool.eqb v w && ipclass_eqb c d && N.eqb i j.
Definition ip_class (a : ipaddr) : ipclass := snd (fst a).

Definition extract_ip_port (a : maddr) : option (ipaddr * N) :=
  match a with
  | Ip4 c i :: Tcp p :: _ | Ip4 c i :: Udp p :: _ => Some ((false, c, i), p)
  | Ip6 c i :: Tcp p :: _ | Ip6 c i :: Udp p :: _ => Some ((true, c, i), p)
  | _ => None
  end.

(* the set kept by register_listen_address: each address with and without /p2p/<local> *)
Definition listen_set (c : cfg) (ls : list maddr) : list maddr :=
  flat_map (fun l => [l; l ++ [P2p (local_peer c)]]) ls.

Definition local_match (ip : ipaddr) (port : N) (l : maddr) : bool :=
  match extract_ip_port l with
  | None => false
  | Some (lip, lport) =>
      N.eqb port lport &&
      (ip_eqb lip ip
       || (is_unspec (ip_class lip) && is_loop (ip_class ip))
       || (is_loop (ip_class lip) && is_loop (ip_class ip)))
  end.

(* ls: the addresses given to register_listen_address so far (none contains /p2p) *)
Definition is_local (c : cfg) (ls : list maddr) (a : maddr) : bool :=
  let a' := strip_p2p a in
  if existsb (maddr_eqb a') (listen_set c ls) then true
  else match extract_ip_port a' with
       | None => false
       | Some (ip, port) => existsb (local_match ip port) (listen_set c ls)
       end.

(* ---------- handle.rs: add_known_address, the per-address filter ---------- *)

(* Some a' : the address is accepted and a' is what is handed to the store *)
Definition normalise (c : cfg) (ls : list maddr) (peer : N) (a : maddr) : option maddr :=
  if negb (supported c a) then None
  else if is_local c ls a then None
  else match last a (Other 0) with
       | P2p q => if N.eqb q peer then Some a else None
       | _ => Some (a ++ [P2p peer])
       end.

(* protocol/transport_service.rs TransportService::add_known_address: /p2p/<peer> is appended to
   every address that does not end in a peer id; the resulting set goes to the handle's
   add_known_address *)
Definition ts_prepare (peer : N) (l : list maddr) : list maddr :=
  map (fun a => match last a (Other 0) with P2p _ => a | _ => a ++ [P2p peer] end) l.

(* HashSet<Multiaddr>: the distinct accepted addresses (in no particular order) *)
Fixpoint dedup (l : list maddr) : list maddr :=
  match l with
  | [] => []
  | a :: t => if existsb (maddr_eqb a) t then dedup t else a :: dedup t
  end.

Fixpoint filter_map {A B} (f : A -> option B) (l : list A) : list B :=
  match l with
  | [] => []
  | x :: t => match f x with Some y => y :: filter_map f t | None => filter_map f t end
  end.

Definition accepted (c : cfg) (ls : list maddr) (peer : N) (l : list maddr) : list maddr :=
  dedup (filter_map (normalise c ls peer) l).

(* ---------- the transports' own parsers ---------- *)

Inductive host :=
| HIp (ip : ipaddr)
| HDns (kind : N) (id : N).    (* kind 0 = dns, 4 = dns4, 6 = dns6 *)

Definition host_of (h : comp) : option host :=
  match h with
  | Ip4 c i => Some (HIp (false, c, i))
  | Ip6 c i => Some (HIp (true, c, i))
  | Dns i => Some (HDns 0 i)
  | Dns4 i => Some (HDns 4 i)
  | Dns6 i => Some (HDns 6 i)
  | _ => None
  end.

Definition port_of (udp : bool) (x : comp) : option N :=
  match x, udp with
  | Tcp p, false => Some p
  | Udp p, true => Some p
  | _, _ => None
  end.

Definition sock_parse (udp : bool) (a : maddr) : option (host * N * maddr) :=
  match a with
  | h :: t :: r =>
      match host_of h, port_of udp t with
      | Some ho, Some p => Some (ho, p, r)
      | _, _ => None
      end
  | _ => None
  end.

(* `P2p` or end of address; anything after the /p2p is not looked at *)
Definition peer_part (r : maddr) : option (option N) :=
  match r with
  | [] => Some None
  | P2p p :: _ => Some (Some p)
  | _ => None
  end.

Definition parsed := (host * N * option N)%type.

Definition finish (ho : host) (p : N) (r : maddr) : option parsed :=
  match peer_part r with Some q => Some (ho, p, q) | None => None end.

Definition parse (t : transport) (a : maddr) : option parsed :=
  match t with
  | TTcp => match sock_parse false a with
            | Some (ho, p, r) => finish ho p r
            | None => None
            end
  | TWs => match sock_parse false a with
           | Some (ho, p, Ws :: r) | Some (ho, p, Wss :: r) => finish ho p r
           | _ => None
           end
  | TQuic => match sock_parse true a with
             | Some (ho, p, QuicV1 :: r) => finish ho p r
             | _ => None
             end
  end.

(* mod.rs supported_transports_addresses: the transport dial(peer) hands an address to *)
Definition is_quic (x : comp) : bool := match x with QuicV1 => true | _ => false end.
Definition is_ws (x : comp) : bool := match x with Ws | Wss => true | _ => false end.

Definition route (c : cfg) (a : maddr) : transport :=
  if feat_quic c && existsb is_quic a then TQuic
  else if feat_ws c && existsb is_ws a then TWs
  else TTcp.

Definition host_unspecified (h : host) : bool :=
  match h with HIp ip => is_unspec (ip_class ip) | HDns _ _ => false end.

(* ---------- address.rs: scores and the store ---------- *)

Open Scope Z_scope.

Definition I32_MAX : Z := 2147483647.
Definition I32_MIN : Z := -2147483648.
Definition sat_add (a b : Z) : Z := Z.max I32_MIN (Z.min I32_MAX (a + b)).

(* ---------- error.rs: DialError, one constructor per Rust variant ---------- *)

Inductive address_error :=
| AeInvalidProtocol | AeInvalidUrl | AePeerIdMissing | AeAddressNotAvailable | AeInvalidPeerId.
Inductive dns_error := DeResolveError | DeIpVersionMismatch.
Inductive parse_error :=
| PeProstDecodeError | PeProstEncodeError | PeUnknownKeyType | PeInvalidPublicKey | PeInvalidData
| PeInvalidReplyLength.
Inductive quic_error := QeInvalidCertificate | QeConnectionError | QeConnectError.
Inductive negotiation_error :=
| NeMultistreamSelectError | NeSnowError | NePeerIdMissing | NeBadSignature | NeTimeout
| NeParseError (p : parse_error) | NeIoError | NeStateMismatch | NePeerIdMismatch
| NeQuic (q : quic_error)          (* cfg(feature = "quic") *)
| NeWebSocket.                     (* cfg(feature = "websocket") *)
Inductive dial_error :=
| ETimeout
| EAddress (e : address_error)
| EDns (e : dns_error)
| ENegotiation (e : negotiation_error).

Definition all_address_errors : list address_error :=
  [AeInvalidProtocol; AeInvalidUrl; AePeerIdMissing; AeAddressNotAvailable; AeInvalidPeerId].
Definition all_dns_errors : list dns_error := [DeResolveError; DeIpVersionMismatch].
Definition all_parse_errors : list parse_error :=
  [PeProstDecodeError; PeProstEncodeError; PeUnknownKeyType; PeInvalidPublicKey; PeInvalidData;
   PeInvalidReplyLength].
Definition all_quic_errors : list quic_error := [QeInvalidCertificate; QeConnectionError; QeConnectError].
Definition all_negotiation_errors : list negotiation_error :=
  [NeMultistreamSelectError; NeSnowError; NePeerIdMissing; NeBadSignature; NeTimeout] ++
  map NeParseError all_parse_errors ++ [NeIoError; NeStateMismatch; NePeerIdMismatch] ++
  map NeQuic all_quic_errors ++ [NeWebSocket].
Definition all_dial_errors : list dial_error :=
  [ETimeout] ++ map EAddress all_address_errors ++ map EDns all_dns_errors ++
  map ENegotiation all_negotiation_errors.

Open Scope N_scope.

(* position of a variant in its Rust enum *)
Definition ae_index (e : address_error) : N :=
  match e with
  | AeInvalidProtocol => 0 | AeInvalidUrl => 1 | AePeerIdMissing => 2 | AeAddressNotAvailable => 3
  | AeInvalidPeerId => 4
  end.
Definition de_index (e : dns_error) : N :=
  match e with DeResolveError => 0 | DeIpVersionMismatch => 1 end.
Definition pe_index (e : parse_error) : N :=
  match e with
  | PeProstDecodeError => 0 | PeProstEncodeError => 1 | PeUnknownKeyType => 2
  | PeInvalidPublicKey => 3 | PeInvalidData => 4 | PeInvalidReplyLength => 5
  end.
Definition qe_index (e : quic_error) : N :=
  match e with QeInvalidCertificate => 0 | QeConnectionError => 1 | QeConnectError => 2 end.
Definition ne_path (e : negotiation_error) : list N :=
  match e with
  | NeMultistreamSelectError => [0] | NeSnowError => [1] | NePeerIdMissing => [2]
  | NeBadSignature => [3] | NeTimeout => [4] | NeParseError p => [5; pe_index p]
  | NeIoError => [6] | NeStateMismatch => [7] | NePeerIdMismatch => [8]
  | NeQuic q => [9; qe_index q] | NeWebSocket => [10]
  end.
(* the path of variant indices that a Rust pattern for exactly this error spells out *)
Definition err_path (e : dial_error) : list N :=
  match e with
  | ETimeout => [0]
  | EAddress a => [1; ae_index a]
  | EDns d => [2; de_index d]
  | ENegotiation n => 3 :: ne_path n
  end.

(* the wire code of an error kind: outer + 4 * inner + 64 * innermost *)
Definition err_code (e : dial_error) : N :=
  match err_path e with
  | [a] => a
  | [a; b] => a + 4 * b
  | [a; b; c] => a + 4 * b + 64 * c
  | _ => 0
  end.
Fixpoint find_code (code : N) (l : list dial_error) : option dial_error :=
  match l with
  | [] => None
  | e :: t => if err_code e =? code then Some e else find_code code t
  end.
Definition err_of_code (code : N) : option dial_error := find_code code all_dial_errors.

Fixpoint is_prefix (p l : list N) : bool :=
  match p, l with
  | [], _ => true
  | x :: p', y :: l' => (x =? y) && is_prefix p' l'
  | _ :: _, [] => false
  end.

Open Scope Z_scope.

(* a Rust `match` over the error: the first arm whose pattern (a path prefix; [] is `_`) covers
   the error decides. (Rust's match is exhaustive; an error no arm of the table covers can only
   come from an unreadable arm and scores 0 here, which the theorems reject.) *)
Fixpoint arm_score (arms : list (list N * Z)) (path : list N) : Z :=
  match arms with
  | [] => 0
  | (p, z) :: t => if is_prefix p path then z else arm_score t path
  end.

Record scorecfg := mkScores {
  cap : nat;                          (* MAX_ADDRESSES *)
  bonus : Z;                          (* PUBLIC_ADDRESS_BONUS *)
  sc_established : Z;                 (* CONNECTION_ESTABLISHED *)
  err_arms : list (list N * Z)        (* the arms of AddressStore::error_score *)
}.

(* AddressStore::error_score *)
Definition error_score (k : scorecfg) (e : dial_error) : Z := arm_score (err_arms k) (err_path e).

(* the constants of address.rs and the arms of error_score (gen/Consts.v and gen/DialErrors.v are
   regenerated from the source on every check) *)
Definition default_scores : scorecfg :=
  mkScores (N.to_nat Consts.MAX_ADDRESSES)
           (Z.of_N Consts.SCORE_PUBLIC_ADDRESS_BONUS)
           (Z.of_N Consts.SCORE_CONNECTION_ESTABLISHED)
           DialErrors.error_score_arms.

Definition store := list (maddr * Z).

(* is_global_multiaddr: the first IP or DNS component decides *)
Fixpoint is_global (a : maddr) : bool :=
  match a with
  | [] => false
  | Ip4 c _ :: _ | Ip6 c _ :: _ => match c with Glob => true | _ => false end
  | Dns _ :: _ | Dns4 _ :: _ | Dns6 _ :: _ => true
  | _ :: t => is_global t
  end.

Fixpoint find (a : maddr) (s : store) : option Z :=
  match s with
  | [] => None
  | (b, z) :: t => if maddr_eqb b a then Some z else find a t
  end.

Fixpoint set_score (a : maddr) (z : Z) (s : store) : store :=
  match s with
  | [] => []
  | (b, y) :: t => if maddr_eqb b a then (b, z) :: t else (b, y) :: set_score a z t
  end.

Fixpoint remove (a : maddr) (s : store) : store :=
  match s with
  | [] => []
  | (b, y) :: t => if maddr_eqb b a then t else (b, y) :: remove a t
  end.

Fixpoint min_score (s : store) : option Z :=
  match s with
  | [] => None
  | (_, z) :: t => match min_score t with Some m => Some (Z.min z m) | None => Some z end
  end.

(* what insert did *)
Inductive ins :=
| Kept            (* rediscovery of a known address: nothing changes *)
| Updated         (* known address re-scored *)
| Inserted        (* new address, room left *)
| Dropped         (* store full and the new record is worse than the minimum *)
| Evicted (v : maddr)
| BadChoice.      (* the supplied victim is not a minimal record (or capacity 0: the code panics) *)

(* AddressStore::insert; `victim` is the implementation's choice among the minimal records *)
Definition insert (k : scorecfg) (s : store) (a : maddr) (sc : Z) (victim : option maddr)
  : store * ins :=
  match find a s with
  | Some _ => if sc =? 0 then (s, Kept) else (set_score a sc s, Updated)
  | None =>
      let sc' := if is_global a then sat_add sc (bonus k) else sc in
      if (cap k <=? length s)%nat then
        match min_score s with
        | None => (s, BadChoice)
        | Some m =>
            if sc' <? m then (s, Dropped)
            else match victim with
                 | None => (s, BadChoice)
                 | Some v =>
                     match find v s with
                     | Some vs => if vs =? m then (remove v s ++ [(a, sc')], Evicted v)
                                  else (s, BadChoice)
                     | None => (s, BadChoice)
                     end
                 end
        end
      else (s ++ [(a, sc')], Inserted)
  end.

(* a deterministic resolution of the choice: the first minimal record *)
Fixpoint first_with (m : Z) (s : store) : option maddr :=
  match s with
  | [] => None
  | (b, z) :: t => if z =? m then Some b else first_with m t
  end.
Definition pick_min (s : store) : option maddr :=
  match min_score s with Some m => first_with m s | None => None end.

(* AddressRecord::new: append /p2p/<peer> unless the address already ends in /p2p *)
Definition with_peer (peer : N) (a : maddr) : maddr :=
  match last a (Other 0) with
  | P2p _ => a
  | _ => a ++ [P2p peer]
  end.

(* AddressStore::addresses(limit): stable sort by decreasing score, first `limit` *)
Fixpoint ins_desc (x : maddr * Z) (l : store) : store :=
  match l with
  | [] => [x]
  | h :: t => if snd h <? snd x then x :: l else h :: ins_desc x t
  end.
Definition sort_desc (s : store) : store := fold_right ins_desc [] s.
Definition addresses (limit : nat) (s : store) : store := firstn limit (sort_desc s).

Fixpoint nonincreasing (l : list Z) : bool :=
  match l with
  | [] => true
  | x :: t => match t with [] => true | y :: _ => (y <=? x) && nonincreasing t end
  end.

Fixpoint nodup_addrs (l : list maddr) : bool :=
  match l with
  | [] => true
  | a :: t => negb (existsb (maddr_eqb a) t) && nodup_addrs t
  end.

(* validation of an observed `addresses(limit)` result (any order among equal scores) *)
Definition addresses_ok (limit : nat) (s : store) (obs : store) : bool :=
  (length obs =? Nat.min limit (length s))%nat &&
  forallb (fun x => match find (fst x) s with Some z => z =? snd x | None => false end) obs &&
  nodup_addrs (map fst obs) &&
  nonincreasing (map snd obs) &&
  forallb (fun y => existsb (maddr_eqb (fst y)) (map fst obs)
                    || forallb (fun x => snd y <=? snd x) obs) s.

(* ---------- the book: one store per peer ---------- *)

Definition book := list (N * store).

Fixpoint get (p : N) (b : book) : option store :=
  match b with
  | [] => None
  | (q, s) :: t => if N.eqb q p then Some s else get p t
  end.

Fixpoint put (p : N) (s : store) (b : book) : book :=
  match b with
  | [] => [(p, s)]
  | (q, s0) :: t => if N.eqb q p then (q, s) :: t else (q, s0) :: put p s t
  end.

Definition get_or_empty (p : N) (b : book) : store :=
  match get p b with Some s => s | None => [] end.

(* ---------- the state: books, listen addresses, outbound connections held, public addresses ---------- *)

Record state := mkState {
  bk : book;
  lst : list maddr;      (* register_listen_address calls so far *)
  held : nat;            (* established outbound connections counted by ConnectionLimits *)
  pubs : list maddr      (* PublicAddresses (a set; kept in insertion order) *)
}.

Definition init : state := mkState [] [] 0 [].
Definition set_bk (st : state) (b : book) : state := mkState b (lst st) (held st) (pubs st).

(* ---------- operations ---------- *)

Inductive op :=
| OAdd (peer : N) (addrs : list maddr) (order : list maddr) (victims : list maddr)
      (* add_known_address; order = the order in which the implementation's HashSet yielded the
         accepted addresses, victims = the records it evicted, in order *)
| ODialFailure (a : maddr) (e : dial_error) (victim : option maddr)
                                                   (* update_address_on_dial_failure *)
| OEstablished (peer : N) (a : maddr) (listener : bool) (victim : option maddr)
                                                   (* update_address_on_connection_established *)
| ODialAddrs (peer : N) (limit : nat) (obs : list maddr)         (* AddressStore::addresses(limit) *)
| OProbe (a : maddr)                                             (* stateless: filters and parsers *)
| OListen (a : maddr)                                            (* register_listen_address *)
| OHold (n : nat)         (* bring the number of established outbound connections (to other peers) to n *)
| ODial (peer : N) (outcome : nat) (errs : list dial_error) (tcp ws qu : list maddr)
      (* dial(peer) end to end; tcp / ws / qu = the address lists the implementation handed to the
         open() of the TCP / WebSocket / QUIC transport; outcome 0: every attempt fails, j0+1: the
         attempt on address j0 mod n of tcp ++ ws ++ qu (n = their total length) succeeds after the
         ones before it on the same transport failed, the connection is established and closed
         again; the other transports report what the base-3 digits of j0 / n say (nothing, an
         OpenFailure for all their addresses before the ConnectionOpened event, or after it). Attempt i of
         tcp ++ ws ++ qu, when it fails, fails with error kind errs[i mod |errs|] (Timeout when
         errs is empty) *)
| OInsert (peer : N) (a : maddr) (sc : Z) (victim : option maddr)
      (* AddressStore::insert(AddressRecord::new(peer, a, sc)) with an arbitrary i32 score *)
| ODialAddr (a : maddr) (res : option dial_error) (victims : list maddr)
      (* dial_address(a) end to end: the address check, the record stored for later dials, then
         the DialFailure event with the given error kind, or (None) ConnectionEstablished, accept
         and close *)
| OPublicAdd (a : maddr)                                         (* PublicAddresses::add_address *)
| OPublicRemove (a : maddr)                                      (* PublicAddresses::remove_address *)
| ODialAddrRefused (a : maddr) (victims : list maddr).
      (* dial_address(a) where the transport's dial() returns an error: the dial is not started, the
         record stored beforehand "for possible future dials" stays as it is *)

Inductive dial_result :=
| DLimit                 (* no free outbound capacity *)
| DSelf                  (* TriedToDialSelf *)
| DNoAddress             (* NoAddressAvailable *)
| DUnroutable            (* the store holds an address of a transport that is not installed, or one
                            that does not name the peer (possible only through ill-formed dial
                            results): the call is skipped *)
| DBadChoice             (* the supplied open() lists are not a valid selection *)
| DTried (tcp ws qu : store).

(* what dial_address makes of an address *)
Inductive dial_addr_verdict :=
| DALimit                (* ConnectionLimit: no free outbound capacity *)
| DAPeerIdMissing        (* the address does not end in /p2p *)
| DASelf                 (* TriedToDialSelf: exactly one of the registered listen addresses *)
| DAUnsupported          (* TransportNotSupported: shape, trailing components, transport not installed *)
| DAOk (t : transport) (q : N).

Inductive pub_result := PubEmpty | PubDifferent | PubAdded (new : bool).

Inductive out :=
| RAdd (n : N) (bad : bool)
| RIns (r : option ins)
| RAddrs (l : option store)
| RProbe (sup : bool) (rt : transport) (ptcp pws pquic : option parsed) (loc : bool)
| RListen
| RHold (n : nat)
| RDial (r : dial_result)
| RDialAddr (v : dial_addr_verdict) (bad : bool)
| RPub (r : pub_result)
| RPubRemoved (b : bool).

Definition is_bad (r : ins) : bool := match r with BadChoice => true | _ => false end.

(* inserting a list of fresh records with score 0, consuming one victim per eviction *)
Fixpoint insert_all (k : scorecfg) (s : store) (l : list maddr) (victims : list maddr)
  : store * bool :=
  match l with
  | [] => (s, false)
  | a :: t =>
      let v := match victims with v :: _ => Some v | [] => None end in
      let '(s1, r) := insert k s a 0 v in
      let victims' := match r with Evicted _ => tl victims | _ => victims end in
      let '(s2, bad) := insert_all k s1 t victims' in
      (s2, match r with BadChoice => true | _ => bad end)
  end.

(* `order` enumerates exactly the set `acc` *)
Definition same_set (order acc : list maddr) : bool :=
  (length order =? length acc)%nat && nodup_addrs order &&
  forallb (fun a => existsb (maddr_eqb a) acc) order.

(* ---- dial(peer) ---- *)

Definition mem (a : maddr) (s : store) : bool :=
  match find a s with Some _ => true | None => false end.
Definition names (p : N) (a : maddr) : bool :=
  match last a (Other 0) with P2p q => N.eqb q p | _ => false end.

Definition with_scores (s : store) (l : list maddr) : store :=
  map (fun a => (a, match find a s with Some z => z | None => 0 end)) l.

(* merging two lists by non-increasing score *)
Fixpoint merge_desc (l1 : store) : store -> store :=
  fix inner (l2 : store) : store :=
    match l1, l2 with
    | [], _ => l2
    | _, [] => l1
    | x :: t1, y :: t2 => if snd x <? snd y then y :: inner t2 else x :: merge_desc t1 l2
    end.

(* limits.rs on_dial_address: None = MaxOutgoingConnectionsExceeded; usize::MAX is "everything" *)
Definition free_capacity (c : cfg) (st : state) (n : nat) : option nat :=
  match max_out c with
  | Some m => if (m <=? held st)%nat then None else Some (m - held st)%nat
  | None => Some n
  end.

(* the error kind of attempt i *)
Definition err_at (errs : list dial_error) (i : nat) : dial_error :=
  match errs with
  | [] => ETimeout
  | _ => nth (i mod length errs) errs ETimeout
  end.
(* the attempts of one transport's list, numbered from `off` *)
Definition tag_errs (errs : list dial_error) (off : nat) (l : list maddr) : list (maddr * dial_error) :=
  combine l (map (err_at errs) (seq off (length l))).

(* every attempt in l failed with its error kind: update_address_on_dial_failure for each *)
Fixpoint fail_each (k : scorecfg) (s : store) (l : list (maddr * dial_error)) : store :=
  match l with
  | [] => s
  | (a, e) :: t => fail_each k (fst (insert k s a (error_score k e) None)) t
  end.

(* the attempt on element j of l succeeds after the earlier ones failed: the errors of the
   ConnectionOpened event, then on_connection_opened and on_connection_established *)
Definition succeed_at (k : scorecfg) (s : store) (peer : N) (l : list (maddr * dial_error)) (j : nat)
  : store :=
  let s1 := fail_each k s (firstn j l) in
  match nth_error l j with
  | Some (a, _) =>
      let s2 := fst (insert k s1 (with_peer peer a) (sc_established k) None) in
      fst (insert k s2 (with_peer peer a) (sc_established k) None)
  | None => s1
  end.

(* What the transports that did not open the connection report. A dial(peer) whose selection spans
   several transports ends with one ConnectionOpened (transport `l`, position j) and, from every
   other transport, either nothing (its attempts are cancelled), or an OpenFailure for all of its
   addresses BEFORE the ConnectionOpened event (it is not the last transport: the manager only
   stashes the errors for its report) or AFTER it (there is no dial to conclude any more). The
   roles of the other transports are read off outcome / n in base 3 (0 silent, 1 before, 2 after;
   first digit = the first other transport in the order TCP, WebSocket, QUIC). *)
Definition sel (d want : nat) (l : list (maddr * dial_error)) : list (maddr * dial_error) :=
  if (d =? want)%nat then l else [].

(* before, the winning transport's attempts, the position of the attempt that connects, after *)
Definition dial_episode (errs : list dial_error) (tcp ws qu : list maddr) (j0 : nat)
  : list (maddr * dial_error) * list (maddr * dial_error) * nat * list (maddr * dial_error) :=
  let t := tag_errs errs 0 tcp in
  let w := tag_errs errs (length tcp) ws in
  let q := tag_errs errs (length tcp + length ws) qu in
  let n := (length tcp + length ws + length qu)%nat in
  let j := (j0 mod n)%nat in
  let m := (j0 / n)%nat in
  let d1 := (m mod 3)%nat in
  let d2 := ((m / 3) mod 3)%nat in
  if (j <? length tcp)%nat then (sel d1 1 w ++ sel d2 1 q, t, j, sel d1 2 w ++ sel d2 2 q)
  else if (j <? length tcp + length ws)%nat
       then (sel d1 1 t ++ sel d2 1 q, w, (j - length tcp)%nat, sel d1 2 t ++ sel d2 2 q)
       else (sel d1 1 t ++ sel d2 1 w, q, (j - length tcp - length ws)%nat, sel d1 2 t ++ sel d2 2 w).

(* OpenFailure events of other transports, the ConnectionOpened event (with the errors of the
   earlier attempts of that transport) and the establishment, late OpenFailure events *)
Definition mixed_outcome (k : scorecfg) (s : store) (peer : N)
           (before l : list (maddr * dial_error)) (j : nat) (after : list (maddr * dial_error)) : store :=
  fail_each k (succeed_at k (fail_each k s before) peer l j) after.

Definition dial_outcome (k : scorecfg) (s : store) (peer : N) (outcome : nat) (errs : list dial_error)
           (tcp ws qu : list maddr) : store :=
  match outcome with
  | O =>
      let t := tag_errs errs 0 tcp in
      let w := tag_errs errs (length tcp) ws in
      let q := tag_errs errs (length tcp + length ws) qu in
      fail_each k (fail_each k (fail_each k s t) w) q
  | S j0 =>
      let '(before, l, j, after) := dial_episode errs tcp ws qu j0 in
      mixed_outcome k s peer before l j after
  end.

(* ---- dial_address ---- *)

Definition is_host (h : comp) : bool :=
  match h with Ip4 _ _ | Ip6 _ _ | Dns _ | Dns4 _ | Dns6 _ => true | _ => false end.

(* dial_address's TriedToDialSelf test: the address itself or the address without its /p2p suffix
   is in the listen set (which holds every listen address with and without /p2p/<local>) *)
Definition own_listen (c : cfg) (ls : list maddr) (a : maddr) : bool :=
  existsb (maddr_eqb a) (listen_set c ls) || existsb (maddr_eqb (strip_p2p a)) (listen_set c ls).

(* the checks of TransportManager::dial_address, in the order of the code *)
Definition dial_addr_check (c : cfg) (st : state) (a : maddr) : dial_addr_verdict :=
  match free_capacity c st 0 with
  | None => DALimit
  | Some _ =>
      match last a (Other 0) with
      | P2p q =>
          (* the node's own listen address, literally or under another peer id *)
          if own_listen c (lst st) a then DASelf
          else
            match a with
            | h :: rest =>
                if is_host h then
                  match rest with
                  | [Tcp _; P2p _] => if enabled c TTcp then DAOk TTcp q else DAUnsupported
                  | [Tcp _; Ws; P2p _] | [Tcp _; Wss; P2p _] =>
                      if enabled c TWs then DAOk TWs q else DAUnsupported
                  | [Udp _; QuicV1; P2p _] => if enabled c TQuic then DAOk TQuic q else DAUnsupported
                  | _ => DAUnsupported
                  end
                else DAUnsupported
            | [] => DAUnsupported
            end
      | _ => DAPeerIdMissing
      end
  end.

(* ---- addresses.rs: PublicAddresses ---- *)

Fixpoint remove_addr (a : maddr) (l : list maddr) : list maddr :=
  match l with
  | [] => []
  | b :: t => if maddr_eqb b a then t else b :: remove_addr a t
  end.

(* ensure_local_peer + HashSet::insert *)
Definition public_add (c : cfg) (ps : list maddr) (a : maddr) : list maddr * pub_result :=
  match a with
  | [] => (ps, PubEmpty)
  | _ =>
      match last a (Other 0) with
      | P2p q =>
          if N.eqb q (local_peer c) then
            if existsb (maddr_eqb a) ps then (ps, PubAdded false) else (ps ++ [a], PubAdded true)
          else (ps, PubDifferent)
      | _ =>
          let a' := a ++ [P2p (local_peer c)] in
          if existsb (maddr_eqb a') ps then (ps, PubAdded false) else (ps ++ [a'], PubAdded true)
      end
  end.

Definition step (c : cfg) (k : scorecfg) (st : state) (o : op) : state * out :=
  let b := bk st in
  match o with
  | OAdd peer addrs order victims =>
      let s := get_or_empty peer b in
      let acc := accepted c (lst st) peer addrs in
      if same_set order acc then
        let '(s', bad) := insert_all k s order victims in
        (set_bk st (put peer s' b), RAdd (N.of_nat (length acc)) bad)
      else (st, RAdd (N.of_nat (length acc)) true)
  | ODialFailure a e victim =>
      match last a (Other 0) with
      | P2p p =>
          let '(s', r) := insert k (get_or_empty p b) (with_peer p a) (error_score k e) victim in
          (set_bk st (put p s' b), RIns (Some r))
      | _ => (st, RIns None)
      end
  | OEstablished peer a listener victim =>
      if listener then (st, RIns None)
      else
        let '(s', r) := insert k (get_or_empty peer b) (with_peer peer a) (sc_established k) victim in
        (set_bk st (put peer s' b), RIns (Some r))
  | OInsert peer a sc victim =>
      let '(s', r) := insert k (get_or_empty peer b) (with_peer peer a) sc victim in
      (set_bk st (put peer s' b), RIns (Some r))
  | ODialAddrs peer limit obs =>
      let s := get_or_empty peer b in
      let obs' := with_scores s obs in
      (st, RAddrs (if addresses_ok limit s obs' then Some obs' else None))
  | OProbe a =>
      (st, RProbe (supported c a) (route c a) (parse TTcp a) (parse TWs a) (parse TQuic a)
                  (is_local c (lst st) a))
  | OListen a => (mkState b (lst st ++ [a]) (held st) (pubs st), RListen)
  | OHold n =>
      (* connections are established through an installed transport and accepted only while
         below the outbound limit *)
      if en_tcp c || (feat_ws c && en_ws c) || (feat_quic c && en_quic c) then
        let n' := match max_out c with Some m => Nat.min n m | None => n end in
        (mkState b (lst st) n' (pubs st), RHold n')
      else (st, RHold (held st))
  | ODial peer outcome errs tcp ws qu =>
      let s := get_or_empty peer b in
      (* the harness does not call dial(peer) for a store it could wedge on *)
      if existsb (fun x => negb (enabled c (route c (fst x)) && names peer (fst x))) s
      then (st, RDial DUnroutable) else
      match free_capacity c st (length s) with
      | None => (st, RDial DLimit)
      | Some limit =>
          if N.eqb peer (local_peer c) then (st, RDial DSelf)
          else match s with
               | [] => (st, RDial DNoAddress)
               | _ =>
                   let t := with_scores s tcp in
                   let w := with_scores s ws in
                   let q := with_scores s qu in
                   if forallb (fun a => mem a s) (tcp ++ ws ++ qu) &&
                      forallb (fun a => match route c a with TTcp => true | _ => false end) tcp &&
                      forallb (fun a => match route c a with TWs => true | _ => false end) ws &&
                      forallb (fun a => match route c a with TQuic => true | _ => false end) qu &&
                      addresses_ok limit s (merge_desc (merge_desc t w) q)
                   then (set_bk st (put peer (dial_outcome k s peer outcome errs tcp ws qu) b),
                         RDial (DTried t w q))
                   else (st, RDial DBadChoice)
               end
      end
  | ODialAddr a res victims =>
      match dial_addr_check c st a with
      | DAOk t q =>
          (* "keep the provided record around for possible future dials" (score 0), then the
             result of the dial re-scores it *)
          let '(s1, r1) := insert k (get_or_empty q b) a 0 (hd_error victims) in
          let victims1 := match r1 with Evicted _ => tl victims | _ => victims end in
          let sc := match res with Some e => error_score k e | None => sc_established k end in
          let '(s2, r2) := insert k s1 a sc (hd_error victims1) in
          (set_bk st (put q s2 b), RDialAddr (DAOk t q) (is_bad r1 || is_bad r2))
      | v => (st, RDialAddr v false)
      end
  | ODialAddrRefused a victims =>
      match dial_addr_check c st a with
      | DAOk t q =>
          let '(s1, r1) := insert k (get_or_empty q b) a 0 (hd_error victims) in
          (set_bk st (put q s1 b), RDialAddr (DAOk t q) (is_bad r1))
      | v => (st, RDialAddr v false)
      end
  | OPublicAdd a =>
      let '(ps, r) := public_add c (pubs st) a in
      (mkState b (lst st) (held st) ps, RPub r)
  | OPublicRemove a =>
      (mkState b (lst st) (held st) (remove_addr a (pubs st)),
       RPubRemoved (existsb (maddr_eqb a) (pubs st)))
  end.

Fixpoint run (c : cfg) (k : scorecfg) (st : state) (h : list op) : state * list out :=
  match h with
  | [] => (st, [])
  | o :: t =>
      let '(st1, r) := step c k st o in
      let '(st2, rs) := run c k st1 t in (st2, r :: rs)
  end.

Definition final (c : cfg) (k : scorecfg) (h : list op) : state := fst (run c k init h).
