(* C10 / C14 — the per-node address stores inside the Kademlia routing table are instances of the
   address store of C10.

   coq/C14/AddrModel.v models KademliaPeer.address_store (the same Rust type AddressStore of
   src/transport/manager/address.rs) over abstract addresses: a number a = 2m is address m with the
   /p2p/<peer> suffix, a = 2m+1 the same address without it, m >= 100 is global. This file embeds
   those addresses into the multiaddress grammar of C10 (injectively, preserving "global" and the
   "append the peer id" rule) and proves that C14's insert and addresses(limit) are the image of
   C10's under the embedding, for every score whose sum with the public bonus is an i32 (C14 uses
   0, +-100 only; its model writes the bonus without saturation). Consequently the theorems of
   C10 about one store (bound, minimal victim, exact re-scoring, rediscovery, dial order) hold for
   the stores of the routing table; two of them are transferred below as examples.
   Neither coq/C14 nor coq/C10/Model.v is changed. *)
From Coq Require Import List NArith ZArith Bool Lia.
From V.gen Require Consts.
From V.C10 Require Import Model Proofs.
From V.C14 Require AddrModel.
Import ListNotations.

Module K := AddrModel.

(* the multiaddress that stands for C14's address a in the store of peer p *)
Definition emb (p : N) (a : K.addr) : maddr :=
  [Ip4 (if (100 <=? a / 2)%N then Glob else Priv) (a / 2)%N; Tcp 1] ++
  (if N.even a then [P2p p] else []).

Definition emb_store (p : N) (s : K.store) : store := map (fun x => (emb p (fst x), snd x)) s.

Definition emb_res (p : N) (r : K.ins_result) : ins :=
  match r with
  | K.IKept => Kept | K.IUpdated => Updated | K.IInserted => Inserted | K.IDropped => Dropped
  | K.IEvicted v => Evicted (emb p v) | K.IBad => BadChoice
  end.

(* the constants of address.rs, as C14 reads them *)
Definition kad_scores (n : nat) : scorecfg :=
  mkScores n K.S_BONUS K.S_OK DialErrors.error_score_arms.

Lemma kad_scores_default : kad_scores K.CAP = default_scores.
Proof. reflexivity. Qed.

Lemma emb_inj p a b : emb p a = emb p b -> a = b.
Proof.
  unfold emb. intro H.
  assert (Hd : (a / 2 = b / 2)%N) by (injection H; intros; assumption).
  assert (He : N.even a = N.even b).
  { destruct (N.even a), (N.even b); try reflexivity; cbn in H; discriminate. }
  pose proof (N.div_mod a 2 ltac:(lia)) as Ea. pose proof (N.div_mod b 2 ltac:(lia)) as Eb.
  rewrite <- !N.bit0_mod, !N.bit0_odd, <- !N.negb_even, He, Hd in *. lia.
Qed.

Lemma emb_eqb p a b : maddr_eqb (emb p a) (emb p b) = (a =? b)%N.
Proof.
  destruct (N.eqb_spec a b) as [->|Hn].
  - apply maddr_eqb_refl.
  - apply maddr_eqb_neq. intro H. apply Hn. exact (emb_inj _ _ _ H).
Qed.

Lemma emb_global p a : is_global (emb p a) = K.is_global a.
Proof. unfold emb, K.is_global. cbn. destruct (100 <=? a / 2)%N; reflexivity. Qed.

Lemma even_sub_one a : N.even a = false -> N.even (a - 1) = true /\ ((a - 1) / 2 = a / 2)%N.
Proof.
  intro H. pose proof (N.div_mod a 2 ltac:(lia)) as Ea.
  assert (Hm : (a mod 2 = 1)%N).
  { rewrite <- N.bit0_mod, N.bit0_odd, <- N.negb_even, H. reflexivity. }
  assert (E1 : (a - 1 = 2 * (a / 2))%N) by lia.
  rewrite E1. split.
  - rewrite N.even_mul. reflexivity.
  - rewrite N.mul_comm, N.div_mul by lia. reflexivity.
Qed.

(* AddressRecord::new's "append /p2p/<peer> unless the address ends in one" *)
Lemma emb_with_peer p a : with_peer p (emb p a) = emb p (K.with_p2p a).
Proof.
  unfold K.with_p2p, emb. destruct (N.even a) eqn:E.
  - rewrite E. reflexivity.
  - destruct (even_sub_one a E) as [E1 E2]. rewrite E1, E2. reflexivity.
Qed.

Lemma emb_find p a s : find (emb p a) (emb_store p s) = K.sfind a s.
Proof.
  induction s as [|[b z] t IH]; cbn [emb_store map find K.sfind fst snd]; [reflexivity|].
  rewrite emb_eqb. destruct (b =? a)%N; [reflexivity|exact IH].
Qed.

Lemma emb_set_score p a z s : set_score (emb p a) z (emb_store p s) = emb_store p (K.sset a z s).
Proof.
  induction s as [|[b y] t IH]; cbn [emb_store map set_score K.sset fst snd]; [reflexivity|].
  rewrite emb_eqb. destruct (b =? a)%N; cbn [map fst snd]; [reflexivity|].
  f_equal. exact IH.
Qed.

Lemma emb_remove p a s : remove (emb p a) (emb_store p s) = emb_store p (K.sremove a s).
Proof.
  induction s as [|[b y] t IH]; cbn [emb_store map remove K.sremove fst snd]; [reflexivity|].
  rewrite emb_eqb. destruct (b =? a)%N; cbn [map fst snd]; [reflexivity|].
  f_equal. exact IH.
Qed.

Lemma emb_min p s : min_score (emb_store p s) = K.smin s.
Proof.
  induction s as [|[b y] t IH]; cbn [emb_store map min_score K.smin fst snd]; [reflexivity|].
  fold (emb_store p t). rewrite IH. reflexivity.
Qed.

Lemma emb_length p s : length (emb_store p s) = length s.
Proof. apply map_length. Qed.

Lemma emb_app p s1 s2 : emb_store p (s1 ++ s2) = emb_store p s1 ++ emb_store p s2.
Proof. apply map_app. Qed.

Local Open Scope Z_scope.

(* AddressStore::insert: C14's model is the image of C10's *)
Lemma sinsert_sim p n s a sc v :
  I32_MIN <= sc + K.S_BONUS <= I32_MAX ->
  insert (kad_scores n) (emb_store p s) (emb p a) sc (option_map (emb p) v) =
    (emb_store p (fst (K.sinsert n s a sc v)), emb_res p (snd (K.sinsert n s a sc v))).
Proof.
  intro Hr. unfold insert, K.sinsert. rewrite emb_find.
  destruct (K.sfind a s) as [z0|].
  - destruct (sc =? 0); cbn [fst snd emb_res]; [reflexivity|]. rewrite emb_set_score. reflexivity.
  - rewrite emb_global. cbn [bonus kad_scores cap].
    assert (Hs : sat_add sc K.S_BONUS = sc + K.S_BONUS) by (unfold sat_add; lia).
    rewrite Hs. set (sc' := if K.is_global a then sc + K.S_BONUS else sc).
    rewrite emb_length. destruct (n <=? length s)%nat.
    + rewrite emb_min. destruct (K.smin s) as [m|]; [|reflexivity].
      destruct (sc' <? m); [reflexivity|].
      destruct v as [w|]; cbn [option_map]; [|reflexivity].
      rewrite emb_find. destruct (K.sfind w s) as [vs|]; [|reflexivity].
      destruct (vs =? m); cbn [fst snd emb_res]; [|reflexivity].
      rewrite emb_remove, emb_app. reflexivity.
    + cbn [fst snd emb_res]. rewrite emb_app. reflexivity.
Qed.

(* AddressStore::addresses(limit) *)
Lemma emb_ins_desc p x l :
  ins_desc (emb p (fst x), snd x) (emb_store p l) = emb_store p (K.ins_desc x l).
Proof.
  induction l as [|h t IH]; cbn [emb_store map ins_desc K.ins_desc fst snd]; [reflexivity|].
  destruct (snd h <? snd x); cbn [map fst snd]; [reflexivity|].
  f_equal. exact IH.
Qed.

Lemma emb_sort p s : sort_desc (emb_store p s) = emb_store p (K.sort_desc s).
Proof.
  induction s as [|x t IH]; [reflexivity|].
  cbn [emb_store map sort_desc K.sort_desc fold_right]. fold (emb_store p t).
  fold (sort_desc (emb_store p t)). rewrite IH. fold (K.sort_desc t). apply emb_ins_desc.
Qed.

Lemma reported_sim p limit s : addresses limit (emb_store p s) = emb_store p (K.reported limit s).
Proof.
  unfold addresses, K.reported. rewrite emb_sort. unfold emb_store. rewrite firstn_map. reflexivity.
Qed.

(* ---------- two theorems of C10 transferred to the routing table's stores ---------- *)

Lemma emb_keys_nodup (p : N) (s : K.store) : NoDup (map fst s) -> NoDup (keys (emb_store p s)).
Proof.
  intro H. unfold keys, emb_store. rewrite map_map. cbn [fst].
  rewrite <- (map_map fst (emb p)). apply FinFun.Injective_map_NoDup; [|exact H].
  intros a b. apply emb_inj.
Qed.

(* C10_evict_min for KademliaPeer.address_store: an eviction happens only at the bound and removes
   a record of minimal score that is not above the newcomer's *)
Lemma kad_evict_min (p : N) n s a sc v w :
  I32_MIN <= sc + K.S_BONUS <= I32_MAX -> NoDup (map fst s) ->
  snd (K.sinsert n s a sc v) = K.IEvicted w ->
  exists m, K.sfind a s = None /\ (n <= length s)%nat /\ K.sfind w s = Some m /\
            (forall b z, In (b, z) s -> m <= z) /\
            K.sfind w (fst (K.sinsert n s a sc v)) = None /\
            length (fst (K.sinsert n s a sc v)) = length s.
Proof.
  intros Hr Hn He.
  pose proof (sinsert_sim p n s a sc v Hr) as Hsim. rewrite He in Hsim. cbn [emb_res] in Hsim.
  assert (H2 : snd (insert (kad_scores n) (emb_store p s) (emb p a) sc (option_map (emb p) v)) =
               Evicted (emb p w)) by (rewrite Hsim; reflexivity).
  destruct (insert_evicts_min _ _ _ _ _ _ (emb_keys_nodup p s Hn) H2)
    as [m [Hf [Hc [Hw [Hmin [_ [Hgone [_ [Hlen _]]]]]]]]].
  rewrite Hsim in Hgone, Hlen. cbn [fst] in Hgone, Hlen.
  rewrite emb_find in Hf, Hw, Hgone. rewrite !emb_length in Hlen. rewrite emb_length in Hc.
  cbn [cap kad_scores] in Hc.
  exists m. repeat split; try assumption.
  intros b z Hin. apply (Hmin (emb p b) z). unfold emb_store.
  apply in_map_iff. exists (b, z). split; [reflexivity|exact Hin].
Qed.

(* C10_rescore_exact for KademliaPeer.address_store *)
Lemma kad_rescore_exact (p : N) n s a sc v z0 :
  I32_MIN <= sc + K.S_BONUS <= I32_MAX -> K.sfind a s = Some z0 -> sc <> 0 ->
  snd (K.sinsert n s a sc v) = K.IUpdated /\
  K.sfind a (fst (K.sinsert n s a sc v)) = Some sc /\
  forall b, b <> a -> K.sfind b (fst (K.sinsert n s a sc v)) = K.sfind b s.
Proof.
  intros Hr Hf Hsc.
  pose proof (sinsert_sim p n s a sc v Hr) as Hsim.
  assert (Hf' : find (emb p a) (emb_store p s) = Some z0) by (rewrite emb_find; exact Hf).
  destruct (insert_rescore (kad_scores n) _ _ sc (option_map (emb p) v) z0 Hf' Hsc)
    as [Hu [Hnew [_ Hframe]]].
  rewrite Hsim in Hu, Hnew, Hframe. cbn [fst snd] in Hu, Hnew, Hframe.
  rewrite emb_find in Hnew. repeat split.
  - destruct (snd (K.sinsert n s a sc v)); cbn [emb_res] in Hu; try discriminate. reflexivity.
  - exact Hnew.
  - intros b Hb. specialize (Hframe (emb p b)). rewrite !emb_find in Hframe. apply Hframe.
    intro E. apply Hb. exact (emb_inj _ _ _ E).
Qed.
