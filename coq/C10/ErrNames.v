(* C10 — the names of the DialError variants: the model's constructors (in order) against the
   variant names extracted from src/error.rs (coq/gen/DialErrors.v, regenerated on every check). *)
From Coq Require Import List NArith.
From V.gen Require DialErrors.
From V.C10 Require Import Model.
From Coq Require Import String.
Import ListNotations.

(* ---------- the variant names: model constructors vs. src/error.rs ---------- *)


Definition ae_name (e : address_error) : string :=
  match e with
  | AeInvalidProtocol => "InvalidProtocol" | AeInvalidUrl => "InvalidUrl"
  | AePeerIdMissing => "PeerIdMissing" | AeAddressNotAvailable => "AddressNotAvailable"
  | AeInvalidPeerId => "InvalidPeerId"
  end%string.
Definition de_name (e : dns_error) : string :=
  match e with DeResolveError => "ResolveError" | DeIpVersionMismatch => "IpVersionMismatch" end%string.
Definition pe_name (e : parse_error) : string :=
  match e with
  | PeProstDecodeError => "ProstDecodeError" | PeProstEncodeError => "ProstEncodeError"
  | PeUnknownKeyType => "UnknownKeyType" | PeInvalidPublicKey => "InvalidPublicKey"
  | PeInvalidData => "InvalidData" | PeInvalidReplyLength => "InvalidReplyLength"
  end%string.
Definition qe_name (e : quic_error) : string :=
  match e with
  | QeInvalidCertificate => "InvalidCertificate" | QeConnectionError => "ConnectionError"
  | QeConnectError => "ConnectError"
  end%string.
(* name and nested variant names of a NegotiationError variant *)
Definition ne_name (e : negotiation_error) : string * list string :=
  match e with
  | NeMultistreamSelectError => ("MultistreamSelectError", []) | NeSnowError => ("SnowError", [])
  | NePeerIdMissing => ("PeerIdMissing", []) | NeBadSignature => ("BadSignature", [])
  | NeTimeout => ("Timeout", [])
  | NeParseError _ => ("ParseError", map pe_name all_parse_errors)
  | NeIoError => ("IoError", []) | NeStateMismatch => ("StateMismatch", [])
  | NePeerIdMismatch => ("PeerIdMismatch", [])
  | NeQuic _ => ("Quic", map qe_name all_quic_errors)
  | NeWebSocket => ("WebSocket", [])
  end%string.
(* one representative per NegotiationError variant, in the order of the Rust enum *)
Definition ne_variants : list negotiation_error :=
  [NeMultistreamSelectError; NeSnowError; NePeerIdMissing; NeBadSignature; NeTimeout;
   NeParseError PeProstDecodeError; NeIoError; NeStateMismatch; NePeerIdMismatch;
   NeQuic QeInvalidCertificate; NeWebSocket].

Definition model_variants : list (string * list (string * list string)) :=
  [("Timeout", []);
   ("AddressError", map (fun e => (ae_name e, [])) all_address_errors);
   ("DnsError", map (fun e => (de_name e, [])) all_dns_errors);
   ("NegotiationError", map ne_name ne_variants)]%string.

(* feature gates: NegotiationError::Quic needs `quic`, ::WebSocket needs `websocket` *)
Definition model_gates : list (list N * N) := [([3; 9], 1); ([3; 10], 2)]%N.

Lemma variants_in_sync :
  model_variants = DialErrors.variants /\ model_gates = DialErrors.gates.
Proof. split; reflexivity. Qed.

Lemma ne_variants_index i e :
  nth_error ne_variants i = Some e -> hd 0%N (ne_path e) = N.of_nat i.
Proof.
  do 11 (destruct i as [|i]; [cbn; intros [= <-]; reflexivity|]).
  cbn. destruct i; discriminate.
Qed.


(* ---------- where the manager writes into a peer's address store ---------- *)

(* every write site of src/transport/manager/*.rs and the model operation that covers it:
     add_known_address                          OAdd (insert_all of the accepted set, score 0)
     dial_address                               ODialAddr, first insert (score 0)
     update_address_on_dial_failure             ODialFailure; the failed attempts of ODial; the
                                                DialFailure result of ODialAddr (error_score)
     update_address_on_connection_established   OEstablished; the success of ODial / ODialAddr
     on_connection_opened                       the success of ODial (first of its two inserts) *)
Definition model_store_sites : list (string * string * string) :=
  [("handle.rs", "add_known_address", "extend");
   ("mod.rs", "dial_address", "insert");
   ("mod.rs", "update_address_on_dial_failure", "insert");
   ("mod.rs", "update_address_on_connection_established", "insert");
   ("mod.rs", "on_connection_opened", "insert")]%string.

Lemma store_sites_in_sync : model_store_sites = DialErrors.store_sites.
Proof. reflexivity. Qed.


(* ---------- where addresses are offered to the address book ---------- *)

(* every call of add_known_address / dial_address in the crate (identify.rs and mdns.rs have none:
   the addresses they learn are reported to the user as events and reach the book only if the
   user offers them) and what covers it:
     lib.rs new                      Litep2pConfig::known_addresses -> TransportManager::add_known_address,
                                     after the listen addresses (Litep2p-level cases: OListen .. then OAdd ..)
     lib.rs add_known_address        Litep2p::add_known_address -> TransportManager::add_known_address (OAdd,
                                     Litep2p-level cases)
     lib.rs dial_address             Litep2p::dial_address -> TransportManager::dial_address (ODialAddr)
     kademlia/mod.rs new, update_routing_table, run
                                     TransportService::add_known_address (OAdd on ts_prepare; which peers and
                                     addresses Kademlia offers is C14's subject)
     transport_service.rs add_known_address
                                     appends the peer id where missing (ts_prepare), then
                                     TransportManagerHandle::add_known_address (OAdd)
     transport_service.rs dial_address
                                     TransportManagerHandle::dial_address: a command to the manager
     manager/mod.rs add_known_address  the handle's add_known_address (OAdd)
     manager/mod.rs next             the DialAddress command -> TransportManager::dial_address (ODialAddr) *)
Definition model_entry_sites : list (string * string * string) :=
  [("lib.rs", "new", "add_known_address");
   ("lib.rs", "dial_address", "dial_address");
   ("lib.rs", "add_known_address", "add_known_address");
   ("protocol/libp2p/kademlia/mod.rs", "new", "add_known_address");
   ("protocol/libp2p/kademlia/mod.rs", "update_routing_table", "add_known_address");
   ("protocol/libp2p/kademlia/mod.rs", "run", "add_known_address");
   ("protocol/transport_service.rs", "dial_address", "dial_address");
   ("protocol/transport_service.rs", "add_known_address", "add_known_address");
   ("transport/manager/mod.rs", "add_known_address", "add_known_address");
   ("transport/manager/mod.rs", "next", "dial_address")]%string.

(* in Litep2p::new every add_known_address call comes after every register_listen_address call
   (and there is one): the configured known addresses are filtered against the listen addresses *)
Fixpoint listen_before_known (l : list string) : bool :=
  match l with
  | [] => false
  | x :: t =>
      if String.eqb x "add_known_address" then forallb (fun y => String.eqb y "add_known_address") t
      else listen_before_known t
  end.

Lemma entry_sites_in_sync :
  model_entry_sites = DialErrors.entry_sites /\ listen_before_known DialErrors.new_call_order = true.
Proof. split; reflexivity. Qed.

(* coq/C10/IpClass.v transcribes the special ranges of this version of the ip_network crate *)
Definition ip_network_0_4_1 : string := "0.4.1".
Lemma ip_network_version_pinned : DialErrors.ip_network_version = ip_network_0_4_1.
Proof. reflexivity. Qed.
