(* C10 — wire format, model runner and the trace oracle prop_ok. Definitions only.

   case  := feat_ws feat_quic en_tcp en_ws en_quic local_peer max_out(0 = none, m+1) ops:[op]
   maddr := n (tag arg)*n        tag 0 ip4 / 1 ip6 (arg = class*65536+id), 2 dns, 3 dns4, 4 dns6,
                                 5 tcp, 6 udp, 7 ws, 8 wss, 9 quic-v1, 10 p2p, 11 other,
                                 12 a concrete IPv4 address (arg = the 32-bit address), 13 a concrete
                                 IPv6 address s0:s1:0:..:val:..:0 (arg = ((s0*65536+s1)*8+pos)*65536+val,
                                 val in segment pos of 2..7); their class is computed by IpClass.v.
                                 Addresses of the ranges that tags 0 / 1 are mapped to (0.0.0.0,
                                 127.1/16, 10.7/16, 8.8/16, ::, ::1, fd00::7:x, 2001:4860::x) are
                                 written with tags 0 / 1 only
   op    := 0 peer [maddr] order:[maddr] victims:[maddr]   add_known_address
          | 1 maddr kind victim:[maddr]            update_address_on_dial_failure; kind = the code of the
                                                   DialError variant: outer + 4 * inner + 64 * innermost
                                                   (0 Timeout, 1 + 4i AddressError, 2 + 4i DnsError,
                                                   3 + 4i (+ 64j) NegotiationError, indices in the order of
                                                   the enums of src/error.rs)
          | 2 peer maddr listener victim:[maddr]   connection established
          | 3 peer limit obs:[maddr]               AddressStore::addresses(limit)
          | 4 maddr                                probe: supported_transport, routing, parsers
          | 5 maddr                                register_listen_address
          | 6 n                                    hold n established outbound connections
          | 7 peer outcome tcp:[maddr] ws:[maddr]  dial(peer) with the lists given to open(); failed attempts time out
          | 9 peer outcome errs:[kind] tcp:[maddr] ws:[maddr]   the same, attempt i failing with errs[i mod |errs|]
          | 14 peer outcome errs:[kind] tcp:[maddr] ws:[maddr] quic:[maddr]   the same with a QUIC transport
          | 8 peer maddr score victim:[maddr]      AddressStore::insert with a raw i32 score (biased by 2^31)
          | 10 maddr res victims:[maddr]           dial_address; res 0 = connection established, k+1 = DialFailure of kind k
          | 11 maddr                               PublicAddresses::add_address
          | 12 maddr                               PublicAddresses::remove_address
          | 15 maddr victims:[maddr]               dial_address when the transport's dial() returns an error
          | 13 peer [maddr] order:[maddr] victims:[maddr]  TransportService::add_known_address: the service
                                                   appends /p2p/<peer> to every address that does not end in
                                                   a peer id and hands the set to the manager's handle (op 0
                                                   on the prepared addresses)
   ([x] is a count-prefixed list.) The main harness build has the websocket feature compiled in
   and quic compiled out (feat_quic = 0); the second build (stream `aux`, cargo feature quic) runs
   the cases with feat_quic = 1, where a probe also reports QuicListener::get_socket_address and
   dial(peer) episodes carry three lists (tag 14).

   Litep2p-level case (first number 2):  2 nk <case as above>
   whose operations are: nk add_known_address operations (Litep2pConfig::known_addresses, in order),
   then register_listen_address operations (the listen addresses of the configured TCP / WebSocket
   transports: /ip4/<loopback>/tcp/P[/ws]), then add_known_address operations
   (Litep2p::add_known_address). Litep2p::new registers the listen addresses of the transports
   first and adds the configured known addresses afterwards; the first observation is made when
   new() returns:
   trace := 2 listen-set store(peer 0) .. store(peer 7) bad  then one add record per later operation. *)
From Coq Require Import List NArith ZArith Bool.
From V.common Require Import Wire.
From V.C10 Require Import Model IpClass.
Import ListNotations.
Open Scope N_scope.

Definition NPEERS : N := 8.
Definition NOTHER : N := 8.
Definition MAXCOMPS : nat := 8.

(* count-prefixed list with a fixed bound on the count (Wire.plist measures the remaining
   input on every call, which is quadratic on the long traces of this property) *)
Definition plistb {A} (bound : N) (p : parser A) : parser (list A) :=
  let* n := pN in if n <? bound then prep (N.to_nat n) p else pfail.

Definition class_of (x : N) : option ipclass :=
  match x with 0 => Some Unspec | 1 => Some Loop | 2 => Some Priv | 3 => Some Glob | _ => None end.
Definition class_code (c : ipclass) : N :=
  match c with Unspec => 0 | Loop => 1 | Priv => 2 | Glob => 3 end.

(* concrete addresses: the identifier of the component is RAW + the address (IPv4) / RAW + the
   compact code (IPv6); identifiers below RAW belong to the mapped ranges *)
Definition RAW : N := 65536.
Definition raw4_ok (ip : N) : bool :=
  (ip <? 4294967296) &&
  negb ((ip =? 0) || ((octet ip 0 =? 127) && (octet ip 1 =? 1)) ||
        ((octet ip 0 =? 10) && (octet ip 1 =? 7)) || ((octet ip 0 =? 8) && (octet ip 1 =? 8))).
Definition raw6_s0 (arg : N) : N := arg / 34359738368.               (* 2^35 *)
Definition raw6_s1 (arg : N) : N := (arg / 524288) mod 65536.        (* 2^19 *)
Definition raw6_pos (arg : N) : N := (arg / 65536) mod 8.
Definition raw6_val (arg : N) : N := arg mod 65536.
Definition raw6_ip (arg : N) : N :=
  raw6_s0 arg * 2 ^ 112 + raw6_s1 arg * 2 ^ 96 + raw6_val arg * 2 ^ (16 * (7 - raw6_pos arg)).
Definition raw6_ok (arg : N) : bool :=
  (arg <? 2251799813685248) &&                                        (* 2^51 *)
  (if raw6_val arg =? 0 then raw6_pos arg =? 0 else 2 <=? raw6_pos arg) &&
  negb ((raw6_ip arg =? 0) || (raw6_ip arg =? 1) ||
        ((raw6_s0 arg =? 64768) && (raw6_pos arg =? 6) && (raw6_val arg =? 7)) ||
        ((raw6_s0 arg =? 8193) && (raw6_s1 arg =? 18528))).

(* canonical components only: the harness maps them injectively to real protocols *)
Definition dec_comp (tag arg : N) : option comp :=
  let small := arg <? 65536 in
  match tag with
  | 0 => match class_of (arg / 65536) with
         | Some c => if is_unspec c && negb (arg mod 65536 =? 0) then None
                     else Some (Ip4 c (arg mod 65536))
         | None => None
         end
  | 1 => match class_of (arg / 65536) with
         | Some c => if (is_unspec c || is_loop c) && negb (arg mod 65536 =? 0) then None
                     else Some (Ip6 c (arg mod 65536))
         | None => None
         end
  | 2 => if small then Some (Dns arg) else None
  | 3 => if small then Some (Dns4 arg) else None
  | 4 => if small then Some (Dns6 arg) else None
  | 5 => if small then Some (Tcp arg) else None
  | 6 => if small then Some (Udp arg) else None
  | 7 => if arg =? 0 then Some Ws else None
  | 8 => if arg =? 0 then Some Wss else None
  | 9 => if arg =? 0 then Some QuicV1 else None
  | 10 => if arg <? NPEERS then Some (P2p arg) else None
  | 11 => if arg <? NOTHER then Some (Other arg) else None
  | 12 => if raw4_ok arg then Some (Ip4 (classify4 arg) (RAW + arg)) else None
  | 13 => if raw6_ok arg then Some (Ip6 (classify6 (raw6_ip arg)) (RAW + arg)) else None
  | _ => None
  end.

Definition enc_comp (x : comp) : list N :=
  match x with
  | Ip4 c i => if i <? RAW then [0; class_code c * 65536 + i] else [12; i - RAW]
  | Ip6 c i => if i <? RAW then [1; class_code c * 65536 + i] else [13; i - RAW]
  | Dns i => [2; i]
  | Dns4 i => [3; i]
  | Dns6 i => [4; i]
  | Tcp p => [5; p]
  | Udp p => [6; p]
  | Ws => [7; 0]
  | Wss => [8; 0]
  | QuicV1 => [9; 0]
  | P2p p => [10; p]
  | Other t => [11; t]
  end.

Definition p_comp : parser comp :=
  let* tag := pN in let* arg := pN in
  match dec_comp tag arg with Some x => pret x | None => pfail end.

Definition p_maddr : parser maddr :=
  plistb (N.of_nat MAXCOMPS + 1) p_comp.

(* in traces: one component more (a peer id appended to an address of full length) *)
Definition p_maddr_t : parser maddr :=
  plistb (N.of_nat MAXCOMPS + 2) p_comp.

Definition enc_maddr (a : maddr) : list N := enc_list enc_comp a.

Definition p_victim : parser (option maddr) :=
  let* l := plistb 2 p_maddr in
  match l with [] => pret None | [v] => pret (Some v) | _ => pfail end.

Definition p_peer : parser N := let* p := pN in if p <? NPEERS then pret p else pfail.

Definition p_err : parser dial_error :=
  let* kind := pN in match err_of_code kind with Some e => pret e | None => pfail end.

Definition SCORE_BIAS : Z := 2147483648.
Definition enc_score (z : Z) : N := Z.to_N (z + SCORE_BIAS).
Definition dec_score (n : N) : Z := (Z.of_N n - SCORE_BIAS)%Z.

Definition p_op : parser op :=
  let* tag := pN in
  match tag with
  | 0 => let* p := p_peer in let* l := plistb 1000 p_maddr in let* o := plistb 1000 p_maddr in
         let* vs := plistb 1000 p_maddr in
         pret (OAdd p l o vs)
  | 1 => let* a := p_maddr in let* kind := pN in let* v := p_victim in
         match err_of_code kind with
         | Some e => pret (ODialFailure a e v)
         | None => pfail
         end
  | 2 => let* p := p_peer in let* a := p_maddr in let* l := pBool in let* v := p_victim in
         pret (OEstablished p a l v)
  | 3 => let* p := p_peer in let* limit := pN in let* obs := plistb 1000 p_maddr in
         if limit <? 1000 then pret (ODialAddrs p (N.to_nat limit) obs) else pfail
  | 4 => let* a := p_maddr in pret (OProbe a)
  | 5 => let* a := p_maddr in if existsb is_p2p a then pfail else pret (OListen a)
  | 6 => let* n := pN in if n <? 9 then pret (OHold (N.to_nat n)) else pfail
  | 7 => let* p := p_peer in let* oc := pN in
         let* t := plistb 1000 p_maddr in let* w := plistb 1000 p_maddr in
         if oc <? 1000 then pret (ODial p (N.to_nat oc) [] t w []) else pfail
  | 9 => let* p := p_peer in let* oc := pN in let* es := plistb 1000 p_err in
         let* t := plistb 1000 p_maddr in let* w := plistb 1000 p_maddr in
         if oc <? 1000 then pret (ODial p (N.to_nat oc) es t w []) else pfail
  | 14 => let* p := p_peer in let* oc := pN in let* es := plistb 1000 p_err in
          let* t := plistb 1000 p_maddr in let* w := plistb 1000 p_maddr in let* q := plistb 1000 p_maddr in
          if oc <? 1000 then pret (ODial p (N.to_nat oc) es t w q) else pfail
  | 8 => let* p := p_peer in let* a := p_maddr in let* sc := pN in let* v := p_victim in
         if sc <? 4294967296 then pret (OInsert p a (dec_score sc) v) else pfail
  | 10 => let* a := p_maddr in let* res := pN in let* vs := plistb 3 p_maddr in
          match res with
          | 0 => pret (ODialAddr a None vs)
          | _ => match err_of_code (res - 1) with
                 | Some e => pret (ODialAddr a (Some e) vs)
                 | None => pfail
                 end
          end
  | 11 => let* a := p_maddr in pret (OPublicAdd a)
  | 12 => let* a := p_maddr in pret (OPublicRemove a)
  | 13 => let* p := p_peer in let* l := plistb 1000 p_maddr in let* o := plistb 1000 p_maddr in
          let* vs := plistb 1000 p_maddr in
          pret (OAdd p (ts_prepare p l) o vs)
  | 15 => let* a := p_maddr in let* vs := plistb 3 p_maddr in pret (ODialAddrRefused a vs)
  | _ => pfail
  end.

Definition p_case : parser (cfg * list op) :=
  let* fw := pBool in let* fq := pBool in
  let* et := pBool in let* ew := pBool in let* eq := pBool in
  let* lp := p_peer in
  let* mo := pN in
  let* ops := plistb 100000 p_op in
  if fw && implb eq fq && (mo <? 100)
  then pret (mkCfg fw fq et ew eq lp (match dec_opt mo with Some m => Some (N.to_nat m) | None => None end), ops)
  else pfail.

Definition decode_case (l : list N) : option (cfg * list op) := pall p_case l.

(* ---------- encoders ---------- *)

(* a sort key that is injective on canonical addresses; numerically, shorter addresses first *)
Definition comp_digit (x : comp) : N :=
  match enc_comp x with [tag; arg] => tag * 4503599627370496 + arg + 1 | _ => 0 end.   (* 2^52 *)
Definition maddr_key (a : maddr) : N :=
  fold_left (fun acc x => N.shiftl acc 56 + comp_digit x) a 0.                           (* radix 2^56 *)

Definition enc_entry (x : maddr * Z) : list N := enc_maddr (fst x) ++ [enc_score (snd x)].
Definition dump (s : store) : list N :=
  enc_list enc_entry
    (map snd (sort_by fst (map (fun x => (maddr_key (fst x), x)) s))).

Definition enc_host (h : host) : list N :=
  match h with
  | HIp (v6, c, i) =>
      if i <? RAW then [if v6 then 1 else 0; class_code c * 65536 + i]
      else [if v6 then 13 else 12; i - RAW]
  | HDns kind i => [match kind with 0 => 2 | 4 => 3 | _ => 4 end; i]
  end.
Definition enc_parsed (r : option parsed) : list N :=
  match r with
  | None => [0]
  | Some (ho, port, q) => [1] ++ enc_host ho ++ [port; enc_opt q]
  end.
Definition transport_code (t : transport) : N :=
  match t with TTcp => 0 | TWs => 1 | TQuic => 2 end.

(* the peer whose store an operation touches *)
Definition op_peer (o : op) : option N :=
  match o with
  | OAdd p _ _ _ => Some p
  | ODialFailure a _ _ => match last a (Other 0) with P2p p => Some p | _ => None end
  | OEstablished p _ _ _ => Some p
  | ODial p _ _ _ _ _ => Some p
  | OInsert p _ _ _ => Some p
  | ODialAddr a _ _ => match last a (Other 0) with P2p p => Some p | _ => None end
  | ODialAddrRefused a _ => match last a (Other 0) with P2p p => Some p | _ => None end
  | _ => None
  end.

Definition dump_addrs (l : list maddr) : list N :=
  enc_list enc_maddr (map snd (sort_by fst (map (fun a => (maddr_key a, a)) l))).

Definition verdict_code (v : dial_addr_verdict) : list N :=
  match v with
  | DAOk t q => [0; transport_code t; q]
  | DALimit => [1]
  | DASelf => [2]
  | DAPeerIdMissing => [6]
  | DAUnsupported => [7]
  end.

Definition enc_out (c : cfg) (o : op) (st' : state) (r : out) : list N :=
  let b' := bk st' in
  let d := match op_peer o with Some p => dump (get_or_empty p b') | None => [] end in
  match r with
  | RAdd n bad => [0; n; b2n bad] ++ d
  | RIns None => [1; 0] ++ d
  | RIns (Some x) => [1; 1; b2n (is_bad x)] ++ d
  | RAddrs None => [3; 9]
  | RAddrs (Some l) => [3; 0] ++ enc_list enc_entry l
  | RProbe sup rt ptcp pws pquic _ =>
      [4; b2n sup; transport_code rt] ++ enc_parsed ptcp ++ enc_parsed pws ++
      (if feat_quic c then enc_parsed pquic else [])
  | RListen => [5] ++ dump_addrs (dedup (listen_set c (lst st')))
  | RHold n => [6; N.of_nat n]
  | RDial DLimit => [7; 1]
  | RDial DSelf => [7; 2]
  | RDial DNoAddress => [7; 3]
  | RDial DUnroutable => [7; 8]
  | RDial DBadChoice => [7; 9]
  | RDial (DTried t w q) => [7; 0] ++ enc_list enc_entry t ++ enc_list enc_entry w ++ enc_list enc_entry q ++ d
  | RDialAddr v bad => [10] ++ verdict_code v ++ [b2n bad] ++ d
  | RPub r =>
      [11; match r with PubAdded true => 0 | PubAdded false => 1 | PubEmpty => 2 | PubDifferent => 3 end]
      ++ dump_addrs (pubs st')
  | RPubRemoved b => [12; b2n b] ++ dump_addrs (pubs st')
  end.

Definition K : scorecfg := default_scores.

Fixpoint run_trace (c : cfg) (st : state) (h : list op) : list N :=
  match h with
  | [] => []
  | o :: t => let '(st1, r) := step c K st o in enc_out c o st1 r ++ run_trace c st1 t
  end.

(* ---------- Litep2p-level cases ---------- *)

Definition is_add (o : op) : bool := match o with OAdd _ _ _ _ => true | _ => false end.
Definition is_listen (o : op) : bool := match o with OListen _ => true | _ => false end.

Fixpoint span_listen (h : list op) : list maddr * list op :=
  match h with
  | OListen a :: t => let '(ls, r) := span_listen t in (a :: ls, r)
  | _ => ([], h)
  end.

Definition LP_PORTS : N := 10000.
Definition comp_port_ok (x : comp) : bool :=
  match x with Tcp p | Udp p => p <? LP_PORTS | _ => true end.
Definition op_ports_ok (o : op) : bool :=
  match o with
  | OAdd _ l _ _ => forallb (forallb comp_port_ok) l
  | OListen a => forallb comp_port_ok a
  | _ => true
  end.

(* a listen address the harness can bind: a loopback IPv4 address, for an enabled transport *)
Definition lp_listen_ok (c : cfg) (a : maddr) : bool :=
  match a with
  | [Ip4 Loop _; Tcp _] => en_tcp c
  | [Ip4 Loop _; Tcp _; Ws] => en_ws c
  | _ => false
  end.
(* the socket a listen address binds *)
Definition lp_socket (a : maddr) : N * N :=
  match a with Ip4 _ i :: Tcp p :: _ => (i, p) | _ => (0, 0) end.
Fixpoint nodup_pairs (l : list (N * N)) : bool :=
  match l with
  | [] => true
  | (a, b) :: t => negb (existsb (fun y => (fst y =? a) && (snd y =? b)) t) && nodup_pairs t
  end.

Definition PEERS : list N := [0; 1; 2; 3; 4; 5; 6; 7].

Definition decode_lp (l : list N) : option (cfg * list op * list maddr * list op) :=
  match l with
  | nk :: rest =>
      match decode_case rest with
      | Some (c, h) =>
          let nk' := N.to_nat nk in
          let known := firstn nk' h in
          let '(ls, ops) := span_listen (skipn nk' h) in
          if (nk' <=? length h)%nat && forallb is_add known && forallb is_add ops &&
             forallb op_ports_ok h && forallb (lp_listen_ok c) ls &&
             nodup_pairs (map lp_socket ls) &&
             (en_tcp c || en_ws c) && match max_out c with None => true | Some _ => false end
          then Some (c, known, ls, ops) else None
      | None => None
      end
  | [] => None
  end.

Definition lp_listened (ls : list maddr) : state := mkState [] ls 0 [].

Fixpoint any_bad (rs : list out) : bool :=
  match rs with
  | [] => false
  | RAdd _ b :: t => b || any_bad t
  | _ :: t => any_bad t
  end.

(* Litep2p::new: the transports register their listen addresses, then the configured known
   addresses are added; afterwards Litep2p::add_known_address *)
Definition run_lp (l : list N) : list N :=
  match decode_lp l with
  | Some (c, known, ls, ops) =>
      let st1 := lp_listened ls in
      let '(st2, rs) := run c K st1 known in
      [2] ++ dump_addrs (dedup (listen_set c ls)) ++
      flat_map (fun p => dump (get_or_empty p (bk st2))) PEERS ++ [b2n (any_bad rs)] ++
      run_trace c st2 ops
  | None => [0]
  end.

Definition run_case (l : list N) : list N :=
  match l with
  | 2 :: rest => run_lp rest
  | _ =>
      match decode_case l with
      | Some (c, h) => 1 :: run_trace c init h
      | None => [0]
      end
  end.

(* ---------- decoding a trace ---------- *)

Definition p_entry : parser (maddr * Z) :=
  let* a := p_maddr_t in let* z := pN in pret (a, dec_score z).
Definition p_store : parser store := plistb 100000 p_entry.

Definition p_host : parser host :=
  let* tag := pN in let* arg := pN in
  match tag with
  | 0 => match class_of (arg / 65536) with Some c => pret (HIp (false, c, arg mod 65536)) | None => pfail end
  | 1 => match class_of (arg / 65536) with Some c => pret (HIp (true, c, arg mod 65536)) | None => pfail end
  | 2 => pret (HDns 0 arg)
  | 3 => pret (HDns 4 arg)
  | 4 => pret (HDns 6 arg)
  | 12 => pret (HIp (false, classify4 arg, RAW + arg))
  | 13 => pret (HIp (true, classify6 (raw6_ip arg), RAW + arg))
  | _ => pfail
  end.
Definition p_parsed : parser (option parsed) :=
  let* f := pN in
  if f =? 0 then pret None
  else let* ho := p_host in let* port := pN in let* q := pN in pret (Some (ho, port, dec_opt q)).

Inductive obs :=
| BAdd (n : N) (s : store)
| BIns0 (s : option store)
| BIns (s : store)
| BAddrs (l : option store)
| BProbe (sup : bool) (rt : N) (ptcp pws pquic : option parsed)
| BListen (l : list maddr)
| BHold (n : nat)
| BDialCode (code : N)
| BDialTried (t w q s : store)
| BDialAddr (code : N) (s : option store)
| BPub (code : N) (l : list maddr)
| BPubRemoved (b : bool) (l : list maddr).

Definition p_obs (c : cfg) : parser obs :=
  let* tag := pN in
  match tag with
  | 0 => let* n := pN in let* _ := pN in let* s := p_store in pret (BAdd n s)
  | 1 => let* f := pN in
         if f =? 0 then pret (BIns0 None) else let* _ := pN in let* s := p_store in pret (BIns s)
  | 3 => let* f := pN in
         if f =? 0 then let* l := p_store in pret (BAddrs (Some l)) else pret (BAddrs None)
  | 4 => let* sup := pBool in let* rt := pN in let* a := p_parsed in let* b := p_parsed in
         let* q := (if feat_quic c then p_parsed else pret None) in
         pret (BProbe sup rt a b q)
  | 5 => let* l := plistb 100000 p_maddr_t in pret (BListen l)
  | 6 => let* n := pN in if n <? 1000 then pret (BHold (N.to_nat n)) else pfail
  | 7 => let* code := pN in
         if code =? 0 then
           let* t := p_store in let* w := p_store in let* q := p_store in let* s := p_store in
           pret (BDialTried t w q s)
         else pret (BDialCode code)
  | 10 => let* code := pN in
          let* _ := (if code =? 0 then (let* _ := pN in pN) else pret 0) in
          let* _ := pN in
          pret (BDialAddr code None)
  | 11 => let* code := pN in let* l := plistb 100000 p_maddr_t in pret (BPub code l)
  | 12 => let* b := pBool in let* l := plistb 100000 p_maddr_t in pret (BPubRemoved b l)
  | _ => pfail
  end.

(* the dump that follows a dial_address record when the address ends in /p2p, and an inbound
   connection's record *)
Definition p_obs_for (c : cfg) (o : op) : parser obs :=
  let* ob := p_obs c in
  match ob, op_peer o with
  | BDialAddr code _, Some _ => let* s := p_store in pret (BDialAddr code (Some s))
  | BIns0 _, Some _ => let* s := p_store in pret (BIns0 (Some s))
  | _, _ => pret ob
  end.

(* ---------- the oracle ---------- *)

Definition entry_eqb (x y : maddr * Z) : bool := maddr_eqb (fst x) (fst y) && Z.eqb (snd x) (snd y).
Definition store_eqb (a b : store) : bool := list_eqb entry_eqb a b.

Definition store_ok (k : scorecfg) (s : store) : bool :=
  (length s <=? cap k)%nat && nodup_addrs (map fst s).

(* "can be parsed and dialed by an enabled transport" and names the peer *)
Definition parsed_ok (r : option parsed) (peer : N) : bool :=
  match r with
  | Some (ho, _, Some q) => (q =? peer) && negb (host_unspecified ho)
  | _ => false
  end.
Definition dial_ok (c : cfg) (peer : N) (a : maddr) : bool :=
  names peer a &&
  existsb (fun t => enabled c t && parsed_ok (parse t a) peer) [TTcp; TWs; TQuic].

(* a record of the old store is either still there with the same score, or it was displaced:
   then the store is at its bound and nothing that stayed (with its score) scores lower (within one call several
   records can be displaced one after the other, each a minimum at its time). A displaced record
   that is offered again in the same call comes back as a new one. *)
Definition displaced_ok (k : scorecfg) (s s' : store) (x : maddr * Z) : bool :=
  (cap k <=? length s')%nat &&
  forallb (fun y => negb (match find (fst y) s' with Some z => Z.eqb z (snd y) | None => false end)
                    || Z.leb (snd x) (snd y)) s.
Definition kept_or_min (k : scorecfg) (offered : maddr -> bool) (s s' : store) (x : maddr * Z) : bool :=
  match find (fst x) s' with
  | Some z => Z.eqb z (snd x) || (offered (fst x) && displaced_ok k s s' x)
  | None => displaced_ok k s s' x
  end.

Definition count_new (s s' : store) : nat := length (filter (fun x => negb (mem (fst x) s)) s').
Definition count_gone (s s' : store) : nat := length (filter (fun x => negb (mem (fst x) s')) s).

Definition add_ok (c : cfg) (k : scorecfg) (ls : list maddr) (peer : N) (addrs : list maddr)
           (s s' : store) (n : N) : bool :=
  store_ok k s' &&
  (* remembered only if offered, attributable, not local, dialable *)
  forallb (fun x => mem (fst x) s ||
                    (existsb (fun a => maddr_eqb (with_peer peer a) (fst x)) addrs &&
                     dial_ok c peer (fst x) && negb (is_local c ls (fst x)))) s' &&
  (* rediscovery erases nothing; only lowest-scored records are displaced, only at the bound *)
  forallb (kept_or_min k (fun a => existsb (maddr_eqb a) addrs) s s') s &&
  (count_gone s s' <=? count_new s s')%nat &&
  (N.of_nat (count_new s s') <=? n) && (n <=? N.of_nat (length addrs)).

Definition new_score_of (k : scorecfg) (a : maddr) (e : Z) : Z :=
  if is_global a then sat_add e (bonus k) else e.

Definition in_i32b (z : Z) : bool := Z.leb I32_MIN z && Z.leb z I32_MAX.
(* what the property demands of the score an event leaves behind: a failure (of whatever kind)
   strictly negative, a success strictly positive, a raw insert the given score (plus the
   public-address bonus when the record is new) *)
Definition fail_z (z : Z) : bool := Z.ltb z 0 && in_i32b z.
Definition win_z (k : scorecfg) (z : Z) : bool := Z.ltb 0 z && in_i32b z && Z.eqb z (sc_established k).

(* a dial result for address a' that must leave a score satisfying okz on a stored address
   (oknew on a record created by the event) *)
Definition rescore_ok (k : scorecfg) (a' : maddr) (okz oknew : Z -> bool) (s s' : store) : bool :=
  store_ok k s' &&
  match find a' s with
  | Some _ =>
      (* exactly the address used is re-scored *)
      (length s' =? length s)%nat &&
      forallb (fun x => match find (fst x) s' with
                        | Some z => if maddr_eqb (fst x) a' then okz z else Z.eqb z (snd x)
                        | None => false
                        end) s
  | None =>
      forallb (kept_or_min k (fun _ => false) s s') s &&
      (count_gone s s' <=? count_new s s')%nat &&
      forallb (fun x => mem (fst x) s || (maddr_eqb (fst x) a' && oknew (snd x))) s'
  end.

(* nothing changed *)
Definition same_store (s s' : store) : bool :=
  (length s' =? length s)%nat &&
  forallb (fun x => match find (fst x) s' with Some z => Z.eqb z (snd x) | None => false end) s.

(* the outcome of a dial: the address that connected gets the established score, the attempts
   that failed get a failure score, everything else is untouched *)
Definition outcome_ok (k : scorecfg) (s s' : store) (won : option maddr) (failed : list maddr) : bool :=
  (length s' =? length s)%nat &&
  forallb (fun x =>
             match find (fst x) s' with
             | Some z =>
                 if match won with Some a => maddr_eqb (fst x) a | None => false end then win_z k z
                 else if existsb (maddr_eqb (fst x)) failed then fail_z z
                 else Z.eqb z (snd x)
             | None => false
             end) s.

(* dial_address: attributable and dialable by an enabled transport (the host may be unspecified),
   not a listen address of the node (literally, or with the /p2p suffix taken off) *)
Definition parsed_weak (r : option parsed) (peer : N) : bool :=
  match r with Some (_, _, Some q) => q =? peer | _ => false end.
Definition dial_ok_weak (c : cfg) (ls : list maddr) (peer : N) (a : maddr) : bool :=
  names peer a &&
  existsb (fun t => enabled c t && parsed_weak (parse t a) peer) [TTcp; TWs; TQuic] &&
  negb (own_listen c ls a).

Definition set_eqb (l1 l2 : list maddr) : bool :=
  nodup_addrs l1 && nodup_addrs l2 &&
  forallb (fun a => existsb (maddr_eqb a) l2) l1 && forallb (fun a => existsb (maddr_eqb a) l1) l2.

Record ostate := mkO { o_bk : book; o_lst : list maddr; o_held : nat; o_pubs : list maddr }.

Definition step_ok (c : cfg) (k : scorecfg) (st : ostate) (o : op) (ob : obs) : option ostate :=
  let b := o_bk st in
  let upd (b' : book) := Some (mkO b' (o_lst st) (o_held st) (o_pubs st)) in
  match o, ob with
  | OAdd peer addrs _ _, BAdd n s' =>
      if add_ok c k (o_lst st) peer addrs (get_or_empty peer b) s' n then upd (put peer s' b) else None
  | ODialFailure a _ _, _ =>
      match last a (Other 0), ob with
      | P2p p, BIns s' =>
          if rescore_ok k (with_peer p a) fail_z fail_z (get_or_empty p b) s'
          then upd (put p s' b) else None
      | P2p _, _ => None
      | _, BIns0 None => Some st
      | _, _ => None
      end
  | OEstablished peer a listener _, _ =>
      match listener, ob with
      | true, BIns0 (Some s') =>
          (* the address of an inbound connection is not remembered *)
          if same_store (get_or_empty peer b) s' && store_ok k s' then upd (put peer s' b) else None
      | false, BIns s' =>
          if rescore_ok k (with_peer peer a) (win_z k)
               (fun z => Z.ltb 0 z && (Z.eqb z (sc_established k) ||
                                       Z.eqb z (new_score_of k (with_peer peer a) (sc_established k))))
               (get_or_empty peer b) s'
          then upd (put peer s' b) else None
      | _, _ => None
      end
  | OInsert peer a sc _, BIns s' =>
      let s := get_or_empty peer b in
      let a' := with_peer peer a in
      (* score 0 on a known address is a rediscovery: nothing may change *)
      if (if Z.eqb sc 0 && mem a' s then same_store s s' && store_ok k s'
          else rescore_ok k a' (Z.eqb sc) (fun z => Z.eqb z sc || Z.eqb z (new_score_of k a' sc)) s s')
      then upd (put peer s' b) else None
  | ODialAddrs peer limit obsin, BAddrs (Some l) =>
      if list_eqb maddr_eqb (map fst l) obsin && addresses_ok limit (get_or_empty peer b) l
      then Some st else None
  | OProbe a, BProbe sup rt ptcp pws pquic =>
      (* accepted by supported_transport => the transport it is routed to is enabled and its own
         parser accepts it, with the peer of the trailing /p2p and a specified host *)
      if sup then
        match last a (Other 0) with
        | P2p q =>
            match rt with
            | 0 => if enabled c TTcp && parsed_ok ptcp q then Some st else None
            | 1 => if enabled c TWs && parsed_ok pws q then Some st else None
            | 2 => if enabled c TQuic && parsed_ok pquic q then Some st else None
            | _ => None
            end
        | _ => None
        end
      else Some st
  | OListen a, BListen l =>
      (* every listen address is kept with and without /p2p/<local> *)
      let ls := o_lst st ++ [a] in
      if set_eqb l (dedup (listen_set c ls)) then Some (mkO b ls (o_held st) (o_pubs st)) else None
  | OHold _, BHold n =>
      (* the outbound limit is never exceeded *)
      if match max_out c with Some m => (n <=? m)%nat | None => true end
      then Some (mkO b (o_lst st) n (o_pubs st)) else None
  | ODial peer _ _ _ _ _, BDialCode code =>
      let s := get_or_empty peer b in
      match code with
      | 1 => (* refused for the limit only when there is no free outbound capacity *)
             match max_out c with
             | Some m => if (m <=? o_held st)%nat then Some st else None
             | None => None
             end
      | 2 => if peer =? local_peer c then Some st else None
      | 3 => match s with [] => Some st | _ => None end
      | 8 => if existsb (fun x => negb (enabled c (route c (fst x)) && names peer (fst x))) s
             then Some st else None
      | _ => None
      end
  | ODial peer outcome _ tcp ws qu, BDialTried t w q s' =>
      let s := get_or_empty peer b in
      match free_capacity c (mkState b (o_lst st) (o_held st) (o_pubs st)) (length s) with
      | None => None
      | Some limit =>
          (* ground truth of the episode: the address the ConnectionOpened event names, and every
             address reported failed - in an OpenFailure event of whatever transport, before or
             after the connection was opened, or in ConnectionOpened.errors *)
          let '(won, failed) :=
            match outcome with
            | O => (None, tcp ++ ws ++ qu)
            | S j0 =>
                let '(before, l, j, after) := dial_episode [] tcp ws qu j0 in
                (option_map fst (nth_error l j), map fst (before ++ firstn j l ++ after))
            end in
          if negb (peer =? local_peer c) &&
             list_eqb maddr_eqb (map fst t) tcp && list_eqb maddr_eqb (map fst w) ws &&
             list_eqb maddr_eqb (map fst q) qu &&
             (* every address is handed to the enabled transport it is routed to *)
             forallb (fun a => enabled c TTcp && match route c a with TTcp => true | _ => false end) tcp &&
             forallb (fun a => enabled c TWs && match route c a with TWs => true | _ => false end) ws &&
             forallb (fun a => enabled c TQuic && match route c a with TQuic => true | _ => false end) qu &&
             (* non-increasing score order, limited by the free outbound capacity *)
             addresses_ok limit s (merge_desc (merge_desc t w) q) &&
             nonincreasing (map snd t) && nonincreasing (map snd w) && nonincreasing (map snd q) &&
             store_ok k s' && outcome_ok k s s' won failed
          then upd (put peer s' b) else None
      end
  | ODialAddr a res _, BDialAddr code so =>
      match last a (Other 0), so with
      | P2p q, Some s' =>
          let s := get_or_empty q b in
          if code =? 0 then
            (* dialed: there was free outbound capacity; whatever is newly remembered names its
               peer, is dialable by an enabled transport and is not a listen address; the result of
               the dial re-scores exactly that address *)
            let okz := match res with Some _ => fail_z | None => win_z k end in
            let oknew := match res with
                         | Some _ => fail_z
                         | None => fun z => Z.ltb 0 z && (Z.eqb z (sc_established k) ||
                                                          Z.eqb z (new_score_of k a (sc_established k)))
                         end in
            if match free_capacity c (mkState b (o_lst st) (o_held st) (o_pubs st)) 0 with
               | Some _ => true | None => false end &&
               (mem a s || negb (mem a s') || dial_ok_weak c (o_lst st) q a) &&
               rescore_ok k a okz oknew s s'
            then upd (put q s' b) else None
          else if same_store s s' && store_ok k s' then upd (put q s' b) else None
      | P2p _, None => None
      | _, None => if code =? 0 then None else Some st
      | _, Some _ => None
      end
  | ODialAddrRefused a _, BDialAddr code so =>
      match last a (Other 0), so with
      | P2p q, Some s' =>
          let s := get_or_empty q b in
          if code =? 0 then
            (* the dial was not started: a stored address is untouched; what is newly remembered
               passed dial_address's check and is untested *)
            if match free_capacity c (mkState b (o_lst st) (o_held st) (o_pubs st)) 0 with
               | Some _ => true | None => false end &&
               (if mem a s then same_store s s' && store_ok k s'
                else (negb (mem a s') || dial_ok_weak c (o_lst st) q a) &&
                     rescore_ok k a (fun _ => false) (fun z => Z.eqb z (new_score_of k a 0)) s s')
            then upd (put q s' b) else None
          else if same_store s s' && store_ok k s' then upd (put q s' b) else None
      | P2p _, None => None
      | _, None => if code =? 0 then None else Some st
      | _, Some _ => None
      end
  | OPublicAdd a, BPub code l =>
      (* a public address is non-empty and ends in /p2p/<local>: the address itself when it
         already does, with the id appended when it ends in no peer id; nothing else changes *)
      let ps := o_pubs st in
      let a' := match last a (Other 0) with P2p _ => a | _ => a ++ [P2p (local_peer c)] end in
      let valid := match a with [] => false | _ => names (local_peer c) a' end in
      if (if valid then
            set_eqb l (if existsb (maddr_eqb a') ps then ps else ps ++ [a']) &&
            (code =? (if existsb (maddr_eqb a') ps then 1 else 0))
          else set_eqb l ps && ((code =? 2) || (code =? 3)))
      then Some (mkO b (o_lst st) (o_held st) l) else None
  | OPublicRemove a, BPubRemoved r l =>
      let ps := o_pubs st in
      if set_eqb l (remove_addr a ps) && Bool.eqb r (existsb (maddr_eqb a) ps)
      then Some (mkO b (o_lst st) (o_held st) l) else None
  | _, _ => None
  end.

Fixpoint steps_ok (c : cfg) (k : scorecfg) (st : ostate) (h : list op) : parser bool :=
  match h with
  | [] => pret true
  | o :: t =>
      let* ob := p_obs_for c o in
      match step_ok c k st o ob with
      | Some st' => steps_ok c k st' t
      | None => pret false
      end
  end.

(* prop_ok case trace: the trace (as printed by the implementation or by run_case) satisfies
   the property on this case. After a failed step the rest of the trace is not looked at. *)
Definition prop_std (case trace : list N) : bool :=
  match decode_case case, trace with
  | Some (c, h), 1 :: body =>
      match steps_ok c K (mkO [] [] 0 []) h body with
      | Some (ok, rest) => if ok then match rest with [] => true | _ => false end else false
      | None => false
      end
  | None, [0] => true
  | _, _ => false
  end.

(* Litep2p-level: when new() returns, the listen set is the configured one and every remembered
   address was offered for that peer in the configuration, names it, is dialable by an enabled
   transport and is not local with respect to the node's listen addresses; the bound holds.
   Later additions are judged like add_known_address operations. *)
Definition offered_for (p : N) (known : list op) : list maddr :=
  flat_map (fun o => match o with OAdd q l _ _ => if q =? p then l else [] | _ => [] end) known.

Definition config_store_ok (c : cfg) (k : scorecfg) (ls : list maddr) (known : list op) (p : N) (s : store) : bool :=
  store_ok k s &&
  forallb (fun x => existsb (fun a => maddr_eqb (with_peer p a) (fst x)) (offered_for p known) &&
                    dial_ok c p (fst x) && negb (is_local c ls (fst x))) s.

Fixpoint p_stores (ps : list N) : parser (list (N * store)) :=
  match ps with
  | [] => pret []
  | p :: t => let* s := p_store in let* r := p_stores t in pret ((p, s) :: r)
  end.

Definition prop_lp (case trace : list N) : bool :=
  match decode_lp case, trace with
  | Some (c, known, ls, ops), 2 :: body =>
      match (let* l := plistb 100000 p_maddr_t in let* b := p_stores PEERS in let* _ := pN in
             pret (l, b)) body with
      | Some ((l, b), rest) =>
          set_eqb l (dedup (listen_set c ls)) &&
          forallb (fun ps => config_store_ok c K ls known (fst ps) (snd ps)) b &&
          match steps_ok c K (mkO b ls 0 []) ops rest with
          | Some (ok, rest') => if ok then match rest' with [] => true | _ => false end else false
          | None => false
          end
      | None => false
      end
  | None, [0] => true
  | _, _ => false
  end.

Definition prop_ok (case trace : list N) : bool :=
  match case with
  | 2 :: rest => prop_lp rest trace
  | _ => prop_std case trace
  end.

(* No known-finding classes for C10: every failing case is a violation. *)
Definition known_class (case trace : list N) : N := 0.
