(* Link/C11_C12 — C12's side condition "a stream is set up again only after both Connection tasks of the
   previous one have finished" is NOT a guarantee of C11's model: the link attempt, and its witness.

   C12/Model.v builds the condition into `open_stream`: a new period (a new pair of carriers) starts only
   when `negb (e_alive cy) && (e_per cy =? per s)`, i.e. both Connections of the previous period have
   ended; otherwise SOpen is refused.  The documentation of C12 said this was "guaranteed by
   NotificationProtocol's peer state, C11".  Relating the state spaces:

     C12  one stream between TWO endpoints, per endpoint ONE Connection (e_alive / e_per);
     C11  ONE endpoint, per peer a peer state `ps s p` and a LIST of Connection tasks (`tasks s`, each
          with t_peer, t_closing, t_gated), `Open k` naming the newest task k of the peer.

   A simulation would map C12's endpoint x to a C11 state with  e_alive = "the peer has a task in
   `tasks`"  and C12's SOpen to C11's step that emits UOpened.  It does not exist: since the repair of
   F-C11 (former class 1: NotificationStreamClosed is now reported by the protocol at once, not by the
   Connection task after it has closed its substreams) the peer state leaves `Open k` as soon as the
   user or the connection closes the stream, and a NEW stream of the same peer can be negotiated and
   reported opened while task k is still closing its substreams.  C11's model says so explicitly
   (several tasks per peer, `C11_gate_is_newest_sink`, `Release p older`), and the theorem below is
   the reachable witness: after
       open by the user; the carrier of the old task is gated (slow close); CmdClose;
       the remote re-opens; the user accepts; the outbound half completes
   the user has seen  Opened, Closed, Validate, Opened  (correct alternation, C11_alternation), the peer
   state is `Open 1`, and task 0 of the same peer is still in `tasks`, closing (t_closing = Some false,
   its substream closes held back).  So C11 guarantees alternation of the USER-VISIBLE events and that
   the handle's gate holds the newest sink (C11_user_view_is_protocol_view), NOT that the old
   Connection has finished.

   What this means for C12: Model.v covers the histories in which the old Connections are done before
   the stream is set up again (its harness polls a closing task until it is done); the overlap is
   handled on the receiving side by the stream-identifier filter of the handle (C12's `e_dper`,
   C11_lazy_notification_in_its_period: a notification forwarded by an old task is never delivered in
   the new period) and on the sending side by the sink of the new period being a fresh pair of queues
   (C11_gate_is_newest_sink, C11_stale_sink_errors).  The side condition therefore stays an ASSUMPTION of
   C12's scheduler model — one that the code does not guarantee; it restricts the model, it is not
   discharged by C11.  The one-endpoint Start.v model of C12 has no such condition (its `tasks` are all
   Connections ever started). *)
From Coq Require Import List NArith Bool.
From V.C11 Require Import Model PAlt.
Import ListNotations.
Open Scope N_scope.

Definition w_reopen_while_closing : list op :=
  open_by_user ++ [Gate 0; CmdClose 0; SubIn 0; HsIn 0 true; Validate 0 true; HsIn 0 true; SubOut 0; HsOut 0 true].

Theorem restart_overlaps_old_task :
  let r := run cfg_w init w_reopen_while_closing in
  let s := last_state cfg_w w_reopen_while_closing in
  snd r = true /\
  events (fst r) = [UOpened 0 DOut; UClosed 0; UValidate 0; UOpened 0 DIn] /\
  ps s 0 = Some (Open 1) /\
  tasks s = [mkTask 0 0 (Some false) true; mkTask 1 0 None false].
Proof. vm_compute. repeat split; reflexivity. Qed.
