(* Link/Ts_C13 — request-response (coq/C13) running ON the TransportService model (coq/Ts, C08/C09).

   C13_exactly_one_contract assumes a ledger of what the environment owes the protocol (`discharged`):
   (d) every accepted dial is answered (ConnectionEstablished / DialFailure)         — g_dials = []
   (o) every accepted open_substream is answered (SubstreamOpened / SubstreamOpenFailure /
       the peer's ConnectionClosed)                                                 — g_opens = []
   (l) every carrier handed to a request future sees a terminal event or the request timeout passes.
   The ledger is computed by C13.gstep from the stimuli, the resolved targets and the CALLS of the
   protocol only — never from the protocol's private state.  That is what makes a link at the level of
   inputs and outputs possible: here the two models are composed (`jmove`, `jnext`, `jok`):

     * the service (Ts.step) handles an environment input (connection established / closed, the
       connection task's answers, dial failure, other protocols, clock); the ONE protocol-visible
       event it emits, if any, is handed to the protocol as the C13 stimulus of the same kind
       (OEst p -> EEstablished p, OClosed p -> EClosed p, ODial p -> EDialFail p,
        OSub _ (Some id) -> EOpened resolving to substream id, OFail id -> EOpenFail resolving to id,
        OSub p None -> EInOpen p); the protocol NEVER sees a service-kind stimulus otherwise;
     * the protocol (C13.step, unchanged) handles that stimulus, or a stimulus the service is not
       involved in (user commands, carrier events, the clock, ...);
     * every open_substream call the handler makes (the OOpen sid p outputs of C13.step) is executed
       on the service (EOpen p / EOpenFull p steps): the accepted ones (ORet 0 id) are exactly the
       protocol's OOpen calls, with the same ids.

   PROVED for every such joint history (LinkInv):
     (o')  every entry (sid, p) of C13's ledger g_opens is an open IN FLIGHT at the service
           ((sid, (p, c)) in s_pend) — or it was LOST: its connection c was closed
           (EClosed q c at the service) while the open was in flight and the protocol was not told
           ConnectionClosed p in that step (p keeps another connection);
     (c')  C13's ledger of connected peers g_conn is exactly the set of peers with a connection
           context at the service.
   Hence (o) follows from the SERVICE's own ledger: no open in flight at the end (the connection-task
   contract, the hypothesis of C08_open_answered / C08_answer_event_resolves) and nothing lost.
   C13_exactly_one_on_service_model: exactly one terminal event per request for request-response on
   the service model, with the assumptions left: connection tasks answer or close (s_pend = []), no
   silent loss (`lost_run`), the manager answers dials (d), the request timeout passes (l).

   WHAT THE LINK FOUND (shapes that do NOT match): C08_open_answered's alternative "or its connection
   was reported closed" speaks about the close of the CONNECTION (EClosed p c reaching the service);
   C13's ledger needs the protocol-visible ConnectionClosed(p), which the service emits only for the
   peer's LAST connection.  With two connections per peer (C06's cap) the two differ:
   silent_close_loses_open is the witness (primary closes with an open in flight while a secondary
   exists: the service forgets the open, tells the protocol nothing, and C13's ledger keeps the open
   owed for ever).  Under one connection per peer at a time nothing is lost
   (lost_run_nil_single_connection).

   The hypothesis "nothing in flight at the end" is in turn derived from the connection-task contract
   stated on the service's history (`task_contract`: every OpenSubstream command a task received is
   later answered or its connection is reported closed): contract_empties_pend,
   exactly_one_on_service_model_contract.

   Not linked here: (d) is the manager's side (C05_sys2_no_silence and its two finding classes; the
   service only forwards DialFailure), (l) is the passing of time. Ids: C13's scripted environment
   draws a substream id for every attempted open (also a failing one) as EOpenFull does; a failing
   open that draws no id at the service (ORet 2, dead connection) makes the two counters diverge and
   such histories are not `jtrace` histories (C13's model burns the id; see its level note). *)
From Coq Require Import List NArith Bool Lia.
From V.C13 Require Import Model Proofs Flush.
From V.Ts Require Model Proofs Answers Extra.
Import ListNotations.
Open Scope N_scope.

Module T := V.Ts.Model.
Module TP := V.Ts.Proofs.
Module TA := V.Ts.Answers.
Module TE := V.Ts.Extra.

Arguments N.eqb : simpl never.
Arguments N.ltb : simpl never.
Arguments N.add : simpl never.

(* ------------------------------------------------------------------ the composition *)

Definition pev_of (o : T.out) : bool :=
  match o with T.OEst _ | T.OClosed _ | T.OSub _ _ | T.OFail _ _ | T.ODial _ => true | _ => false end.
Definition pevs (os : list T.out) : list T.out := filter pev_of os.

Definition svc_kind (e : ev) : bool :=
  match e with
  | EEstablished _ _ _ | EClosed _ | EDialFail _ | EOpened _ _ _ | EOpenFail _ _ | EInOpen _ _ _ => true
  | _ => false
  end.

Definition ev_matches (x : T.out) (e : ev) (tg : option N) : Prop :=
  match x, e with
  | T.OEst p, EEstablished p' _ _ => p' = p
  | T.OClosed p, EClosed p' => p' = p
  | T.ODial p, EDialFail p' => p' = p
  | T.OSub _ (Some id), EOpened _ _ _ => tg = Some id
  | T.OFail id _, EOpenFail _ _ => tg = Some id
  | T.OSub p None, EInOpen p' _ _ => p' = p
  | _, _ => False
  end.

Definition deliver_ok (xs : list T.out) (oe : option ev) (tg : option N) : Prop :=
  match xs, oe with
  | [], None => True
  | [], Some e => svc_kind e = false
  | [x], Some e => ev_matches x e tg
  | _, _ => False
  end.

Definition env_input (i : T.ev) : bool :=
  match i with T.EOpen _ | T.EOpenFull _ | T.EForce _ _ _ => false | _ => true end.
Definition call_input (i : T.ev) : bool :=
  match i with T.EOpen _ | T.EOpenFull _ => true | _ => false end.

(* the opens a call step accepted: (returned id, peer) *)
Definition acc_of (i : T.ev) (os : list T.out) : list (N * N) :=
  match i with
  | T.EOpen p => flat_map (fun o => match o with T.ORet 0 id => [(id, p)] | _ => [] end) os
  | _ => []
  end.

Fixpoint run_calls (s : T.st) (cs : list (N * T.ev)) : T.st * list (N * N) :=
  match cs with
  | [] => (s, [])
  | (dt, i) :: t => let r := run_calls (fst (T.step s dt i)) t in
                    (fst r, acc_of i (snd (T.step s dt i)) ++ snd r)
  end.

(* opens the service forgets without the protocol being told: in flight on a connection that is
   closed, for a peer that is not reported closed in that step *)
Definition told_closed (os : list T.out) (q : N) : bool :=
  existsb (fun o => match o with T.OClosed q' => q' =? q | _ => false end) os.
Definition lost_of (s : T.st) (i : T.ev) (os : list T.out) : list (N * N) :=
  match i with
  | T.EClosed _ c =>
      map (fun e => (fst e, fst (snd e)))
          (filter (fun e => (snd (snd e) =? c) && negb (told_closed os (fst (snd e)))) (T.s_pend s))
  | _ => []
  end.
Fixpoint lost_run (s : T.st) (tr : list (N * T.ev)) : list (N * N) :=
  match tr with
  | [] => []
  | (dt, i) :: t => lost_of s i (snd (T.step s dt i)) ++ lost_run (fst (T.step s dt i)) t
  end.

Record jmove := mkJ {
  j_svc : option (N * T.ev);     (* the service handles an environment input *)
  j_ev : option ev;              (* the stimulus the protocol handles *)
  j_calls : list (N * T.ev)      (* the open_substream calls of that handler, executed on the service *)
}.
Record jst := mkJS { j_p : pst * env; j_g : ghost; j_s : T.st; j_lost : list (N * N) }.

Definition svc_part (J : jst) (m : jmove) : T.st * list T.out :=
  match j_svc m with None => (j_s J, []) | Some (dt, i) => T.step (j_s J) dt i end.
Definition svc_in (m : jmove) : T.ev := match j_svc m with Some (_, i) => i | None => T.ENone end.
Definition proto_part (cf : cfg) (J : jst) (m : jmove) : (pst * env) * list out * option N :=
  match j_ev m with None => (j_p J, [], None) | Some e => step cf (j_p J) e end.
Definition ghost_part (cf : cfg) (J : jst) (m : jmove) : ghost :=
  match j_ev m with
  | None => j_g J
  | Some e => gstep cf e (snd (fst (proto_part cf J m))) (snd (proto_part cf J m)) (j_g J)
  end.

Definition jnext (cf : cfg) (J : jst) (m : jmove) : jst :=
  mkJS (fst (fst (proto_part cf J m))) (ghost_part cf J m)
       (fst (run_calls (fst (svc_part J m)) (j_calls m)))
       (j_lost J ++ lost_of (j_s J) (svc_in m) (snd (svc_part J m))).

Definition jok (cf : cfg) (J : jst) (m : jmove) : Prop :=
  env_input (svc_in m) = true /\
  deliver_ok (pevs (snd (svc_part J m))) (j_ev m) (snd (proto_part cf J m)) /\
  Forall (fun c => call_input (snd c) = true) (j_calls m) /\
  snd (run_calls (fst (svc_part J m)) (j_calls m)) = o_opens (snd (fst (proto_part cf J m))).

Fixpoint jtrace (cf : cfg) (J : jst) (ms : list jmove) : Prop :=
  match ms with [] => True | m :: t => jok cf J m /\ jtrace cf (jnext cf J m) t end.
Fixpoint jrun (cf : cfg) (J : jst) (ms : list jmove) : jst :=
  match ms with [] => J | m :: t => jrun cf (jnext cf J m) t end.

(* the two projections: the protocol's stimuli, the service's history *)
Definition evs_of (ms : list jmove) : list ev :=
  flat_map (fun m => match j_ev m with Some e => [e] | None => [] end) ms.
Definition tr_of (ms : list jmove) : list (N * T.ev) :=
  flat_map (fun m => match j_svc m with Some x => [x] | None => [] end ++ j_calls m) ms.

Definition j0 (ka : bool) (T0 n0 : N) : jst := mkJS (init_pst, init_env) g0 (T.init ka T0 n0) [].

(* ------------------------------------------------------------------ projections *)

Lemma run_calls_final cs : forall s, fst (run_calls s cs) = T.final s cs.
Proof. induction cs as [|[dt i] t IH]; intros s; cbn [run_calls T.final fst]; [reflexivity|apply IH]. Qed.

Lemma proj_proto cf ms : forall J,
  (j_p (jrun cf J ms), j_g (jrun cf J ms)) = grun_from cf (j_p J) (j_g J) (evs_of ms).
Proof.
  induction ms as [|m t IH]; intros J; cbn [jrun evs_of flat_map grun_from]; [reflexivity|].
  fold (evs_of t). rewrite IH. unfold jnext, ghost_part, proto_part. cbn [j_p j_g].
  destruct (j_ev m) as [e|]; cbn [app grun_from fst snd]; [|reflexivity].
  destruct (step cf (j_p J) e) as [[p1 o] tg]. reflexivity.
Qed.

Lemma proj_service cf ms : forall J, j_s (jrun cf J ms) = T.final (j_s J) (tr_of ms).
Proof.
  induction ms as [|m t IH]; intros J; cbn [jrun tr_of flat_map]; [reflexivity|].
  fold (tr_of t). rewrite IH, TA.final_app. unfold jnext, svc_part. cbn [j_s].
  rewrite run_calls_final. destruct (j_svc m) as [[dt i]|]; cbn [app T.final fst]; reflexivity.
Qed.

Lemma lost_run_app a : forall s b, lost_run s (a ++ b) = lost_run s a ++ lost_run (T.final s a) b.
Proof.
  induction a as [|[dt i] t IH]; intros s b; cbn [app lost_run T.final]; [reflexivity|].
  rewrite IH, app_assoc. reflexivity.
Qed.

Lemma lost_run_calls cs : forall s, Forall (fun c => call_input (snd c) = true) cs -> lost_run s cs = [].
Proof.
  induction cs as [|[dt i] t IH]; intros s H; cbn [lost_run]; [reflexivity|].
  inversion H as [|? ? H1 H2]; subst. cbn [snd] in H1. rewrite IH by exact H2.
  destruct i; cbn [call_input] in H1; try discriminate; reflexivity.
Qed.

Lemma proj_lost cf ms : forall J, jtrace cf J ms ->
  j_lost (jrun cf J ms) = j_lost J ++ lost_run (j_s J) (tr_of ms).
Proof.
  induction ms as [|m t IH]; intros J H; cbn [jrun tr_of flat_map jtrace] in *; [now rewrite app_nil_r|].
  fold (tr_of t). destruct H as [(_ & _ & HC & _) H2]. rewrite (IH _ H2).
  rewrite lost_run_app. unfold jnext at 1 2. cbn [j_lost j_s]. rewrite <- app_assoc. f_equal.
  unfold svc_part, svc_in. rewrite run_calls_final.
  destruct (j_svc m) as [[dt i]|]; cbn [app lost_run T.final fst snd].
  - rewrite (lost_run_calls _ _ HC), app_nil_r. reflexivity.
  - rewrite (lost_run_calls _ _ HC). reflexivity.
Qed.

(* ------------------------------------------------------------------ the service, one step *)

Lemma step_outs s dt i o :
  In o (snd (T.step s dt i)) <->
  In o (snd (T.handle_ev (T.with_now s (T.s_now s + dt)) i)) \/
  In o (snd (T.poll_timers (match T.ka_activity_of (T.with_now s (T.s_now s + dt)) i with
                            | Some k => T.with_act (fst (T.handle_ev (T.with_now s (T.s_now s + dt)) i))
                                          (T.kset k (T.s_now (fst (T.handle_ev (T.with_now s (T.s_now s + dt)) i)))
                                             (T.s_act (fst (T.handle_ev (T.with_now s (T.s_now s + dt)) i))))
                            | None => fst (T.handle_ev (T.with_now s (T.s_now s + dt)) i) end))).
Proof.
  unfold T.step. destruct (T.handle_ev (T.with_now s (T.s_now s + dt)) i) as [s1 o1]. cbn [fst snd].
  destruct (T.poll_timers _) as [s2 o2]. cbn [snd]. apply in_app_iff.
Qed.

Lemma step_outs_cases s dt i o :
  In o (snd (T.step s dt i)) ->
  In o (snd (T.handle_ev (T.with_now s (T.s_now s + dt)) i)) \/ exists p c, o = T.ODown p c.
Proof.
  intros H. apply step_outs in H. destruct H as [H|H]; [now left|right]. eapply TP.poll_outs_down; eauto.
Qed.

Lemma handle_outs_step s dt i o :
  In o (snd (T.handle_ev (T.with_now s (T.s_now s + dt)) i)) -> In o (snd (T.step s dt i)).
Proof. intros H. apply step_outs. now left. Qed.

Lemma step_pend s dt i :
  T.s_pend (fst (T.step s dt i)) = T.s_pend (fst (T.handle_ev (T.with_now s (T.s_now s + dt)) i)).
Proof. exact (proj1 (TA.step_pend_ans s dt i)). Qed.

Lemma sub_opened_pend s p c m : T.s_pend (T.sub_opened s p c m) = T.s_pend s.
Proof.
  unfold T.sub_opened.
  destruct (m && T.s_ka s); TP.st_simpl; destruct (T.s_ka s); TP.st_simpl;
    repeat match goal with |- context [match ?x with _ => _ end] => destruct x end; TP.st_simpl;
    rewrite ?TP.activity_pend; reflexivity.
Qed.

(* an environment input: an open in flight stays in flight, or the protocol is handed its answer,
   or its peer is reported closed, or it is lost *)
Lemma env_step_pend s dt i id p c :
  env_input i = true -> In (id, (p, c)) (T.s_pend s) ->
  In (id, (p, c)) (T.s_pend (fst (T.step s dt i))) \/
  (exists q, In (T.OSub q (Some id)) (snd (T.step s dt i))) \/
  (exists gp, In (T.OFail id gp) (snd (T.step s dt i))) \/
  In (T.OClosed p) (snd (T.step s dt i)) \/
  In (id, p) (lost_of s i (snd (T.step s dt i))).
Proof.
  intros HE HI. rewrite step_pend. set (s0 := T.with_now s (T.s_now s + dt)).
  assert (P0 : T.s_pend s0 = T.s_pend s) by reflexivity.
  assert (HI0 : In (id, (p, c)) (T.s_pend s0)) by (rewrite P0; exact HI).
  destruct i; cbn [env_input] in HE; try discriminate; cbn [T.handle_ev].
  - left. exact HI0.
  - left. unfold T.on_established.
    repeat match goal with |- context [match ?x with _ => _ end] => destruct x end; cbn [fst]; TP.st_simpl;
      rewrite ?TP.activity_pend; TP.st_simpl; rewrite ?TP.add_chan_pend; exact HI0.
  - (* EClosed p0 c0 *)
    destruct (c =? c0) eqn:EC.
    + right. right. right. destruct (told_closed (snd (T.step s dt (T.EClosed p0 c0))) p) eqn:TC.
      * left. unfold told_closed in TC. apply existsb_exists in TC. destruct TC as (o & Ho & Eo).
        destruct o; try discriminate. apply N.eqb_eq in Eo. subst. exact Ho.
      * right. cbn [lost_of]. apply in_map_iff. exists (id, (p, c)). split; [reflexivity|].
        apply filter_In. split; [exact HI|]. cbn [fst snd]. rewrite EC, TC. reflexivity.
    + left. unfold T.on_closed. TP.st_simpl.
      assert (G : In (id, (p, c)) (filter (fun e : N * T.key => negb (snd (snd e) =? c0)) (T.s_pend s0))).
      { apply filter_In. split; [exact HI0|]. cbn [snd]. now rewrite EC. }
      repeat match goal with |- context [match ?x with _ => _ end] => destruct x end; cbn [fst]; TP.st_simpl; exact G.
  - left. destruct (0 <? T.strong s0 c0); cbn [fst]; [|exact HI0]. rewrite sub_opened_pend. exact HI0.
  - (* ESubOut id0 m *)
    destruct (T.pfind id0 (T.s_pend s0)) as [[p0 c0]|] eqn:F; cbn [fst snd]; [|left; exact HI0].
    destruct (id0 =? id) eqn:E.
    + apply N.eqb_eq in E. subst id0. right. left. exists p0.
      apply (handle_outs_step s dt (T.ESubOut id m)). cbn [T.handle_ev]. fold s0. rewrite F. now left.
    + left. rewrite sub_opened_pend. TP.st_simpl. unfold T.pdel. apply filter_In. split; [exact HI0|].
      cbn [fst]. rewrite N.eqb_sym, E. reflexivity.
  - (* ESubFail id0 *)
    destruct (id0 =? id) eqn:E.
    + apply N.eqb_eq in E. subst id0. right. right. left. eexists.
      apply (handle_outs_step s dt (T.ESubFail id)). cbn [T.handle_ev]. now left.
    + left. cbn [fst]. TP.st_simpl. unfold T.pdel. apply filter_In. split; [exact HI0|]. cbn [fst]. rewrite N.eqb_sym, E. reflexivity.
  - left. exact HI0.
  - left. repeat match goal with |- context [match ?x with _ => _ end] => destruct x end; cbn [fst]; TP.st_simpl; exact HI0.
  - left. repeat match goal with |- context [match ?x with _ => _ end] => destruct x end; cbn [fst]; TP.st_simpl; exact HI0.
  - left. repeat match goal with |- context [match ?x with _ => _ end] => destruct x end; cbn [fst]; TP.st_simpl; exact HI0.
  - left. cbn [fst]. TP.st_simpl. exact HI0.
  - left. repeat match goal with |- context [match ?x with _ => _ end] => destruct x end; cbn [fst]; TP.st_simpl; exact HI0.
Qed.

(* a call: nothing in flight is forgotten, and an accepted open is in flight afterwards *)
Lemma call_step_pend s dt i :
  call_input i = true ->
  (forall x, In x (T.s_pend s) -> In x (T.s_pend (fst (T.step s dt i)))) /\
  (forall id p, In (id, p) (acc_of i (snd (T.step s dt i))) ->
                exists c, In (id, (p, c)) (T.s_pend (fst (T.step s dt i)))).
Proof.
  intros HC. rewrite step_pend. set (s0 := T.with_now s (T.s_now s + dt)).
  destruct i; cbn [call_input] in HC; try discriminate; cbn [T.handle_ev acc_of].
  - (* EOpen p *)
    assert (AC : forall id q, In (id, q) (flat_map (fun o => match o with T.ORet 0 id => [(id, p)] | _ => [] end)
                                            (snd (T.step s dt (T.EOpen p)))) ->
                 q = p /\ In (T.ORet 0 id) (snd (T.on_open s0 p))).
    { intros id q H. apply in_flat_map in H. destruct H as (o & Ho & Hin).
      destruct o as [| | | | |r id'| | | | | |]; try (now destruct Hin). destruct r as [|r']; cbn in Hin; [|now destruct Hin].
      destruct Hin as [Hin|[]]. injection Hin as <- <-. split; [reflexivity|].
      destruct (step_outs_cases _ _ _ _ Ho) as [H|(a & b & H)]; [exact H|discriminate]. }
    unfold T.on_open in *. destruct (T.find_ctx p (T.s_ctxs s0)) as [cx|] eqn:F.
    + destruct (T.h_act (T.c_prim cx) || (0 <? T.strong s0 (T.h_id (T.c_prim cx)))) eqn:G; cbn [fst snd] in *.
      * split.
        -- intros x Hx. TP.st_simpl. destruct (T.s_ka s0); TP.st_simpl; rewrite ?TP.activity_pend; TP.st_simpl;
             apply in_or_app; now left.
        -- intros id q H. destruct (AC id q H) as [-> [H1|[H1|[]]]]; [|discriminate].
           injection H1 as <-. exists (T.h_id (T.c_prim cx)). TP.st_simpl.
           destruct (T.s_ka s0); TP.st_simpl; rewrite ?TP.activity_pend; TP.st_simpl;
             apply in_or_app; right; now left.
      * split; [intros x Hx; exact Hx|]. intros id q H. destruct (AC id q H) as [_ [H1|[]]]. discriminate.
    + cbn [fst snd] in *. split; [intros x Hx; exact Hx|]. intros id q H.
      destruct (AC id q H) as [_ [H1|[]]]. discriminate.
  - (* EOpenFull p *)
    split; [|intros id q []]. intros x Hx. unfold T.on_open_full.
    repeat match goal with |- context [match ?x with _ => _ end] => destruct x end; cbn [fst]; TP.st_simpl;
      rewrite ?TP.activity_pend; TP.st_simpl; exact Hx.
Qed.

Lemma run_calls_pend cs : forall s,
  Forall (fun c => call_input (snd c) = true) cs ->
  (forall x, In x (T.s_pend s) -> In x (T.s_pend (fst (run_calls s cs)))) /\
  (forall id p, In (id, p) (snd (run_calls s cs)) -> exists c, In (id, (p, c)) (T.s_pend (fst (run_calls s cs)))).
Proof.
  induction cs as [|[dt i] t IH]; intros s H; cbn [run_calls fst snd].
  - split; [auto|intros id p []].
  - inversion H as [|? ? H1 H2]; subst. cbn [snd] in H1.
    destruct (call_step_pend s dt i H1) as [K1 K2]. destruct (IH (fst (T.step s dt i)) H2) as [L1 L2].
    split; [intros x Hx; apply L1, K1, Hx|].
    intros id p Hin. apply in_app_or in Hin. destruct Hin as [Hin|Hin]; [|now apply L2].
    destruct (K2 id p Hin) as [c Hc]. exists c. now apply L1.
Qed.

(* connection contexts: a call step emits no connection event *)
Lemma call_step_hc s dt i q :
  call_input i = true -> TE.hc (T.s_ctxs (fst (T.step s dt i))) q = TE.hc (T.s_ctxs s) q.
Proof.
  intros HC. pose proof (TE.step_alt s dt i q) as A.
  rewrite (TE.conn_evs_nil q (snd (T.step s dt i))) in A; [cbn [TE.alt_run] in A; now injection A|].
  intros o Ho. destruct (step_outs_cases _ _ _ _ Ho) as [H|(a & b & ->)]; [|split; intros; discriminate].
  destruct i; cbn [call_input] in HC; try discriminate; cbn [T.handle_ev] in H;
    unfold T.on_open, T.on_open_full in H;
    repeat match type of H with context [match ?x with _ => _ end] => destruct x end; cbn [snd] in H;
    repeat (destruct H as [<-|H]; [split; intros; discriminate|]); destruct H.
Qed.

Lemma run_calls_hc cs q : forall s,
  Forall (fun c => call_input (snd c) = true) cs ->
  TE.hc (T.s_ctxs (fst (run_calls s cs))) q = TE.hc (T.s_ctxs s) q.
Proof.
  induction cs as [|[dt i] t IH]; intros s H; cbn [run_calls fst]; [reflexivity|].
  inversion H as [|? ? H1 H2]; subst. cbn [snd] in H1. rewrite IH by exact H2. now apply call_step_hc.
Qed.

Lemma conn_evs_pevs q os : TP.conn_evs q (pevs os) = TP.conn_evs q os.
Proof.
  unfold TP.conn_evs, pevs. induction os as [|o t IH]; [reflexivity|]. cbn [filter flat_map].
  destruct o; cbn [pev_of flat_map]; rewrite ?IH; reflexivity.
Qed.

Lemma pevs_single os x y : pevs os = [x] -> In y os -> pev_of y = true -> y = x.
Proof.
  intros E Hy Py. assert (H : In y (pevs os)) by (apply filter_In; split; assumption).
  rewrite E in H. destruct H as [H|[]]. now symmetry.
Qed.

(* ------------------------------------------------------------------ the coupling invariant *)

Definition LinkInv (J : jst) : Prop :=
  (forall sid p, In (sid, p) (g_opens (j_g J)) ->
     (exists c, In (sid, (p, c)) (T.s_pend (j_s J))) \/ In (sid, p) (j_lost J)) /\
  (forall q, In q (g_conn (j_g J)) <-> TE.hc (T.s_ctxs (j_s J)) q = true).

Lemma memN_In x l : memN x l = true <-> In x l.
Proof.
  unfold memN. rewrite existsb_exists. split.
  - intros (y & Hy & E). apply N.eqb_eq in E. now subst.
  - intros H. exists x. split; [exact H|apply N.eqb_refl].
Qed.

Lemma link_inv_init ka T0 n0 : LinkInv (j0 ka T0 n0).
Proof. split; cbn; [intros sid p []|]. intros q. split; [intros []|discriminate]. Qed.

Lemma in_filter_neq_sid (sid x : N) (p : N) (l : list (N * N)) :
  In (sid, p) (filter (fun y => negb (fst y =? x)) l) -> sid <> x /\ In (sid, p) l.
Proof. intros H. apply filter_In in H. destruct H as [H1 H2]. cbn [fst] in H2. split; [intros ->; rewrite N.eqb_refl in H2; discriminate|exact H1]. Qed.

Lemma link_inv_step cf J m : LinkInv J -> jok cf J m -> LinkInv (jnext cf J m).
Proof.
  intros [I1 I2] (HE & HD & HC & HA).
  set (so := svc_part J m) in *. set (pr := proto_part cf J m) in *.
  destruct (run_calls_pend (j_calls m) (fst so) HC) as [RC1 RC2].
  (* what one service step does to an open in flight *)
  assert (SV : forall id p c, In (id, (p, c)) (T.s_pend (j_s J)) ->
            In (id, (p, c)) (T.s_pend (fst so)) \/
            (exists q, In (T.OSub q (Some id)) (snd so)) \/ (exists gp, In (T.OFail id gp) (snd so)) \/
            In (T.OClosed p) (snd so) \/ In (id, p) (lost_of (j_s J) (svc_in m) (snd so))).
  { intros id p c Hin. subst so. unfold svc_part, svc_in in *.
    destruct (j_svc m) as [[dt i]|]; [|left; exact Hin]. now apply env_step_pend. }
  (* the connection contexts after the service step *)
  assert (HCX : forall q, TE.alt_run (TE.hc (T.s_ctxs (j_s J)) q) (TP.conn_evs q (pevs (snd so))) =
                          Some (TE.hc (T.s_ctxs (fst so)) q)).
  { intros q. rewrite conn_evs_pevs. subst so. unfold svc_part.
    destruct (j_svc m) as [[dt i]|]; [apply TE.step_alt|reflexivity]. }
  split.
  - (* opens *)
    intros sid p Hin. unfold jnext in *. cbn [j_g j_s j_lost] in *.
    assert (OLD : In (sid, p) (g_opens (j_g J)) ->
                  (forall q, ~ In (T.OSub q (Some sid)) (snd so)) -> (forall gp, ~ In (T.OFail sid gp) (snd so)) ->
                  ~ In (T.OClosed p) (snd so) ->
                  (exists c, In (sid, (p, c)) (T.s_pend (fst (run_calls (fst so) (j_calls m))))) \/
                  In (sid, p) (j_lost J ++ lost_of (j_s J) (svc_in m) (snd so))).
    { intros Hg N1 N2 N3. destruct (I1 sid p Hg) as [[c Hc]|Hl]; [|right; apply in_or_app; now left].
      destruct (SV sid p c Hc) as [H|[[q H]|[[gp H]|[H|H]]]].
      - left. exists c. now apply RC1.
      - exfalso. eapply N1; eauto.
      - exfalso. eapply N2; eauto.
      - contradiction.
      - right. apply in_or_app. now right. }
    unfold ghost_part in Hin. fold pr in Hin.
    destruct (j_ev m) as [e|] eqn:EV.
    + destruct pr as [[p1 o] tg] eqn:EP. cbn [fst snd] in *.
      unfold gstep in Hin. cbn [g_opens] in Hin. apply in_app_or in Hin. destruct Hin as [Hin|Hin].
      2:{ left. apply RC2. rewrite HA. exact Hin. }
      unfold deliver_ok in HD. destruct (pevs (snd so)) as [|x [|x2 xs]] eqn:PV; [| |destruct HD].
      * (* nothing delivered: a local stimulus *)
        assert (NP : forall y, In y (snd so) -> pev_of y = true -> False).
        { intros y Hy Py. assert (K : In y (pevs (snd so))) by (apply filter_In; split; assumption).
          rewrite PV in K. destruct K. }
        assert (Hg : In (sid, p) (g_opens (j_g J))).
        { destruct e; cbn [svc_kind] in HD; try discriminate; exact Hin. }
        apply OLD; [exact Hg| | |]; intros; intro K; exact (NP _ K eq_refl).
      * (* the service's event x is delivered as e *)
        assert (SG : forall y, In y (snd so) -> pev_of y = true -> y = x) by (intros y Hy Py; eapply pevs_single; eauto).
        destruct x as [q|q|q [id|]|id gp|q| | | | | | |], e as [ep ed el et ef|er|ep eb ec|ep|ep|ek eg en|ek eu|ek|ek|ek el et|ek|ek|edt|ep eg en|ek el et|ek el et ef|ek|ep| | |ep ev'|eb| ];
          cbn [ev_matches] in HD; try contradiction; try subst ep.
        -- (* OEst / EEstablished *)
           apply OLD; [exact Hin| | |]; intros; intro K; discriminate (SG _ K eq_refl).
        -- (* OClosed q / EClosed q *)
           assert (Hq : In q (g_conn (j_g J))).
           { apply I2. specialize (HCX q). unfold TP.conn_evs in HCX. cbn [flat_map app] in HCX.
             rewrite N.eqb_refl in HCX. cbn [TE.alt_run] in HCX.
             destruct (TE.hc (T.s_ctxs (j_s J)) q); [reflexivity|discriminate]. }
           apply memN_In in Hq. rewrite Hq in Hin. apply filter_In in Hin. destruct Hin as [Hin Hne].
           cbn [snd] in Hne. apply OLD; [exact Hin| | |]; intros; intro K; pose proof (SG _ K eq_refl) as E;
             try discriminate. injection E as ->. rewrite N.eqb_refl in Hne. discriminate.
        -- (* OSub (Some id) / EOpened *)
           subst tg. apply in_filter_neq_sid in Hin. destruct Hin as [Hne Hin].
           apply OLD; [exact Hin| | |]; intros; intro K; pose proof (SG _ K eq_refl) as E; try discriminate.
           injection E as _ ->. now apply Hne.
        -- (* OSub None / EInOpen *)
           apply OLD; [exact Hin| | |]; intros; intro K; discriminate (SG _ K eq_refl).
        -- (* OFail id / EOpenFail *)
           subst tg. apply in_filter_neq_sid in Hin. destruct Hin as [Hne Hin].
           apply OLD; [exact Hin| | |]; intros; intro K; pose proof (SG _ K eq_refl) as E; try discriminate.
           injection E as -> _. now apply Hne.
        -- (* ODial / EDialFail *)
           apply OLD; [exact Hin| | |]; intros; intro K; discriminate (SG _ K eq_refl).
    + unfold deliver_ok in HD. destruct (pevs (snd so)) as [|x xs] eqn:PV; [|destruct xs; destruct HD].
      assert (NP : forall y, In y (snd so) -> pev_of y = true -> False).
      { intros y Hy Py. assert (K : In y (pevs (snd so))) by (apply filter_In; split; assumption).
        rewrite PV in K. destruct K. }
      apply OLD; [exact Hin| | |]; intros; intro K; exact (NP _ K eq_refl).
  - (* connections *)
    intros q. unfold jnext. cbn [j_g j_s]. fold so. rewrite (run_calls_hc (j_calls m) q (fst so) HC).
    specialize (HCX q). unfold ghost_part. fold pr.
    unfold deliver_ok in HD. destruct (j_ev m) as [e|] eqn:EV.
    + destruct pr as [[p1 o] tg] eqn:EP. cbn [fst snd] in *.
      destruct (pevs (snd so)) as [|x [|x2 xs]] eqn:PV; [| |destruct HD].
      * cbn [TP.conn_evs flat_map TE.alt_run] in HCX. injection HCX as <-.
        rewrite <- I2. destruct e; cbn [svc_kind] in HD; try discriminate; reflexivity.
      * destruct x as [r|r|r [id|]|id gp|r| | | | | | |], e as [ep ed el et ef|er|ep eb ec|ep|ep|ek eg en|ek eu|ek|ek|ek el et|ek|ek|edt|ep eg en|ek el et|ek el et ef|ek|ep| | |ep ev'|eb| ];
          cbn [ev_matches] in HD; try contradiction; try subst ep;
          unfold TP.conn_evs in HCX; cbn [flat_map app] in HCX;
          try (cbn [TE.alt_run] in HCX; injection HCX as <-; rewrite <- I2; reflexivity).
        -- (* OEst r / EEstablished r *)
           unfold gstep. cbn [g_conn]. destruct (r =? q) eqn:E.
           ++ apply N.eqb_eq in E. subst r. cbn [TE.alt_run] in HCX.
              destruct (TE.hc (T.s_ctxs (j_s J)) q) eqn:H0; cbn [negb Bool.eqb] in HCX; [discriminate|].
              injection HCX as <-. split; [reflexivity|intros _].
              destruct (memN q (g_conn (j_g J))) eqn:M; [|apply in_or_app; right; now left].
              exfalso. apply memN_In in M. apply I2 in M. congruence.
           ++ cbn [TE.alt_run] in HCX. injection HCX as <-. rewrite <- I2.
              destruct (memN r (g_conn (j_g J))); [reflexivity|]. rewrite in_app_iff. cbn [In].
              split; [intros [H|[H|[]]]; [exact H|]; subst; rewrite N.eqb_refl in E; discriminate|now left].
        -- (* OClosed r / EClosed r *)
           unfold gstep. cbn [g_conn]. rewrite filter_In. destruct (r =? q) eqn:E.
           ++ apply N.eqb_eq in E. subst r. cbn [TE.alt_run] in HCX.
              destruct (TE.hc (T.s_ctxs (j_s J)) q) eqn:H0; cbn [negb Bool.eqb] in HCX; [|discriminate].
              injection HCX as <-. rewrite N.eqb_refl. cbn [negb]. split; [intros [_ K]; discriminate|discriminate].
           ++ cbn [TE.alt_run] in HCX. injection HCX as <-. rewrite <- I2.
              assert (q =? r = false) as -> by (rewrite N.eqb_sym; exact E). cbn [negb]. tauto.
    + destruct (pevs (snd so)) as [|x xs] eqn:PV; [|destruct xs; destruct HD].
      cbn [TP.conn_evs flat_map TE.alt_run] in HCX. injection HCX as <-. apply I2.
Qed.

Lemma link_inv_run cf ms : forall J, LinkInv J -> jtrace cf J ms -> LinkInv (jrun cf J ms).
Proof.
  induction ms as [|m t IH]; intros J I H; cbn [jrun jtrace] in *; [exact I|].
  destruct H as [H1 H2]. apply IH; [now apply link_inv_step|exact H2].
Qed.

(* ------------------------------------------------------------------ the theorems *)

(* C13's ledger entries are opens in flight at the service, or lost; its connected peers are the
   service's connection contexts — for every joint history *)
Theorem ledger_is_service_ledger cf ka T0 n0 ms :
  jtrace cf (j0 ka T0 n0) ms ->
  let J := jrun cf (j0 ka T0 n0) ms in
  let g := grun cf g0 (run_steps cf (init_pst, init_env) (evs_of ms)) in
  let s := T.final (T.init ka T0 n0) (tr_of ms) in
  (forall sid p, In (sid, p) (g_opens g) ->
     (exists c, In (sid, (p, c)) (T.s_pend s)) \/ In (sid, p) (lost_run (T.init ka T0 n0) (tr_of ms))) /\
  (forall q, In q (g_conn g) <-> TE.hc (T.s_ctxs s) q = true).
Proof.
  intros H. cbn zeta.
  pose proof (link_inv_run cf ms _ (link_inv_init ka T0 n0) H) as [I1 I2].
  pose proof (proj_proto cf ms (j0 ka T0 n0)) as PP. cbn [j0 j_p j_g] in PP.
  assert (EG : j_g (jrun cf (j0 ka T0 n0) ms) = grun cf g0 (run_steps cf (init_pst, init_env) (evs_of ms))).
  { rewrite <- grun_from_ghost. rewrite <- PP. reflexivity. }
  pose proof (proj_service cf ms (j0 ka T0 n0)) as PS. cbn [j0 j_s] in PS.
  pose proof (proj_lost cf ms (j0 ka T0 n0) H) as PL. cbn [j0 j_lost j_s app] in PL.
  rewrite <- EG, <- PS, <- PL. split; assumption.
Qed.

(* part (o) of C13's contract premise, from the service's own books *)
Theorem opens_discharged_on_service cf ka T0 n0 ms :
  jtrace cf (j0 ka T0 n0) ms ->
  T.s_pend (T.final (T.init ka T0 n0) (tr_of ms)) = [] ->
  lost_run (T.init ka T0 n0) (tr_of ms) = [] ->
  g_opens (grun cf g0 (run_steps cf (init_pst, init_env) (evs_of ms))) = [].
Proof.
  intros H HP HL. destruct (ledger_is_service_ledger cf ka T0 n0 ms H) as [I1 _]. cbn zeta in I1.
  destruct (g_opens _) as [|[sid p] t]; [reflexivity|exfalso].
  destruct (I1 sid p (or_introl eq_refl)) as [[c Hc]|Hl].
  - rewrite HP in Hc. destruct Hc.
  - rewrite HL in Hl. destruct Hl.
Qed.

(* exactly one terminal event per request, for request-response running on the service model *)
Theorem exactly_one_on_service_model cf ka T0 n0 ms r :
  0 < tmo cf ->
  jtrace cf (j0 ka T0 n0) ms ->
  (* the connection tasks answered every OpenSubstream command or were closed: nothing in flight *)
  T.s_pend (T.final (T.init ka T0 n0) (tr_of ms)) = [] ->
  (* no open was forgotten by a close the protocol was not told about *)
  lost_run (T.init ka T0 n0) (tr_of ms) = [] ->
  let g := grun cf g0 (run_steps cf (init_pst, init_env) (evs_of ms)) in
  (* the manager answered every accepted dial *)
  g_dials g = [] ->
  (* every carrier handed to a request future saw a terminal event or the request timeout passed *)
  (forall x, In x (g_live g) -> snd x <= g_now g) ->
  let res := run cf (init_pst, init_env) (evs_of ms) in
  In (OSent r) (snd res) ->
  terms r (snd res) = 1%nat \/ In r (cancel_reqs (evs_of ms)).
Proof.
  intros HT H HP HL g HD HV. apply (exactly_one_contract cf (evs_of ms) r HT).
  split; [exact HD|]. split; [|exact HV]. exact (opens_discharged_on_service cf ka T0 n0 ms H HP HL).
Qed.

(* ------------------------------------------------------------------ the gap, and where it is closed *)

(* C08's guarantee is weaker than C13's premise when a peer has two connections: the primary is
   closed with an open in flight while a secondary exists — a history inside C08's contract
   (`feasible 2`). The service forgets the open (nothing in flight afterwards), emits neither an
   answer nor ConnectionClosed, and the open is `lost`. *)
Theorem silent_close_loses_open :
  let tr := [(0, T.EEst 7 1); (0, T.EEst 7 2); (0, T.EOpen 7); (0, T.EClosed 7 1)] in
  T.feasible 2 T.env0 (T.init true 1000 0) tr = true /\
  concat (T.run (T.init true 1000 0) tr) = [T.OEst 7; T.ORet 0 0; T.OCmd 1 0] /\
  T.s_pend (T.final (T.init true 1000 0) tr) = [] /\
  lost_run (T.init true 1000 0) tr = [(0, 7)].
Proof. vm_compute. repeat split; reflexivity. Qed.

(* ... and the same history as a joint history: the protocol's ledger keeps the open owed *)
Definition cf_ex : cfg := mkCfg None 10 100 50 false.

(* non-vacuity: connection, a request answered (open, SubstreamOpened, response), a second request
   whose open fails, the connection closes: a joint history, everything owed is discharged on both
   sides, two requests, one terminal event each *)
Definition ms_ok : list jmove :=
  [ mkJ (Some (0, T.EEst 5 1)) (Some (EEstablished 5 false 0)) [];
    mkJ None (Some (ESend 5 false 3 9 None)) [(0, T.EOpen 5)];
    mkJ (Some (0, T.ESubOut 0 true)) (Some (EOpened 0 1 0)) [];
    mkJ None (Some (ERespond 0 4 8)) [];
    mkJ None (Some (ESend 5 false 2 7 None)) [(0, T.EOpen 5)];
    mkJ (Some (0, T.ESubFail 1)) (Some (EOpenFail 0 0)) [];
    mkJ (Some (0, T.EClosed 5 1)) (Some (EClosed 5)) [] ].

Theorem joint_history_nonvacuous :
  jtrace cf_ex (j0 true 1000 0) ms_ok /\
  T.s_pend (T.final (T.init true 1000 0) (tr_of ms_ok)) = [] /\
  lost_run (T.init true 1000 0) (tr_of ms_ok) = [] /\
  grun cf_ex g0 (run_steps cf_ex (init_pst, init_env) (evs_of ms_ok)) = mkG 0 [] [] [] [] /\
  snd (run cf_ex (init_pst, init_env) (evs_of ms_ok)) =
    [OSent 0; OOpen 0 5; OBind 0 0; OWire 0 3 9; OResp 0 4 8; OSent 1; OOpen 1 5; OFail 1 4].
Proof. vm_compute. repeat split; try reflexivity; repeat constructor. Qed.

(* the witness of the gap as a joint history: the peer has two connections, the request's open is in
   flight on the primary, the primary closes. The service has nothing in flight any more, the protocol
   was told nothing, its ledger keeps the open owed: the premise `lost_run = []` is what fails. *)
Definition ms_lost : list jmove :=
  [ mkJ (Some (0, T.EEst 7 1)) (Some (EEstablished 7 false 0)) [];
    mkJ (Some (0, T.EEst 7 2)) None [];
    mkJ None (Some (ESend 7 false 3 9 None)) [(0, T.EOpen 7)];
    mkJ (Some (0, T.EClosed 7 1)) None [] ].

Theorem joint_history_silent_loss :
  jtrace cf_ex (j0 true 1000 0) ms_lost /\
  T.feasible 2 T.env0 (T.init true 1000 0) (tr_of ms_lost) = true /\
  T.s_pend (T.final (T.init true 1000 0) (tr_of ms_lost)) = [] /\
  lost_run (T.init true 1000 0) (tr_of ms_lost) = [(0, 7)] /\
  g_opens (grun cf_ex g0 (run_steps cf_ex (init_pst, init_env) (evs_of ms_lost))) = [(0, 7)] /\
  terms 0 (snd (run cf_ex (init_pst, init_env) (evs_of ms_lost))) = 0%nat.
Proof. vm_compute. repeat split; try reflexivity; repeat constructor. Qed.

(* ------------------------------------------------------------------ one connection per peer: nothing is lost *)

Definition single_conn (e : T.env) : Prop := forall p, (length (T.live_of p (T.e_live e)) <= 1)%nat.

Lemma ev_ok_1_2 e s i : T.ev_ok 1 e s i = true -> T.ev_ok 2 e s i = true.
Proof.
  destruct i; cbn [T.ev_ok]; try (intros H; exact H).
  rewrite !andb_true_iff. intros [H1 H2]. split; [exact H1|].
  apply PeanoNat.Nat.ltb_lt in H2. apply PeanoNat.Nat.ltb_lt. lia.
Qed.

Lemma filter_length_le {A} (f : A -> bool) l : (length (filter f l) <= length l)%nat.
Proof. induction l as [|x t IH]; cbn [filter length]; [lia|]. destruct (f x); cbn [length]; lia. Qed.

Lemma single_conn_step e s i : single_conn e -> T.ev_ok 1 e s i = true -> single_conn (T.env_step e i).
Proof.
  intros SC OK. destruct i; cbn [T.env_step]; try exact SC.
  - intros q. cbn [T.e_live]. rewrite TP.live_of_app. rewrite app_length.
    cbn [T.ev_ok] in OK. apply andb_true_iff in OK. destruct OK as [_ OK]. apply PeanoNat.Nat.ltb_lt in OK.
    destruct (p =? q) eqn:E; cbn [length].
    + apply N.eqb_eq in E. subst q. lia.
    + specialize (SC q). lia.
  - intros q. cbn [T.e_live]. rewrite TP.live_of_filter. destruct (p =? q); [|apply SC].
    pose proof (filter_length_le (fun x => negb (x =? c)) (T.live_of q (T.e_live e))). specialize (SC q). lia.
Qed.

Lemma filter_all_false {A} (f : A -> bool) l : (forall x, In x l -> f x = false) -> filter f l = [].
Proof.
  induction l as [|x t IH]; intros H; cbn [filter]; [reflexivity|].
  rewrite (H x (or_introl eq_refl)). apply IH. intros y Hy. apply H. now right.
Qed.

Lemma lost_of_nil_single e s dt i :
  TP.conn_inv e (T.s_ctxs s) (T.s_pend s) -> single_conn e -> T.ev_ok 1 e s i = true ->
  lost_of s i (snd (T.step s dt i)) = [].
Proof.
  intros (CI1 & CI2 & CI3 & CI4) SC OK. destruct i; try reflexivity. cbn [lost_of].
  cbn [T.ev_ok] in OK. apply existsb_exists in OK. destruct OK as (k & Hk & Ek). apply TP.key_eqb_eq in Ek. subst k.
  (* p's only connection is c *)
  assert (LV : T.live_of p (T.e_live e) = [c]).
  { assert (Hin : In c (T.live_of p (T.e_live e))).
    { unfold T.live_of. apply in_map_iff. exists (p, c). split; [reflexivity|]. apply filter_In. split; [exact Hk|].
      cbn [fst]. apply N.eqb_refl. }
    specialize (SC p). destruct (T.live_of p (T.e_live e)) as [|a [|b t]]; cbn [length] in SC; [destruct Hin| |lia].
    destruct Hin as [->|[]]. reflexivity. }
  (* so the service reports ConnectionClosed p *)
  assert (TC : told_closed (snd (T.step s dt (T.EClosed p c))) p = true).
  { unfold told_closed. apply existsb_exists. exists (T.OClosed p). split; [|apply N.eqb_refl].
    apply handle_outs_step. cbn [T.handle_ev]. unfold T.on_closed. TP.st_simpl.
    specialize (CI1 p). rewrite LV in CI1. unfold T.conn_ids in CI1.
    set (s1 := match T.find_ch c (T.s_chans s) with Some x => _ | None => _ end).
    assert (C1 : T.s_ctxs s1 = T.s_ctxs s) by (subst s1; destruct (T.find_ch c (T.s_chans s)); reflexivity).
    rewrite C1. destruct (T.find_ctx p (T.s_ctxs s)) as [cx|]; [|discriminate].
    unfold T.ids_of in CI1. destruct (T.c_sec cx) as [h|]; [discriminate|]. injection CI1 as ->.
    rewrite N.eqb_refl. cbn [snd]. now left. }
  (* and every open in flight on c is p's *)
  assert (F : forall x, In x (T.s_pend s) ->
              (snd (snd x) =? c) && negb (told_closed (snd (T.step s dt (T.EClosed p c))) (fst (snd x))) = false).
  { intros [id [q c']] Hx. cbn [fst snd]. destruct (c' =? c) eqn:E; [|reflexivity]. apply N.eqb_eq in E. subst c'.
    pose proof (CI4 id (q, c) Hx) as Hq.
    assert (q = p).
    { clear -CI2 Hq Hk. induction (T.e_live e) as [|[a b] t IH]; [destruct Hk|].
      cbn [map snd] in CI2. inversion CI2 as [|? ? N1 N2]; subst.
      destruct Hq as [Hq|Hq], Hk as [Hk|Hk].
      - congruence.
      - injection Hq as -> ->. exfalso. apply N1. apply in_map_iff. exists (p, c). split; [reflexivity|exact Hk].
      - injection Hk as -> ->. exfalso. apply N1. apply in_map_iff. exists (q, c). split; [reflexivity|exact Hq].
      - now apply IH. }
    subst q. rewrite TC. reflexivity. }
  erewrite filter_all_false; [reflexivity|]. intros x Hx. exact (F x Hx).
Qed.

Theorem lost_run_nil_single_connection tr : forall e s,
  TP.conn_inv e (T.s_ctxs s) (T.s_pend s) -> single_conn e -> T.feasible 1 e s tr = true ->
  lost_run s tr = [].
Proof.
  induction tr as [|[dt i] t IH]; intros e s CI SC F; cbn [lost_run T.feasible] in *; [reflexivity|].
  apply andb_true_iff in F. destruct F as [F1 F2].
  rewrite (lost_of_nil_single e s dt i CI SC F1). cbn [app].
  apply (IH (T.env_step e i)); [|now apply (single_conn_step e s)|exact F2].
  exact (proj1 (TP.step_conn e s dt i CI (ev_ok_1_2 e s i F1))).
Qed.

Corollary lost_run_nil_init tr ka T0 n0 :
  T.feasible 1 T.env0 (T.init ka T0 n0) tr = true -> lost_run (T.init ka T0 n0) tr = [].
Proof.
  intros F. apply (lost_run_nil_single_connection tr T.env0 (T.init ka T0 n0)); [exact TP.conn_inv_init| |exact F].
  intros p. cbn. lia.
Qed.

(* exactly one on the service model, with "one connection per peer at a time" in place of the
   no-loss hypothesis *)
Theorem exactly_one_on_service_model_single cf ka T0 n0 ms r :
  0 < tmo cf ->
  jtrace cf (j0 ka T0 n0) ms ->
  T.feasible 1 T.env0 (T.init ka T0 n0) (tr_of ms) = true ->
  T.s_pend (T.final (T.init ka T0 n0) (tr_of ms)) = [] ->
  let g := grun cf g0 (run_steps cf (init_pst, init_env) (evs_of ms)) in
  g_dials g = [] ->
  (forall x, In x (g_live g) -> snd x <= g_now g) ->
  let res := run cf (init_pst, init_env) (evs_of ms) in
  In (OSent r) (snd res) ->
  terms r (snd res) = 1%nat \/ In r (cancel_reqs (evs_of ms)).
Proof.
  intros HT H HF HP. apply (exactly_one_on_service_model cf ka T0 n0 ms r HT H HP).
  exact (lost_run_nil_init _ ka T0 n0 HF).
Qed.

(* ------------------------------------------------------------------ the connection-task contract, on the trace *)

(* "nothing in flight at the end" follows from a statement about the connection tasks' behaviour:
   every OpenSubstream command a task received is LATER answered (ESubOut / ESubFail with its id) or
   the task's connection is closed (EClosed _ c). *)
Definition resolves (id c : N) (a : T.ev) : bool :=
  match a with
  | T.ESubOut i _ => i =? id
  | T.ESubFail i => i =? id
  | T.EClosed _ c' => c' =? c
  | _ => false
  end.

Definition task_contract (s0 : T.st) (tr : list (N * T.ev)) : Prop :=
  forall tr1 dt i tr2 c id,
    tr = tr1 ++ (dt, i) :: tr2 ->
    In (T.OCmd c id) (snd (T.step (T.final s0 tr1) dt i)) ->
    exists dt' a, In (dt', a) tr2 /\ resolves id c a = true.

Lemma pfind_unique id l k k' : NoDup (map fst l) -> T.pfind id l = Some k -> In (id, k') l -> k' = k.
Proof.
  induction l as [|[i k0] t IH]; cbn [T.pfind map fst]; intros ND PF Hin; [discriminate|].
  inversion ND as [|? ? N1 N2]; subst. destruct (i =? id) eqn:E.
  - apply N.eqb_eq in E. subst i. injection PF as ->. destruct Hin as [H|H]; [now injection H|].
    exfalso. apply N1. apply in_map_iff. exists (id, k'). split; [reflexivity|exact H].
  - destruct Hin as [H|H]; [injection H as -> _; rewrite N.eqb_refl in E; discriminate|]. now apply IH.
Qed.

Lemma pfind_in id l k : T.pfind id l = Some k -> In (id, k) l.
Proof.
  induction l as [|[i k0] t IH]; cbn [T.pfind]; [discriminate|]. destruct (i =? id) eqn:E.
  - intros H. injection H as ->. apply N.eqb_eq in E. subst. now left.
  - intros H. right. now apply IH.
Qed.

(* one step: the open stays in flight with the same key, or its id is gone from the books *)
Lemma step_stays_or_gone s dt e id k :
  TA.pend_inv s -> TP.nowrap1 s e -> T.pfind id (T.s_pend s) = Some k ->
  T.pfind id (T.s_pend (fst (T.step s dt e))) = Some k \/ ~ In id (TA.pend_ids (fst (T.step s dt e))).
Proof.
  intros P NW PF. destruct (TA.step_inflight s dt e id k PF) as [H|[H|[p ->]]]; [now left| |].
  - right. destruct (TA.step_ans s dt e P NW) as (_ & _ & A & _). exact (proj2 (A id H)).
  - right. unfold TA.pend_ids. rewrite step_pend. cbn [T.handle_ev]. unfold T.on_closed. TP.st_simpl.
    assert (G : ~ In id (map fst (filter (fun e : N * T.key => negb (snd (snd e) =? snd k)) (T.s_pend s)))).
    { intros C. apply in_map_iff in C. destruct C as ([i k'] & E & Hin). cbn [fst] in E. subst i.
      apply filter_In in Hin. destruct Hin as [Hin Hc]. cbn [snd] in Hc.
      rewrite (pfind_unique id _ k k' (proj1 P) PF Hin) in Hc. rewrite N.eqb_refl in Hc. discriminate. }
    repeat match goal with |- context [match ?x with _ => _ end] => destruct x end; cbn [fst]; TP.st_simpl; exact G.
Qed.

Lemma step_resolved_gone s dt e id k :
  TA.pend_inv s -> TP.nowrap1 s e -> T.pfind id (T.s_pend s) = Some k -> resolves id (snd k) e = true ->
  ~ In id (TA.pend_ids (fst (T.step s dt e))).
Proof.
  intros P NW PF R. destruct e; cbn [resolves] in R; try discriminate.
  - (* EClosed p c *) apply N.eqb_eq in R. subst c.
    unfold TA.pend_ids. rewrite step_pend. cbn [T.handle_ev]. unfold T.on_closed. TP.st_simpl.
    assert (G : ~ In id (map fst (filter (fun e : N * T.key => negb (snd (snd e) =? snd k)) (T.s_pend s)))).
    { intros C. apply in_map_iff in C. destruct C as ([i k'] & E & Hin). cbn [fst] in E. subst i.
      apply filter_In in Hin. destruct Hin as [Hin Hc]. cbn [snd] in Hc.
      rewrite (pfind_unique id _ k k' (proj1 P) PF Hin) in Hc. rewrite N.eqb_refl in Hc. discriminate. }
    repeat match goal with |- context [match ?x with _ => _ end] => destruct x end; cbn [fst]; TP.st_simpl; exact G.
  - apply N.eqb_eq in R. subst id0. apply TA.answer_step_clears. left. eauto.
  - apply N.eqb_eq in R. subst id0. apply TA.answer_step_clears. now right.
Qed.

Lemma resolved_later_gone tr : forall s id k,
  TA.pend_inv s -> TP.nowrap s tr -> T.pfind id (T.s_pend s) = Some k ->
  (exists dt a, In (dt, a) tr /\ resolves id (snd k) a = true) ->
  ~ In id (TA.pend_ids (T.final s tr)).
Proof.
  induction tr as [|[dt e] t IH]; intros s id k P NW PF (dt' & a & Hin & R); [destruct Hin|].
  cbn [TP.nowrap] in NW. destruct NW as [NW1 NW2]. cbn [T.final].
  destruct (TA.step_ans s dt e P NW1) as (P' & NX & _).
  assert (L : id < T.s_next s).
  { destruct P as [_ Q]. rewrite Forall_forall in Q. apply Q. eapply TA.pfind_ids; eauto. }
  assert (GONE : ~ In id (TA.pend_ids (fst (T.step s dt e))) -> ~ In id (TA.pend_ids (T.final (fst (T.step s dt e)) t))).
  { intros G. apply (TA.notin_pend_stays t _ id P' NW2); [lia|exact G]. }
  destruct Hin as [E|Hin].
  - injection E as <- <-. apply GONE. eapply step_resolved_gone; eauto.
  - destruct (step_stays_or_gone s dt e id k P NW1 PF) as [H|H]; [|now apply GONE].
    eapply IH; eauto.
Qed.

(* where an open in flight comes from: it was there, or this step issued its command *)
Lemma step_pend_origin s dt i id p c :
  In (id, (p, c)) (T.s_pend (fst (T.step s dt i))) ->
  In (id, (p, c)) (T.s_pend s) \/ In (T.OCmd c id) (snd (T.step s dt i)).
Proof.
  rewrite step_pend. set (s0 := T.with_now s (T.s_now s + dt)).
  assert (P0 : T.s_pend s0 = T.s_pend s) by reflexivity.
  destruct i; cbn [T.handle_ev];
    try solve [ unfold T.on_established, T.on_open_full;
                repeat match goal with |- context [match ?x with _ => _ end] => destruct x end; cbn [fst]; TP.st_simpl;
                rewrite ?TP.activity_pend; TP.st_simpl; rewrite ?TP.add_chan_pend; intros H; left; exact H ].
  - unfold T.on_closed. TP.st_simpl.
    repeat match goal with |- context [match ?x with _ => _ end] => destruct x end; cbn [fst]; TP.st_simpl;
      intros H; apply filter_In in H; left; exact (proj1 H).
  - destruct (0 <? T.strong s0 c0); cbn [fst]; [rewrite sub_opened_pend|]; intros H; left; rewrite <- P0; exact H.
  - destruct (T.pfind id0 (T.s_pend s0)) as [[p0 c0]|]; cbn [fst]; [|intros H; left; rewrite <- P0; exact H].
    rewrite sub_opened_pend. TP.st_simpl. intros H. unfold T.pdel in H. apply filter_In in H. left. exact (proj1 H).
  - cbn [fst]. TP.st_simpl. intros H. unfold T.pdel in H. apply filter_In in H. left. exact (proj1 H).
  - (* EOpen *)
    unfold T.on_open. destruct (T.find_ctx p0 (T.s_ctxs s0)) as [cx|] eqn:F; cbn [fst];
      [|intros H; left; rewrite <- P0; exact H].
    destruct (T.h_act (T.c_prim cx) || (0 <? T.strong s0 (T.h_id (T.c_prim cx)))) eqn:G; cbn [fst];
      [|intros H; left; rewrite <- P0; exact H].
    intros H.
    assert (H' : In (id, (p, c)) (T.s_pend s0 ++ [(T.s_next s0, (p0, T.h_id (T.c_prim cx)))])).
    { revert H. TP.st_simpl. destruct (T.s_ka s0); TP.st_simpl; rewrite ?TP.activity_pend; TP.st_simpl; auto. }
    apply in_app_or in H'. destruct H' as [H'|[H'|[]]]; [left; rewrite <- P0; exact H'|].
    injection H' as <- <- <-. right. apply (handle_outs_step s dt (T.EOpen p0)). cbn [T.handle_ev]. fold s0.
    unfold T.on_open. rewrite F, G. cbn [snd]. right. now left.
Qed.

Lemma pend_origin tr : forall s id p c,
  In (id, (p, c)) (T.s_pend (T.final s tr)) ->
  In (id, (p, c)) (T.s_pend s) \/
  exists tr1 dt i tr2, tr = tr1 ++ (dt, i) :: tr2 /\ In (T.OCmd c id) (snd (T.step (T.final s tr1) dt i)).
Proof.
  induction tr as [|[dt i] t IH]; intros s id p c H; cbn [T.final] in H; [now left|].
  destruct (IH _ _ _ _ H) as [H1|(tr1 & dt' & i' & tr2 & E & Ho)].
  - destruct (step_pend_origin s dt i id p c H1) as [K|K]; [now left|].
    right. exists [], dt, i, t. split; [reflexivity|exact K].
  - right. exists ((dt, i) :: tr1), dt', i', tr2. split; [cbn [app]; now rewrite E|exact Ho].
Qed.

(* the connection-task contract empties the service's books *)
Theorem contract_empties_pend s0 tr :
  TA.pend_inv s0 -> T.s_pend s0 = [] -> TP.nowrap s0 tr -> task_contract s0 tr ->
  T.s_pend (T.final s0 tr) = [].
Proof.
  intros P E0 NW TC. destruct (T.s_pend (T.final s0 tr)) as [|[id [p c]] rest] eqn:EF; [reflexivity|exfalso].
  assert (Hin : In (id, (p, c)) (T.s_pend (T.final s0 tr))) by (rewrite EF; now left).
  destruct (pend_origin tr s0 id p c Hin) as [H|(tr1 & dt & i & tr2 & E & Ho)]; [rewrite E0 in H; destruct H|].
  destruct (TC tr1 dt i tr2 c id E Ho) as (dt' & a & Ha & R).
  subst tr. apply TA.nowrap_app in NW. destruct NW as [NW1 NW2]. cbn [TP.nowrap] in NW2. destruct NW2 as [NW2 NW3].
  pose proof (TA.pend_inv_final tr1 s0 P NW1) as P1.
  destruct (TA.step_accept _ dt i c id P1 Ho) as [p' PF].
  destruct (TA.step_ans _ dt i P1 NW2) as (P2 & _).
  assert (G : ~ In id (TA.pend_ids (T.final (fst (T.step (T.final s0 tr1) dt i)) tr2))).
  { apply (resolved_later_gone tr2 _ id (p', c) P2 NW3 PF). exists dt', a. split; [exact Ha|exact R]. }
  apply G. rewrite TA.final_app in Hin. cbn [T.final] in Hin.
  unfold TA.pend_ids. apply in_map_iff. exists (id, (p, c)). split; [reflexivity|exact Hin].
Qed.

(* exactly one on the service model, with the connection-task contract as a statement about the
   tasks' behaviour instead of the service's final state *)
Theorem exactly_one_on_service_model_contract cf ka T0 n0 ms r :
  0 < tmo cf ->
  jtrace cf (j0 ka T0 n0) ms ->
  TP.nowrap (T.init ka T0 n0) (tr_of ms) ->
  task_contract (T.init ka T0 n0) (tr_of ms) ->
  lost_run (T.init ka T0 n0) (tr_of ms) = [] ->
  let g := grun cf g0 (run_steps cf (init_pst, init_env) (evs_of ms)) in
  g_dials g = [] ->
  (forall x, In x (g_live g) -> snd x <= g_now g) ->
  let res := run cf (init_pst, init_env) (evs_of ms) in
  In (OSent r) (snd res) ->
  terms r (snd res) = 1%nat \/ In r (cancel_reqs (evs_of ms)).
Proof.
  intros HT H NW TC. apply (exactly_one_on_service_model cf ka T0 n0 ms r HT H).
  apply contract_empties_pend; [apply TA.pend_inv_init|reflexivity|exact NW|exact TC].
Qed.

(* the contract is decidable on a concrete history *)
Fixpoint contract_b (s : T.st) (tr : list (N * T.ev)) : bool :=
  match tr with
  | [] => true
  | (dt, i) :: t =>
      forallb (fun o => match o with
                        | T.OCmd c id => existsb (fun x : N * T.ev => resolves id c (snd x)) t
                        | _ => true
                        end) (snd (T.step s dt i))
      && contract_b (fst (T.step s dt i)) t
  end.

Lemma contract_b_sound tr : forall s, contract_b s tr = true -> task_contract s tr.
Proof.
  induction tr as [|[dt0 i0] t IH]; intros s H tr1 dt i tr2 c id E Ho.
  - destruct tr1; discriminate E.
  - cbn [contract_b] in H. apply andb_true_iff in H. destruct H as [H1 H2].
    destruct tr1 as [|x tr1]; cbn [app] in E.
    + injection E as -> -> ->. cbn [T.final] in Ho. rewrite forallb_forall in H1. specialize (H1 _ Ho). cbn in H1.
      apply existsb_exists in H1. destruct H1 as ([dt' a] & Hin & R). exists dt', a. split; [exact Hin|exact R].
    + injection E as Ex Et. subst x t. cbn [T.final] in Ho. exact (IH _ H2 tr1 dt i tr2 c id eq_refl Ho).
Qed.

(* the contract holds in the non-vacuity example *)
Lemma ms_ok_contract : task_contract (T.init true 1000 0) (tr_of ms_ok) /\ TP.nowrap (T.init true 1000 0) (tr_of ms_ok).
Proof.
  split; [apply contract_b_sound; vm_compute; reflexivity|]. vm_compute. repeat split; reflexivity.
Qed.
