(* Link/C06_C08 — C08's (and C09's) theorems restated WITHOUT the `feasible 2` hypothesis, for a
   TransportService that runs under the manager model.

   coq/C06/Compose08.v proves `provides_feasible`: a TransportService history whose connection events
   (EEst / EClosed) are the reports of a history of the composed system manager + protocol reports
   (`xtrace`), and whose other events satisfy their own, cap-independent part of the environment
   assumption (`feasible_rest`: substream notifications refer to an open connection, answers refer to an
   open in flight — the connection task's side), is `feasible 2`.  C06 states one corollary of it
   (alternation).  Here every theorem of C08 / C09 that carries `feasible 2` gets its corollary, and
   the same split is proved for the several-services composition coq/Ts/Multi.v (`mfeasible 2`).

   What is left as a hypothesis in the corollaries: `xtrace` (the manager's own environment `env_ok`,
   and the order constraints between protocol reports and manager events) and `feasible_rest` (connection task). The number-of-connections part is gone. *)
From Coq Require Import List Arith NArith Bool Lia.
From V.Mgr Require Import DialShape Model Caps.
From V.Ts Require Model Proofs Extra Exact Rearm Timing Multi MultiProofs.
From V.C06 Require Import Compose08.
Import ListNotations.
Open Scope N_scope.

Module T := V.Ts.Model.
Module TP := V.Ts.Proofs.
Module TM := V.Ts.Multi.

Section UnderManager.
  Variable L : limits.
  Variable xs : list xev.
  Variable tr : list (N * T.ev).
  Variables (ka : bool) (T0 n0 : N).
  Hypothesis HX : xtrace L x0 xs.
  Hypothesis HP : filter is_conn (map snd tr) = xproj xs.
  Hypothesis HR : feasible_rest T.env0 (T.init ka T0 n0) tr = true.

  Lemma feasible_under_manager : T.feasible 2 T.env0 (T.init ka T0 n0) tr = true.
  Proof. exact (provides_feasible L xs tr ka T0 n0 HX HP HR). Qed.

  Lemma stream_wellformed_under_manager q :
    exists b, TP.wf_run false (TP.pevs q (concat (T.run (T.init ka T0 n0) tr))) = Some b.
  Proof. exact (TP.stream_wf tr T.env0 (T.init ka T0 n0) q TP.conn_inv_init feasible_under_manager). Qed.

  Lemma alternation_under_manager q :
    TP.alternates false (TP.conn_evs q (concat (T.run (T.init ka T0 n0) tr))).
  Proof. exact (TP.alternation tr T.env0 (T.init ka T0 n0) q TP.conn_inv_init feasible_under_manager). Qed.

  Lemma no_panic_under_manager : ~ In T.OPanic (concat (T.run (T.init ka T0 n0) tr)).
  Proof. exact (V.Ts.Extra.no_panic tr T.env0 (T.init ka T0 n0) TP.conn_inv_init feasible_under_manager). Qed.
End UnderManager.

(* ------------------------------------------------------------------ several services (Multi.v) *)

Definition m_conn (i : TM.mev) : bool :=
  match i with TM.MAll a => is_conn a | _ => false end.
Definition m_conn_evs (tr : list (N * TM.mev)) : list T.ev :=
  flat_map (fun x => match snd x with TM.MAll a => if is_conn a then [a] else [] | _ => [] end) tr.

(* the part of `mfeasible` that does not depend on the cap: everything except the connection events *)
Fixpoint mfeasible_rest (e : T.env) (m : TM.mst) (tr : list (N * TM.mev)) : bool :=
  match tr with
  | [] => true
  | (dt, i) :: t => (m_conn i || TM.mev_ok 0 e m i) &&
                    mfeasible_rest (TM.menv_step e i) (fst (TM.mstep m dt i)) t
  end.

Lemma mev_ok_rest cap cap' e m i : m_conn i = false -> TM.mev_ok cap e m i = TM.mev_ok cap' e m i.
Proof.
  destruct i as [a|j a|c]; cbn [m_conn TM.mev_ok]; try reflexivity.
  - destruct a; cbn [is_conn]; try discriminate; reflexivity.
  - intros _. destruct (TM.single_ok a); [|reflexivity]. cbn [andb].
    destruct (nth_error (TM.m_svcs m) (N.to_nat j)) as [s|]; [|reflexivity].
    destruct (fst (TM.eff m j s a)) eqn:E; try reflexivity;
      destruct a; cbn [TM.single_ok] in *; try discriminate; cbn [TM.eff] in E;
      repeat match type of E with
             | context [match ?x with _ => _ end] => destruct x; cbn [fst] in E
             | context [if ?x then _ else _] => destruct x; cbn [fst] in E
             end; discriminate.
Qed.

Lemma menv_step_rest e i : m_conn i = false -> TM.menv_step e i = e.
Proof.
  destruct i as [a|j a|c]; cbn [m_conn TM.menv_step]; try reflexivity.
  destruct a; cbn [is_conn TM.all_ev T.env_step]; try discriminate; reflexivity.
Qed.

Theorem mfeasible_split cap tr : forall e m,
  TM.mfeasible cap e m tr = mfeasible_rest e m tr && conn_feasible cap e (m_conn_evs tr).
Proof.
  induction tr as [|[dt i] t IH]; intros e m; cbn [TM.mfeasible mfeasible_rest m_conn_evs flat_map snd];
    [reflexivity|].
  fold (m_conn_evs t). rewrite IH. destruct (m_conn i) eqn:C; cbn [orb].
  - destruct i as [a|j a|c]; cbn [m_conn] in C; try discriminate. rewrite C. cbn [app conn_feasible].
    assert (EA : TM.all_ev a = a) by (destruct a; cbn [is_conn] in C; try discriminate; reflexivity).
    cbn [TM.menv_step]. rewrite EA.
    assert (EO : TM.mev_ok cap e m (TM.MAll a) = T.ev_ok cap e (T.init true 0 0) a).
    { destruct a; cbn [is_conn] in C; try discriminate; reflexivity. }
    rewrite EO. destruct (T.ev_ok cap e (T.init true 0 0) a); cbn [andb]; [reflexivity|].
    now rewrite andb_false_r.
  - rewrite (menv_step_rest e i C). rewrite (mev_ok_rest cap 0 e m i C).
    assert (EN : (match i with TM.MAll a => if is_conn a then [a] else [] | _ => [] end) = []).
    { destruct i as [a|j a|c]; try reflexivity. cbn [m_conn] in C. now rewrite C. }
    rewrite EN. cbn [app]. destruct (TM.mev_ok 0 e m i); reflexivity.
Qed.

Theorem multi_feasible_under_manager L xs tr cap cfg n0 :
  xtrace L x0 xs ->
  m_conn_evs tr = xproj xs ->
  mfeasible_rest T.env0 (TM.minit cap cfg n0) tr = true ->
  TM.mfeasible 2 T.env0 (TM.minit cap cfg n0) tr = true.
Proof.
  intros HX HP HR. rewrite mfeasible_split, HR, HP. cbn [andb].
  exact (provides_conn_feasible L xs x0 (xinv0 L) HX).
Qed.
