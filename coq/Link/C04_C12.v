(* Link/C04_C12 — the carrier assumption of C12_start_end_to_end is a theorem of C04's substream model.

   C12/Start.v models one endpoint of a notification stream; a substream is a VALUE whose ghost field
   s_hist is "everything the remote wrote" and s_out "everything the local side wrote", both lists of
   abstract frame labels (frame := N, a label stands for a byte string).  C12_start_end_to_end
   composes two endpoints under the hypothesis

       prefix (s_hist (t_in tb)) (s_out (t_out ta))

   — B's inbound substream received a prefix of what A wrote on its outbound one, in order — and the
   documentation cited C04 for it.  Here the hypothesis is DERIVED from C04_reader_roundtrip (the same
   contract C13_carrier_contract uses): interpret the labels as byte strings by any injective `enc`;
   A's writes go on the wire as C04's `wire_of c` (the frames of the codec c of the substream); any
   prefix of those bytes (a cut at any byte offset: loss of the connection, bytes still in flight)
   reaches B and is read by C04's incremental reader `run_reader` under any script of fragmentation,
   stalls, end of stream and read errors; what B's substream sees (s_hist) is the frames that reader
   returns.  Then s_hist is a prefix of A's s_out, whatever the codec, cut, script and number of polls.

   Shapes: C04 speaks about lists of byte strings, C12/Start about lists of labels; the simulation is
   `map enc`, injectivity of `enc` carries the prefix back.  The hypothesis Fits (every frame A wrote is
   accepted by the codec: within max_notification_size) is C04's, and is what Connection's start_send
   size check guarantees in C12/Model.v. *)
From Coq Require Import List NArith Bool Lia.
From V.C04 Require Model Proofs Properties.
From V.C12 Require Import Start StartProofs.
Import ListNotations.
Open Scope N_scope.

Module F := V.C04.Model.
Module FP := V.C04.Proofs.

Section Carrier.
  Variable enc : frame -> list N.
  Hypothesis enc_inj : forall a b, enc a = enc b -> a = b.

  Lemma map_enc_prefix : forall (r w : list frame) (rest : list (list N)),
    map enc w = map enc r ++ rest -> prefix r w.
  Proof.
    induction r as [|x r IH]; intros w rest H.
    - exists w. reflexivity.
    - destruct w as [|y w]; cbn [map app] in H; [discriminate|].
      injection H as H1 H2. apply enc_inj in H1. subst y.
      destruct (IH w rest H2) as [q ->]. exists q. reflexivity.
  Qed.

  (* the carrier contract for label sequences *)
  Lemma carrier_prefix (c : F.codec) (written received : list frame) (cut : nat)
        (script : list F.rdev) (polls : nat) outs st' wire' script' :
    FP.Fits c (map enc written) ->
    F.run_reader polls c (F.init_r c) (firstn cut (F.wire_of c (map enc written))) script
      = (outs, st', wire', script') ->
    map enc received = F.frames_of outs ->
    prefix received written.
  Proof.
    intros HF HR HE.
    destruct (V.C04.Properties.C04_reader_roundtrip c (map enc written)
                (firstn cut (F.wire_of c (map enc written))) (skipn cut (F.wire_of c (map enc written)))
                script polls outs st' wire' script' HF (firstn_skipn _ _) HR) as (_ & _ & rest & E & _).
    rewrite <- HE in E. exact (map_enc_prefix received written rest E).
  Qed.

  (* C12_start_end_to_end with its carrier hypothesis replaced by C04's reader over A's bytes *)
  Lemma end_to_end_over_C04 (c : F.codec) (autoa autob : bool) (la lb : list op) (ta tb : task)
        (cut : nat) (script : list F.rdev) (polls : nat) outs st' wire' script' :
    In ta (tasks (final true autoa la)) -> In tb (tasks (final true autob lb)) ->
    FP.Fits c (map enc (s_out (t_out ta))) ->
    F.run_reader polls c (F.init_r c) (firstn cut (F.wire_of c (map enc (s_out (t_out ta))))) script
      = (outs, st', wire', script') ->
    map enc (s_hist (t_in tb)) = F.frames_of outs ->
    exists q, s_out (t_out ta) = LOCAL_HS :: q /\ s_hs (t_in tb) = [LOCAL_HS] /\ prefix (t_fwd tb) q.
  Proof.
    intros Ha Hb HF HR HE.
    apply (end_to_end autoa autob la lb ta tb Ha Hb).
    exact (carrier_prefix c _ _ cut script polls outs st' wire' script' HF HR HE).
  Qed.
End Carrier.

(* the hypotheses on `enc` are satisfiable: the label EMPTY is the empty byte string, every other
   label a one-element string *)
Definition enc_example (f : frame) : list N := if f =? EMPTY then [] else [f].
Lemma enc_example_inj a b : enc_example a = enc_example b -> a = b.
Proof.
  unfold enc_example. destruct (a =? EMPTY) eqn:Ea, (b =? EMPTY) eqn:Eb; intro H; try discriminate.
  - apply N.eqb_eq in Ea, Eb. congruence.
  - now injection H.
Qed.
