(* Link/C07_C06 — the order constraints of C06's composition with C08 (coq/C06/Compose08.v `xok`) are
   THEOREMS about a node of connection tasks (coq/C07/Model.v `node`), for a protocol that stays alive.

   Compose08 composes the manager with the reports ONE protocol receives and assumes, per event
   (`xok`), besides the manager's own environment assumption env_ok:
     (a) the protocol is told ConnectionEstablished(p, c) only for a connection of the manager's
         ledger of live connections, and at most once per connection id;
     (b) it is told ConnectionClosed(p, c) only for a connection it holds;
     (c) the manager's own Closed p c / failed AcceptDone c arrive only once the protocol no longer
         holds c.
   The documentation said these "rest on C07_order, C07_accept_each_once and C07_node_no_rollback,
   cited by name".  Here they are derived: a run of the C07 node model (the manager model + the accept
   futures + the connection tasks + the protocols, any interleaving `es` of manager events, accept
   futures completing, loop events of the tasks, other protocols exiting) is projected to the events
   of Compose08 as seen by protocol i (`node_xevs`: XEst when the accept future's notes contain
   NEst i, XClosed when a task's notes contain NClosed i, XM for every event the manager is fed, in
   the order in which the code produces them: established before AcceptDone, the protocols' closed
   before the manager's), and that projection satisfies `xtrace` (node_provides_xtrace).  Hence
   C06_provides_C08_feasible / the C08_*_under_manager corollaries apply to protocol i of a node with
   these hypotheses left:
     * node_env_trace: env_ok for the events the TRANSPORTS deliver to the manager (not for
       AcceptDone / Closed, which the node generates itself: C07_node_feeds_manager);
     * fresh_ids: a connection id is never passed to TrEstablished twice in the whole history
       (global freshness: the transports draw ids from one shared counter, C05_sys2_counters_in_step;
       env_ok only asks that the id is not LIVE, which is why `~ In c e_used` needs this);
     * no_die i: protocol i itself does not exit (a protocol that has exited has no TransportService
       any more; the other protocols may exit at any time).
   How (a)-(c) come out: (a) the accept future of c runs while c is in `accepting`, whose entries
   are live (CapInv.ci_acc_live) and — by freshness — never announced before; (b) a task reports
   closed only while it runs, and the protocol holds exactly the connections of running tasks
   (cp_live); (c) the closed notes of a task are closed_part: every live protocol first, then the
   manager (cstep_cases: the block of C07_order), the ids of running tasks are unique (ni_uniq), and
   no accept future fails (accept_spec: C07_node_no_rollback). *)
From Coq Require Import List Arith NArith Bool Lia.
From Coq Require Import ZifyBool ZifyNat ZifyN.
From V.Mgr Require Import Model Caps Ledger.
From V.C07 Require Import Model Proofs Compose.
From V.C06 Require Import Compose08.
Import ListNotations.
Open Scope N_scope.

Arguments N.eqb : simpl never.

(* ------------------------------------------------------------------ the projection *)

Definition has_est_i (i : nat) (ns : list note) : bool :=
  existsb (fun x => match x with NEst j => Nat.eqb j i | _ => false end) ns.
Definition has_closed_i (i : nat) (ns : list note) : bool :=
  existsb (fun x => match x with NClosed j => Nat.eqb j i | _ => false end) ns.

Definition step_xevs (i : nat) (nd : node) (e : nev) : list xev :=
  match e with
  | NMgr me => if is_internal me then [] else [XM me]
  | NAccept c =>
      match lookup c (accepting (nd_mgr nd)) with
      | None => []
      | Some (p, _) =>
          let ot := fst (accept (nd_alive nd) true) in
          let ns := snd (accept (nd_alive nd) true) in
          (if has_est_i i ns then [XEst p c] else []) ++
          [XM (AcceptDone c (match ot with Some _ => true | None => false end))]
      end
  | NTask c ce =>
      if negb (is_loop_event ce) then []
      else match find_task c (nd_tasks nd) with
           | None => []
           | Some (p, t) =>
               let ns := snd (cstep t ce) in
               (if has_closed_i i ns then [XClosed p c] else []) ++
               (if has_mgr_closed ns then [XM (Closed p c)] else [])
           end
  | NProtoDie _ => []
  end.

Fixpoint node_xevs (i : nat) (L : limits) (nd : node) (es : list nev) : list xev :=
  match es with
  | [] => []
  | e :: r => step_xevs i nd e ++ node_xevs i L (fst (node_step L nd e)) r
  end.

(* global freshness of the connection ids the transports announce *)
Definition seen_step (seen : list conn) (e : nev) : list conn :=
  match e with NMgr (TrEstablished _ c _ _ _) => c :: seen | _ => seen end.
Fixpoint fresh_ids (seen : list conn) (es : list nev) : Prop :=
  match es with
  | [] => True
  | e :: r => match e with NMgr (TrEstablished _ c _ _ _) => ~ In c seen | _ => True end /\
              fresh_ids (seen_step seen e) r
  end.
Definition no_die (i : nat) (es : list nev) : Prop := Forall (fun e => e <> NProtoDie i) es.

(* ------------------------------------------------------------------ small facts *)

Lemma xtrace_app L a : forall s b, xtrace L s (a ++ b) <-> xtrace L s a /\ xtrace L (xrun L s a) b.
Proof.
  induction a as [|x t IH]; intros s b; cbn [app xtrace xrun]; [tauto|]. rewrite IH. tauto.
Qed.
Lemma xrun_app L a : forall s b, xrun L s (a ++ b) = xrun L (xrun L s a) b.
Proof. induction a as [|x t IH]; intros s b; cbn [app xrun]; [reflexivity|apply IH]. Qed.

Lemma has_est_alive i al : has_est_i i (map NEst (alive_idx 0 al)) = nth i al false.
Proof.
  unfold has_est_i. destruct (nth i al false) eqn:E.
  - apply existsb_exists. exists (NEst i). split; [|apply Nat.eqb_refl].
    apply in_map. now apply alive_idx_0.
  - destruct (existsb _ _) eqn:X; [|reflexivity]. apply existsb_exists in X. destruct X as (x & Hx & Ex).
    apply in_map_iff in Hx. destruct Hx as (j & <- & Hj). apply Nat.eqb_eq in Ex. subst j.
    apply alive_idx_0 in Hj. congruence.
Qed.

Lemma has_closed_part i al mup : nth i al false = true -> has_closed_i i (closed_part al mup) = true.
Proof.
  intros H. unfold has_closed_i, closed_part. apply existsb_exists. exists (NClosed i).
  split; [|apply Nat.eqb_refl]. apply in_or_app. left. apply in_map. now apply alive_idx_0.
Qed.

Lemma has_closed_sub i ns : (forall x, In x ns -> is_sub_note x = true) -> has_closed_i i ns = false.
Proof.
  intros H. unfold has_closed_i. destruct (existsb _ ns) eqn:E; [|reflexivity].
  apply existsb_exists in E. destruct E as (x & Hx & Ex). apply H in Hx. destruct x; discriminate.
Qed.

Lemma has_mgr_closed_part al mup : has_mgr_closed (closed_part al mup) = mup.
Proof.
  unfold has_mgr_closed, closed_part. rewrite existsb_app.
  assert (E : existsb (fun x => match x with NMgrClosed => true | _ => false end) (map NClosed (alive_idx 0 al)) = false).
  { induction (alive_idx 0 al) as [|a t IH]; [reflexivity|exact IH]. }
  rewrite E. destruct mup; reflexivity.
Qed.

Lemma loop_event_alive t ce : is_loop_event ce = true -> alive (fst (cstep t ce)) = alive t.
Proof.
  intros H. unfold cstep. destruct (gone t); [reflexivity|].
  destruct ce as [y|n|c|j|]; cbn [is_loop_event] in H; try discriminate; unfold finish.
  - destruct (snd (h_yamux t y)); reflexivity.
  - destruct (snd (h_neg t n)); reflexivity.
  - destruct (snd (h_cmd t c)); reflexivity.
Qed.

Lemma nth_set_nth_other {A} (d x : A) i j : forall l, i <> j -> nth i (set_nth j x l) d = nth i l d.
Proof.
  revert i. induction j as [|j IH]; intros i l H; destruct l as [|a t]; cbn [set_nth]; try reflexivity.
  - destruct i; [congruence|reflexivity].
  - destruct i; [reflexivity|]. cbn [nth]. apply IH. congruence.
Qed.

Lemma die_task i j t : i <> j ->
  gone (fst (cstep t (EDie j))) = gone t /\
  (nth i (alive t) false = true -> nth i (alive (fst (cstep t (EDie j)))) false = true).
Proof.
  intros H. unfold cstep. destruct (gone t) eqn:G; cbn [fst gone alive]; [now rewrite G|].
  split; [reflexivity|]. intros K. now rewrite nth_set_nth_other.
Qed.

(* the running task of a connection id is unique *)
Lemma running_unique (ts : tasks_t) c p t q t' :
  NoDup (rk ts) -> In (c, (p, t)) ts -> In (c, (q, t')) ts -> gone t = None -> gone t' = None ->
  p = q /\ t = t'.
Proof.
  induction ts as [|[c0 [p0 t0]] r IH]; intros ND H1 H2 G1 G2; [destruct H1|].
  unfold rk in ND. cbn [filter] in ND. unfold running at 1 in ND. cbn [snd] in ND.
  destruct H1 as [H1|H1], H2 as [H2|H2].
  - injection H1 as -> -> ->. injection H2 as -> ->. auto.
  - injection H1 as -> -> ->. rewrite G1 in ND. cbn [map fst] in ND. inversion ND as [|? ? N1 N2]; subst.
    exfalso. apply N1. eapply rk_in; eauto.
  - injection H2 as -> -> ->. rewrite G2 in ND. cbn [map fst] in ND. inversion ND as [|? ? N1 N2]; subst.
    exfalso. apply N1. eapply rk_in; eauto.
  - apply IH; auto. destruct (gone t0); [exact ND|]. cbn [map fst] in ND. now inversion ND.
Qed.

Lemma in_filter_key (k : T.key) (p c : N) (l : list T.key) :
  In k (filter (fun k => negb (T.key_eqb k (p, c))) l) <-> In k l /\ k <> (p, c).
Proof.
  rewrite filter_In. destruct k as [a b]. unfold T.key_eqb. cbn [fst snd]. split; intros [H1 H2]; split; try exact H1.
  - intros E. injection E as -> ->. rewrite !N.eqb_refl in H2. discriminate.
  - destruct (a =? p) eqn:E1, (b =? c) eqn:E2; try reflexivity. exfalso. apply H2. f_equal; lia.
Qed.

(* ------------------------------------------------------------------ the coupling *)

Record Cpl (i : nat) (L : limits) (nd : node) (l : live_t) (ann : list conn) (X : xst) (seen : list conn) : Prop := {
  cp_node : NodeInv L nd l ann;
  cp_m : x_m X = nd_mgr nd;
  cp_l : x_l X = l;
  cp_alive : nth i (nd_alive nd) false = true;
  cp_talive : forall c p t, In (c, (p, t)) (nd_tasks nd) -> gone t = None -> nth i (alive t) false = true;
  cp_live : forall p c, In (p, c) (T.e_live (x_e X)) <-> exists t, In (c, (p, t)) (nd_tasks nd) /\ gone t = None;
  cp_unused : forall c, In c (keys (accepting (nd_mgr nd))) -> ~ In c (T.e_used (x_e X));
  cp_seen1 : forall c, In c (keys (accepting (nd_mgr nd))) -> In c seen;
  cp_seen2 : forall c, In c (T.e_used (x_e X)) -> In c seen
}.

Lemma nth_repeat_true i n : (i < n)%nat -> nth i (repeat true n) false = true.
Proof. revert i. induction n as [|n IH]; intros i H; [lia|]. destruct i; cbn [repeat nth]; [reflexivity|apply IH; lia]. Qed.

Lemma cpl_init i L n : (i < n)%nat -> Cpl i L (node_init n) [] [] x0 [].
Proof.
  intros H. split; cbn; try tauto.
  - apply node_inv_init.
  - apply nth_repeat_true. exact H.
  - intros p c. split; [intros []|intros (t & [] & _)].
Qed.

Lemma cpl_step i L nd l ann X seen e :
  Cpl i L nd l ann X seen -> node_env_ok nd l e ->
  match e with NMgr (TrEstablished _ c _ _ _) => ~ In c seen | _ => True end ->
  e <> NProtoDie i ->
  let st := node_step L nd e in
  let g := arun L (nd_mgr nd) l ann (snd (snd st)) in
  xtrace L X (step_xevs i nd e) /\
  Cpl i L (fst st) (fst (snd g)) (snd (snd g)) (xrun L X (step_xevs i nd e)) (seen_step seen e).
Proof.
  intros C He Hf Hd. cbn zeta.
  pose proof (node_step_inv L nd l ann e (cp_node _ _ _ _ _ _ _ C) He) as NS. cbn zeta in NS.
  destruct NS as (_ & _ & NI').
  destruct C as [CN CM CL CA CT CV CU CS1 CS2].
  pose proof CN as [IM IT IU]. pose proof IM as [IC IR IA].
  destruct X as [xm xl xe]. cbn [x_m x_l x_e] in *. subst xm xl.
  destruct e as [me|c|c ce|j]; cbn [node_step step_xevs seen_step] in *.
  - (* ---- an event of the manager loop ---- *)
    destruct (is_internal me) eqn:Ei.
    { cbn [fst snd arun xtrace xrun]. split; [exact I|].
      destruct me; try discriminate Ei; split; cbn [x_m x_l x_e]; auto. }
    cbn [node_env_ok] in He. specialize (He Ei). destruct (step L (nd_mgr nd) me) as [m1 os] eqn:Es.
    cbn [fst snd arun xtrace xrun xstep x_m x_l x_e nd_mgr nd_alive nd_tasks] in *. rewrite Es in *. cbn [fst snd] in *.
    split.
    + split; [|exact I]. cbn [xok x_m x_l]. split; [exact He|]. destruct me; try exact I; discriminate Ei.
    + assert (ACC : forall x, In x (keys (accepting m1)) ->
                    In x (keys (accepting (nd_mgr nd))) \/
                    match me with TrEstablished _ c0 _ _ _ => x = c0 | _ => False end).
      { intros x Hx. assert (Hm1 : m1 = fst (step L (nd_mgr nd) me)) by (now rewrite Es).
        destruct me as [p0 ts0 fl0|p0 t0 f|p0 t0|c0 t0 pa|c0 t0 f|c0 t0 pa|p0 c0 t0 lst f|c0 t0|c0 ok|p0 c0| |a0|p0 ts0 fl0 cl0|a0 cl0];
          try discriminate Ei;
          try (left; rewrite Hm1 in Hx; rewrite accepting_other in Hx by exact I; exact Hx).
        cbn [step] in Es. destruct (installed L t0).
        - pose proof (established_accepting L (nd_mgr nd) p0 c0 t0 lst f) as K. cbn zeta in K. rewrite Es in K. cbn [fst snd] in K.
          destruct (existsb (is_accept c0) os && negb f); rewrite K in Hx; [|now left].
          rewrite keys_app in Hx. apply in_app_iff in Hx. destruct Hx as [Hx|[Hx|[]]]; [now left|right; now symmetry].
        - injection Es as <- <-. now left. }
      split; cbn [x_m x_l x_e nd_mgr nd_alive nd_tasks]; auto.
      * intros x Hx. destruct (ACC x Hx) as [H|H]; [now apply CU|].
        destruct me; try contradiction. subst x. intros K. apply Hf. now apply CS2.
      * intros x Hx. destruct (ACC x Hx) as [H|H].
        -- destruct me; try (now apply CS1). right. now apply CS1.
        -- destruct me; try contradiction. subst x. now left.
      * intros x Hx. destruct me; try (now apply CS2). right. now apply CS2.
  - (* ---- the accept future of c ---- *)
    destruct (lookup c (accepting (nd_mgr nd))) as [[p b0]|] eqn:Ea.
    2:{ cbn [fst snd arun xtrace xrun]. split; [exact I|]. split; cbn [x_m x_l x_e]; auto. }
    rewrite accept_spec in *. cbn [fst snd] in *. rewrite has_est_alive, CA. cbn [app].
    destruct (step L (nd_mgr nd) (AcceptDone c true)) as [m1 os] eqn:Es.
    cbn [fst snd arun xtrace xrun xstep x_m x_l x_e nd_mgr nd_alive nd_tasks] in *. rewrite Es in *. cbn [fst snd] in *.
    assert (Hin : In c (keys (accepting (nd_mgr nd)))) by (eapply lookup_in_keys; exact Ea).
    assert (Hm1 : accepting m1 = remove_first c (accepting (nd_mgr nd))).
    { cbn [step] in Es. unfold do_accept_done in Es. rewrite Ea in Es. now injection Es as <- _. }
    assert (Hgone : ~ In c (keys (remove_first c (accepting (nd_mgr nd))))).
    { apply lookup_none_keys. rewrite lookup_remove_first by apply IC. now rewrite N.eqb_refl. }
    split.
    + split; [|split; [|exact I]].
      * cbn [xok x_l x_e]. split; [|now apply CU]. exists b0. eapply ci_acc_live; [exact IC|exact Ea].
      * cbn [xok x_m x_l x_e]. split; [exact Hin|exact I].
    + split; cbn [x_m x_l x_e nd_mgr nd_alive nd_tasks T.env_step T.e_live T.e_used]; auto.
      * intros c2 p2 t2 [H|H] G; [injection H as <- <- <-; exact CA|eauto].
      * intros q d. rewrite in_app_iff. cbn [In]. split.
        -- intros [H|[H|[]]]; [apply CV in H; destruct H as (t & Ht & G); exists t; split; [now right|exact G]|].
           injection H as <- <-. eexists. split; [now left|reflexivity].
        -- intros (t & [H|H] & G); [injection H as <- <- <-; right; now left|]. left. apply CV. eauto.
      * rewrite Hm1. intros x Hx [K|K]; [subst x; now apply Hgone|]. apply (CU x); [eapply keys_remove_first; exact Hx|exact K].
      * rewrite Hm1. intros x Hx. apply CS1. eapply keys_remove_first; exact Hx.
      * intros x [K|K]; [subst x; now apply CS1|now apply CS2].
  - (* ---- a connection task handles one event ---- *)
    destruct (negb (is_loop_event ce)) eqn:El.
    { cbn [fst snd arun xtrace xrun]. split; [exact I|]. split; cbn [x_m x_l x_e]; auto. }
    assert (El' : is_loop_event ce = true) by (destruct (is_loop_event ce); [reflexivity|discriminate]).
    destruct (find_task c (nd_tasks nd)) as [[p t]|] eqn:Ef.
    2:{ cbn [fst snd arun xtrace xrun]. split; [exact I|]. split; cbn [x_m x_l x_e]; auto. }
    destruct (cstep t ce) as [t1 ns] eqn:Ec. cbn [snd] in *.
    destruct (find_task_split c (nd_tasks nd) p t t1 Ef) as (a & b & Ets & G & Eup).
    assert (Hin : In (c, (p, t)) (nd_tasks nd)) by (rewrite Ets; apply in_elt).
    pose proof (CT _ _ _ Hin G) as Ai.
    assert (At1 : alive t1 = alive t) by (pose proof (loop_event_alive t ce El') as K; now rewrite Ec in K).
    assert (Hother : forall c2 p2 t2, In (c2, (p2, t2)) (a ++ b) -> gone t2 = None -> In (c2, (p2, t2)) (nd_tasks nd) /\ (p2, c2) <> (p, c)).
    { intros c2 p2 t2 Hin2 G2.
      assert (K : In (c2, (p2, t2)) (nd_tasks nd)).
      { rewrite Ets. apply in_app_iff in Hin2. apply in_app_iff. destruct Hin2; [now left|right; now right]. }
      split; [exact K|]. intros E. injection E as -> ->.
      destruct (running_unique _ _ _ _ _ _ IU Hin K G G2) as [_ <-].
      (* t sits both at the split point and in a ++ b: two running entries with key c *)
      rewrite Ets, rk_app in IU. unfold rk at 2 in IU. cbn [filter] in IU. unfold running at 1 in IU. cbn [snd] in IU.
      rewrite G in IU. cbn [map fst] in IU. fold (rk b) in IU. apply NoDup_remove_2 in IU. apply IU. rewrite <- rk_app. eapply rk_in; eauto. }
    destruct (cstep_cases t ce G) as [(G1 & _ & Hsub & _)|(G1 & _ & Ens & _ & Hup)]; rewrite Ec in *; cbn [fst snd] in *.
    + (* the loop carries on *)
      rewrite (has_closed_sub i ns Hsub), (has_mgr_closed_sub ns Hsub). cbn [app fst snd arun xtrace xrun].
      rewrite (has_mgr_closed_sub ns Hsub) in NI'. cbn [fst snd arun] in NI'.
      split; [exact I|]. split; cbn [x_m x_l x_e nd_mgr nd_alive nd_tasks]; auto.
      * rewrite Eup. intros c2 p2 t2 Hin2 G2. apply in_app_iff in Hin2. destruct Hin2 as [H|[H|H]].
        -- apply (CT c2 p2 t2); [rewrite Ets; apply in_app_iff; now left|exact G2].
        -- injection H as <- <- <-. now rewrite At1.
        -- apply (CT c2 p2 t2); [rewrite Ets; apply in_app_iff; right; now right|exact G2].
      * intros q d. rewrite CV, Eup, Ets. split; intros (t2 & Hin2 & G2); apply in_app_iff in Hin2.
        -- destruct Hin2 as [H|[H|H]].
           ++ exists t2. split; [apply in_app_iff; now left|exact G2].
           ++ injection H as <- <- <-. exists t1. split; [apply in_elt|exact G1].
           ++ exists t2. split; [apply in_app_iff; right; now right|exact G2].
        -- destruct Hin2 as [H|[H|H]].
           ++ exists t2. split; [apply in_app_iff; now left|exact G2].
           ++ injection H as <- <- <-. exists t. split; [apply in_elt|exact G].
           ++ exists t2. split; [apply in_app_iff; right; now right|exact G2].
    + (* the loop exits: the protocols are told first, then the manager *)
      subst ns. rewrite (has_closed_part i (alive t) (mgr_up t) Ai), has_mgr_closed_part.
      rewrite has_mgr_closed_part in NI'.
      assert (Hlive : In (p, c) (T.e_live xe)) by (apply CV; eauto).
      assert (LIVE' : forall q d, In (q, d) (filter (fun k => negb (T.key_eqb k (p, c))) (T.e_live xe)) <->
                                  exists t2, In (d, (q, t2)) (a ++ (c, (p, t1)) :: b) /\ gone t2 = None).
      { intros q d. rewrite in_filter_key, CV. split.
        - intros [(t2 & Hin2 & G2) Hne]. exists t2. split; [|exact G2]. rewrite Ets in Hin2.
          apply in_app_iff in Hin2. apply in_app_iff. destruct Hin2 as [H|[H|H]]; [now left| |right; now right].
          injection H as <- <- <-. now exfalso.
        - intros (t2 & Hin2 & G2). apply in_app_iff in Hin2.
          assert (K : In (d, (q, t2)) (a ++ b)).
          { apply in_app_iff. destruct Hin2 as [H|[H|H]]; [now left| |now right]. injection H as <- <- <-. contradiction. }
          destruct (Hother _ _ _ K G2) as [K1 K2]. split; [eauto|exact K2]. }
      destruct (mgr_up t) eqn:MU; cbn [app].
      * destruct (step L (nd_mgr nd) (Closed p c)) as [m1 os] eqn:Es.
        cbn [fst snd arun xtrace xrun xstep x_m x_l x_e nd_mgr nd_alive nd_tasks] in *. rewrite Es in *. cbn [fst snd] in *.
        destruct (IT _ _ _ Hin G) as [[b1 Hb1] Hnacc].
        assert (Hm1 : accepting m1 = accepting (nd_mgr nd)).
        { replace m1 with (fst (step L (nd_mgr nd) (Closed p c))) by (now rewrite Es). now apply accepting_other. }
        split.
        -- split; [exact Hlive|]. split; [|exact I]. cbn [xok x_m x_l x_e T.env_step T.e_live].
           split; [split; [intros q b' Hq; congruence|exact Hnacc]|].
           unfold held. cbn [T.e_live]. intros K. apply in_map_iff in K. destruct K as ([q d] & E & K). cbn [snd] in E. subst d.
           apply LIVE' in K. destruct K as (t2 & Hin2 & G2). apply in_app_iff in Hin2.
           assert (K : In (c, (q, t2)) (a ++ b)).
           { apply in_app_iff. destruct Hin2 as [H|[H|H]]; [now left| |now right]. injection H as <- <-. contradiction. }
           destruct (Hother _ _ _ K G2) as [K1 K2].
           destruct (running_unique _ _ _ _ _ _ IU Hin K1 G G2) as [-> _]. now apply K2.
        -- split; cbn [x_m x_l x_e nd_mgr nd_alive nd_tasks T.env_step T.e_live T.e_used]; auto.
           ++ rewrite Eup. intros c2 p2 t2 Hin2 G2. apply in_app_iff in Hin2.
              assert (K : In (c2, (p2, t2)) (a ++ b)).
              { apply in_app_iff. destruct Hin2 as [H|[H|H]]; [now left| |now right]. injection H as <- <- <-. contradiction. }
              destruct (Hother _ _ _ K G2) as [K1 _]. eauto.
           ++ rewrite Eup. exact LIVE'.
           ++ rewrite Hm1. exact CU.
           ++ rewrite Hm1. exact CS1.
      * cbn [fst snd arun xtrace xrun xstep x_m x_l x_e nd_mgr nd_alive nd_tasks] in *.
        split; [split; [exact Hlive|exact I]|].
        split; cbn [x_m x_l x_e nd_mgr nd_alive nd_tasks T.env_step T.e_live T.e_used]; auto.
        -- rewrite Eup. intros c2 p2 t2 Hin2 G2. apply in_app_iff in Hin2.
           assert (K : In (c2, (p2, t2)) (a ++ b)).
           { apply in_app_iff. destruct Hin2 as [H|[H|H]]; [now left| |now right]. injection H as <- <- <-. contradiction. }
           destruct (Hother _ _ _ K G2) as [K1 _]. eauto.
        -- rewrite Eup. exact LIVE'.
  - (* ---- another protocol exits ---- *)
    assert (Hij : i <> j) by (intros ->; now apply Hd).
    cbn [fst snd arun xtrace xrun]. split; [exact I|].
    split; cbn [x_m x_l x_e nd_mgr nd_alive nd_tasks]; auto.
    + now rewrite nth_set_nth_other.
    + intros c p t Hin G. apply in_map_iff in Hin. destruct Hin as ([c0 [p0 t0]] & E & Hin). cbn [fst snd] in E.
      injection E as <- <- <-. destruct (die_task i j t0 Hij) as [D1 D2]. rewrite D1 in G. apply D2. eauto.
    + intros q d. rewrite CV. split.
      * intros (t & Hin & G). exists (fst (cstep t (EDie j))). split; [|now rewrite (proj1 (die_task i j t Hij))].
        apply in_map_iff. exists (d, (q, t)). split; [reflexivity|exact Hin].
      * intros (t & Hin & G). apply in_map_iff in Hin. destruct Hin as ([c0 [p0 t0]] & E & Hin). cbn [fst snd] in E.
        injection E as <- <- <-. exists t0. split; [exact Hin|]. now rewrite (proj1 (die_task i j t0 Hij)) in G.
Qed.

(* ------------------------------------------------------------------ whole runs *)

Theorem cpl_run i L es : forall nd l ann X seen,
  Cpl i L nd l ann X seen -> node_env_trace L nd l ann es -> fresh_ids seen es -> no_die i es ->
  xtrace L X (node_xevs i L nd es).
Proof.
  induction es as [|e r IH]; intros nd l ann X seen C He Hf Hd; cbn [node_xevs]; [exact I|].
  cbn [node_env_trace fresh_ids] in He, Hf. destruct He as [He1 He2]. destruct Hf as [Hf1 Hf2].
  inversion Hd as [|? ? Hd1 Hd2]; subst.
  destruct (cpl_step i L nd l ann X seen e C He1 Hf1 Hd1) as [T1 C1]. cbn zeta in C1, He2.
  apply xtrace_app. split; [exact T1|]. eapply IH; eauto.
Qed.

(* a node started from scratch with n protocols, seen from protocol i *)
Theorem node_provides_xtrace i n L es :
  (i < n)%nat ->
  node_env_trace L (node_init n) [] [] es -> fresh_ids [] es -> no_die i es ->
  xtrace L x0 (node_xevs i L (node_init n) es).
Proof. intros H. apply cpl_run. now apply cpl_init. Qed.

(* ... so the connection part of C08's environment assumption holds for what protocol i is told *)
Theorem node_conn_feasible i n L es :
  (i < n)%nat ->
  node_env_trace L (node_init n) [] [] es -> fresh_ids [] es -> no_die i es ->
  conn_feasible 2 T.env0 (xproj (node_xevs i L (node_init n) es)) = true.
Proof.
  intros H He Hf Hd. exact (provides_conn_feasible L _ x0 (xinv0 L) (node_provides_xtrace i n L es H He Hf Hd)).
Qed.

(* ... and C08's `feasible 2` for the TransportService of protocol i of a node *)
Theorem node_feasible i n L es tr ka T0 n0 :
  (i < n)%nat ->
  node_env_trace L (node_init n) [] [] es -> fresh_ids [] es -> no_die i es ->
  filter is_conn (map snd tr) = xproj (node_xevs i L (node_init n) es) ->
  feasible_rest T.env0 (T.init ka T0 n0) tr = true ->
  T.feasible 2 T.env0 (T.init ka T0 n0) tr = true.
Proof.
  intros H He Hf Hd HP HR.
  exact (provides_feasible L _ tr ka T0 n0 (node_provides_xtrace i n L es H He Hf Hd) HP HR).
Qed.

(* non-vacuity: two protocols, peer 5 connects over TCP (id 0) and WebSocket (id 1), protocol 1
   exits, connection 0 ends (yamux EOF): protocol 0 is told Established 0, Established 1, Closed 0 *)
Example node_xevs_nonvacuous :
  let L := mkLimits None None [TCP; WS] in
  let es := [NMgr AllocConn; NMgr (TrEstablished 5 0 TCP true false); NAccept 0;
             NMgr AllocConn; NMgr (TrEstablished 5 1 WS true false); NAccept 1;
             NProtoDie 1; NTask 0 (EYamux YEof)] in
  xproj (node_xevs 0 L (node_init 2) es) = [T.EEst 5 0; T.EEst 5 1; T.EClosed 5 0] /\
  fresh_ids [] es /\ no_die 0 es.
Proof.
  vm_compute. split; [reflexivity|]. split.
  - repeat split; intros H; repeat (destruct H as [H|H]; try discriminate); exact H.
  - repeat constructor; discriminate.
Qed.
