(* Link/C16_Time — the bound D of C16_compose_bounded_time and the layers below: what can NOT be derived,
   stated formally.

   C16's `timed D` (coq/C16/Time.v) asks that, whenever the clock advances, every outstanding obligation
   of the environment — a queued dial (0, peer), an open_substream in flight (1, substream id), an
   executor future (2, id) — was created at most D ago.  For the futures D is proved in C16 itself
   (C16_executor_bounded).  For opens and dials the level note cited C08 / C09 / C05 by name.
   Attempting the formal link shows that the time notions do NOT align, for these precise reasons:

   (1) OPENS.  coq/Ts has a logical clock (s_now, ms), but the only thing it times is the keep-alive
       downgrade of an idle ConnectionHandle (C09_closes, C09_never_overdue, C09_downgrade_exactly).
       An open_substream in flight has NO deadline in the service: the answer is an input of the
       model (ESubOut / ESubFail, the connection task's side), and the idle mechanism cannot end the
       wait either, because the open in flight holds a permit of the connection's command channel
       (C09_busy_keeps_alive).  `service_open_wait_unbounded` below is the formal statement: for
       EVERY D there is a history inside C08's contract in which an accepted open is still in flight,
       unanswered, D ms after it was accepted, with the connection still held.  So no D follows from
       C08 + C09.  The deadline that exists in the code is the connection task's substream open
       timeout (tcp / websocket / quic connection.rs: the pending_substreams future is wrapped in a
       timeout and answered with SubstreamOpenFailure); in the C07 model that is the untimed event
       "negotiation failed / timed out" (the loop-level stream scripts it), and C07 has no clock.
       MISSING for the link: a clocked model of the connection task's open timeout, i.e. a theorem
       "an OpenSubstream command taken at time t is answered (ESubOut / ESubFail) or the connection
       is closed by t + substream_open_timeout" about a connection-task model that shares Ts's clock.

   (2) DIALS.  The manager / transport models (coq/Mgr, coq/Tcp, C05) have no clock at all: the dial
       deadline and connection_open_timeout are the untimed events EExpire / "attempt failed", and
       the progress theorems (C05_sys2_progress, C05_tr_progress_open_expire) are existential over
       the environment's schedule ("there is an allowed network / runtime input whose handling
       hands the manager an answer").  They give the SHAPE C16 needs (every queued dial has an
       answer the environment can deliver: C16_link_dial_answers) but no time bound.
       MISSING: time stamps on the transport model's futures (dial deadline, open deadline) and a
       fairness-with-deadline assumption on the runtime ("a future whose deadline has passed is
       polled within epsilon").

   What IS linked already: the ANSWER of an open (C16_link_service_feasible: the service reports
   SubstreamOpened for the peer the substream was requested from; C08_open_answered: exactly one
   answer unless the connection closes).  With Link/Ts_C13.v's finding in mind: "unless the
   connection closes" is about the connection, and Kademlia — like request-response — learns of it
   only through ConnectionClosed(peer) for the peer's last connection. *)
From Coq Require Import List NArith Bool Lia.
From V.Ts Require Import Model Proofs Answers.
Import ListNotations.
Open Scope N_scope.

Arguments N.add : simpl never.

Definition wait_tr (D : N) : list (N * ev) := [(0, EEst 0 1); (0, EOpen 0); (D, ENone)].
Definition s0w : st := init true 1000 0.
Definition pre_w : list (N * ev) := [(0, EEst 0 1); (0, EOpen 0)].

Lemma w_final D s2 : s2 = final s0w pre_w -> final s0w (wait_tr D) = fst (step s2 D ENone).
Proof. intros E2. change (wait_tr D) with (pre_w ++ [(D, ENone)]). rewrite final_app, <- E2. reflexivity. Qed.
Lemma w_pend s2 : s2 = final s0w pre_w -> s_pend s2 = [(0, (0, 1))].
Proof. intros E2. rewrite E2. vm_compute. reflexivity. Qed.
Lemma w_now s2 : s2 = final s0w pre_w -> s_now s2 = 0.
Proof. intros E2. rewrite E2. vm_compute. reflexivity. Qed.
Lemma w_pre_outs : concat (run s0w pre_w) = [OEst 0; ORet 0 0; OCmd 1 0].
Proof. vm_compute. reflexivity. Qed.
Lemma w_outs D s2 : s2 = final s0w pre_w ->
  concat (run s0w (wait_tr D)) = [OEst 0; ORet 0 0; OCmd 1 0] ++ snd (step s2 D ENone).
Proof.
  intros E2. change (wait_tr D) with (pre_w ++ [(D, ENone)]).
  rewrite run_app, w_pre_outs, <- E2. cbn [run concat].
  destruct (step s2 D ENone) as [s3 o3]. cbn [snd concat]. now rewrite app_nil_r.
Qed.
Lemma step_none_pend s dt : s_pend (fst (step s dt ENone)) = s_pend s.
Proof. exact (proj1 (step_pend_ans s dt ENone)). Qed.
Lemma step_none_ans s dt : ans_ids (snd (step s dt ENone)) = [].
Proof. exact (proj2 (step_pend_ans s dt ENone)). Qed.
Lemma step_none_now s dt : s_now (fst (step s dt ENone)) = s_now s + dt.
Proof.
  unfold step. cbn [handle_ev ka_activity_of].
  pose proof (poll_consts (with_now s (s_now s + dt))) as [PN _].
  destruct (poll_timers (with_now s (s_now s + dt))) as [s3 o3]. cbn [fst] in *. exact PN.
Qed.
Lemma w_feasible D : feasible 2 env0 s0w (wait_tr D) = true.
Proof. cbn [feasible wait_tr ev_ok]. reflexivity. Qed.

(* For every D: connection 1 of peer 0 is established, open_substream(0) is accepted at time 0 with
   id 0 (the command reaches connection 1), then D ms pass with the service polled. The history is
   inside C08's contract; at time D the open is still in flight, it was not answered, and the
   connection's command channel still has a strong sender (the permit of the open): neither the
   service nor its keep-alive mechanism ends the wait. *)
Theorem service_open_wait_unbounded :
  forall D,
  feasible 2 env0 (init true 1000 0) (wait_tr D) = true /\
  In (OCmd 1 0) (concat (run (init true 1000 0) (wait_tr D))) /\
  pfind 0 (s_pend (final (init true 1000 0) (wait_tr D))) = Some (0, 1) /\
  s_now (final (init true 1000 0) (wait_tr D)) = D /\
  ans_ids (concat (run (init true 1000 0) (wait_tr D))) = [] /\
  0 < strong (final (init true 1000 0) (wait_tr D)) 1.
Proof.
  intros D. fold s0w.
  pose (s2 := final s0w pre_w). assert (E2 : s2 = final s0w pre_w) by reflexivity. clearbody s2.
  pose proof (w_final D s2 E2) as F2. pose proof (w_pend s2 E2) as P2. pose proof (w_now s2 E2) as N2.
  pose proof (w_outs D s2 E2) as RR.
  assert (P3 : s_pend (fst (step s2 D ENone)) = [(0, (0, 1))]) by (rewrite step_none_pend; exact P2).
  split; [|split; [|split; [|split; [|split]]]].
  - apply w_feasible.
  - rewrite RR. apply in_or_app. left. right. right. now left.
  - rewrite F2, P3. reflexivity.
  - rewrite F2, step_none_now, N2. apply N.add_0_l.
  - rewrite RR. unfold ans_ids. rewrite flat_map_app. fold (ans_ids (snd (step s2 D ENone))).
    rewrite step_none_ans. reflexivity.
  - rewrite F2. apply busy_strong. left. rewrite P3. vm_compute. reflexivity.
Qed.
