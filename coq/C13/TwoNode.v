(* C13 — two nodes: requester model || responder model over the C04 substream contract.
   Definitions only; proofs are in TwoNodeProofs.v.

   Each node is the single-node model of Model.v with its own environment (its transport manager,
   its connections, its other peers, its user, its clock).  Peer 0 of either node is the other node.
   A substream that node `a` opens to peer 0 (SubstreamOpened, outbound) shows up at the other node
   as an inbound substream of its peer 0: the two carriers form a LINK.  What one side writes on a
   linked carrier is a byte string — C04's frame of the payload — and what the other side reads from
   it is decided by C04's incremental reader (V.C04.Model.run_reader) run over an arbitrary prefix
   of those bytes (a connection fault at any byte offset) under an arbitrary fragmentation / stall /
   end-of-stream / error script.  The read side of a linked carrier is fed by nothing else.

   Only the completion of a read matters to the protocol (the reader state is private to the
   future that owns the substream; a future yields once), so the delivery over a link is one move:
   the reader is run from its initial state over the prefix and the script, made decisive by
   appending "whatever is left arrives, then the stream ends". *)
From Coq Require Import List NArith Bool.
From V.C04 Require Model.
From V.C13 Require Import Model.
Import ListNotations.
Open Scope N_scope.


(* the log of a node: every stimulus with what it made observable and the target it resolved to *)
Definition hist := list (ev * list out * option N).

(* ------------------------------------------------------------------ bytes *)

(* the byte pattern the harness uses for payload (len, tag) *)
Fixpoint bytes_from (n : nat) (v : N) : list N :=
  match n with O => [] | S k => v mod 256 :: bytes_from k (v + 1) end.
Definition bytes_of (len tag : N) : list N := bytes_from (N.to_nat len) tag.
(* and back: length and first byte *)
Definition describe (m : list N) : N * N := (V.C04.Model.lenN m, hd 0 m).

(* Config::new: ProtocolCodec::UnsignedVarint(Some(max_message_size)) *)
Definition codec_of (cf : cfg) : V.C04.Model.codec := V.C04.Model.Varint (Some (max_size cf)).

(* the frame for payload (l, t), as far as the reader's configuration lets it be one *)
Definition frame_for (cf : cfg) (l t : N) : list N :=
  if (l <=? max_size cf) && (l <? V.C04.Model.USIZE_MOD) then V.C04.Model.frame (codec_of cf) (bytes_of l t) else [].

Inductive rx := RxFrame (m : list N) | RxClosed | RxNone | RxBad.
Fixpoint first_outcome (os : list V.C04.Model.rout) : rx :=
  match os with
  | [] => RxNone
  | V.C04.Model.RPend :: t => first_outcome t
  | V.C04.Model.RFrame f :: _ => RxFrame f
  | V.C04.Model.RClosed :: _ => RxClosed
  | _ :: _ => RxBad
  end.

Definition BIG : N := 4294967296.
(* the script made decisive: whatever is left of the wire arrives, then the stream ends.  Sixteen
   unbounded reads are enough: the length prefix is read byte by byte (at most ten bytes), the
   payload in one piece, and a read that finds nothing left is the end of the stream. *)
Definition full_script (script : list V.C04.Model.rdev) : list V.C04.Model.rdev :=
  script ++ repeat (V.C04.Model.EvChunk BIG) 16.

(* poll_next until it returns something other than Pending *)
Fixpoint first_rx (fuel : nat) (c : V.C04.Model.codec) (st : V.C04.Model.rstate) (wire : list N)
         (script : list V.C04.Model.rdev) : rx :=
  match fuel with
  | O => RxNone
  | S f =>
    let '(o, st1, w1, s1) := V.C04.Model.poll_next c st wire script in
    match o with
    | V.C04.Model.RPend => first_rx f c st1 w1 s1
    | V.C04.Model.RFrame m => RxFrame m
    | V.C04.Model.RClosed => RxClosed
    | _ => RxBad
    end
  end.

Definition deliver (c : V.C04.Model.codec) (wire : list N) (script : list V.C04.Model.rdev) : rx :=
  let sc := full_script script in
  first_rx (S (length sc)) c (V.C04.Model.init_r c) wire sc.

(* ------------------------------------------------------------------ nodes and links *)

Record node := mkNode { n_cf : cfg; n_st : pst * env; n_log : hist; n_dead : bool }.
Definition node0 (cf : cfg) : node := mkNode cf (init_pst, init_env) [] false.

Definition node_step (n : node) (e : ev) : node :=
  if n_dead n then n else
  let '(st', o, tg) := step (n_cf n) (n_st n) e in
  mkNode (n_cf n) st' (n_log n ++ [(e, o, tg)]) false.

(* k_a: the requester node (false = node A, true = node B); k_cq: its carrier; k_cr: the carrier
   at the other node *)
Record link := mkLink { k_a : bool; k_cq : N; k_cr : N }.

(* reqd / respd: links (by index) whose request / response direction has been delivered *)
Record sys := mkSys { nA : node; nB : node; lks : list link; reqd : list N; respd : list N }.
Definition sys0 (cfA cfB : cfg) : sys := mkSys (node0 cfA) (node0 cfB) [] [] [].

Definition nd (x : bool) (s : sys) : node := if x then nB s else nA s.
Definition set_nd (x : bool) (s : sys) (n : node) : sys :=
  if x then mkSys (nA s) n (lks s) (reqd s) (respd s) else mkSys n (nB s) (lks s) (reqd s) (respd s).
Definition log (x : bool) (s : sys) : hist := n_log (nd x s).
Definition env_of (x : bool) (s : sys) : env := snd (n_st (nd x s)).

(* carrier c of node x is one end of a link *)
Definition linked (s : sys) (x : bool) (c : N) : bool :=
  existsb (fun k => if Bool.eqb (k_a k) x then k_cq k =? c else k_cr k =? c) (lks s).

(* the carrier a read-side stimulus resolves to *)
Definition reads (e : ev) : bool :=
  match e with ERespond _ _ _ | EEof _ | EErr _ | EInReq _ _ _ => true | _ => false end.
Definition read_target (en : env) (e : ev) : option N :=
  match e with
  | ERespond k _ _ | EEof k | EErr k | EInReq k _ _ =>
      match chans en with [] => None | _ => Some (k mod N.of_nat (length (chans en))) end
  | _ => None
  end.
Definition blocked (s : sys) (x : bool) (e : ev) : bool :=
  match read_target (env_of x s) e with Some c => linked s x c | None => false end.

(* the bytes node n wrote on carrier c: the request frame (resp = false) or the response frame *)
Definition is_wire (resp : bool) (c : N) (o : out) : bool :=
  match o with
  | OWire c' _ _ => negb resp && (c' =? c)
  | OWireR c' _ _ => resp && (c' =? c)
  | _ => false
  end.
Definition written (cf : cfg) (h : hist) (c : N) (resp : bool) : list N :=
  match find (is_wire resp c) (outs_of h) with
  | Some (OWire _ l t) | Some (OWireR _ l t) => frame_for cf l t
  | _ => []
  end.

Inductive mv :=
| MLoc (x : bool) (e : ev)                       (* a stimulus of node x's own environment (time passes for both nodes) *)
| MOpen (a : bool) (k gq gr neg : N)             (* the substream node a asked for is opened: outbound at a, inbound at the other node *)
| MReq (i cut : N) (script : list V.C04.Model.rdev)        (* the request bytes of link i travel *)
| MResp (i cut : N) (script : list V.C04.Model.rdev)       (* the response bytes of link i travel *)
| MExit (x : bool).                              (* node x's event loop ends *)

Definition nth_idx {A} (i : N) (l : list A) : option (N * A) :=
  match l with
  | [] => None
  | _ => let j := i mod N.of_nat (length l) in
         match nth_error l (N.to_nat j) with Some x => Some (j, x) | None => None end
  end.

Definition step2 (s : sys) (m : mv) : sys :=
  match m with
  | MLoc x e =>
    if blocked s x e then s else
    let s1 := set_nd x s (node_step (nd x s) e) in
    (* the two nodes live in the same time *)
    match e with
    | EAdvance _ => set_nd (negb x) s1 (node_step (nd (negb x) s1) e)
    | _ => s1
    end
  | MExit x => let n := nd x s in set_nd x s (mkNode (n_cf n) (n_st n) (n_log n) true)
  | MOpen a k gq gr neg =>
    let q := nd a s in
    if n_dead q then s else
    match nth_mod k (opens (snd (n_st q))) with
    | None => s
    | Some (sid, p) =>
      let cq := N.of_nat (length (chans (snd (n_st q)))) in
      let s1 := set_nd a s (node_step q (EOpened k gq neg)) in
      let r := nd (negb a) s in
      match conn_of 0 (snd (n_st r)) with
      | Some _ =>
        if (p =? 0) && negb (n_dead r) then
          let cr := N.of_nat (length (chans (snd (n_st r)))) in
          let s2 := set_nd (negb a) s1 (node_step r (EInOpen 0 gr neg)) in
          mkSys (nA s2) (nB s2) (lks s2 ++ [mkLink a cq cr]) (reqd s2) (respd s2)
        else s1
      | None => s1
      end
    end
  | MReq i cut script =>
    match nth_idx i (lks s) with
    | None => s
    | Some (j, k) =>
      if memN j (reqd s) then s else
      let q := nd (k_a k) s in
      let r := nd (negb (k_a k)) s in
      let full := written (n_cf r) (n_log q) (k_cq k) false in
      let wire := firstn (N.to_nat (N.min cut (V.C04.Model.lenN full))) full in
      let e := match deliver (codec_of (n_cf r)) wire script with
               | RxFrame m => EInReq (k_cr k) (fst (describe m)) (snd (describe m))
               | _ => EEof (k_cr k)
               end in
      let s1 := set_nd (negb (k_a k)) s (node_step r e) in
      mkSys (nA s1) (nB s1) (lks s1) (reqd s1 ++ [j]) (respd s1)
    end
  | MResp i cut script =>
    match nth_idx i (lks s) with
    | None => s
    | Some (j, k) =>
      if memN j (respd s) then s else
      let q := nd (k_a k) s in
      let r := nd (negb (k_a k)) s in
      (* the responder's bytes reach a requester that has sent its request *)
      let seen := match nth_error (chans (snd (n_st q))) (N.to_nat (k_cq k)) with
                  | Some ch => c_out ch && c_seen ch
                  | None => false
                  end in
      if negb seen then s else
      let full := written (n_cf q) (n_log r) (k_cr k) true in
      let wire := firstn (N.to_nat (N.min cut (V.C04.Model.lenN full))) full in
      let e := match deliver (codec_of (n_cf q)) wire script with
               | RxFrame m => ERespond (k_cq k) (fst (describe m)) (snd (describe m))
               | _ => EEof (k_cq k)
               end in
      let s1 := set_nd (k_a k) s (node_step q e) in
      mkSys (nA s1) (nB s1) (lks s1) (reqd s1) (respd s1 ++ [j])
    end
  end.

Definition run2 (s : sys) (ms : list mv) : sys := fold_left step2 ms s.
Definition outs (x : bool) (s : sys) : list out := outs_of (log x s).
