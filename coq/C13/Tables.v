(* C13 — the tables the model was written for, and their tie to the tables that
   tools/gen_c13_tables.py extracts from the Rust source on every check (coq/gen/C13Tables.v).

   tables_in_sync is proved by computation: a new / renamed / reordered variant of
   InnerRequestResponseEvent, RequestResponseEvent, RequestResponseError, RejectReason, DialOptions,
   RequestResponseCommand, ImmediateDialError or SubstreamError, a changed arm of
   From<InnerRequestResponseEvent>, of poll_next, of From<SubstreamError> for RejectReason, of
   on_substream_open_failure, a reordered / added select! arm of run(), a changed outcome sequence of
   the request or response future, a changed bound test, a changed codec, channel capacity,
   configuration default or setter breaks this obligation of ./check C13.

   The x_ definitions are copies of the generated ones as of the source the model was written for. *)
From Coq Require Import List String NArith Bool.
From V.gen Require C13Tables.
From V.C13 Require Model.
Import ListNotations.
Open Scope string_scope.


Definition x_enums : list (string * list string) :=
  [("InnerRequestResponseEvent", ["RequestReceived"; "ResponseReceived"; "RequestFailed"]);
   ("RequestResponseEvent", ["RequestReceived"; "ResponseReceived"; "RequestFailed"]);
   ("RequestResponseError", ["Rejected"; "Canceled"; "Timeout"; "NotConnected"; "TooLargePayload"; "UnsupportedProtocol"]);
   ("RejectReason", ["SubstreamOpenError"; "ConnectionClosed"; "SubstreamClosed"; "DialFailed"]);
   ("DialOptions", ["Dial"; "Reject"]);
   ("RequestResponseCommand", ["SendRequest"; "SendRequestWithFallback"; "CancelRequest"]);
   ("ImmediateDialError", ["PeerIdMissing"; "TriedToDialSelf"; "AlreadyConnected"; "NoAddressAvailable"; "TaskClosed"; "ChannelClogged"]);
   ("SubstreamError", ["ConnectionClosed"; "ChannelClogged"; "PeerDoesNotExist"; "IoError"; "YamuxError"; "ReadFailure"; "WriteFailure"; "NegotiationError"])].
Definition x_inner_to_outer : list (string * string) := [("ResponseReceived", "ResponseReceived");
   ("RequestFailed", "RequestFailed");
   ("_", "panic")].
Definition x_poll_next : list (string * string) := [("RequestReceived", "insert+RequestReceived");
   ("event", "into")].
Definition x_reject_from : list (string * string * string) := [("SubstreamError::IoError(ErrorKind::NotConnected)", "", "ConnectionClosed");
   ("SubstreamError::YamuxError(crate::yamux::ConnectionError::Io(error),_)", "error.kind()== ErrorKind::NotConnected", "ConnectionClosed");
   ("SubstreamError::NegotiationError(crate::error::NegotiationError::IoError(ErrorKind::NotConnected,))", "", "ConnectionClosed");
   ("SubstreamError::NegotiationError(crate::error::NegotiationError::MultistreamSelectError(crate::multistream_select::NegotiationError::ProtocolError(ProtocolError::IoError(error),),),)", "error.kind()== ErrorKind::NotConnected", "ConnectionClosed");
   ("error", "", "SubstreamOpenError")].
Definition x_handle_fns : list (string * string) := [("reject_request", "remove+drop");
   ("cancel_request", "send_await+CancelRequest");
   ("send_request", "next_id+send_await+SendRequest");
   ("try_send_request", "next_id+try_send+ChannelClogged+SendRequest");
   ("send_request_with_fallback", "next_id+send_await+SendRequestWithFallback");
   ("try_send_request_with_fallback", "next_id+try_send+ChannelClogged+SendRequestWithFallback");
   ("send_response", "remove+send_none");
   ("send_response_with_feedback", "remove+send_some")].
Definition x_allocator : string := "self.next_request_id.fetch_add(1usize,Ordering::Relaxed);RequestId::from(request_id)".
Definition x_select_arms : list (string * string) := [("self.service.next()", "");
   ("self.pending_inbound.select_next_some()", "!self.pending_inbound.is_empty()");
   ("self.pending_outbound_responses.next()", "!self.pending_outbound_responses.is_empty()");
   ("self.pending_inbound_requests.next()", "!self.pending_inbound_requests.is_empty()");
   ("self.command_rx.recv()", "")].
Definition x_select_biased : bool := true.
Definition x_service_arms : list (string * string) := [("ConnectionEstablished", "on_connection_established");
   ("ConnectionClosed", "on_connection_closed");
   ("SubstreamOpened", "on_inbound_substream+on_outbound_substream");
   ("SubstreamOpenFailure", "on_substream_open_failure");
   ("DialFailure", "on_dial_failure")].
Definition x_command_arms : list (string * string) := [("SendRequest", "on_send_request");
   ("SendRequestWithFallback", "on_send_request");
   ("CancelRequest", "on_cancel_request")].
Definition x_open_failure : list (string * string) := [("SubstreamError::NegotiationError(NegotiationError::MultistreamSelectError(MultistreamFailed,))", "RequestResponseError::UnsupportedProtocol");
   ("_", "RequestResponseError::Rejectederror.into()")].
Definition x_outbound_future : list string := ["tokio::time::timeout"; "substream.send_framed"; "RequestResponseError::Timeout"; "ErrorKind::PermissionDenied"; "RequestResponseError::TooLargePayload"; "RequestResponseError::Rejected"; "error.into()"; "tokio::select!"; "_ = rx"; "substream.close()"; "RequestResponseError::Canceled"; "sleep(request_timeout)"; "substream.close()"; "RequestResponseError::Timeout"; "substream.next()"; "Ok(response"; "Ok(response"; "RequestResponseError::Rejected"; "error.into()"; "RequestResponseError::Rejected"; "RejectReason::SubstreamClosed"].
Definition x_inbound_future : list string := ["rx.await"; "substream.close()"; "tokio::time::timeout"; "substream.send_framed"; "feedback.send(())"].
Definition x_inbound_bound : list string := ["self.pending_inbound_requests.len()+ self.pending_outbound_responses.len()"; "max_requests <= num_inbound_requests"].
Definition x_send_request : list string := ["DialOptions::Reject =>"; "RequestResponseError::NotConnected"; "DialOptions::Dial =>"; "self.service.dial(&peer)"; "self.pending_dials .entry(peer).or_default().push"; "RejectReason::DialFailed(Some(error),)"; "self.service.open_substream(peer)"; "context.active.insert(request_id)"; "self.pending_outbound.insert"].
Definition x_codec : string := "ProtocolCodec::UnsignedVarint(Some(max_message_size))".
Definition x_channels : list string := ["DEFAULT_CHANNEL_SIZE"; "DEFAULT_CHANNEL_SIZE"].
Definition x_builder_defaults : list (string * string) := [("fallback_names", "Vec::new()");
   ("max_message_size", "None");
   ("timeout", "Some(REQUEST_TIMEOUT)");
   ("max_concurrent_inbound_request", "None")].
Definition x_setters : list (string * string * string) := [("with_max_size", "max_message_size", "Some(max_message_size)");
   ("with_fallback_names", "fallback_names", "fallback_names");
   ("with_timeout", "timeout", "Some(timeout)");
   ("with_max_concurrent_inbound_requests", "max_concurrent_inbound_request", "Some(max_concurrent_inbound_requests)")].
Definition x_build : list string := ["self.protocol_name"; "self.fallback_names"; "self.max_message_size.take().expect"; "self.timeout.take().expect"; "self.max_concurrent_inbound_request"].

Lemma tables_in_sync :
  C13Tables.enums = x_enums /\
  C13Tables.inner_to_outer = x_inner_to_outer /\
  C13Tables.poll_next = x_poll_next /\
  C13Tables.reject_from = x_reject_from /\
  C13Tables.handle_fns = x_handle_fns /\
  C13Tables.allocator = x_allocator /\
  C13Tables.select_arms = x_select_arms /\
  C13Tables.select_biased = x_select_biased /\
  C13Tables.service_arms = x_service_arms /\
  C13Tables.command_arms = x_command_arms /\
  C13Tables.open_failure = x_open_failure /\
  C13Tables.outbound_future = x_outbound_future /\
  C13Tables.inbound_future = x_inbound_future /\
  C13Tables.inbound_bound = x_inbound_bound /\
  C13Tables.send_request = x_send_request /\
  C13Tables.codec = x_codec /\
  C13Tables.channels = x_channels /\
  C13Tables.builder_defaults = x_builder_defaults /\
  C13Tables.setters = x_setters /\
  C13Tables.build = x_build.
Proof. repeat split; reflexivity. Qed.

(* ------------------------------------------------------------------ the model's codes *)

(* RequestFailed codes of Model.v, by error: RequestResponseError variant, RejectReason variant *)
Definition error_codes : list (string * string * N) :=
  [("Rejected", "ConnectionClosed", Model.E_CONN_CLOSED);
   ("Rejected", "SubstreamClosed", Model.E_SUB_CLOSED);
   ("Rejected", "DialFailed", Model.E_DIAL_FAILED);          (* DialFailed(None); DialFailed(Some(e)) = E_DIAL_IMM (code of e) *)
   ("Rejected", "SubstreamOpenError", Model.E_SUBSTREAM);
   ("Canceled", "", Model.E_CANCELED);
   ("Timeout", "", Model.E_TIMEOUT);
   ("NotConnected", "", Model.E_NOT_CONNECTED);
   ("TooLargePayload", "", Model.E_TOO_LARGE);
   ("UnsupportedProtocol", "", Model.E_UNSUPPORTED)].

(* results of TransportService::dial (D_* of Model.v) by ImmediateDialError variant *)
Definition dial_codes : list (string * N) :=
  [("PeerIdMissing", Model.D_NOPEERID); ("TriedToDialSelf", Model.D_SELF); ("AlreadyConnected", Model.D_CONNECTED);
   ("NoAddressAvailable", Model.D_NOADDR); ("TaskClosed", Model.D_TASKCLOSED); ("ChannelClogged", Model.D_CLOGGED)].

Definition variants_of (name : string) : list string :=
  match find (fun x => String.eqb (fst x) name) C13Tables.enums with Some x => snd x | None => [] end.

Definition IMMEDIATE_DIAL_ERROR : string := "ImmediateDialError".

Fixpoint nodupN (l : list N) : bool :=
  match l with [] => true | x :: t => negb (existsb (N.eqb x) t) && nodupN t end.

(* every error the source can produce has exactly one code, the codes are distinct, and they are
   disjoint from the codes of the immediate dial errors (10 + D) *)
Lemma error_codes_cover :
  flat_map (fun v => if String.eqb v "Rejected" then map (fun r => (v, r)) (variants_of "RejectReason") else [(v, "")])
           (variants_of "RequestResponseError")
  = [("Rejected", "SubstreamOpenError"); ("Rejected", "ConnectionClosed"); ("Rejected", "SubstreamClosed"); ("Rejected", "DialFailed");
     ("Canceled", ""); ("Timeout", ""); ("NotConnected", ""); ("TooLargePayload", ""); ("UnsupportedProtocol", "")] /\
  forallb (fun x => existsb (fun y => String.eqb (fst (fst y)) (fst x) && String.eqb (snd (fst y)) (snd x)) error_codes)
          (flat_map (fun v => if String.eqb v "Rejected" then map (fun r => (v, r)) (variants_of "RejectReason") else [(v, "")])
                    (variants_of "RequestResponseError")) = true /\
  nodupN (map snd error_codes ++ map (fun x => Model.E_DIAL_IMM (snd x)) dial_codes) = true /\
  map fst dial_codes = variants_of "ImmediateDialError" /\
  forallb (fun x => negb (Model.dial_accepted (snd x))) dial_codes = true.
Proof. repeat split; reflexivity. Qed.

(* the SubstreamOpenFailure kinds of the harness (verif_open_failure_error) and what
   on_substream_open_failure + RejectReason::from make of them: the model's openfail_code *)
Definition open_failure_kinds : list (N * string * N) :=
  [(0%N, "ConnectionClosed", Model.E_SUBSTREAM);
   (1%N, "NegotiationError(MultistreamSelectError(Failed))", Model.E_UNSUPPORTED);
   (2%N, "IoError(NotConnected)", Model.E_CONN_CLOSED);
   (3%N, "ChannelClogged", Model.E_SUBSTREAM);
   (4%N, "PeerDoesNotExist", Model.E_SUBSTREAM);
   (5%N, "IoError(BrokenPipe)", Model.E_SUBSTREAM);
   (6%N, "YamuxError(NoMoreStreamIds)", Model.E_SUBSTREAM);
   (7%N, "ReadFailure", Model.E_SUBSTREAM);
   (8%N, "WriteFailure", Model.E_SUBSTREAM);
   (9%N, "NegotiationError(Timeout)", Model.E_SUBSTREAM);
   (10%N, "YamuxError(Io(NotConnected))", Model.E_CONN_CLOSED);
   (11%N, "NegotiationError(IoError(NotConnected))", Model.E_CONN_CLOSED);
   (12%N, "NegotiationError(MultistreamSelectError(ProtocolError(IoError(NotConnected))))", Model.E_CONN_CLOSED);
   (13%N, "NegotiationError(MultistreamSelectError(ProtocolError(IoError(BrokenPipe))))", Model.E_SUBSTREAM);
   (14%N, "YamuxError(Io(BrokenPipe))", Model.E_SUBSTREAM)].

Lemma open_failure_kinds_model :
  forallb (fun x => N.eqb (Model.openfail_code (fst (fst x))) (snd x)) open_failure_kinds = true /\
  List.length (filter (fun x => N.eqb (snd x) Model.E_CONN_CLOSED) open_failure_kinds) = 4%nat /\
  List.length (filter (fun r => String.eqb (snd r) "ConnectionClosed") x_reject_from) = 4%nat.
Proof. repeat split; reflexivity. Qed.
