(* C13 — two nodes over the C04 substream contract: proofs. *)
From Coq Require Import List NArith Bool Lia.
From V.C04 Require Model Proofs Properties.
From V.C13 Require Import Model Proofs Inbound TwoNode.
Import ListNotations.
Open Scope N_scope.

(* ------------------------------------------------------------------ the carrier contract (C04) *)

Lemma first_outcome_frame os m : first_outcome os = RxFrame m -> In m (V.C04.Model.frames_of os).
Proof.
  induction os as [|o os IH]; cbn [first_outcome]; [discriminate|].
  destruct o; try discriminate; cbn [V.C04.Model.frames_of flat_map].
  - exact IH.
  - intros E. injection E as ->. left. reflexivity.
Qed.

(* first_rx is the first thing other than Pending that run_reader returns *)
Lemma first_rx_spec fuel : forall c st wire script,
  first_rx fuel c st wire script = first_outcome (fst (fst (fst (V.C04.Model.run_reader fuel c st wire script)))).
Proof.
  induction fuel as [|f IH]; intros c st wire script; cbn [first_rx V.C04.Model.run_reader]; [reflexivity|].
  destruct (V.C04.Model.poll_next c st wire script) as [[[o st1] w1] s1].
  destruct o; rewrite ?IH; try reflexivity;
    destruct (V.C04.Model.run_reader f c st1 w1 s1) as [[[os st2] w2] s2]; reflexivity.
Qed.

Lemma lenN_bytes_of l t : V.C04.Model.lenN (bytes_of l t) = l.
Proof.
  unfold V.C04.Model.lenN, bytes_of.
  assert (H : forall m v, length (bytes_from m v) = m) by (induction m; intros; cbn; auto).
  rewrite H. lia.
Qed.

(* Whatever prefix of the frame of payload (l, t) has arrived, under whatever fragmentation, stalls,
   end of stream or read errors: if the reader returns a frame at all, it is exactly that payload.
   This is C04_reader_roundtrip, instantiated with the one message a request-response substream
   carries in each direction. *)
Lemma deliver_contract cf l t cut script m :
  deliver (codec_of cf) (firstn cut (frame_for cf l t)) script = RxFrame m -> m = bytes_of l t.
Proof.
  unfold deliver, frame_for. intros H. rewrite first_rx_spec in H.
  set (wire := firstn cut _) in *.
  destruct (V.C04.Model.run_reader _ _ _ wire _) as [[[os st'] wire'] script'] eqn:R.
  cbn [fst] in H. apply first_outcome_frame in H.
  destruct ((l <=? max_size cf) && (l <? V.C04.Model.USIZE_MOD)) eqn:G.
  - apply andb_prop in G. destruct G as [G1 G2]. apply N.leb_le in G1. apply N.ltb_lt in G2.
    assert (Fi : V.C04.Proofs.Fits (codec_of cf) [bytes_of l t]).
    { constructor; [|constructor]. unfold codec_of, V.C04.Model.fitsb. rewrite lenN_bytes_of. split; [apply N.leb_le; exact G1|exact G2]. }
    destruct (V.C04.Properties.C04_reader_roundtrip (codec_of cf) [bytes_of l t] wire
                (skipn cut (V.C04.Model.frame (codec_of cf) (bytes_of l t))) (full_script script) (S (length (full_script script))) os st' wire' script' Fi) as (_ & _ & rest & E & _).
    + unfold wire. rewrite firstn_skipn. unfold V.C04.Model.wire_of. cbn [map concat]. rewrite app_nil_r. reflexivity.
    + exact R.
    + destruct (V.C04.Model.frames_of os) as [|f fs]; [destruct H|]. cbn [app] in E. injection E as <- E.
      destruct fs; [|discriminate]. destruct H as [<-|[]]. reflexivity.
  - assert (Fi : V.C04.Proofs.Fits (codec_of cf) []) by constructor.
    destruct (V.C04.Properties.C04_reader_roundtrip (codec_of cf) [] wire [] (full_script script) (S (length (full_script script))) os st' wire' script' Fi) as (_ & _ & rest & E & _).
    + unfold wire. rewrite firstn_nil. reflexivity.
    + exact R.
    + destruct (V.C04.Model.frames_of os); [destruct H|discriminate].
Qed.

Lemma deliver_nil cf script m : deliver (codec_of cf) [] script <> RxFrame m.
Proof.
  intros H. unfold deliver in H. rewrite first_rx_spec in H.
  destruct (V.C04.Model.run_reader _ _ _ [] _) as [[[os st'] wire'] script'] eqn:R.
  cbn [fst] in H. apply first_outcome_frame in H.
  assert (Fi : V.C04.Proofs.Fits (codec_of cf) []) by constructor.
  destruct (V.C04.Properties.C04_reader_roundtrip (codec_of cf) [] [] [] (full_script script)
              (S (length (full_script script))) os st' wire' script' Fi eq_refl R) as (_ & _ & rest & E & _).
  destruct (V.C04.Model.frames_of os); [destruct H|discriminate].
Qed.

(* ------------------------------------------------------------------ each node of the composed system is a single-node run *)

Definition evs_of (h : hist) : list ev := map (fun x => fst (fst x)) h.

Definition NodeOK (n : node) : Prop :=
  n_log n = run_steps (n_cf n) (init_pst, init_env) (evs_of (n_log n)) /\
  n_st n = fst (run (n_cf n) (init_pst, init_env) (evs_of (n_log n))).

Lemma run_steps_snoc cf0 evs : forall st e,
  run_steps cf0 st (evs ++ [e]) =
  run_steps cf0 st evs ++ [let '(st2, o, tg) := step cf0 (fst (run cf0 st evs)) e in (e, o, tg)] /\
  fst (run cf0 st (evs ++ [e])) = fst (fst (step cf0 (fst (run cf0 st evs)) e)).
Proof.
  induction evs as [|e0 evs IH]; intros st e; cbn [app run_steps run fst].
  - destruct (step cf0 st e) as [[st2 o] tg]. cbn. split; reflexivity.
  - destruct (step cf0 st e0) as [[st1 o1] tg1]. destruct (IH st1 e) as [A B].
    rewrite A. destruct (run cf0 st1 (evs ++ [e])) as [stx ox]. destruct (run cf0 st1 evs) as [sty oy].
    cbn [fst] in *. split; [reflexivity|exact B].
Qed.

Lemma node0_ok cf0 : NodeOK (node0 cf0).
Proof. split; reflexivity. Qed.

Lemma node_step_ok n e : NodeOK n -> NodeOK (node_step n e).
Proof.
  intros [A B]. unfold node_step. destruct (n_dead n); [split; assumption|].
  destruct (step (n_cf n) (n_st n) e) as [[st' o] tg] eqn:S. unfold NodeOK. cbn [n_log n_cf n_st].
  unfold evs_of. rewrite map_app. cbn [map fst]. fold (evs_of (n_log n)).
  destruct (run_steps_snoc (n_cf n) (evs_of (n_log n)) (init_pst, init_env) e) as [C D].
  rewrite C, D, <- A, <- B, S. split; reflexivity.
Qed.

Inductive node_move (n : node) : node -> Prop :=
| nm_same : node_move n n
| nm_step e : node_move n (node_step n e)
| nm_dead : node_move n (mkNode (n_cf n) (n_st n) (n_log n) true).

Lemma nd_set_same x s n : nd x (set_nd x s n) = n.
Proof. destruct x; reflexivity. Qed.
Lemma nd_set_other x s n : nd (negb x) (set_nd x s n) = nd (negb x) s.
Proof. destruct x; reflexivity. Qed.
Lemma nd_set_other' x s n : nd x (set_nd (negb x) s n) = nd x s.
Proof. destruct x; reflexivity. Qed.
Lemma lks_set x s n : lks (set_nd x s n) = lks s.
Proof. destruct x; reflexivity. Qed.
Lemma nd_mk x s l r p : nd x (mkSys (nA s) (nB s) l r p) = nd x s.
Proof. destruct x; reflexivity. Qed.

Lemma bool_cases (x y : bool) : y = x \/ y = negb x.
Proof. destruct x, y; auto. Qed.

Lemma step2_nodes s m x : node_move (nd x s) (nd x (step2 s m)).
Proof.
  destruct m as [y e|a k gq gr neg|i cut script|i cut script|y]; cbn [step2].
  - destruct (blocked s y e); [constructor|].
    assert (H1 : forall z, node_move (nd z s) (nd z (set_nd y s (node_step (nd y s) e)))).
    { intros z. destruct (bool_cases z y) as [-> | ->]; [rewrite nd_set_same; constructor|].
      rewrite nd_set_other'. constructor. }
    destruct e; try apply H1.
    destruct (bool_cases x y) as [-> | ->].
    + rewrite nd_set_other', nd_set_same. constructor.
    + rewrite negb_involutive, nd_set_same, nd_set_other'. constructor.
  - destruct (n_dead (nd a s)); [constructor|].
    destruct (nth_mod k _) as [[sid p]|]; [|constructor].
    destruct (conn_of 0 _); [destruct ((p =? 0) && negb (n_dead (nd (negb a) s)))|].
    + rewrite nd_mk. destruct (bool_cases x a) as [-> | ->].
      * rewrite nd_set_other', nd_set_same. constructor.
      * rewrite negb_involutive, nd_set_same. constructor.
    + destruct (bool_cases x a) as [-> | ->]; [rewrite nd_set_same|rewrite nd_set_other']; constructor.
    + destruct (bool_cases x a) as [-> | ->]; [rewrite nd_set_same|rewrite nd_set_other']; constructor.
  - destruct (nth_idx i (lks s)) as [[j k]|]; [|constructor]. destruct (memN j (reqd s)); [constructor|].
    rewrite nd_mk. destruct (bool_cases x (k_a k)) as [-> | ->]; [rewrite nd_set_other'|rewrite negb_involutive, nd_set_same]; constructor.
  - destruct (nth_idx i (lks s)) as [[j k]|]; [|constructor]. destruct (memN j (respd s)); [constructor|].
    destruct (negb _); [constructor|].
    rewrite nd_mk. destruct (bool_cases x (k_a k)) as [-> | ->]; [rewrite nd_set_same|rewrite nd_set_other']; constructor.
  - destruct (bool_cases x y) as [-> | ->]; [rewrite nd_set_same; constructor|].
    rewrite nd_set_other'. constructor.
Qed.

Lemma node_move_ok n n' : node_move n n' -> NodeOK n -> NodeOK n'.
Proof. intros [|e|] H; [exact H|apply node_step_ok; exact H|exact H]. Qed.

Lemma node_move_cf n n' : node_move n n' -> n_cf n' = n_cf n.
Proof.
  intros [|e|]; try reflexivity. unfold node_step. destruct (n_dead n); [reflexivity|].
  destruct (step _ _ _) as [[st' o] tg]. reflexivity.
Qed.

Lemma run2_nodes ms : forall s x, NodeOK (nd x s) -> NodeOK (nd x (run2 s ms)) /\ n_cf (nd x (run2 s ms)) = n_cf (nd x s).
Proof.
  induction ms as [|m ms IH]; intros s x H; cbn [run2 fold_left]; [split; [exact H|reflexivity]|].
  pose proof (step2_nodes s m x) as Mv.
  destruct (IH (step2 s m) x (node_move_ok _ _ Mv H)) as [A B]. split; [exact A|].
  unfold run2 in B. rewrite B. exact (node_move_cf _ _ Mv).
Qed.

(* Every node of the composed system is a run of the single-node model (from its initial state,
   over the stimuli recorded in its log): every single-node theorem holds for either node. *)
Theorem node_projection cfA cfB ms (x : bool) :
  let s := run2 (sys0 cfA cfB) ms in
  let cfx := if x then cfB else cfA in
  log x s = run_steps cfx (init_pst, init_env) (evs_of (log x s)).
Proof.
  intros s cfx. assert (H0 : NodeOK (nd x (sys0 cfA cfB))) by (destruct x; apply node0_ok).
  destruct (run2_nodes ms _ x H0) as [[A _] B]. unfold log. fold s in A, B.
  rewrite B in A. destruct x; exact A.
Qed.

(* ------------------------------------------------------------------ the coupling invariant *)

Definition nchn (x : bool) (s : sys) : N := nch (env_of x s).

(* what justifies a response / request read on a linked carrier: the other node wrote it *)
Definition resp_just (s : sys) (x : bool) (c l t : N) : Prop :=
  exists k l' t', In k (lks s) /\ k_a k = x /\ k_cq k = c /\
                  In (OWireR (k_cr k) l' t') (outs (negb x) s) /\ (l, t) = describe (bytes_of l' t').
Definition req_just (s : sys) (x : bool) (c l t : N) : Prop :=
  exists k l' t', In k (lks s) /\ k_a k = negb x /\ k_cr k = c /\
                  In (OWire (k_cq k) l' t') (outs (negb x) s) /\ (l, t) = describe (bytes_of l' t').

Record Coupled (s : sys) : Prop := mkCp {
  cp_lt : forall k, In k (lks s) -> k_cq k < nchn (k_a k) s /\ k_cr k < nchn (negb (k_a k)) s;
  cp_inj_r : forall k1 k2, In k1 (lks s) -> In k2 (lks s) -> k_a k1 = k_a k2 -> k_cr k1 = k_cr k2 -> k1 = k2;
  cp_resp : forall x k0 l t o c, In (ERespond k0 l t, o, Some c) (log x s) -> linked s x c = true -> resp_just s x c l t;
  cp_req : forall x k0 l t o c, In (EInReq k0 l t, o, Some c) (log x s) -> linked s x c = true -> req_just s x c l t;
  cp_tg : forall x e o c, In (e, o, Some c) (log x s) -> reads e = true -> c < nchn x s
}.

Lemma coupled0 cfA cfB : Coupled (sys0 cfA cfB).
Proof.
  constructor; cbn.
  - intros k [].
  - intros k1 k2 [].
  - intros x k0 l t o c H. destruct x; destruct H.
  - intros x k0 l t o c H. destruct x; destruct H.
  - intros x e o c H. destruct x; destruct H.
Qed.

(* the step a live node takes *)
Lemma node_step_cases n e :
  (n_dead n = true /\ node_step n e = n) \/
  (n_dead n = false /\ exists st' o tg, step (n_cf n) (n_st n) e = (st', o, tg) /\
                                        node_step n e = mkNode (n_cf n) st' (n_log n ++ [(e, o, tg)]) false).
Proof.
  unfold node_step. destruct (n_dead n); [left; auto|right]. split; [reflexivity|].
  destruct (step _ _ _) as [[st' o] tg]. exists st', o, tg. auto.
Qed.

Lemma step_nch cf0 st e : nch (snd st) <= nch (snd (fst (fst (step cf0 st e)))).
Proof. destruct st as [s en]. exact (sf_nch _ _ _ _ _ _ (step_facts cf0 s en e)). Qed.

(* a read-side stimulus resolves to an existing carrier, the one read_target names *)
Lemma step_read_target cf0 s en e c :
  reads e = true -> snd (step cf0 (s, en) e) = Some c -> c < nch en /\ read_target en e = Some c.
Proof.
  intros R. destruct e; try discriminate; cbn [step read_target].
  all: destruct (chans en) as [|ch0 chs] eqn:CH; cbn [snd]; [discriminate|].
  all: destruct (nth_error _ _) as [ch|] eqn:NE; cbn [snd].
  all: try (intros H; discriminate).
  all: repeat match goal with |- context [if ?b then _ else _] => destruct b end; cbn [snd].
  all: try (destruct (fut_read _ _ _)); try (destruct (h_inread _ _ _ _ _)); cbn [snd].
  all: intros H; injection H as <-; (split; [exact (mod_lt_nch k en ch0 chs CH)|reflexivity]).
Qed.

Lemma in_snoc {A} (x y : A) l : In x (l ++ [y]) -> In x l \/ x = y.
Proof. intros H. apply in_app_or in H. destruct H as [H|[H|[]]]; auto. Qed.

Lemma linked_set s x n y c : linked (set_nd x s n) y c = linked s y c.
Proof. unfold linked. rewrite lks_set. reflexivity. Qed.

Lemma Coupled_ext s s' :
  (forall y, n_st (nd y s') = n_st (nd y s) /\ n_log (nd y s') = n_log (nd y s)) -> lks s' = lks s -> Coupled s -> Coupled s'.
Proof.
  intros Hs Lk [C1 C2 C3 C4 C5].
  assert (Hl : forall y, log y s' = log y s) by (intros y; unfold log; apply Hs).
  assert (Ho : forall y, outs y s' = outs y s) by (intros y; unfold outs; rewrite Hl; reflexivity).
  assert (Hn : forall y, nchn y s' = nchn y s) by (intros y; unfold nchn, env_of; rewrite (proj1 (Hs y)); reflexivity).
  assert (Hk : forall y c, linked s' y c = linked s y c) by (intros; unfold linked; rewrite Lk; reflexivity).
  constructor.
  - intros k H. rewrite Lk in H. rewrite !Hn. exact (C1 k H).
  - rewrite Lk. exact C2.
  - intros y k0 l t o c H L. rewrite Hl in H. rewrite Hk in L.
    destruct (C3 y k0 l t o c H L) as (k & l' & t' & A1 & A2 & A3 & A4 & A5). exists k, l', t'. rewrite Lk, Ho. auto.
  - intros y k0 l t o c H L. rewrite Hl in H. rewrite Hk in L.
    destruct (C4 y k0 l t o c H L) as (k & l' & t' & A1 & A2 & A3 & A4 & A5). exists k, l', t'. rewrite Lk, Ho. auto.
  - intros y e o c H R. rewrite Hl in H. rewrite Hn. exact (C5 y e o c H R).
Qed.

(* One node takes a step, the links stay: the invariant is kept provided a response / request read
   on a linked carrier in that step is justified. *)
Lemma coupled_node_step s x e :
  Coupled s ->
  (forall st' o c k0 l t, step (n_cf (nd x s)) (n_st (nd x s)) e = (st', o, Some c) -> linked s x c = true ->
                          (e = ERespond k0 l t -> resp_just s x c l t) /\ (e = EInReq k0 l t -> req_just s x c l t)) ->
  Coupled (set_nd x s (node_step (nd x s) e)).
Proof.
  intros C J. set (s' := set_nd x s (node_step (nd x s) e)).
  destruct (node_step_cases (nd x s) e) as [[_ E]|[_ (st' & o & tg & S & E)]].
  { (* dead: nothing changes *)
    apply (Coupled_ext s); [|apply lks_set|exact C].
    intros y. unfold s'. rewrite E. destruct (bool_cases x y) as [-> | ->]; [|rewrite nd_set_other; auto].
    rewrite nd_set_same. auto. }
  (* the node of x has a new log entry; the other node is unchanged *)
  assert (Hx : nd x s' = mkNode (n_cf (nd x s)) st' (n_log (nd x s) ++ [(e, o, tg)]) false)
    by (unfold s'; rewrite nd_set_same; exact E).
  assert (Hy : nd (negb x) s' = nd (negb x) s) by (unfold s'; apply nd_set_other).
  assert (Lk : lks s' = lks s) by (unfold s'; apply lks_set).
  assert (Ln : forall y c, linked s' y c = linked s y c) by (intros; unfold s'; apply linked_set).
  assert (Nx : nchn x s <= nchn x s').
  { unfold nchn, env_of. rewrite Hx. cbn [n_st]. pose proof (step_nch (n_cf (nd x s)) (n_st (nd x s)) e) as H.
    rewrite S in H. exact H. }
  assert (Ny : nchn (negb x) s' = nchn (negb x) s) by (unfold nchn, env_of; rewrite Hy; reflexivity).
  assert (Nall : forall y, nchn y s <= nchn y s').
  { intros y. destruct (bool_cases x y) as [-> | ->]; [exact Nx|rewrite Ny; lia]. }
  assert (Lx : log x s' = log x s ++ [(e, o, tg)]) by (unfold log; rewrite Hx; reflexivity).
  assert (Ly : log (negb x) s' = log (negb x) s) by (unfold log; rewrite Hy; reflexivity).
  assert (Oall : forall y z, In z (outs y s) -> In z (outs y s')).
  { intros y z H. unfold outs in *. destruct (bool_cases x y) as [-> | ->]; [|rewrite Ly; exact H].
    rewrite Lx, outs_of_snoc. apply in_or_app. left. exact H. }
  assert (RJ : forall y c l t, resp_just s y c l t -> resp_just s' y c l t).
  { intros y c l t (k & l' & t' & A1 & A2 & A3 & A4 & A5). exists k, l', t'. rewrite Lk. repeat split; auto. }
  assert (QJ : forall y c l t, req_just s y c l t -> req_just s' y c l t).
  { intros y c l t (k & l' & t' & A1 & A2 & A3 & A4 & A5). exists k, l', t'. rewrite Lk. repeat split; auto. }
  destruct C as [C1 C2 C3 C4 C5].
  constructor.
  - intros k Hk. rewrite Lk in Hk. destruct (C1 k Hk) as [A B].
    pose proof (Nall (k_a k)). pose proof (Nall (negb (k_a k))). lia.
  - rewrite Lk. exact C2.
  - intros y k0 l t o0 c H L. rewrite Ln in L. destruct (bool_cases x y) as [-> | ->].
    + rewrite Lx in H. apply in_snoc in H. destruct H as [H|H]; [apply RJ; exact (C3 x k0 l t o0 c H L)|].
      injection H as <- <- <-. apply RJ. exact (proj1 (J st' o0 c k0 l t S L) eq_refl).
    + rewrite Ly in H. apply RJ. exact (C3 _ k0 l t o0 c H L).
  - intros y k0 l t o0 c H L. rewrite Ln in L. destruct (bool_cases x y) as [-> | ->].
    + rewrite Lx in H. apply in_snoc in H. destruct H as [H|H]; [apply QJ; exact (C4 x k0 l t o0 c H L)|].
      injection H as <- <- <-. apply QJ. exact (proj2 (J st' o0 c k0 l t S L) eq_refl).
    + rewrite Ly in H. apply QJ. exact (C4 _ k0 l t o0 c H L).
  - intros y e0 o0 c H R. destruct (bool_cases x y) as [-> | ->].
    + rewrite Lx in H. apply in_snoc in H. destruct H as [H|H]; [specialize (C5 x e0 o0 c H R); lia|].
      injection H as <- <- <-.
      assert (A : c < nchn x s).
      { unfold nchn, env_of. clear - S R. destruct (n_st (nd x s)) as [ps en]. cbn [snd].
        assert (T : snd (step (n_cf (nd x s)) (ps, en) e0) = Some c) by (rewrite S; reflexivity).
        exact (proj1 (step_read_target _ _ _ _ _ R T)). }
      lia.
    + rewrite Ly in H. specialize (C5 _ e0 o0 c H R). rewrite Ny. exact C5.
Qed.

(* ---- the moves *)

Lemma coupled_loc s x e : Coupled s -> blocked s x e = false -> Coupled (set_nd x s (node_step (nd x s) e)).
Proof.
  intros C B. apply coupled_node_step; [exact C|].
  intros st' o c k0 l t S L.
  assert (Hr : reads e = true -> False).
  { intros R. unfold blocked, env_of in B. destruct (n_st (nd x s)) as [ps en]. cbn [snd] in B.
    assert (T : snd (step (n_cf (nd x s)) (ps, en) e) = Some c) by (rewrite S; reflexivity).
    destruct (step_read_target _ _ _ _ _ R T) as [_ E]. rewrite E in B. congruence. }
  split; intros ->; destruct (Hr eq_refl).
Qed.

Lemma written_cases cf0 h c resp :
  written cf0 h c resp = [] \/
  exists l t, written cf0 h c resp = frame_for cf0 l t /\ In (if resp then OWireR c l t else OWire c l t) (outs_of h).
Proof.
  unfold written. destruct (find _ _) as [x|] eqn:F; [|left; reflexivity].
  apply find_some in F. destruct F as [Hin P].
  destruct x; try (left; reflexivity); right; exists len, tag; (split; [reflexivity|]);
    unfold is_wire in P; destruct resp; cbn in P; try discriminate; apply N.eqb_eq in P; subst; exact Hin.
Qed.

Lemma deliver_written cf0 h c resp cut script m :
  deliver (codec_of cf0) (firstn cut (written cf0 h c resp)) script = RxFrame m ->
  exists l t, In (if resp then OWireR c l t else OWire c l t) (outs_of h) /\ m = bytes_of l t.
Proof.
  intros H. destruct (written_cases cf0 h c resp) as [E|(l & t & E & Hin)]; rewrite E in H.
  - rewrite firstn_nil in H. destruct (deliver_nil _ _ _ H).
  - exists l, t. split; [exact Hin|exact (deliver_contract _ _ _ _ _ _ H)].
Qed.

Lemma nth_idx_in {A} i (l : list A) j x : nth_idx i l = Some (j, x) -> In x l.
Proof.
  unfold nth_idx. destruct l as [|a l]; [discriminate|]. destruct (nth_error _ _) eqn:E; [|discriminate].
  intros H. injection H as _ <-. exact (nth_error_In _ _ E).
Qed.

Lemma read_target_small en k c : c < nch en -> k = c ->
  match chans en with [] => None | _ => Some (k mod N.of_nat (length (chans en))) end = Some c.
Proof.
  unfold nch. intros L ->. destruct (chans en) as [|a l] eqn:E; [cbn in L; lia|].
  rewrite N.mod_small by exact L. reflexivity.
Qed.

Lemma coupled_mk s r p : Coupled s -> Coupled (mkSys (nA s) (nB s) (lks s) r p).
Proof. apply Coupled_ext; [intros y; destruct y; auto|reflexivity]. Qed.

Lemma coupled_req s j k cut script :
  Coupled s -> In k (lks s) ->
  let q := nd (k_a k) s in
  let r := nd (negb (k_a k)) s in
  let full := written (n_cf r) (n_log q) (k_cq k) false in
  let wire := firstn (N.to_nat (N.min cut (V.C04.Model.lenN full))) full in
  let e := match deliver (codec_of (n_cf r)) wire script with
           | RxFrame m => EInReq (k_cr k) (fst (describe m)) (snd (describe m))
           | _ => EEof (k_cr k)
           end in
  let s1 := set_nd (negb (k_a k)) s (node_step r e) in
  Coupled (mkSys (nA s1) (nB s1) (lks s1) (reqd s1 ++ [j]) (respd s1)).
Proof.
  intros C Hk q r full wire e s1. apply coupled_mk. unfold s1, r. apply coupled_node_step; [exact C|].
  intros st' o c k0 l t S L. fold r in S. fold q r full wire e in S.
  split; intros E; unfold e in E.
  - destruct (deliver _ _ _); discriminate.
  - destruct (deliver _ wire script) as [m| | |] eqn:D; try discriminate.
    injection E as <- <- <-.
    destruct (deliver_written _ _ _ _ _ _ _ D) as (l' & t' & Hin & ->).
    assert (Ec : c = k_cr k).
    { destruct (cp_lt _ C k Hk) as [_ Lt]. unfold nchn, env_of in Lt. fold r in Lt.
      destruct (n_st r) as [ps en] eqn:ST. cbn [snd] in Lt.
      assert (T : snd (step (n_cf r) (ps, en) (EInReq (k_cr k) (fst (describe (bytes_of l' t'))) (snd (describe (bytes_of l' t'))))) = Some c)
        by (unfold e in S; rewrite S; reflexivity).
      pose proof (fun R => step_read_target _ _ _ _ _ R T) as X. destruct (X eq_refl) as [_ RT]. cbn [read_target] in RT.
      rewrite (read_target_small en (k_cr k) (k_cr k) Lt eq_refl) in RT. congruence. }
    subst c. exists k, l', t'. rewrite negb_involutive. repeat split; auto.
Qed.

Lemma coupled_resp s j k cut script :
  Coupled s -> In k (lks s) ->
  let q := nd (k_a k) s in
  let r := nd (negb (k_a k)) s in
  let full := written (n_cf q) (n_log r) (k_cr k) true in
  let wire := firstn (N.to_nat (N.min cut (V.C04.Model.lenN full))) full in
  let e := match deliver (codec_of (n_cf q)) wire script with
           | RxFrame m => ERespond (k_cq k) (fst (describe m)) (snd (describe m))
           | _ => EEof (k_cq k)
           end in
  let s1 := set_nd (k_a k) s (node_step q e) in
  Coupled (mkSys (nA s1) (nB s1) (lks s1) (reqd s1) (respd s1 ++ [j])).
Proof.
  intros C Hk q r full wire e s1. apply coupled_mk. unfold s1, q. apply coupled_node_step; [exact C|].
  intros st' o c k0 l t S L. fold q in S. fold r full wire e in S.
  split; intros E; unfold e in E.
  - destruct (deliver _ wire script) as [m| | |] eqn:D; try discriminate.
    injection E as <- <- <-.
    destruct (deliver_written _ _ _ _ _ _ _ D) as (l' & t' & Hin & ->).
    assert (Ec : c = k_cq k).
    { destruct (cp_lt _ C k Hk) as [Lt _]. unfold nchn, env_of in Lt. fold q in Lt.
      destruct (n_st q) as [ps en] eqn:ST. cbn [snd] in Lt.
      assert (T : snd (step (n_cf q) (ps, en) (ERespond (k_cq k) (fst (describe (bytes_of l' t'))) (snd (describe (bytes_of l' t'))))) = Some c)
        by (unfold e in S; rewrite S; reflexivity).
      pose proof (fun R => step_read_target _ _ _ _ _ R T) as X. destruct (X eq_refl) as [_ RT]. cbn [read_target] in RT.
      rewrite (read_target_small en (k_cq k) (k_cq k) Lt eq_refl) in RT. congruence. }
    subst c. exists k, l', t'. repeat split; auto.
  - destruct (deliver _ _ _); discriminate.
Qed.

Lemma opened_nch cf0 ps en k g neg sid p :
  nth_mod k (opens en) = Some (sid, p) ->
  nch (snd (fst (fst (step cf0 (ps, en) (EOpened k g neg))))) = nch en + 1.
Proof.
  intros E. cbn [step]. rewrite E. destruct (h_opened _ _ _ _ _ _ _) as [s1 o]. cbn [fst snd].
  unfold nch. cbn [chans]. rewrite app_length. cbn [length]. lia.
Qed.

Lemma inopen_nch cf0 ps en p g neg b :
  conn_of p en = Some b ->
  nch (snd (fst (fst (step cf0 (ps, en) (EInOpen p g neg))))) = nch en + 1.
Proof.
  intros E. cbn [step]. rewrite E. destruct (h_inopen _ _ _ _ _) as [s1 o]. cbn [fst snd].
  unfold nch. cbn [chans]. rewrite app_length. cbn [length]. lia.
Qed.

Lemma linked_app s a cq cr r p y c :
  linked (mkSys (nA s) (nB s) (lks s ++ [mkLink a cq cr]) r p) y c =
  linked s y c || (if Bool.eqb a y then cq =? c else cr =? c).
Proof. unfold linked. cbn [lks]. rewrite existsb_app. cbn [existsb k_a k_cq k_cr]. rewrite orb_false_r. reflexivity. Qed.

Lemma coupled_add_link s a cq cr r p :
  Coupled s -> cq < nchn a s -> cr < nchn (negb a) s ->
  (forall e o c, In (e, o, Some c) (log a s) -> reads e = true -> c <> cq) ->
  (forall e o c, In (e, o, Some c) (log (negb a) s) -> reads e = true -> c <> cr) ->
  (forall k, In k (lks s) -> k_a k = a -> k_cr k <> cr) ->
  Coupled (mkSys (nA s) (nB s) (lks s ++ [mkLink a cq cr]) r p).
Proof.
  intros [C1 C2 C3 C4 C5] Lq Lr Fq Fr Fk. set (s' := mkSys _ _ _ _ _).
  assert (Hl : forall y, log y s' = log y s) by (intros []; reflexivity).
  assert (Ho : forall y, outs y s' = outs y s) by (intros []; reflexivity).
  assert (Hn : forall y, nchn y s' = nchn y s) by (intros []; reflexivity).
  assert (Old : forall y e o c, In (e, o, Some c) (log y s) -> reads e = true -> linked s' y c = true -> linked s y c = true).
  { intros y e o c H R L. unfold s' in L. rewrite linked_app in L. apply orb_prop in L. destruct L as [L|L]; [exact L|].
    exfalso. destruct (Bool.eqb a y) eqn:E.
    - apply eqb_prop in E. subst y. apply N.eqb_eq in L. exact (Fq e o c H R (eq_sym L)).
    - assert (y = negb a) by (destruct a, y; try discriminate; reflexivity). subst y.
      apply N.eqb_eq in L. exact (Fr e o c H R (eq_sym L)). }
  constructor.
  - intros k Hk. rewrite !Hn. cbn [lks s'] in Hk. apply in_app_or in Hk. destruct Hk as [Hk|[<-|[]]]; [exact (C1 k Hk)|].
    cbn [k_a k_cq k_cr]. auto.
  - intros k1 k2 H1 H2 Ea Er. cbn [lks s'] in H1, H2. apply in_app_or in H1. apply in_app_or in H2.
    destruct H1 as [H1|[<-|[]]], H2 as [H2|[<-|[]]].
    + exact (C2 k1 k2 H1 H2 Ea Er).
    + cbn [k_a k_cr] in *. destruct (Fk k1 H1 Ea Er).
    + cbn [k_a k_cr] in *. destruct (Fk k2 H2 (eq_sym Ea) (eq_sym Er)).
    + reflexivity.
  - intros y k0 l t o c H L. rewrite Hl in H. specialize (Old y _ o c H eq_refl L).
    destruct (C3 y k0 l t o c H Old) as (k & l' & t' & A1 & A2 & A3 & A4 & A5). exists k, l', t'. rewrite Ho.
    repeat split; auto. cbn [lks s']. apply in_or_app. left. exact A1.
  - intros y k0 l t o c H L. rewrite Hl in H. specialize (Old y _ o c H eq_refl L).
    destruct (C4 y k0 l t o c H Old) as (k & l' & t' & A1 & A2 & A3 & A4 & A5). exists k, l', t'. rewrite Ho.
    repeat split; auto. cbn [lks s']. apply in_or_app. left. exact A1.
  - intros y e o c H R. rewrite Hl in H. rewrite Hn. exact (C5 y e o c H R).
Qed.

Lemma coupled_exit s x :
  Coupled s -> Coupled (set_nd x s (mkNode (n_cf (nd x s)) (n_st (nd x s)) (n_log (nd x s)) true)).
Proof.
  apply Coupled_ext; [|apply lks_set]. intros y. destruct (bool_cases x y) as [-> | ->].
  - rewrite nd_set_same. auto.
  - rewrite nd_set_other. auto.
Qed.

(* a step that is not a read adds no read entry *)
Lemma coupled_quiet_step s x e :
  Coupled s -> reads e = false -> Coupled (set_nd x s (node_step (nd x s) e)).
Proof.
  intros C R. apply coupled_node_step; [exact C|]. intros st' o c k0 l t _ _.
  split; intros ->; discriminate.
Qed.

Lemma node_step_live n e :
  n_dead n = false ->
  exists st' o tg, step (n_cf n) (n_st n) e = (st', o, tg) /\
                   node_step n e = mkNode (n_cf n) st' (n_log n ++ [(e, o, tg)]) false.
Proof. intros D. destruct (node_step_cases n e) as [[D' _]|[_ H]]; [congruence|exact H]. Qed.

Lemma coupled_open s a k gq gr neg : Coupled s -> Coupled (step2 s (MOpen a k gq gr neg)).
Proof.
  intros C. cbn [step2]. destruct (n_dead (nd a s)) eqn:Dq; [exact C|].
  destruct (nth_mod k _) as [[sid p]|] eqn:NM; [|exact C].
  set (q := nd a s) in *. set (r := nd (negb a) s).
  set (s1 := set_nd a s (node_step q (EOpened k gq neg))).
  assert (C1 : Coupled s1) by (apply coupled_quiet_step; [exact C|reflexivity]).
  destruct (conn_of 0 (snd (n_st r))) as [b|] eqn:CO; [|exact C1].
  destruct ((p =? 0) && negb (n_dead r)) eqn:G; [|exact C1].
  apply andb_prop in G. destruct G as [_ Dr]. apply negb_true_iff in Dr.
  assert (Er : nd (negb a) s1 = r) by (unfold s1; apply nd_set_other).
  set (s2 := set_nd (negb a) s1 (node_step r (EInOpen 0 gr neg))).
  assert (C2 : Coupled s2).
  { unfold s2. rewrite <- Er. apply coupled_quiet_step; [exact C1|reflexivity]. }
  destruct (node_step_live q (EOpened k gq neg) Dq) as (stq & oq & tgq & Sq & Eq).
  destruct (node_step_live r (EInOpen 0 gr neg) Dr) as (str & or & tgr & Sr & Eqr).
  assert (Nq : nd a s2 = mkNode (n_cf q) stq (n_log q ++ [(EOpened k gq neg, oq, tgq)]) false).
  { unfold s2. rewrite nd_set_other'. unfold s1. rewrite nd_set_same. exact Eq. }
  assert (Nr : nd (negb a) s2 = mkNode (n_cf r) str (n_log r ++ [(EInOpen 0 gr neg, or, tgr)]) false).
  { unfold s2. rewrite nd_set_same. exact Eqr. }
  assert (Hq : nchn a s2 = nch (snd (n_st q)) + 1).
  { unfold nchn, env_of. rewrite Nq. cbn [n_st]. destruct (n_st q) as [ps en] eqn:ST. cbn [snd] in *.
    pose proof (opened_nch (n_cf q) ps en k gq neg sid p NM) as H. rewrite Sq in H. exact H. }
  assert (Hr : nchn (negb a) s2 = nch (snd (n_st r)) + 1).
  { unfold nchn, env_of. rewrite Nr. cbn [n_st]. destruct (n_st r) as [ps en] eqn:ST. cbn [snd] in *.
    pose proof (inopen_nch (n_cf r) ps en 0 gr neg b CO) as H. rewrite Sr in H. exact H. }
  assert (Lk2 : lks s2 = lks s) by (unfold s2, s1; rewrite !lks_set; reflexivity).
  apply coupled_add_link; [exact C2|rewrite Hq; unfold nch; lia|rewrite Hr; unfold nch; lia| | |].
  - intros e o c H R. unfold log in H. rewrite Nq in H. cbn [n_log] in H. apply in_snoc in H. destruct H as [H|H].
    + pose proof (cp_tg _ C a e o c H R) as L. unfold nchn, env_of, nch in L. fold q in L. lia.
    + injection H as -> _ _. discriminate.
  - intros e o c H R. unfold log in H. rewrite Nr in H. cbn [n_log] in H. apply in_snoc in H. destruct H as [H|H].
    + pose proof (cp_tg _ C (negb a) e o c H R) as L. unfold nchn, env_of, nch in L. fold r in L. lia.
    + injection H as -> _ _. discriminate.
  - intros k0 Hk Ea. rewrite Lk2 in Hk. destruct (cp_lt _ C k0 Hk) as [_ L]. rewrite Ea in L.
    unfold nchn, env_of, nch in L. fold r in L. lia.
Qed.

Lemma coupled_step2 s m : Coupled s -> Coupled (step2 s m).
Proof.
  intros C. destruct m as [x e|a k gq gr neg|i cut script|i cut script|x].
  - cbn [step2]. destruct (blocked s x e) eqn:B; [exact C|].
    pose proof (coupled_loc s x e C B) as C1.
    destruct e; try exact C1. apply coupled_quiet_step; [exact C1|reflexivity].
  - apply coupled_open. exact C.
  - cbn [step2]. destruct (nth_idx i (lks s)) as [[j k]|] eqn:NI; [|exact C].
    destruct (memN j (reqd s)); [exact C|]. apply coupled_req; [exact C|exact (nth_idx_in _ _ _ _ NI)].
  - cbn [step2]. destruct (nth_idx i (lks s)) as [[j k]|] eqn:NI; [|exact C].
    destruct (memN j (respd s)); [exact C|]. destruct (negb _); [exact C|].
    apply coupled_resp; [exact C|exact (nth_idx_in _ _ _ _ NI)].
  - cbn [step2]. apply coupled_exit. exact C.
Qed.

Lemma coupled_run2 ms : forall s, Coupled s -> Coupled (run2 s ms).
Proof.
  induction ms as [|m ms IH]; intros s C; cbn [run2 fold_left]; [exact C|].
  apply IH. apply coupled_step2. exact C.
Qed.

(* ------------------------------------------------------------------ end to end *)

Lemma bytes_of_tag_mod l t : bytes_of l (t mod 256) = bytes_of l t.
Proof.
  unfold bytes_of. generalize (N.to_nat l) as n. intros n.
  assert (H : forall m a b, a mod 256 = b mod 256 -> bytes_from m a = bytes_from m b).
  { induction m as [|k IH]; intros a b E; cbn [bytes_from]; [reflexivity|]. rewrite E. f_equal. apply IH.
    rewrite <- (N.add_mod_idemp_l a), <- (N.add_mod_idemp_l b), E by lia. reflexivity. }
  apply H. apply N.mod_mod. lia.
Qed.

(* describe loses nothing: the pattern with the described length and tag is the same byte string *)
Lemma describe_bytes l t : bytes_of (fst (describe (bytes_of l t))) (snd (describe (bytes_of l t))) = bytes_of l t.
Proof.
  unfold describe. cbn [fst snd]. rewrite lenN_bytes_of.
  destruct (N.to_nat l) as [|n] eqn:E.
  - unfold bytes_of. rewrite E. reflexivity.
  - assert (H : hd 0 (bytes_of l t) = t mod 256).
    { unfold bytes_of. rewrite E. reflexivity. }
    rewrite H. apply bytes_of_tag_mod.
Qed.

Lemma linked_in s k : In k (lks s) -> linked s (k_a k) (k_cq k) = true /\ linked s (negb (k_a k)) (k_cr k) = true.
Proof.
  intros H. unfold linked. split; apply existsb_exists; exists k; (split; [exact H|]).
  - rewrite eqb_reflx. apply N.eqb_refl.
  - destruct (k_a k); cbn; apply N.eqb_refl.
Qed.

Lemma in_outs_of_split (h : hist) x :
  In x (outs_of h) -> exists pre e o tg post, h = pre ++ (e, o, tg) :: post /\ In x o.
Proof.
  intros H. unfold outs_of in H. apply in_flat_map in H. destruct H as [[[e o] tg] [Hin Hx]].
  apply in_split in Hin. destruct Hin as [pre [post E]]. exists pre, e, o, tg, post. auto.
Qed.

Section EndToEnd.
  Variables (cfA cfB : cfg) (ms : list mv).
  Let s := run2 (sys0 cfA cfB) ms.
  Let cfx (x : bool) := if x then cfB else cfA.

  Lemma proj x : log x s = run_steps (cfx x) (init_pst, init_env) (evs_of (log x s)).
  Proof. exact (node_projection cfA cfB ms x). Qed.

  Lemma coupled_s : Coupled s.
  Proof. apply coupled_run2, coupled0. Qed.

  (* The request the responder's user is handed on a linked substream is byte-identical to the
     request frame the requester node put on the other end of that substream. *)
  Theorem two_node_request_identical (b : bool) e o cr irid p lq tq :
    In (e, o, Some cr) (log b s) -> In (OReq irid p lq tq) o -> linked s b cr = true ->
    exists k l t, In k (lks s) /\ k_a k = negb b /\ k_cr k = cr /\
                  In (OWire (k_cq k) l t) (outs (negb b) s) /\ bytes_of lq tq = bytes_of l t.
  Proof.
    intros Hin Hreq L.
    assert (Hin' := Hin). rewrite proj in Hin'.
    destruct (proj2 (responder_once (cfx b) (evs_of (log b s))) e o (Some cr) irid p lq tq Hin' Hreq)
      as (k0 & c0 & rest & -> & _ & _).
    destruct (cp_req _ coupled_s b k0 lq tq o cr Hin L) as (k & l & t & A1 & A2 & A3 & A4 & A5).
    exists k, l, t. repeat split; auto.
    injection A5 as -> ->. exact (describe_bytes _ _).
  Qed.

  (* The composition theorem.  A response delivered at the requester for request id rid, whose
     substream (carrier c) is linked to the other node, is byte-identical to the payload the
     responder's user supplied with send_response for the inbound request id irid — and irid is the
     request that the responder read from the other end of that very substream, whose bytes are
     those of the request frame the requester wrote for rid. *)
  Theorem two_node_response_identical (a : bool) rid len tag c :
    In (OResp rid len tag) (outs a s) -> In (OBind c rid) (outs a s) -> linked s a c = true ->
    exists k irid l' t' p lq tq l t,
      In k (lks s) /\ k_a k = a /\ k_cq k = c /\
      supplied (log (negb a) s) irid l' t' /\ bytes_of len tag = bytes_of l' t' /\
      origin (log (negb a) s) irid (k_cr k) /\
      In (OReq irid p lq tq) (outs (negb a) s) /\
      In (OWire c l t) (outs a s) /\ bytes_of lq tq = bytes_of l t.
  Proof.
    intros Hresp Hbind L. unfold outs in Hresp, Hbind.
    destruct (in_outs_of_split _ _ Hresp) as (pre & e & o & tg & post & E & Ho).
    assert (E' := E). rewrite proj in E'.
    destruct (payload_pairing (cfx a) (evs_of (log a s)) pre e o tg post rid len tag E' Ho) as (k0 & c0 & -> & -> & Hb0 & _).
    assert (c0 = c).
    { apply (bind_injective (cfx a) (evs_of (log a s)) c0 c rid); rewrite <- proj; [|exact Hbind].
      rewrite E. unfold outs_of. rewrite flat_map_app. apply in_or_app. left. exact Hb0. }
    subst c0.
    assert (Hin : In (ERespond k0 len tag, o, Some c) (log a s)) by (rewrite E; apply in_or_app; right; left; reflexivity).
    destruct (cp_resp _ coupled_s a k0 len tag o c Hin L) as (k & l' & t' & A1 & A2 & A3 & A4 & A5).
    (* the responder: where the response frame came from *)
    unfold outs in A4. rewrite proj in A4.
    destruct (response_wire (cfx (negb a)) (evs_of (log (negb a) s)) (k_cr k) l' t' A4) as (irid & Ho1 & Hs1).
    rewrite <- proj in Ho1, Hs1.
    destruct Ho1 as (e1 & o1 & p & lq & tq & Hin1 & Hreq1).
    assert (Lr : linked s (negb a) (k_cr k) = true) by (rewrite <- A2; exact (proj2 (linked_in s k A1))).
    destruct (two_node_request_identical (negb a) e1 o1 (k_cr k) irid p lq tq Hin1 Hreq1 Lr)
      as (k2 & l & t & B1 & B2 & B3 & B4 & B5).
    rewrite negb_involutive in B2, B4.
    assert (k2 = k) by (apply (cp_inj_r _ coupled_s); auto; congruence). subst k2.
    exists k, irid, l', t', p, lq, tq, l, t. repeat split; auto.
    - injection A5 as -> ->. exact (describe_bytes _ _).
    - exists e1, o1, p, lq, tq. auto.
    - unfold outs, outs_of. apply in_flat_map. exists (e1, o1, Some (k_cr k)). auto.
    - rewrite <- A3. exact B4.
  Qed.

  (* ... and that request frame is the request the requester's user gave to send_request for rid
     (or its fallback variant): C13_request_wire holds for either node of the composed system. *)
  Theorem two_node_request_wire (a : bool) pre p d len tag fb o tg post rid c l t :
    log a s = pre ++ (ESend p d len tag fb, o, tg) :: post ->
    In (OSent rid) o -> In (OBind c rid) (outs a s) -> In (OWire c l t) (outs a s) ->
    (l, t) = (len, tag) \/ exists n fl ft, fb = Some (n, fl, ft) /\ (l, t) = (fl, ft).
  Proof.
    intros E Hs Hb Hw. unfold outs in *. rewrite proj in E, Hb, Hw.
    exact (request_wire (cfx a) (evs_of (log a s)) pre p d len tag fb o tg post rid c l t E Hs Hb Hw).
  Qed.

  (* at most one terminal event per request id, at either node of the composed system *)
  Theorem two_node_at_most_one (x : bool) r : (terms r (outs x s) <= 1)%nat.
  Proof.
    unfold outs. rewrite proj, <- run_outs. apply at_most_one.
  Qed.
End EndToEnd.

(* exactly one, at either node of the composed system, once nothing is owed there *)
Theorem two_node_exactly_one_settled cfA cfB ms (x : bool) r :
  let s := run2 (sys0 cfA cfB) ms in
  settled (fst (n_st (nd x s))) -> In (OSent r) (outs x s) ->
  terms r (outs x s) = 1%nat \/ In r (cancel_reqs (evs_of (log x s))).
Proof.
  intros s St Hs.
  assert (H0 : NodeOK (nd x (sys0 cfA cfB))) by (destruct x; apply node0_ok).
  destruct (run2_nodes ms _ x H0) as [[A B] C]. fold s in A, B, C.
  set (cfx := n_cf (nd x s)) in *.
  pose proof (exactly_one_settled cfx (evs_of (log x s)) r) as E. cbn zeta in E.
  unfold log in E. rewrite <- B in E. unfold outs, log in *.
  rewrite A in Hs. rewrite <- run_outs in Hs. rewrite A at 1. rewrite <- run_outs.
  exact (E St Hs).
Qed.

(* the responder sees each request once, at either node: no carrier — hence no link — yields two
   RequestReceived *)
Theorem two_node_responder_once cfA cfB ms (x : bool) :
  NoDup (req_chans (log x (run2 (sys0 cfA cfB) ms))).
Proof.
  rewrite (node_projection cfA cfB ms x) at 1.
  exact (proj1 (responder_once (if x then cfB else cfA) (evs_of (log x (run2 (sys0 cfA cfB) ms))))).
Qed.
