(* C13 — proofs about the request-response model. *)
From Coq Require Import List NArith Bool Lia Arith.
From V.C13 Require Import Model.
Import ListNotations.
Open Scope N_scope.

Arguments N.add : simpl never.
Arguments N.sub : simpl never.
Arguments N.eqb : simpl never.
Arguments N.ltb : simpl never.
Arguments N.leb : simpl never.
Arguments N.of_nat : simpl never.

(* ------------------------------------------------------------------ counting *)

(* occurrences of r in a list of ids *)
Definition cnt (r : N) (l : list N) : nat := length (filter (N.eqb r) l).

Lemma cnt_app r a b : cnt r (a ++ b) = (cnt r a + cnt r b)%nat.
Proof. unfold cnt. rewrite filter_app, app_length. reflexivity. Qed.

Lemma cnt_cons r x l : cnt r (x :: l) = ((if N.eqb r x then 1 else 0) + cnt r l)%nat.
Proof. unfold cnt. cbn [filter]. destruct (r =? x); reflexivity. Qed.

Lemma cnt_nil r : cnt r [] = 0%nat.
Proof. reflexivity. Qed.

Lemma cnt_part {A} (f : A -> N) (g : A -> bool) r l :
  (cnt r (map f (filter g l)) + cnt r (map f (filter (fun x => negb (g x)) l)) = cnt r (map f l))%nat.
Proof.
  induction l as [|a l IH]; [reflexivity|].
  cbn [filter map]. destruct (g a); cbn [negb map]; rewrite !cnt_cons; lia.
Qed.

Lemma cnt_filter_le {A} (f : A -> N) (g : A -> bool) r l :
  (cnt r (map f (filter g l)) <= cnt r (map f l))%nat.
Proof.
  induction l as [|a l IH]; [apply le_n|].
  cbn [filter map]. destruct (g a); cbn [map]; rewrite ?cnt_cons; lia.
Qed.

Lemma cnt_pos_in r l : (1 <= cnt r l)%nat <-> In r l.
Proof.
  induction l as [|a l IH]; [cbn; split; [lia|tauto]|].
  rewrite cnt_cons. cbn [In]. destruct (N.eqb_spec r a) as [->|Hne].
  - split; [auto|lia].
  - split; [intros H; right; apply IH; lia|intros [H|H]; [congruence|apply IH in H; lia]].
Qed.

Lemma cnt_zero_notin r l : cnt r l = 0%nat <-> ~ In r l.
Proof. rewrite <- cnt_pos_in. lia. Qed.

(* removing the entries found by a key: what `find` returned is among them *)
Lemma cnt_find_drop {A} (f : A -> N) (g : A -> bool) r l x :
  find g l = Some x ->
  (cnt r (map f (filter (fun y => negb (g y)) l)) + (if N.eqb r (f x) then 1 else 0) <= cnt r (map f l))%nat.
Proof.
  induction l as [|a l IH]; [discriminate|].
  cbn [find filter map]. destruct (g a) eqn:G; cbn [negb].
  - intros [= ->]. rewrite cnt_cons. pose proof (cnt_filter_le f (fun y => negb (g y)) r l). lia.
  - intros H. cbn [map]. rewrite !cnt_cons. specialize (IH H). lia.
Qed.

(* removing all entries with the key of x: the other keys keep their counts *)
Lemma cnt_drop_key {A} (f : A -> N) r v l :
  cnt r (map f (filter (fun y => negb (N.eqb (f y) v)) l)) = if N.eqb r v then 0%nat else cnt r (map f l).
Proof.
  induction l as [|a l IH]; [cbn; destruct (r =? v); reflexivity|].
  cbn [filter map]. destruct (N.eqb_spec (f a) v) as [E|E]; cbn [negb map]; rewrite ?cnt_cons, IH.
  - destruct (N.eqb_spec r v); [reflexivity|]. destruct (N.eqb_spec r (f a)); [congruence|reflexivity].
  - destruct (N.eqb_spec r v); [|reflexivity]. destruct (N.eqb_spec r (f a)); [congruence|reflexivity].
Qed.

Lemma cnt_drop_in {A} (f : A -> N) r x l :
  In x l ->
  (cnt r (map f (filter (fun y => negb (N.eqb (f y) (f x))) l)) + (if N.eqb r (f x) then 1 else 0) <= cnt r (map f l))%nat.
Proof.
  intros H. rewrite cnt_drop_key. destruct (N.eqb_spec r (f x)) as [->|]; [|lia].
  assert (1 <= cnt (f x) (map f l))%nat by (apply cnt_pos_in; apply in_map; exact H). lia.
Qed.

Lemma find_in {A} (g : A -> bool) l x : find g l = Some x -> In x l /\ g x = true.
Proof. apply find_some. Qed.

Lemma pair_eqb_spec a b : reflect (a = b) (pair_eqb a b).
Proof.
  unfold pair_eqb. destruct a as [a1 a2], b as [b1 b2]. cbn [fst snd].
  destruct (N.eqb_spec a1 b1), (N.eqb_spec a2 b2); cbn; constructor; congruence.
Qed.

Lemma memP_in x l : memP x l = true <-> In x l.
Proof.
  unfold memP. rewrite existsb_exists. split.
  - intros [y [Hy E]]. destruct (pair_eqb_spec x y); [subst; auto|discriminate].
  - intros H. exists x. split; [auto|]. destruct (pair_eqb_spec x x); congruence.
Qed.

Lemma memN_in x l : memN x l = true <-> In x l.
Proof.
  unfold memN. rewrite existsb_exists. split.
  - intros [y [Hy E]]. apply N.eqb_eq in E. subst. auto.
  - intros H. exists x. split; [auto|apply N.eqb_refl].
Qed.

Lemma in_removeP x y l : In y (removeP x l) <-> In y l /\ y <> x.
Proof.
  unfold removeP. rewrite filter_In. split; intros [H1 H2]; split; auto.
  - destruct (pair_eqb_spec x y); [discriminate|congruence].
  - destruct (pair_eqb_spec x y); [congruence|reflexivity].
Qed.

(* taking (p, r0) out of the active list takes at least one r0 out of its ids *)
Lemma cnt_removeP r x l :
  In x l ->
  (cnt r (map snd (removeP x l)) + (if N.eqb r (snd x) then 1 else 0) <= cnt r (map snd l))%nat.
Proof.
  induction l as [|a l IH]; [intros []|].
  unfold removeP in *. cbn [filter map In]. intros H.
  destruct (pair_eqb_spec x a) as [->|Hne]; cbn [negb].
  - rewrite cnt_cons. pose proof (cnt_filter_le snd (fun y => negb (pair_eqb a y)) r l). lia.
  - cbn [map]. rewrite !cnt_cons. destruct H as [H|H]; [congruence|]. specialize (IH H). lia.
Qed.

Lemma cnt_removeP_le r x l : (cnt r (map snd (removeP x l)) <= cnt r (map snd l))%nat.
Proof. apply cnt_filter_le. Qed.

(* ------------------------------------------------------------------ terminal events *)

Lemma terms_app r a b : terms r (a ++ b) = (terms r a + terms r b)%nat.
Proof. unfold terms. rewrite filter_app, app_length. reflexivity. Qed.

Lemma terms_nil r : terms r [] = 0%nat.
Proof. reflexivity. Qed.

Lemma terms_map_fail {A} (g : A -> N) code r l :
  terms r (map (fun a => OFail (g a) code) l) = cnt r (map g l).
Proof.
  induction l as [|a l IH]; [reflexivity|].
  cbn [map]. rewrite cnt_cons. unfold terms in *. cbn [filter is_term].
  rewrite (N.eqb_sym (g a) r). destruct (r =? g a); cbn [length]; rewrite IH; reflexivity.
Qed.

(* ------------------------------------------------------------------ the ledger *)

Definition rid_d (d : N * req) : N := q_rid (snd d).
Definition rid_po (po : pout) : N := q_rid (po_req po).
Definition rid_f (f : fut) : N := q_rid (f_req f).

Definition cd r s := cnt r (map rid_d (dials s)).
Definition ca r s := cnt r (map snd (active s)).
Definition cp r s := cnt r (map rid_po (pouts s)).
Definition cf r s := cnt r (map rid_f (futs s)).

(* Safety part of the ledger invariant. tr = everything emitted so far. *)
Record Inv (s : pst) (tr : list out) : Prop := mkInv {
  (* a request id is owed (waiting for a dial, or active at a peer) or answered — never twice *)
  inv_once : forall r, (cd r s + ca r s + terms r tr <= 1)%nat;
  (* where the context of a request lives: dial queue, substream being opened, future *)
  inv_ctx : forall r, (cd r s + cp r s + cf r s <= 1)%nat;
  (* ids not handed out yet occur nowhere *)
  inv_fresh : forall r, next_rid s <= r ->
                        (cd r s + ca r s + cp r s + cf r s + terms r tr = 0)%nat;
  (* a request whose substream is being opened is active at its peer *)
  inv_po : forall po, In po (pouts s) -> In (po_peer po, rid_po po) (active s)
}.

Lemma Inv_init : Inv init_pst [].
Proof. constructor; cbn; intros; try reflexivity; try lia; tauto. Qed.

(* A step relation that is enough to carry the first three clauses: ids only move from "owed"
   to "answered", contexts only move forward, the allocator only grows. `fresh` says whether
   the id next_rid s may enter the ledger in this step. *)
Record Moves (fresh : bool) (s s' : pst) (o : list out) : Prop := mkMoves {
  mv_once : forall r, (cd r s' + ca r s' + terms r o
                       <= cd r s + ca r s + (if fresh && N.eqb r (next_rid s) then 1 else 0))%nat;
  mv_ctx : forall r, (cd r s' + cp r s' + cf r s'
                      <= cd r s + cp r s + cf r s + (if fresh && N.eqb r (next_rid s) then 1 else 0))%nat;
  mv_next : next_rid s <= next_rid s' /\ (fresh = true -> next_rid s < next_rid s')
}.

Lemma Moves_Inv123 fresh s s' o tr :
  Inv s tr -> Moves fresh s s' o ->
  (forall r, (cd r s' + ca r s' + terms r (tr ++ o) <= 1)%nat) /\
  (forall r, (cd r s' + cp r s' + cf r s' <= 1)%nat) /\
  (forall r, next_rid s' <= r -> (cd r s' + ca r s' + cp r s' + cf r s' + terms r (tr ++ o) = 0)%nat).
Proof.
  intros I M. destruct M as [M1 M2 [M3 M3']].
  assert (Hfr : forall r, (if fresh && N.eqb r (next_rid s) then 1 else 0)%nat = 1%nat ->
                          (cd r s + ca r s + cp r s + cf r s + terms r tr = 0)%nat).
  { intros r H. destruct fresh; cbn [andb] in H; [|discriminate].
    destruct (N.eqb_spec r (next_rid s)); [|discriminate]. subst. apply (inv_fresh _ _ I). lia. }
  repeat split.
  - intros r. rewrite terms_app. specialize (M1 r). pose proof (inv_once _ _ I r).
    destruct (fresh && (r =? next_rid s)) eqn:E.
    + specialize (Hfr r). rewrite E in Hfr. specialize (Hfr eq_refl). lia.
    + lia.
  - intros r. specialize (M2 r). pose proof (inv_ctx _ _ I r).
    destruct (fresh && (r =? next_rid s)) eqn:E.
    + specialize (Hfr r). rewrite E in Hfr. specialize (Hfr eq_refl). lia.
    + lia.
  - intros r Hr. rewrite terms_app. specialize (M1 r). specialize (M2 r).
    assert (E : fresh && (r =? next_rid s) = false).
    { destruct fresh; [|reflexivity]. cbn [andb]. apply N.eqb_neq. specialize (M3' eq_refl). lia. }
    rewrite E in *. pose proof (inv_fresh _ _ I r). lia.
Qed.

Lemma Moves_refl s : Moves false s s [].
Proof. constructor; intros; cbn [andb]; rewrite ?terms_nil; try lia; try (split; [lia|discriminate]). Qed.

Ltac unf := unfold cd, ca, cp, cf in *.
Ltac simp_sets :=
  cbn [peers active inb dials pouts futs rdrs rsps next_rid
       set_peers set_active set_inb set_dials set_pouts set_futs set_rdrs set_rsps set_next_rid] in *.

(* ---- settle / complete ---- *)
Lemma settle_Moves s p rid res :
  let '(s', o) := settle s p rid res in
  Moves false s s' o /\ pouts s' = pouts s /\ futs s' = futs s /\ next_rid s' = next_rid s /\
  (forall x, In x (active s') -> In x (active s)) /\
  (forall x, In x (active s) -> x <> (p, rid) -> In x (active s')).
Proof.
  unfold settle. destruct (memN p (peers s) && memP (p, rid) (active s)) eqn:E.
  - apply andb_prop in E. destruct E as [_ E]. apply memP_in in E.
    pose proof (fun r => cnt_removeP r (p, rid) (active s) E) as R. cbn [snd] in R.
    assert (T : forall r, (terms r (verdict rid res) <= (if N.eqb r rid then 1 else 0))%nat).
    { intros r. unfold verdict. destruct res as [l t|c]; [|destruct (c =? E_CANCELED)]; unfold terms; cbn [filter is_term];
        rewrite ?(N.eqb_sym rid r); destruct (r =? rid); cbn; lia. }
    repeat split; simp_sets; unf; simp_sets; cbn [andb]; intros; try lia; try discriminate; try reflexivity.
    + specialize (R r). specialize (T r). lia.
    + apply in_removeP in H. tauto.
    + apply in_removeP. auto.
  - repeat split; try apply Moves_refl; auto.
Qed.

Lemma drop_fut_cnt r c l : (cnt r (map rid_f (drop_fut c l)) <= cnt r (map rid_f l))%nat.
Proof. apply cnt_filter_le. Qed.

Lemma complete_Moves s f res :
  let '(s', o) := complete s f res in
  Moves false s s' o /\ pouts s' = pouts s /\ next_rid s' = next_rid s /\
  (forall x, In x (active s') -> In x (active s)) /\
  (forall x, In x (active s) -> x <> (f_peer f, rid_f f) -> In x (active s')) /\
  (forall g, In g (futs s') -> In g (futs s)).
Proof.
  unfold complete.
  pose proof (settle_Moves (set_futs s (drop_fut f (futs s))) (f_peer f) (q_rid (f_req f)) res) as S.
  destruct (settle _ _ _ _) as [s' o]. destruct S as (M & P & F & N & A1 & A2). simp_sets.
  split; [|split; [auto|split; [auto|split; [auto|split; [auto|]]]]].
  - destruct M as [M1 M2 M3]. constructor.
    + intros r. specialize (M1 r). unf. simp_sets. lia.
    + intros r. specialize (M2 r). unf. simp_sets. pose proof (drop_fut_cnt r f (futs s)). lia.
    + simp_sets. exact M3.
  - intros g Hg. rewrite F in Hg. unfold drop_fut in Hg. apply filter_In in Hg. tauto.
Qed.

(* ------------------------------------------------------------------ handlers keep Inv *)

Lemma Inv_step fresh s s' o tr :
  Inv s tr -> Moves fresh s s' o ->
  (forall po, In po (pouts s') -> In (po_peer po, rid_po po) (active s')) ->
  Inv s' (tr ++ o).
Proof.
  intros I M P. destruct (Moves_Inv123 _ _ _ _ _ I M) as (A & B & C). constructor; auto.
Qed.

Lemma terms_cons_nonterm r x o :
  is_term r x = false -> terms r (x :: o) = terms r o.
Proof. intros H. unfold terms. cbn [filter]. rewrite H. reflexivity. Qed.

Lemma terms_one_fail r rid code : terms r [OFail rid code] = if N.eqb r rid then 1%nat else 0%nat.
Proof. unfold terms. cbn [filter is_term]. rewrite (N.eqb_sym rid r). destruct (r =? rid); reflexivity. Qed.

Lemma map_rid_to_wait c dl l : map rid_f (to_wait c dl l) = map rid_f l.
Proof.
  unfold to_wait. rewrite map_map. apply map_ext. intros f. destruct (f_chan f =? c); reflexivity.
Qed.
Lemma map_rid_mark_cancel c l : map rid_f (mark_cancel c l) = map rid_f l.
Proof.
  unfold mark_cancel. rewrite map_map. apply map_ext. intros f. destruct (q_rid (f_req f) =? c); reflexivity.
Qed.

Lemma number_pouts_rids p sid l : map rid_po (number_pouts p sid l) = map rid_d l.
Proof.
  revert sid. induction l as [|[a q] l IH]; intros sid; [reflexivity|].
  cbn [number_pouts map]. rewrite IH. reflexivity.
Qed.
Lemma number_pouts_in p sid l po :
  In po (number_pouts p sid l) -> po_peer po = p /\ In (rid_po po) (map rid_d l).
Proof.
  revert sid. induction l as [|[a q] l IH]; intros sid; [intros []|].
  cbn [number_pouts In map]. intros [<-|H]; [split; [reflexivity|left; reflexivity]|].
  destruct (IH _ H). split; [auto|right; auto].
Qed.

(* two different entries with the same id: the id occurs twice *)
Lemma cnt_find_other {A} (f : A -> N) (g : A -> bool) l x y :
  find g l = Some x -> In y (filter (fun z => negb (g z)) l) -> f y = f x ->
  (2 <= cnt (f x) (map f l))%nat.
Proof.
  intros Hf Hy E. pose proof (cnt_find_drop f g (f x) l x Hf) as H.
  rewrite N.eqb_refl in H.
  assert (1 <= cnt (f x) (map f (filter (fun z => negb (g z)) l)))%nat.
  { apply cnt_pos_in. rewrite <- E. apply in_map. exact Hy. }
  lia.
Qed.

Lemma send_Inv s tr p dial len tag ok dok sid :
  Inv s tr -> Inv (fst (h_send s p dial len tag ok dok sid)) (tr ++ snd (h_send s p dial len tag ok dok sid)).
Proof.
  intros I. unfold h_send. simp_sets.
  assert (T1 : forall r, terms r [OSent (next_rid s)] = 0%nat) by reflexivity.
  assert (T2 : forall r c, terms r [OSent (next_rid s); OFail (next_rid s) c]
                           = if N.eqb r (next_rid s) then 1%nat else 0%nat).
  { intros r c. rewrite terms_cons_nonterm by reflexivity. apply terms_one_fail. }
  assert (Hfail : forall c, Inv (set_next_rid s (next_rid s + 1)) (tr ++ [OSent (next_rid s); OFail (next_rid s) c])).
  { intros c. eapply (Inv_step true); [exact I| |intros po H; exact (inv_po _ _ I po H)].
    constructor; [intros r|intros r| ]; unf; simp_sets; cbn [andb]; rewrite ?T2; try lia; try (split; [lia|intros _; lia]). }
  destruct (memN p (peers s)); [destruct ok|destruct dial; cbn [negb]; [destruct dok|]]; cbn [fst snd]; auto.
  - eapply (Inv_step true); [exact I| |].
    + constructor; [intros r|intros r| ]; unf; simp_sets; cbn [andb]; rewrite ?T1, ?map_app, ?cnt_app; cbn [map snd rid_po po_req q_rid];
        rewrite ?cnt_cons, ?cnt_nil; try lia; try (split; [lia|intros _; lia]).
    + simp_sets. intros po H. apply in_app_or in H. apply in_or_app. destruct H as [H|[<-|[]]].
      * left. exact (inv_po _ _ I po H).
      * right. left. reflexivity.
  - eapply (Inv_step true); [exact I| |intros po H; exact (inv_po _ _ I po H)].
    constructor; [intros r|intros r| ]; unf; simp_sets; cbn [andb]; rewrite ?T1, ?map_app, ?cnt_app; cbn [map snd rid_d q_rid];
      rewrite ?cnt_cons, ?cnt_nil; try lia; try (split; [lia|intros _; lia]).
Qed.

Lemma established_Inv s tr p ok sid :
  Inv s tr -> Inv (fst (h_established s p ok sid)) (tr ++ snd (h_established s p ok sid)).
Proof.
  intros I. unfold h_established.
  destruct (memN p (peers s)); cbn [fst snd]; [rewrite app_nil_r; exact I|]. simp_sets.
  assert (P : forall r, (cnt r (map rid_d (filter (fun d : N * req => N.eqb (fst d) p) (dials s))) +
                         cnt r (map rid_d (filter (fun d : N * req => negb (N.eqb (fst d) p)) (dials s))) = cd r s)%nat)
    by (intros r; apply (cnt_part rid_d (fun d : N * req => fst d =? p))).
  destruct (filter (fun d : N * req => fst d =? p) (dials s)) as [|d0 mine] eqn:M.
  - cbn [fst snd]. eapply (Inv_step false); [exact I| |intros po H; exact (inv_po _ _ I po H)].
    constructor; [intros r|intros r| ]; unf; simp_sets; cbn [andb]; rewrite ?terms_nil; try specialize (P r); cbn [map] in P;
      rewrite ?cnt_nil in P; try lia; try (split; [lia|discriminate]).
  - destruct ok; cbn [fst snd].
    + eapply (Inv_step false); [exact I| |].
      * constructor; [intros r|intros r| ]; unf; simp_sets; cbn [andb]; rewrite ?terms_nil, ?map_app, ?cnt_app, ?number_pouts_rids;
          rewrite ?map_map; cbn [snd]; try specialize (P r); fold rid_d in *;
          change (map (fun x : N * req => q_rid (snd x)) (d0 :: mine)) with (map rid_d (d0 :: mine)); try lia; try (split; [lia|discriminate]).
      * simp_sets. intros po H. apply in_app_or in H. apply in_or_app. destruct H as [H|H].
        -- left. exact (inv_po _ _ I po H).
        -- right. apply number_pouts_in in H. destruct H as [<- H].
           apply in_map_iff in H. destruct H as [d [E Hd]]. apply in_map_iff. exists d.
           split; [|exact Hd]. unfold rid_d in E. rewrite E. reflexivity.
    + eapply (Inv_step false); [exact I| |intros po H; exact (inv_po _ _ I po H)].
      constructor; [intros r|intros r| ]; unf; simp_sets; cbn [andb];
        change (fun d : N * req => OFail (q_rid (snd d)) E_SUBSTREAM) with (fun d : N * req => OFail (rid_d d) E_SUBSTREAM);
        rewrite ?(terms_map_fail rid_d); try specialize (P r); try lia; try (split; [lia|discriminate]).
Qed.

Lemma closed_Inv s tr p :
  Inv s tr -> Inv (fst (h_closed s p)) (tr ++ snd (h_closed s p)).
Proof.
  intros I. unfold h_closed. simp_sets.
  pose proof (fun r => cnt_filter_le rid_po (fun po => negb (po_peer po =? p)) r (pouts s)) as PO.
  destruct (memN p (peers s)); cbn [fst snd].
  - pose proof (fun r => cnt_part snd (fun a : N * N => fst a =? p) r (active s)) as P.
    eapply (Inv_step false); [exact I| |].
    + constructor; [intros r|intros r| ]; unf; simp_sets; cbn [andb]; rewrite ?(terms_map_fail snd);
        try specialize (P r); try specialize (PO r); try lia; try (split; [lia|discriminate]).
    + simp_sets. intros po H. apply filter_In in H. destruct H as [H Hp].
      apply filter_In. split; [exact (inv_po _ _ I po H)|exact Hp].
  - eapply (Inv_step false); [exact I| |].
    + constructor; [intros r|intros r| ]; unf; simp_sets; cbn [andb]; rewrite ?terms_nil; try specialize (PO r); try lia; try (split; [lia|discriminate]).
    + simp_sets. intros po H. apply filter_In in H. exact (inv_po _ _ I po (proj1 H)).
Qed.

Lemma dialfail_Inv s tr p :
  Inv s tr -> Inv (fst (h_dialfail s p)) (tr ++ snd (h_dialfail s p)).
Proof.
  intros I. unfold h_dialfail. cbn [fst snd].
  pose proof (fun r => cnt_part rid_d (fun d : N * req => fst d =? p) r (dials s)) as P.
  eapply (Inv_step false); [exact I| |intros po H; exact (inv_po _ _ I po H)].
  constructor; [intros r|intros r| ]; unf; simp_sets; cbn [andb]; try specialize (P r);
    change (fun d : N * req => OFail (q_rid (snd d)) E_DIAL_FAILED) with (fun d : N * req => OFail (rid_d d) E_DIAL_FAILED);
    rewrite ?(terms_map_fail rid_d); try lia; try (split; [lia|discriminate]).
Qed.

(* dropping the found pending-outbound entry: the others have other request ids *)
Lemma drop_po_other s tr po po' :
  Inv s tr -> In po' (drop_po po (pouts s)) ->
  In (po_peer po', rid_po po') (active s) /\ (po_peer po', rid_po po') <> (po_peer po, rid_po po).
Proof.
  intros I H. unfold drop_po in H. apply filter_In in H. destruct H as [H1 H2]. split.
  - exact (inv_po _ _ I _ H1).
  - intros E. injection E as _ E. unfold rid_po in E. rewrite E, N.eqb_refl in H2. discriminate.
Qed.

Lemma openfail_Inv s tr sid u :
  Inv s tr -> Inv (fst (h_openfail s sid u)) (tr ++ snd (h_openfail s sid u)).
Proof.
  intros I. unfold h_openfail. destruct (find_po sid (pouts s)) as [po|] eqn:F; cbn [fst snd];
    [|rewrite app_nil_r; exact I].
  pose proof (find_in _ _ _ F) as [Hin _].
  pose proof (inv_po _ _ I po Hin) as Hact.
  pose proof (fun r => cnt_removeP r _ _ Hact) as R. cbn [snd] in R.
  pose proof (fun r => cnt_drop_in rid_po r po (pouts s) Hin) as D.
  eapply (Inv_step false); [exact I| |].
  - constructor; [intros r|intros r| ]; unf; simp_sets; cbn [andb]; rewrite ?terms_one_fail; try specialize (R r); try specialize (D r);
      unfold rid_po, drop_po in *; try lia; try (split; [lia|discriminate]).
  - simp_sets. intros po' H. destruct (drop_po_other _ _ _ _ I H) as [A B].
    apply in_removeP. split; [exact A|exact B].
Qed.

Lemma Moves_trans s s1 s2 o1 o2 :
  Moves false s s1 o1 -> Moves false s1 s2 o2 -> Moves false s s2 (o1 ++ o2).
Proof.
  intros [A1 A2 [A3 _]] [B1 B2 [B3 _]]. constructor; cbn [andb] in *; intros.
  - rewrite terms_app. specialize (A1 r). specialize (B1 r). lia.
  - specialize (A2 r). specialize (B2 r). lia.
  - split; [lia|discriminate].
Qed.

(* ---- request futures ---- *)
Lemma complete_Inv s tr f res :
  Inv s tr -> (forall po, In po (pouts s) -> rid_po po <> rid_f f) ->
  Inv (fst (complete s f res)) (tr ++ snd (complete s f res)) /\
  pouts (fst (complete s f res)) = pouts s.
Proof.
  intros I Hne. pose proof (complete_Moves s f res) as C.
  destruct (complete s f res) as [s' o]. cbn [fst snd].
  destruct C as (M & P & N & A1 & A2 & F). split; [|exact P].
  eapply (Inv_step false); [exact I|exact M|].
  rewrite P. intros po H. apply A2; [exact (inv_po _ _ I po H)|].
  intros E. injection E as _ E. exact (Hne po H E).
Qed.

Lemma fut_in_not_po s tr f :
  Inv s tr -> In f (futs s) -> forall po, In po (pouts s) -> rid_po po <> rid_f f.
Proof.
  intros I Hf po Hpo E.
  assert (1 <= cf (rid_f f) s)%nat by (apply cnt_pos_in; apply in_map; exact Hf).
  assert (1 <= cp (rid_f f) s)%nat by (apply cnt_pos_in; rewrite <- E; apply in_map; exact Hpo).
  pose proof (inv_ctx _ _ I (rid_f f)). lia.
Qed.

Lemma complete_all_Inv l : forall s tr res,
  Inv s tr -> (forall f po, In f l -> In po (pouts s) -> rid_po po <> rid_f f) ->
  Inv (fst (complete_all s l res)) (tr ++ snd (complete_all s l res)).
Proof.
  induction l as [|f l IH]; intros s tr res I H; cbn [complete_all fst snd].
  - rewrite app_nil_r. exact I.
  - destruct (complete_Inv s tr f res I (fun po Hpo => H f po (or_introl eq_refl) Hpo)) as [I1 P1].
    destruct (complete s f res) as [s1 o1]. cbn [fst snd] in *.
    specialize (IH s1 (tr ++ o1) res I1).
    destruct (complete_all s1 l res) as [s2 o2]. cbn [fst snd] in *.
    rewrite app_assoc. apply IH. intros g po Hg Hpo. rewrite P1 in Hpo. apply (H g po); [right; exact Hg|exact Hpo].
Qed.

Lemma Inv_futs_rids s tr l o :
  Inv s tr -> map rid_f l = map rid_f (futs s) -> (forall r, terms r o = 0%nat) ->
  Inv (set_futs s l) (tr ++ o).
Proof.
  intros I E T. eapply (Inv_step false); [exact I| |intros po H; exact (inv_po _ _ I po H)].
  constructor; [intros r|intros r|]; unf; simp_sets; cbn [andb]; rewrite ?T, ?E; try lia; try (split; [lia|discriminate]).
Qed.

Lemma opened_Inv cf0 s tr sid c gate now :
  Inv s tr -> Inv (fst (h_opened cf0 s sid c gate now)) (tr ++ snd (h_opened cf0 s sid c gate now)).
Proof.
  intros I. unfold h_opened. destruct (find_po sid (pouts s)) as [po|] eqn:F; cbn [fst snd];
    [|rewrite app_nil_r; exact I].
  pose proof (fun r => cnt_drop_in rid_po r po (pouts s) (proj1 (find_in _ _ _ F))) as D.
  (* dropping the entry alone *)
  assert (M0 : Moves false s (set_pouts s (drop_po po (pouts s))) []).
  { constructor; [intros r|intros r|]; unf; simp_sets; cbn [andb]; rewrite ?terms_nil; try specialize (D r);
      unfold rid_po, drop_po in *; try lia; try (split; [lia|discriminate]). }
  assert (Hsettle : forall res,
             Inv (fst (settle (set_pouts s (drop_po po (pouts s))) (po_peer po) (q_rid (po_req po)) res))
                 (tr ++ snd (settle (set_pouts s (drop_po po (pouts s))) (po_peer po) (q_rid (po_req po)) res))).
  { intros res. pose proof (settle_Moves (set_pouts s (drop_po po (pouts s))) (po_peer po) (q_rid (po_req po)) res) as S.
    destruct (settle _ _ _ _) as [s' o]. cbn [fst snd]. destruct S as (M & P & _ & _ & A1 & A2). simp_sets.
    eapply (Inv_step false); [exact I|exact (Moves_trans _ _ _ _ _ M0 M)|].
    rewrite P. intros po' H. destruct (drop_po_other _ _ _ _ I H) as [A B].
    apply A2; [exact A|exact B]. }
  assert (Hpush : forall g o, rid_f g = rid_po po -> (forall r, terms r o = 0%nat) ->
             Inv (set_futs (set_pouts s (drop_po po (pouts s))) (futs (set_pouts s (drop_po po (pouts s))) ++ [g])) (tr ++ o)).
  { intros g o E T. eapply (Inv_step false); [exact I| |].
    - constructor; [intros r|intros r|]; unf; simp_sets; cbn [andb]; rewrite ?T, ?map_app, ?cnt_app; cbn [map];
        rewrite ?E, ?cnt_cons, ?cnt_nil; try specialize (D r); unfold rid_po, drop_po in *; try lia; try (split; [lia|discriminate]).
    - simp_sets. intros po' H. exact (proj1 (drop_po_other _ _ _ _ I H)). }
  destruct (max_size cf0 <? q_len (po_req po)); [apply Hsettle|].
  destruct gate as [|[g|g|]]; try apply Hsettle; apply Hpush; try reflexivity.
Qed.

Lemma find_fut_in c l f : find_fut c l = Some f -> In f l.
Proof. intros H. apply find_some in H. tauto. Qed.

Lemma terms_cons_wire r c l t o : terms r (OWire c l t :: o) = terms r o.
Proof. apply terms_cons_nonterm. reflexivity. Qed.

Lemma Inv_cons_wire s tr c l t o : Inv s (tr ++ o) -> Inv s (tr ++ OWire c l t :: o).
Proof.
  intros [A B C D]. constructor; auto.
  - intros r. specialize (A r). rewrite terms_app in *. rewrite terms_cons_wire. exact A.
  - intros r Hr. specialize (C r Hr). rewrite terms_app in *. rewrite terms_cons_wire. exact C.
Qed.

Lemma unblock_Inv cf0 s tr c now :
  Inv s tr -> Inv (fst (fut_unblock cf0 s c now)) (tr ++ snd (fut_unblock cf0 s c now)).
Proof.
  intros I. unfold fut_unblock. destruct (find_fut c (futs s)) as [f|] eqn:F; cbn [fst snd];
    [|rewrite app_nil_r; exact I].
  destruct (f_wait f); cbn [fst snd]; [rewrite app_nil_r; exact I|].
  destruct (f_cancel f).
  - pose proof (complete_Inv s tr f (RErr E_CANCELED) I (fut_in_not_po _ _ _ I (find_fut_in _ _ _ F))) as [C _].
    destruct (complete s f (RErr E_CANCELED)) as [s1 o]. cbn [fst snd] in *. apply Inv_cons_wire. exact C.
  - cbn [fst snd]. apply Inv_futs_rids; [exact I|apply map_rid_to_wait|reflexivity].
Qed.

Lemma breakw_Inv s tr c :
  Inv s tr -> Inv (fst (fut_breakw s c)) (tr ++ snd (fut_breakw s c)).
Proof.
  intros I. unfold fut_breakw. destruct (find_fut c (futs s)) as [f|] eqn:F; cbn [fst snd];
    [|rewrite app_nil_r; exact I].
  destruct (f_wait f); cbn [fst snd]; [rewrite app_nil_r; exact I|].
  exact (proj1 (complete_Inv s tr f _ I (fut_in_not_po _ _ _ I (find_fut_in _ _ _ F)))).
Qed.

Lemma read_Inv s tr c res :
  Inv s tr -> Inv (fst (fut_read s c res)) (tr ++ snd (fut_read s c res)).
Proof.
  intros I. unfold fut_read. destruct (find_fut c (futs s)) as [f|] eqn:F; cbn [fst snd];
    [|rewrite app_nil_r; exact I].
  destruct (f_wait f); cbn [fst snd]; [|rewrite app_nil_r; exact I].
  exact (proj1 (complete_Inv s tr f _ I (fut_in_not_po _ _ _ I (find_fut_in _ _ _ F)))).
Qed.

Lemma advance_Inv s tr now :
  Inv s tr -> Inv (fst (fut_advance s now)) (tr ++ snd (fut_advance s now)).
Proof.
  intros I. unfold fut_advance. apply complete_all_Inv; [exact I|].
  intros f po Hf Hpo. apply filter_In in Hf. exact (fut_in_not_po _ _ _ I (proj1 Hf) po Hpo).
Qed.

(* state changes that do not touch the ledger *)
Definition same_ledger (s s' : pst) : Prop :=
  dials s' = dials s /\ active s' = active s /\ pouts s' = pouts s /\ futs s' = futs s /\
  next_rid s <= next_rid s'.

Lemma Inv_same_ledger s s' tr o :
  Inv s tr -> same_ledger s s' -> (forall r, terms r o = 0%nat) -> Inv s' (tr ++ o).
Proof.
  intros I (D & A & P & F & N) T. eapply (Inv_step false); [exact I| |].
  - constructor; [intros r|intros r|]; unf; cbn [andb]; rewrite ?T, ?D, ?A, ?P, ?F; try lia; try (split; [lia|discriminate]).
  - rewrite P, A. exact (inv_po _ _ I).
Qed.

Lemma same_ledger_refl s : same_ledger s s.
Proof. unfold same_ledger. repeat split; lia. Qed.

Lemma cancel_Inv s tr rid :
  Inv s tr -> Inv (fst (h_cancel s rid)) (tr ++ snd (h_cancel s rid)).
Proof.
  intros I. unfold h_cancel.
  destruct (find _ (futs s)) as [f|] eqn:F; cbn [fst snd]; [|rewrite app_nil_r; exact I].
  apply find_some in F. destruct F as [Hf _].
  destruct (f_wait f); cbn [fst snd].
  - exact (proj1 (complete_Inv _ tr f _ I (fut_in_not_po _ _ _ I Hf))).
  - apply Inv_futs_rids; [exact I|apply map_rid_mark_cancel|reflexivity].
Qed.

(* ---- inbound side: never touches the ledger ---- *)
Lemma inopen_same cf0 s p c : same_ledger s (fst (h_inopen cf0 s p c)) /\ snd (h_inopen cf0 s p c) = [].
Proof.
  unfold h_inopen. destruct (match max_inb cf0 with Some m => m <=? inbound_load s | None => false end);
    cbn [fst snd]; [split; [apply same_ledger_refl|reflexivity]|].
  simp_sets. destruct (memN p (peers s)); cbn [fst snd]; unfold same_ledger; simp_sets; repeat split; lia.
Qed.

Lemma inread_same s c good len tag :
  same_ledger s (fst (h_inread s c good len tag)) /\ forall r, terms r (snd (h_inread s c good len tag)) = 0%nat.
Proof.
  unfold h_inread. destruct (find_rd c (rdrs s)) as [rd|]; cbn [fst snd];
    [|split; [apply same_ledger_refl|reflexivity]].
  simp_sets. destruct (memN (r_peer rd) (peers s) && memP (r_peer rd, r_irid rd) (inb s));
    [destruct good|]; cbn [fst snd]; unfold same_ledger; simp_sets; repeat split; try lia; reflexivity.
Qed.

Lemma uresp_same cf0 s irid len tag gate now :
  same_ledger s (fst (h_uresp cf0 s irid len tag gate now)) /\
  forall r, terms r (snd (h_uresp cf0 s irid len tag gate now)) = 0%nat.
Proof.
  unfold h_uresp. destruct (find_rs irid (rsps s)) as [rs|]; cbn [fst snd];
    [|split; [apply same_ledger_refl|reflexivity]].
  destruct (s_w rs); cbn [fst snd]; [split; [apply same_ledger_refl|reflexivity]|].
  destruct (max_size cf0 <? len); [|destruct gate as [|[g|g|]]]; cbn [fst snd]; unfold same_ledger; simp_sets;
    repeat split; try lia; reflexivity.
Qed.

Lemma rsp_gate_same s c ok :
  same_ledger s (fst (rsp_gate s c ok)) /\ forall r, terms r (snd (rsp_gate s c ok)) = 0%nat.
Proof.
  unfold rsp_gate. destruct (find _ (rsps s)) as [rs|]; cbn [fst snd];
    [|split; [apply same_ledger_refl|reflexivity]].
  destruct (s_w rs) as [[[l t] d]|]; cbn [fst snd]; [|split; [apply same_ledger_refl|reflexivity]].
  destruct ok; unfold same_ledger; simp_sets; repeat split; try lia; reflexivity.
Qed.

(* ------------------------------------------------------------------ one step, whole runs *)

Ltac use_same L :=
  let H := fresh in let T := fresh in
  pose proof L as [H T];
  match type of H with same_ledger _ (fst ?x) => destruct x as [? ?] end;
  cbn [fst snd] in *.

Lemma step_Inv cf0 s en e tr :
  Inv s tr ->
  Inv (fst (fst (fst (step cf0 (s, en) e)))) (tr ++ snd (fst (step cf0 (s, en) e))).
Proof.
  intros I. destruct e; cbn [step].
  - (* send *)
    pose proof (send_Inv s tr p dial len tag (open_ok p en) (p <? ndial cf0) (next_sid en) I) as H.
    destruct (h_send _ _ _ _ _ _ _ _) as [s1 o]. exact H.
  - pose proof (cancel_Inv s tr rid I) as H. destruct (h_cancel s rid) as [s1 o]. exact H.
  - destruct (conn_of p en); cbn [fst snd]; [rewrite app_nil_r; exact I|].
    pose proof (established_Inv s tr p (negb broken) (next_sid en) I) as H.
    destruct (h_established _ _ _ _) as [s1 o]. exact H.
  - destruct (conn_of p en); cbn [fst snd]; [|rewrite app_nil_r; exact I].
    pose proof (closed_Inv s tr p I) as H. destruct (h_closed s p) as [s1 o]. exact H.
  - pose proof (dialfail_Inv s tr p I) as H. destruct (h_dialfail s p) as [s1 o]. exact H.
  - destruct (nth_mod k (opens en)) as [[sid q]|]; cbn [fst snd]; [|rewrite app_nil_r; exact I].
    pose proof (opened_Inv cf0 s tr sid (N.of_nat (length (chans en))) (N.min gate 2) (now en) I) as H.
    destruct (h_opened _ _ _ _ _ _) as [s1 o]. exact H.
  - destruct (nth_mod k (opens en)) as [[sid q]|]; cbn [fst snd]; [|rewrite app_nil_r; exact I].
    pose proof (openfail_Inv s tr sid unsupported I) as H. destruct (h_openfail _ _ _) as [s1 o]. exact H.
  - (* unblock *)
    destruct (chans en) as [|ch0 chs] eqn:CH; cbn [fst snd]; [rewrite app_nil_r; exact I|].
    destruct (nth_error _ _) as [ch|]; cbn [fst snd]; [|rewrite app_nil_r; exact I].
    destruct (c_gate ch =? 0); cbn [fst snd]; [|rewrite app_nil_r; exact I].
    pose proof (unblock_Inv cf0 s tr (k mod N.of_nat (length (ch0 :: chs))) (now en) I) as H.
    destruct (fut_unblock _ _ _ _) as [s1 o1]. cbn [fst snd] in H.
    pose proof (rsp_gate_same s1 (k mod N.of_nat (length (ch0 :: chs))) true) as [H2 T2].
    destruct (rsp_gate _ _ _) as [s2 o2]. cbn [fst snd] in *.
    rewrite app_assoc. exact (Inv_same_ledger _ _ _ _ H H2 T2).
  - destruct (chans en) as [|ch0 chs] eqn:CH; cbn [fst snd]; [rewrite app_nil_r; exact I|].
    destruct (nth_error _ _) as [ch|]; cbn [fst snd]; [|rewrite app_nil_r; exact I].
    destruct (c_gate ch =? 2); cbn [fst snd]; [rewrite app_nil_r; exact I|].
    pose proof (breakw_Inv s tr (k mod N.of_nat (length (ch0 :: chs))) I) as H.
    destruct (fut_breakw _ _) as [s1 o1]. cbn [fst snd] in H.
    pose proof (rsp_gate_same s1 (k mod N.of_nat (length (ch0 :: chs))) false) as [H2 T2].
    destruct (rsp_gate _ _ _) as [s2 o2]. cbn [fst snd] in *.
    rewrite app_assoc. exact (Inv_same_ledger _ _ _ _ H H2 T2).
  - destruct (chans en) as [|ch0 chs] eqn:CH; cbn [fst snd]; [rewrite app_nil_r; exact I|].
    destruct (nth_error _ _) as [ch|]; cbn [fst snd]; [|rewrite app_nil_r; exact I].
    destruct (c_out ch && c_seen ch); cbn [fst snd]; [|rewrite app_nil_r; exact I].
    match goal with |- context [fut_read s ?c ?r] =>
      pose proof (read_Inv s tr c r I) as H; destruct (fut_read s c r) as [s1 o] end. exact H.
  - destruct (chans en) as [|ch0 chs] eqn:CH; cbn [fst snd]; [rewrite app_nil_r; exact I|].
    destruct (nth_error _ _) as [ch|]; cbn [fst snd]; [|rewrite app_nil_r; exact I].
    destruct (c_out ch); [destruct (c_seen ch)|]; cbn [fst snd]; try (rewrite app_nil_r; exact I).
    + match goal with |- context [fut_read s ?c ?r] =>
        pose proof (read_Inv s tr c r I) as H; destruct (fut_read s c r) as [s1 o] end. exact H.
    + match goal with |- context [h_inread s ?c ?g ?l ?t] =>
        pose proof (inread_same s c g l t) as [H T]; destruct (h_inread s c g l t) as [s1 o] end.
      exact (Inv_same_ledger _ _ _ _ I H T).
  - destruct (chans en) as [|ch0 chs] eqn:CH; cbn [fst snd]; [rewrite app_nil_r; exact I|].
    destruct (nth_error _ _) as [ch|]; cbn [fst snd]; [|rewrite app_nil_r; exact I].
    destruct (c_out ch); [destruct (c_seen ch)|]; cbn [fst snd]; try (rewrite app_nil_r; exact I).
    + match goal with |- context [fut_read s ?c ?r] =>
        pose proof (read_Inv s tr c r I) as H; destruct (fut_read s c r) as [s1 o] end. exact H.
    + match goal with |- context [h_inread s ?c ?g ?l ?t] =>
        pose proof (inread_same s c g l t) as [H T]; destruct (h_inread s c g l t) as [s1 o] end.
      exact (Inv_same_ledger _ _ _ _ I H T).
  - (* advance *)
    pose proof (advance_Inv s tr (now en + dt) I) as H.
    destruct (fut_advance s (now en + dt)) as [s1 o]. cbn [fst snd] in *.
    rewrite <- (app_nil_r (tr ++ o)). eapply Inv_same_ledger; [exact H| |reflexivity].
    unfold rsp_advance, same_ledger. simp_sets. repeat split; lia.
  - destruct (conn_of p en); cbn [fst snd]; [|rewrite app_nil_r; exact I].
    pose proof (inopen_same cf0 s p (N.of_nat (length (chans en)))) as [H T].
    destruct (h_inopen _ _ _ _) as [s1 o]. cbn [fst snd] in *. subst o.
    eapply Inv_same_ledger; [exact I|exact H|reflexivity].
  - destruct (chans en) as [|ch0 chs] eqn:CH; cbn [fst snd]; [rewrite app_nil_r; exact I|].
    destruct (nth_error _ _) as [ch|]; cbn [fst snd]; [|rewrite app_nil_r; exact I].
    destruct (negb (c_out ch) && negb (c_seen ch)); cbn [fst snd]; [|rewrite app_nil_r; exact I].
    match goal with |- context [h_inread s ?c ?g ?l ?t] =>
      pose proof (inread_same s c g l t) as [H T]; destruct (h_inread s c g l t) as [s1 o] end.
    exact (Inv_same_ledger _ _ _ _ I H T).
  - destruct (nth_mod k (hpend en)) as [irid|]; cbn [fst snd]; [|rewrite app_nil_r; exact I].
    match goal with |- context [h_uresp cf0 s ?a ?b ?c ?d ?e] =>
      pose proof (uresp_same cf0 s a b c d e) as [H T]; destruct (h_uresp cf0 s a b c d e) as [s1 o] end.
    exact (Inv_same_ledger _ _ _ _ I H T).
  - destruct (nth_mod k (hpend en)) as [irid|]; cbn [fst snd]; [|rewrite app_nil_r; exact I].
    unfold h_urej. cbn [fst snd]. eapply Inv_same_ledger; [exact I| |reflexivity].
    unfold same_ledger. simp_sets. repeat split; lia.
  - cbn [fst snd]. rewrite app_nil_r. exact I.
Qed.

Lemma run_Inv cf0 evs : forall st tr,
  Inv (fst st) tr -> Inv (fst (fst (run cf0 st evs))) (tr ++ snd (run cf0 st evs)).
Proof.
  induction evs as [|e evs IH]; intros [s en] tr I; cbn [run fst snd].
  - rewrite app_nil_r. exact I.
  - pose proof (step_Inv cf0 s en e tr I) as H.
    destruct (step cf0 (s, en) e) as [[st1 o] tg]. cbn [fst snd] in H.
    specialize (IH st1 (tr ++ o) H). destruct (run cf0 st1 evs) as [st2 o2]. cbn [fst snd] in *.
    rewrite app_assoc. exact IH.
Qed.

Theorem at_most_one cf0 evs r :
  (terms r (snd (run cf0 (init_pst, init_env) evs)) <= 1)%nat.
Proof.
  pose proof (run_Inv cf0 evs (init_pst, init_env) [] Inv_init) as I. cbn [app] in I.
  pose proof (inv_once _ _ I r). lia.
Qed.

(* ------------------------------------------------------------------ liveness part of the ledger *)

Definition owed (r : N) (s : pst) : Prop := (1 <= cd r s + ca r s)%nat.
Definition answered (r : N) (o : list out) : Prop := (1 <= terms r o)%nat.
Definition nosent (o : list out) : Prop := forall r, ~ In (OSent r) o.

(* cs = the ids the user asked to cancel so far *)
Record Inv2 (cs : list N) (s : pst) (tr : list out) : Prop := mkInv2 {
  inv_sent : forall r, In (OSent r) tr -> owed r s \/ answered r tr \/ In r cs;
  inv_cancel : forall f, In f (futs s) -> f_cancel f = true -> In (rid_f f) cs
}.

Record Keeps (cs : list N) (s s' : pst) (o : list out) : Prop := mkKeeps {
  kp_owed : forall r, owed r s -> owed r s' \/ answered r o \/ In r cs;
  kp_sent : forall r, In (OSent r) o -> owed r s' \/ answered r o \/ In r cs;
  kp_futs : forall g, In g (futs s') -> In g (futs s) \/ f_cancel g = false \/ In (rid_f g) cs
}.

Lemma Keeps_Inv2 cs cs' s s' tr o :
  Inv2 cs s tr -> Keeps cs' s s' o -> incl cs cs' -> Inv2 cs' s' (tr ++ o).
Proof.
  intros [F G] [K1 K2 K3] Hi. constructor.
  - intros r H. unfold answered in *. rewrite terms_app. apply in_app_or in H. destruct H as [H|H].
    + destruct (F r H) as [A|[A|A]].
      * destruct (K1 r A) as [B|[B|B]]; [left; exact B|right; left; lia|right; right; exact B].
      * right. left. lia.
      * right. right. apply Hi. exact A.
    + destruct (K2 r H) as [B|[B|B]]; [left; exact B|right; left; lia|right; right; exact B].
  - intros g Hg Hc. destruct (K3 g Hg) as [A|[A|A]]; [apply Hi; exact (G g A Hc)|congruence|exact A].
Qed.

Lemma Keeps_trans cs s s1 s2 o1 o2 :
  Keeps cs s s1 o1 -> Keeps cs s1 s2 o2 -> Keeps cs s s2 (o1 ++ o2).
Proof.
  intros [A1 A2 A3] [B1 B2 B3]. constructor; unfold answered in *.
  - intros r H. rewrite terms_app. destruct (A1 r H) as [X|[X|X]]; [|right; left; lia|right; right; exact X].
    destruct (B1 r X) as [Y|[Y|Y]]; [left; exact Y|right; left; lia|right; right; exact Y].
  - intros r H. rewrite terms_app. apply in_app_or in H. destruct H as [H|H].
    + destruct (A2 r H) as [X|[X|X]]; [|right; left; lia|right; right; exact X].
      destruct (B1 r X) as [Y|[Y|Y]]; [left; exact Y|right; left; lia|right; right; exact Y].
    + destruct (B2 r H) as [Y|[Y|Y]]; [left; exact Y|right; left; lia|right; right; exact Y].
  - intros g Hg. destruct (B3 g Hg) as [X|X]; [|right; exact X]. exact (A3 g X).
Qed.

Lemma Keeps_refl cs s : Keeps cs s s [].
Proof. constructor; [intros r H; left; exact H|intros r []|intros g H; left; exact H]. Qed.

Lemma Keeps_same cs s s' o :
  same_ledger s s' -> nosent o -> Keeps cs s s' o.
Proof.
  intros (D & A & P & F & N) Hn. constructor.
  - intros r H. left. unfold owed in *. unf. rewrite D, A. exact H.
  - intros r H. destruct (Hn r H).
  - intros g H. left. rewrite <- F. exact H.
Qed.

Lemma cnt_removeP_ne r x l : r <> snd x -> cnt r (map snd (removeP x l)) = cnt r (map snd l).
Proof.
  intros Hne. induction l as [|a l IH]; [reflexivity|].
  unfold removeP in *. cbn [filter map]. destruct (pair_eqb_spec x a) as [->|E]; cbn [negb map]; rewrite ?cnt_cons, IH.
  - destruct (N.eqb_spec r (snd a)); [congruence|reflexivity].
  - reflexivity.
Qed.

Lemma nosent_verdict rid res : nosent (verdict rid res).
Proof.
  intros r H. unfold verdict in H. destruct res as [l t|c]; [|destruct (c =? E_CANCELED)]; cbn in H;
    repeat destruct H as [H|H]; try discriminate; auto.
Qed.

Lemma nosent_map_fail {A} (g : A -> N) code l : nosent (map (fun a => OFail (g a) code) l).
Proof. intros r H. apply in_map_iff in H. destruct H as [a [E _]]. discriminate. Qed.

Lemma terms_verdict r rid res :
  res <> RErr E_CANCELED -> terms r (verdict rid res) = if N.eqb r rid then 1%nat else 0%nat.
Proof.
  intros Hne. unfold verdict. destruct res as [l t|c].
  - unfold terms. cbn [filter is_term]. rewrite (N.eqb_sym rid r). destruct (r =? rid); reflexivity.
  - destruct (N.eqb_spec c E_CANCELED) as [->|E]; [congruence|]. apply terms_one_fail.
Qed.

(* settle: the request leaves the active set with a verdict, or silently if it was cancelled *)
Lemma settle_Keeps cs s p rid res :
  (res = RErr E_CANCELED -> In rid cs) ->
  Keeps cs s (fst (settle s p rid res)) (snd (settle s p rid res)).
Proof.
  intros Hc. unfold settle. destruct (memN p (peers s) && memP (p, rid) (active s)); cbn [fst snd];
    [|apply Keeps_refl].
  constructor.
  - intros r H. unfold owed, answered in *. unf. simp_sets.
    destruct (N.eq_dec r rid) as [->|Hne].
    + destruct res as [l t|c].
      * right. left. rewrite terms_verdict by discriminate. rewrite N.eqb_refl. lia.
      * destruct (N.eq_dec c E_CANCELED) as [->|E]; [right; right; apply Hc; reflexivity|].
        right. left. rewrite terms_verdict by congruence. rewrite N.eqb_refl. lia.
    + left. rewrite cnt_removeP_ne by (cbn [snd]; exact Hne). exact H.
  - intros r H. destruct (nosent_verdict rid res r H).
  - intros g H. left. exact H.
Qed.

Lemma complete_Keeps cs s f res :
  (res = RErr E_CANCELED -> In (rid_f f) cs) ->
  Keeps cs s (fst (complete s f res)) (snd (complete s f res)).
Proof.
  intros Hc. unfold complete.
  pose proof (settle_Keeps cs (set_futs s (drop_fut f (futs s))) (f_peer f) (q_rid (f_req f)) res Hc) as [K1 K2 K3].
  destruct (settle _ _ _ _) as [s' o]. cbn [fst snd] in *. constructor.
  - intros r H. apply K1. unfold owed in *. unf. simp_sets. exact H.
  - exact K2.
  - intros g H. destruct (K3 g H) as [X|X]; [|right; exact X]. simp_sets.
    unfold drop_fut in X. apply filter_In in X. left. tauto.
Qed.

Lemma complete_all_Keeps cs l : forall s res,
  res <> RErr E_CANCELED -> Keeps cs s (fst (complete_all s l res)) (snd (complete_all s l res)).
Proof.
  induction l as [|f l IH]; intros s res Hne; cbn [complete_all fst snd]; [apply Keeps_refl|].
  pose proof (complete_Keeps cs s f res (fun E => False_ind _ (Hne E))) as K.
  destruct (complete s f res) as [s1 o1]. cbn [fst snd] in K.
  specialize (IH s1 res Hne). destruct (complete_all s1 l res) as [s2 o2]. cbn [fst snd] in *.
  exact (Keeps_trans _ _ _ _ _ _ K IH).
Qed.

Lemma send_Keeps cs s p dial len tag ok dok sid :
  Keeps cs s (fst (h_send s p dial len tag ok dok sid)) (snd (h_send s p dial len tag ok dok sid)).
Proof.
  unfold h_send. simp_sets.
  assert (T2 : forall c, answered (next_rid s) [OSent (next_rid s); OFail (next_rid s) c]).
  { intros c. unfold answered. rewrite terms_cons_nonterm by reflexivity. rewrite terms_one_fail, N.eqb_refl. lia. }
  assert (Hs : forall o r, In (OSent r) (OSent (next_rid s) :: o) -> nosent o -> r = next_rid s).
  { intros o r [E|H] Hn; [congruence|destruct (Hn r H)]. }
  assert (N1 : forall c, nosent [OFail (next_rid s) c]) by (intros c r [H|[]]; discriminate).
  assert (N0 : nosent []) by (intros r []).
  destruct (memN p (peers s)); [destruct ok|destruct dial; cbn [negb]; [destruct dok|]]; cbn [fst snd];
    constructor; unfold owed in *; unf; simp_sets;
    try (intros g H; left; exact H);
    try (intros r H; left; rewrite ?map_app, ?cnt_app; lia).
  - intros r H. apply (Hs [] r H) in N0. subst. left. rewrite map_app, cnt_app. cbn [map snd]. rewrite cnt_cons, N.eqb_refl. lia.
  - intros r H. apply (Hs _ r H) in N1. subst. right. left. apply T2.
  - intros r H. apply (Hs [] r H) in N0. subst. left. rewrite map_app, cnt_app. cbn [map rid_d snd q_rid]. rewrite cnt_cons, N.eqb_refl. lia.
  - intros r H. apply (Hs _ r H) in N1. subst. right. left. apply T2.
  - intros r H. apply (Hs _ r H) in N1. subst. right. left. apply T2.
Qed.

Lemma established_Keeps cs s p ok sid :
  Keeps cs s (fst (h_established s p ok sid)) (snd (h_established s p ok sid)).
Proof.
  unfold h_established. destruct (memN p (peers s)); cbn [fst snd]; [apply Keeps_refl|]. simp_sets.
  assert (P : forall r, (cnt r (map rid_d (filter (fun d : N * req => N.eqb (fst d) p) (dials s))) +
                         cnt r (map rid_d (filter (fun d : N * req => negb (N.eqb (fst d) p)) (dials s))) = cd r s)%nat)
    by (intros r; apply (cnt_part rid_d (fun d : N * req => fst d =? p))).
  destruct (filter (fun d : N * req => fst d =? p) (dials s)) as [|d0 mine] eqn:M; [|destruct ok]; cbn [fst snd];
    (constructor; [| |intros g H; left; exact H]); unfold owed, answered in *; unf; simp_sets.
  - intros r H. left. specialize (P r). cbn [map] in P. rewrite cnt_nil in P. lia.
  - intros r H. destruct H.
  - intros r H. left. specialize (P r). rewrite map_app, cnt_app, map_map. cbn [snd].
    change (map (fun x : N * req => q_rid (snd x)) (d0 :: mine)) with (map rid_d (d0 :: mine)). lia.
  - intros r H. destruct H.
  - intros r H. specialize (P r).
    change (fun d : N * req => OFail (q_rid (snd d)) E_SUBSTREAM) with (fun d : N * req => OFail (rid_d d) E_SUBSTREAM).
    rewrite (terms_map_fail rid_d).
    destruct (Nat.eq_dec (cnt r (map rid_d (d0 :: mine))) 0); [left; lia|right; left; lia].
  - intros r H. exfalso. revert H.
    change (fun d : N * req => OFail (q_rid (snd d)) E_SUBSTREAM) with (fun d : N * req => OFail (rid_d d) E_SUBSTREAM).
    apply nosent_map_fail.
Qed.

Lemma closed_Keeps cs s p : Keeps cs s (fst (h_closed s p)) (snd (h_closed s p)).
Proof.
  unfold h_closed. simp_sets. destruct (memN p (peers s)); cbn [fst snd].
  - pose proof (fun r => cnt_part snd (fun a : N * N => fst a =? p) r (active s)) as P.
    constructor; unfold owed, answered in *; unf; simp_sets.
    + intros r H. specialize (P r). rewrite (terms_map_fail snd).
      destruct (Nat.eq_dec (cnt r (map snd (filter (fun a : N * N => fst a =? p) (active s)))) 0);
        [left; lia|right; left; lia].
    + intros r H. exfalso. exact (nosent_map_fail snd _ _ r H).
    + intros g H. left. exact H.
  - constructor; unfold owed in *; unf; simp_sets; [intros r H; left; exact H|intros r []|intros g H; left; exact H].
Qed.

Lemma dialfail_Keeps cs s p : Keeps cs s (fst (h_dialfail s p)) (snd (h_dialfail s p)).
Proof.
  unfold h_dialfail. cbn [fst snd].
  pose proof (fun r => cnt_part rid_d (fun d : N * req => fst d =? p) r (dials s)) as P.
  constructor; unfold owed, answered in *; unf; simp_sets.
  - intros r H. specialize (P r).
    change (fun d : N * req => OFail (q_rid (snd d)) E_DIAL_FAILED) with (fun d : N * req => OFail (rid_d d) E_DIAL_FAILED).
    rewrite (terms_map_fail rid_d).
    destruct (Nat.eq_dec (cnt r (map rid_d (filter (fun d : N * req => fst d =? p) (dials s)))) 0);
      [left; lia|right; left; lia].
  - intros r H. exfalso. revert H.
    change (fun d : N * req => OFail (q_rid (snd d)) E_DIAL_FAILED) with (fun d : N * req => OFail (rid_d d) E_DIAL_FAILED).
    apply nosent_map_fail.
  - intros g H. left. exact H.
Qed.

Lemma openfail_Keeps cs s sid u : Keeps cs s (fst (h_openfail s sid u)) (snd (h_openfail s sid u)).
Proof.
  unfold h_openfail. destruct (find_po sid (pouts s)) as [po|]; cbn [fst snd]; [|apply Keeps_refl].
  constructor; unfold owed, answered in *; unf; simp_sets.
  - intros r H. destruct (N.eq_dec r (q_rid (po_req po))) as [->|Hne].
    + right. left. rewrite terms_one_fail, N.eqb_refl. lia.
    + left. rewrite cnt_removeP_ne by (cbn [snd]; exact Hne). exact H.
  - intros r [H|[]]. discriminate.
  - intros g H. left. exact H.
Qed.

Lemma Keeps_set_pouts cs s l : Keeps cs s (set_pouts s l) [].
Proof. constructor; unfold owed; unf; simp_sets; [intros r H; left; exact H|intros r []|intros g H; left; exact H]. Qed.

Lemma opened_Keeps cs cf0 s sid c gate now :
  Keeps cs s (fst (h_opened cf0 s sid c gate now)) (snd (h_opened cf0 s sid c gate now)).
Proof.
  unfold h_opened. destruct (find_po sid (pouts s)) as [po|]; cbn [fst snd]; [|apply Keeps_refl].
  assert (Hsettle : forall res, res <> RErr E_CANCELED ->
     Keeps cs s (fst (settle (set_pouts s (drop_po po (pouts s))) (po_peer po) (q_rid (po_req po)) res))
                (snd (settle (set_pouts s (drop_po po (pouts s))) (po_peer po) (q_rid (po_req po)) res))).
  { intros res Hne. change (snd (settle (set_pouts s (drop_po po (pouts s))) (po_peer po) (q_rid (po_req po)) res))
      with ([] ++ snd (settle (set_pouts s (drop_po po (pouts s))) (po_peer po) (q_rid (po_req po)) res)).
    eapply Keeps_trans; [apply Keeps_set_pouts|apply settle_Keeps]. intros E. congruence. }
  assert (Hpush : forall g o, f_cancel g = false -> nosent o ->
     Keeps cs s (set_futs (set_pouts s (drop_po po (pouts s))) (futs (set_pouts s (drop_po po (pouts s))) ++ [g])) o).
  { intros g o Hg Hn. constructor; unfold owed; unf; simp_sets.
    - intros r H. left. exact H.
    - intros r H. destruct (Hn r H).
    - intros g' H. apply in_app_or in H. destruct H as [H|[<-|[]]]; [left; exact H|right; left; exact Hg]. }
  destruct (max_size cf0 <? q_len (po_req po)); [apply Hsettle; discriminate|].
  destruct gate as [|[g|g|]]; try (apply Hsettle; discriminate); apply Hpush; try reflexivity.
  - intros r [].
  - intros r [H|[]]. discriminate.
Qed.

Lemma Keeps_cons_wire cs s s' c l t o : Keeps cs s s' o -> Keeps cs s s' (OWire c l t :: o).
Proof.
  intros [K1 K2 K3]. constructor; unfold answered in *.
  - intros r H. rewrite terms_cons_wire. exact (K1 r H).
  - intros r [H|H]; [discriminate|]. rewrite terms_cons_wire. exact (K2 r H).
  - exact K3.
Qed.

Lemma unblock_Keeps cs cf0 s c now :
  (forall f, In f (futs s) -> f_cancel f = true -> In (rid_f f) cs) ->
  Keeps cs s (fst (fut_unblock cf0 s c now)) (snd (fut_unblock cf0 s c now)).
Proof.
  intros G. unfold fut_unblock. destruct (find_fut c (futs s)) as [f|] eqn:F; cbn [fst snd]; [|apply Keeps_refl].
  destruct (f_wait f); cbn [fst snd]; [apply Keeps_refl|].
  destruct (f_cancel f) eqn:C.
  - pose proof (complete_Keeps cs s f (RErr E_CANCELED) (fun _ => G f (find_fut_in _ _ _ F) C)) as K.
    destruct (complete s f (RErr E_CANCELED)) as [s1 o]. cbn [fst snd] in *. apply Keeps_cons_wire. exact K.
  - cbn [fst snd]. constructor; unfold owed; unf; simp_sets.
    + intros r H. left. exact H.
    + intros r [H|[]]. discriminate.
    + intros g H. unfold to_wait in H. apply in_map_iff in H. destruct H as [g0 [E H]].
      destruct (f_chan g0 =? c); subst g; [right; left; reflexivity|left; exact H].
Qed.

Lemma breakw_Keeps cs s c : Keeps cs s (fst (fut_breakw s c)) (snd (fut_breakw s c)).
Proof.
  unfold fut_breakw. destruct (find_fut c (futs s)) as [f|]; cbn [fst snd]; [|apply Keeps_refl].
  destruct (f_wait f); cbn [fst snd]; [apply Keeps_refl|]. apply complete_Keeps. discriminate.
Qed.

Lemma read_Keeps cs s c res :
  res <> RErr E_CANCELED -> Keeps cs s (fst (fut_read s c res)) (snd (fut_read s c res)).
Proof.
  intros Hne. unfold fut_read. destruct (find_fut c (futs s)) as [f|]; cbn [fst snd]; [|apply Keeps_refl].
  destruct (f_wait f); cbn [fst snd]; [|apply Keeps_refl]. apply complete_Keeps. intros E. congruence.
Qed.

Lemma cancel_Keeps cs s rid : Keeps (rid :: cs) s (fst (h_cancel s rid)) (snd (h_cancel s rid)).
Proof.
  unfold h_cancel. destruct (find _ (futs s)) as [f|] eqn:F; cbn [fst snd]; [|apply Keeps_refl].
  apply find_some in F. destruct F as [Hf Hp]. apply andb_prop in Hp. destruct Hp as [Hr _]. apply N.eqb_eq in Hr.
  destruct (f_wait f); cbn [fst snd].
  - apply complete_Keeps. intros _. left. unfold rid_f. symmetry. exact Hr.
  - constructor; unfold owed; unf; simp_sets.
    + intros r H. left. exact H.
    + intros r [].
    + intros g H. unfold mark_cancel in H. apply in_map_iff in H. destruct H as [g0 [E H]].
      destruct (N.eqb_spec (q_rid (f_req g0)) rid) as [E2|E2]; subst g; [|left; exact H].
      right. right. left. unfold rid_f. cbn [f_req]. symmetry. exact E2.
Qed.

Lemma inread_nosent s c good len tag : nosent (snd (h_inread s c good len tag)).
Proof.
  unfold h_inread. destruct (find_rd c (rdrs s)) as [rd|]; cbn [fst snd]; [|intros r []].
  destruct (memN (r_peer rd) (peers _) && memP _ _); [destruct good|]; cbn [fst snd];
    intros r H; cbn in H; repeat destruct H as [H|H]; try discriminate; auto.
Qed.

Lemma uresp_nosent cf0 s irid len tag gate now : nosent (snd (h_uresp cf0 s irid len tag gate now)).
Proof.
  unfold h_uresp. destruct (find_rs irid (rsps s)) as [rs|]; cbn [fst snd]; [|intros r []].
  destruct (s_w rs); cbn [fst snd]; [intros r []|].
  destruct (max_size cf0 <? len); [|destruct gate as [|[g|g|]]]; cbn [fst snd];
    intros r H; cbn in H; repeat destruct H as [H|H]; try discriminate; auto.
Qed.

Lemma rsp_gate_nosent s c ok : nosent (snd (rsp_gate s c ok)).
Proof.
  unfold rsp_gate. destruct (find _ (rsps s)) as [rs|]; cbn [fst snd]; [|intros r []].
  destruct (s_w rs) as [[[l t] d]|]; cbn [fst snd]; [|intros r []].
  destruct ok; intros r H; cbn in H; repeat destruct H as [H|H]; try discriminate; auto.
Qed.

Definition cs_step (cs : list N) (e : ev) : list N :=
  match e with ECancel r => r :: cs | _ => cs end.

Lemma Keeps_app_nil cs s s' o : Keeps cs s s' (o ++ []) -> Keeps cs s s' o.
Proof. rewrite app_nil_r. auto. Qed.

Lemma step_Keeps cf0 s en e cs :
  (forall f, In f (futs s) -> f_cancel f = true -> In (rid_f f) cs) ->
  Keeps (cs_step cs e) s (fst (fst (fst (step cf0 (s, en) e)))) (snd (fst (step cf0 (s, en) e))).
Proof.
  intros G. destruct e; cbn [step cs_step].
  - pose proof (send_Keeps cs s p dial len tag (open_ok p en) (p <? ndial cf0) (next_sid en)) as H.
    destruct (h_send _ _ _ _ _ _ _ _) as [s1 o]. exact H.
  - pose proof (cancel_Keeps cs s rid) as H. destruct (h_cancel s rid) as [s1 o]. exact H.
  - destruct (conn_of p en); cbn [fst snd]; [apply Keeps_refl|].
    pose proof (established_Keeps cs s p (negb broken) (next_sid en)) as H.
    destruct (h_established _ _ _ _) as [s1 o]. exact H.
  - destruct (conn_of p en); cbn [fst snd]; [|apply Keeps_refl].
    pose proof (closed_Keeps cs s p) as H. destruct (h_closed s p) as [s1 o]. exact H.
  - pose proof (dialfail_Keeps cs s p) as H. destruct (h_dialfail s p) as [s1 o]. exact H.
  - destruct (nth_mod k (opens en)) as [[sid q]|]; cbn [fst snd]; [|apply Keeps_refl].
    pose proof (opened_Keeps cs cf0 s sid (N.of_nat (length (chans en))) (N.min gate 2) (now en)) as H.
    destruct (h_opened _ _ _ _ _ _) as [s1 o]. exact H.
  - destruct (nth_mod k (opens en)) as [[sid q]|]; cbn [fst snd]; [|apply Keeps_refl].
    pose proof (openfail_Keeps cs s sid unsupported) as H. destruct (h_openfail _ _ _) as [s1 o]. exact H.
  - destruct (chans en) as [|ch0 chs] eqn:CH; cbn [fst snd]; [apply Keeps_refl|].
    destruct (nth_error _ _) as [ch|]; cbn [fst snd]; [|apply Keeps_refl].
    destruct (c_gate ch =? 0); cbn [fst snd]; [|apply Keeps_refl].
    pose proof (unblock_Keeps cs cf0 s (k mod N.of_nat (length (ch0 :: chs))) (now en) G) as H.
    destruct (fut_unblock _ _ _ _) as [s1 o1]. cbn [fst snd] in H.
    pose proof (rsp_gate_same s1 (k mod N.of_nat (length (ch0 :: chs))) true) as [H2 _].
    pose proof (rsp_gate_nosent s1 (k mod N.of_nat (length (ch0 :: chs))) true) as N2.
    destruct (rsp_gate _ _ _) as [s2 o2]. cbn [fst snd] in *.
    exact (Keeps_trans _ _ _ _ _ _ H (Keeps_same cs _ _ _ H2 N2)).
  - destruct (chans en) as [|ch0 chs] eqn:CH; cbn [fst snd]; [apply Keeps_refl|].
    destruct (nth_error _ _) as [ch|]; cbn [fst snd]; [|apply Keeps_refl].
    destruct (c_gate ch =? 2); cbn [fst snd]; [apply Keeps_refl|].
    pose proof (breakw_Keeps cs s (k mod N.of_nat (length (ch0 :: chs)))) as H.
    destruct (fut_breakw _ _) as [s1 o1]. cbn [fst snd] in H.
    pose proof (rsp_gate_same s1 (k mod N.of_nat (length (ch0 :: chs))) false) as [H2 _].
    pose proof (rsp_gate_nosent s1 (k mod N.of_nat (length (ch0 :: chs))) false) as N2.
    destruct (rsp_gate _ _ _) as [s2 o2]. cbn [fst snd] in *.
    exact (Keeps_trans _ _ _ _ _ _ H (Keeps_same cs _ _ _ H2 N2)).
  - destruct (chans en) as [|ch0 chs] eqn:CH; cbn [fst snd]; [apply Keeps_refl|].
    destruct (nth_error _ _) as [ch|]; cbn [fst snd]; [|apply Keeps_refl].
    destruct (c_out ch && c_seen ch); cbn [fst snd]; [|apply Keeps_refl].
    match goal with |- context [fut_read s ?c ?r] =>
      assert (Hne : r <> RErr E_CANCELED) by (destruct (len <=? max_size cf0); discriminate);
      pose proof (read_Keeps cs s c r Hne) as H; destruct (fut_read s c r) as [s1 o] end. exact H.
  - destruct (chans en) as [|ch0 chs] eqn:CH; cbn [fst snd]; [apply Keeps_refl|].
    destruct (nth_error _ _) as [ch|]; cbn [fst snd]; [|apply Keeps_refl].
    destruct (c_out ch); [destruct (c_seen ch)|]; cbn [fst snd]; try apply Keeps_refl.
    + match goal with |- context [fut_read s ?c ?r] =>
        assert (Hne : r <> RErr E_CANCELED) by discriminate;
        pose proof (read_Keeps cs s c r Hne) as H; destruct (fut_read s c r) as [s1 o] end. exact H.
    + match goal with |- context [h_inread s ?c ?g ?l ?t] =>
        pose proof (inread_same s c g l t) as [H _]; pose proof (inread_nosent s c g l t) as Hn;
        destruct (h_inread s c g l t) as [s1 o] end.
      exact (Keeps_same cs _ _ _ H Hn).
  - destruct (chans en) as [|ch0 chs] eqn:CH; cbn [fst snd]; [apply Keeps_refl|].
    destruct (nth_error _ _) as [ch|]; cbn [fst snd]; [|apply Keeps_refl].
    destruct (c_out ch); [destruct (c_seen ch)|]; cbn [fst snd]; try apply Keeps_refl.
    + match goal with |- context [fut_read s ?c ?r] =>
        assert (Hne : r <> RErr E_CANCELED) by discriminate;
        pose proof (read_Keeps cs s c r Hne) as H; destruct (fut_read s c r) as [s1 o] end. exact H.
    + match goal with |- context [h_inread s ?c ?g ?l ?t] =>
        pose proof (inread_same s c g l t) as [H _]; pose proof (inread_nosent s c g l t) as Hn;
        destruct (h_inread s c g l t) as [s1 o] end.
      exact (Keeps_same cs _ _ _ H Hn).
  - assert (Hne : RErr E_TIMEOUT <> RErr E_CANCELED) by discriminate.
    pose proof (complete_all_Keeps cs (filter (fun f => f_dl f <=? now en + dt) (futs s)) s _ Hne) as H.
    unfold fut_advance. destruct (complete_all _ _ _) as [s1 o]. cbn [fst snd] in *.
    apply Keeps_app_nil. eapply Keeps_trans; [exact H|]. apply Keeps_same; [|intros r []].
    unfold rsp_advance, same_ledger. simp_sets. repeat split; lia.
  - destruct (conn_of p en); cbn [fst snd]; [|apply Keeps_refl].
    pose proof (inopen_same cf0 s p (N.of_nat (length (chans en)))) as [H T].
    destruct (h_inopen _ _ _ _) as [s1 o]. cbn [fst snd] in *. subst o.
    apply Keeps_same; [exact H|intros r []].
  - destruct (chans en) as [|ch0 chs] eqn:CH; cbn [fst snd]; [apply Keeps_refl|].
    destruct (nth_error _ _) as [ch|]; cbn [fst snd]; [|apply Keeps_refl].
    destruct (negb (c_out ch) && negb (c_seen ch)); cbn [fst snd]; [|apply Keeps_refl].
    match goal with |- context [h_inread s ?c ?g ?l ?t] =>
      pose proof (inread_same s c g l t) as [H _]; pose proof (inread_nosent s c g l t) as Hn;
      destruct (h_inread s c g l t) as [s1 o] end.
    exact (Keeps_same cs _ _ _ H Hn).
  - destruct (nth_mod k (hpend en)) as [irid|]; cbn [fst snd]; [|apply Keeps_refl].
    match goal with |- context [h_uresp cf0 s ?a ?b ?c ?d ?e] =>
      pose proof (uresp_same cf0 s a b c d e) as [H _]; pose proof (uresp_nosent cf0 s a b c d e) as Hn;
      destruct (h_uresp cf0 s a b c d e) as [s1 o] end.
    exact (Keeps_same cs _ _ _ H Hn).
  - destruct (nth_mod k (hpend en)) as [irid|]; cbn [fst snd]; [|apply Keeps_refl].
    unfold h_urej. cbn [fst snd]. apply Keeps_same; [|intros r []].
    unfold same_ledger. simp_sets. repeat split; lia.
  - cbn [fst snd]. apply Keeps_refl.
Qed.

Definition cancel_reqs (evs : list ev) : list N :=
  flat_map (fun e => match e with ECancel r => [r] | _ => [] end) evs.

Lemma run_Inv2 cf0 evs : forall st tr cs,
  Inv2 cs (fst st) tr ->
  exists cs', Inv2 cs' (fst (fst (run cf0 st evs))) (tr ++ snd (run cf0 st evs)) /\
              (forall r, In r cs' -> In r cs \/ In r (cancel_reqs evs)).
Proof.
  induction evs as [|e evs IH]; intros [s en] tr cs I2; cbn [run fst snd].
  - exists cs. rewrite app_nil_r. split; [exact I2|auto].
  - pose proof (step_Keeps cf0 s en e cs (inv_cancel _ _ _ I2)) as K.
    destruct (step cf0 (s, en) e) as [[st1 o] tg]. cbn [fst snd] in K.
    assert (Hi : incl cs (cs_step cs e)) by (destruct e; cbn [cs_step]; try apply incl_refl; apply incl_tl, incl_refl).
    pose proof (Keeps_Inv2 _ _ _ _ _ _ I2 K Hi) as I2'.
    destruct (IH st1 (tr ++ o) _ I2') as [cs' [J Hc]].
    destruct (run cf0 st1 evs) as [st2 o2]. cbn [fst snd] in *.
    exists cs'. rewrite app_assoc. split; [exact J|].
    intros r Hr. destruct (Hc r Hr) as [H|H].
    + destruct e; cbn [cs_step cancel_reqs flat_map] in *; try (left; exact H); try (right; exact H).
      destruct H as [<-|H]; [right; left; reflexivity|left; exact H].
    + right. cbn [cancel_reqs flat_map]. apply in_or_app. right. exact H.
Qed.

Lemma Inv2_init : Inv2 [] init_pst [].
Proof. constructor; [intros r []|intros f []]. Qed.

(* Nothing is owed: no request waits for a dial and no request is active at any peer. *)
Definition settled (s : pst) : Prop := dials s = [] /\ active s = [].

Theorem exactly_one_settled cf0 evs r :
  let res := run cf0 (init_pst, init_env) evs in
  settled (fst (fst res)) ->
  In (OSent r) (snd res) ->
  terms r (snd res) = 1%nat \/ In r (cancel_reqs evs).
Proof.
  intros res [Hd Ha] Hs.
  destruct (run_Inv2 cf0 evs (init_pst, init_env) [] [] Inv2_init) as [cs' [J Hc]].
  cbn [app] in J. fold res in J.
  pose proof (at_most_one cf0 evs r) as M. fold res in M.
  destruct (inv_sent _ _ _ J r Hs) as [A|[A|A]].
  - exfalso. unfold owed, cd, ca in A. rewrite Hd, Ha in A. cbn in A. lia.
  - left. unfold answered in A. lia.
  - right. destruct (Hc r A) as [[]|H]. exact H.
Qed.

(* ------------------------------------------------------------------ inbound bound *)

Definition same_io (s s' : pst) : Prop := rdrs s' = rdrs s /\ rsps s' = rsps s.

Ltac io_crush :=
  repeat match goal with
         | |- context [match ?x with _ => _ end] => destruct x
         end; cbn; split; reflexivity.

Lemma settle_io s p rid res : same_io s (fst (settle s p rid res)).
Proof. unfold settle, same_io. io_crush. Qed.
Lemma complete_io s f res : same_io s (fst (complete s f res)).
Proof. unfold complete. destruct (settle_io (set_futs s (drop_fut f (futs s))) (f_peer f) (q_rid (f_req f)) res) as [A B].
  split; [rewrite A|rewrite B]; reflexivity. Qed.
Lemma complete_all_io l : forall s res, same_io s (fst (complete_all s l res)).
Proof.
  induction l as [|f l IH]; intros s res; cbn [complete_all fst]; [split; reflexivity|].
  pose proof (complete_io s f res) as [A B]. destruct (complete s f res) as [s1 o1]. cbn [fst] in *.
  pose proof (IH s1 res) as [C D]. destruct (complete_all s1 l res) as [s2 o2]. cbn [fst] in *.
  split; congruence.
Qed.
Lemma send_io s p dial len tag ok dok sid : same_io s (fst (h_send s p dial len tag ok dok sid)).
Proof. unfold h_send, same_io. io_crush. Qed.
Lemma established_io s p ok sid : same_io s (fst (h_established s p ok sid)).
Proof. unfold h_established, same_io. io_crush. Qed.
Lemma closed_io s p : same_io s (fst (h_closed s p)).
Proof. unfold h_closed, same_io. io_crush. Qed.
Lemma dialfail_io s p : same_io s (fst (h_dialfail s p)).
Proof. unfold h_dialfail, same_io. cbn. split; reflexivity. Qed.
Lemma openfail_io s sid u : same_io s (fst (h_openfail s sid u)).
Proof. unfold h_openfail, same_io. io_crush. Qed.
Lemma opened_io cf0 s sid c gate now : same_io s (fst (h_opened cf0 s sid c gate now)).
Proof.
  unfold h_opened. destruct (find_po sid (pouts s)) as [po|]; [|split; reflexivity].
  assert (H : forall res, same_io s (fst (settle (set_pouts s (drop_po po (pouts s))) (po_peer po) (q_rid (po_req po)) res))).
  { intros res. destruct (settle_io (set_pouts s (drop_po po (pouts s))) (po_peer po) (q_rid (po_req po)) res) as [A B].
    split; [rewrite A|rewrite B]; reflexivity. }
  destruct (max_size cf0 <? q_len (po_req po)); [apply H|].
  destruct gate as [|[g|g|]]; try apply H; split; reflexivity.
Qed.
Lemma unblock_io cf0 s c now : same_io s (fst (fut_unblock cf0 s c now)).
Proof.
  unfold fut_unblock. destruct (find_fut c (futs s)) as [f|]; [|split; reflexivity].
  destruct (f_wait f); [split; reflexivity|]. destruct (f_cancel f); [|split; reflexivity].
  pose proof (complete_io s f (RErr E_CANCELED)) as H. destruct (complete s f _) as [s1 o]. exact H.
Qed.
Lemma breakw_io s c : same_io s (fst (fut_breakw s c)).
Proof.
  unfold fut_breakw. destruct (find_fut c (futs s)) as [f|]; [|split; reflexivity].
  destruct (f_wait f); [split; reflexivity|apply complete_io].
Qed.
Lemma read_io s c res : same_io s (fst (fut_read s c res)).
Proof.
  unfold fut_read. destruct (find_fut c (futs s)) as [f|]; [|split; reflexivity].
  destruct (f_wait f); [apply complete_io|split; reflexivity].
Qed.
Lemma cancel_io s rid : same_io s (fst (h_cancel s rid)).
Proof.
  unfold h_cancel. destruct (find _ (futs s)) as [f|]; [|split; reflexivity].
  destruct (f_wait f); [apply complete_io|split; reflexivity].
Qed.

Definition load_ok (cf0 : cfg) (s : pst) : Prop :=
  match max_inb cf0 with Some m => inbound_load s <= m | None => True end.

Lemma load_same_io cf0 s s' : same_io s s' -> load_ok cf0 s -> load_ok cf0 s'.
Proof. intros [A B]. unfold load_ok, inbound_load. rewrite A, B. auto. Qed.

Lemma load_le cf0 s s' : inbound_load s' <= inbound_load s -> load_ok cf0 s -> load_ok cf0 s'.
Proof. unfold load_ok. destruct (max_inb cf0); [lia|auto]. Qed.

Lemma filter_len {A} (g : A -> bool) l : (length (filter g l) <= length l)%nat.
Proof. induction l as [|a l IH]; cbn; [lia|destruct (g a); cbn; lia]. Qed.

Lemma inopen_load cf0 s p c : load_ok cf0 s -> load_ok cf0 (fst (h_inopen cf0 s p c)).
Proof.
  unfold h_inopen, load_ok. destruct (max_inb cf0) as [m|] eqn:M; [|auto].
  destruct (m <=? inbound_load s) eqn:E; cbn [fst]; [auto|]. apply N.leb_gt in E.
  simp_sets. destruct (memN p (peers s)); cbn [fst]; unfold inbound_load in *; simp_sets; intros H;
    rewrite ?app_length; cbn [length]; lia.
Qed.

Lemma find_drop_len {A} (g : A -> bool) l x :
  find g l = Some x -> (S (length (filter (fun y => negb (g y)) l)) <= length l)%nat.
Proof.
  induction l as [|a l IH]; [discriminate|]. cbn [find filter]. destruct (g a); cbn [negb].
  - intros _. pose proof (filter_len (fun y => negb (g y)) l). cbn [length]. lia.
  - intros H. specialize (IH H). cbn [length]. lia.
Qed.

Lemma inread_load cf0 s c good len tag : load_ok cf0 s -> load_ok cf0 (fst (h_inread s c good len tag)).
Proof.
  unfold h_inread. destruct (find_rd c (rdrs s)) as [rd|] eqn:F; cbn [fst]; [|auto].
  pose proof (find_drop_len _ _ _ F) as L. apply load_le.
  simp_sets. destruct (memN (r_peer rd) (peers s) && memP _ _); [destruct good|]; cbn [fst];
    unfold inbound_load, drop_rd in *; simp_sets; rewrite ?app_length; cbn [length]; lia.
Qed.

Lemma uresp_load cf0 s irid len tag gate now : load_ok cf0 s -> load_ok cf0 (fst (h_uresp cf0 s irid len tag gate now)).
Proof.
  unfold h_uresp. destruct (find_rs irid (rsps s)) as [rs|]; cbn [fst]; [|auto].
  destruct (s_w rs); cbn [fst]; [auto|]. apply load_le.
  pose proof (filter_len (fun r => negb (s_irid r =? irid)) (rsps s)).
  destruct (max_size cf0 <? len); [|destruct gate as [|[g|g|]]]; cbn [fst]; unfold inbound_load, drop_rs in *; simp_sets;
    rewrite ?map_length; lia.
Qed.

Lemma rsp_gate_load cf0 s c ok : load_ok cf0 s -> load_ok cf0 (fst (rsp_gate s c ok)).
Proof.
  unfold rsp_gate. destruct (find _ (rsps s)) as [rs|]; cbn [fst]; [|auto].
  destruct (s_w rs) as [[[l t] d]|]; cbn [fst]; [|auto]. apply load_le.
  pose proof (filter_len (fun r => negb (s_irid r =? s_irid rs)) (rsps s)).
  unfold inbound_load, drop_rs in *; simp_sets; lia.
Qed.

Lemma step_load cf0 s en e :
  load_ok cf0 s -> load_ok cf0 (fst (fst (fst (step cf0 (s, en) e)))).
Proof.
  intros L. destruct e; cbn [step].
  - pose proof (send_io s p dial len tag (open_ok p en) (p <? ndial cf0) (next_sid en)) as H.
    destruct (h_send _ _ _ _ _ _ _ _) as [s1 o]. exact (load_same_io _ _ _ H L).
  - pose proof (cancel_io s rid) as H. destruct (h_cancel s rid) as [s1 o]. exact (load_same_io _ _ _ H L).
  - destruct (conn_of p en); cbn [fst]; [exact L|].
    pose proof (established_io s p (negb broken) (next_sid en)) as H.
    destruct (h_established _ _ _ _) as [s1 o]. exact (load_same_io _ _ _ H L).
  - destruct (conn_of p en); cbn [fst]; [|exact L].
    pose proof (closed_io s p) as H. destruct (h_closed s p) as [s1 o]. exact (load_same_io _ _ _ H L).
  - pose proof (dialfail_io s p) as H. destruct (h_dialfail s p) as [s1 o]. exact (load_same_io _ _ _ H L).
  - destruct (nth_mod k (opens en)) as [[sid q]|]; cbn [fst]; [|exact L].
    pose proof (opened_io cf0 s sid (N.of_nat (length (chans en))) (N.min gate 2) (now en)) as H.
    destruct (h_opened _ _ _ _ _ _) as [s1 o]. exact (load_same_io _ _ _ H L).
  - destruct (nth_mod k (opens en)) as [[sid q]|]; cbn [fst]; [|exact L].
    pose proof (openfail_io s sid unsupported) as H. destruct (h_openfail _ _ _) as [s1 o]. exact (load_same_io _ _ _ H L).
  - destruct (chans en) as [|ch0 chs] eqn:CH; cbn [fst]; [exact L|].
    destruct (nth_error _ _) as [ch|]; cbn [fst]; [|exact L].
    destruct (c_gate ch =? 0); cbn [fst]; [|exact L].
    pose proof (unblock_io cf0 s (k mod N.of_nat (length (ch0 :: chs))) (now en)) as H.
    destruct (fut_unblock _ _ _ _) as [s1 o1].
    pose proof (rsp_gate_load cf0 s1 (k mod N.of_nat (length (ch0 :: chs))) true (load_same_io _ _ _ H L)) as H2.
    destruct (rsp_gate _ _ _) as [s2 o2]. exact H2.
  - destruct (chans en) as [|ch0 chs] eqn:CH; cbn [fst]; [exact L|].
    destruct (nth_error _ _) as [ch|]; cbn [fst]; [|exact L].
    destruct (c_gate ch =? 2); cbn [fst]; [exact L|].
    pose proof (breakw_io s (k mod N.of_nat (length (ch0 :: chs)))) as H.
    destruct (fut_breakw _ _) as [s1 o1].
    pose proof (rsp_gate_load cf0 s1 (k mod N.of_nat (length (ch0 :: chs))) false (load_same_io _ _ _ H L)) as H2.
    destruct (rsp_gate _ _ _) as [s2 o2]. exact H2.
  - destruct (chans en) as [|ch0 chs] eqn:CH; cbn [fst]; [exact L|].
    destruct (nth_error _ _) as [ch|]; cbn [fst]; [|exact L].
    destruct (c_out ch && c_seen ch); cbn [fst]; [|exact L].
    match goal with |- context [fut_read s ?c ?r] =>
      pose proof (read_io s c r) as H; destruct (fut_read s c r) as [s1 o] end. exact (load_same_io _ _ _ H L).
  - destruct (chans en) as [|ch0 chs] eqn:CH; cbn [fst]; [exact L|].
    destruct (nth_error _ _) as [ch|]; cbn [fst]; [|exact L].
    destruct (c_out ch); [destruct (c_seen ch)|]; cbn [fst]; try exact L.
    + match goal with |- context [fut_read s ?c ?r] =>
        pose proof (read_io s c r) as H; destruct (fut_read s c r) as [s1 o] end. exact (load_same_io _ _ _ H L).
    + match goal with |- context [h_inread s ?c ?g ?l ?t] =>
        pose proof (inread_load cf0 s c g l t L) as H; destruct (h_inread s c g l t) as [s1 o] end. exact H.
  - destruct (chans en) as [|ch0 chs] eqn:CH; cbn [fst]; [exact L|].
    destruct (nth_error _ _) as [ch|]; cbn [fst]; [|exact L].
    destruct (c_out ch); [destruct (c_seen ch)|]; cbn [fst]; try exact L.
    + match goal with |- context [fut_read s ?c ?r] =>
        pose proof (read_io s c r) as H; destruct (fut_read s c r) as [s1 o] end. exact (load_same_io _ _ _ H L).
    + match goal with |- context [h_inread s ?c ?g ?l ?t] =>
        pose proof (inread_load cf0 s c g l t L) as H; destruct (h_inread s c g l t) as [s1 o] end. exact H.
  - pose proof (complete_all_io (filter (fun f => f_dl f <=? now en + dt) (futs s)) s (RErr E_TIMEOUT)) as H.
    unfold fut_advance. destruct (complete_all _ _ _) as [s1 o]. cbn [fst] in *.
    apply (load_le cf0 s1); [|exact (load_same_io _ _ _ H L)].
    unfold rsp_advance, inbound_load. simp_sets.
    pose proof (filter_len (fun r => match s_w r with Some (_, _, dl) => negb (dl <=? now en + dt) | None => true end) (rsps s1)).
    lia.
  - destruct (conn_of p en); cbn [fst]; [|exact L].
    pose proof (inopen_load cf0 s p (N.of_nat (length (chans en))) L) as H.
    destruct (h_inopen _ _ _ _) as [s1 o]. exact H.
  - destruct (chans en) as [|ch0 chs] eqn:CH; cbn [fst]; [exact L|].
    destruct (nth_error _ _) as [ch|]; cbn [fst]; [|exact L].
    destruct (negb (c_out ch) && negb (c_seen ch)); cbn [fst]; [|exact L].
    match goal with |- context [h_inread s ?c ?g ?l ?t] =>
      pose proof (inread_load cf0 s c g l t L) as H; destruct (h_inread s c g l t) as [s1 o] end. exact H.
  - destruct (nth_mod k (hpend en)) as [irid|]; cbn [fst]; [|exact L].
    match goal with |- context [h_uresp cf0 s ?a ?b ?c ?d ?e] =>
      pose proof (uresp_load cf0 s a b c d e L) as H; destruct (h_uresp cf0 s a b c d e) as [s1 o] end. exact H.
  - destruct (nth_mod k (hpend en)) as [irid|]; cbn [fst]; [|exact L].
    unfold h_urej. cbn [fst]. apply (load_le cf0 s); [|exact L].
    unfold inbound_load, drop_rs. simp_sets. pose proof (filter_len (fun r => negb (s_irid r =? irid)) (rsps s)). lia.
  - cbn [fst]. exact L.
Qed.

Theorem inbound_bound cf0 evs :
  load_ok cf0 (fst (fst (run cf0 (init_pst, init_env) evs))).
Proof.
  assert (H : forall st, load_ok cf0 (fst st) -> load_ok cf0 (fst (fst (run cf0 st evs)))).
  { induction evs as [|e evs IH]; intros [s en] L; cbn [run fst]; [exact L|].
    pose proof (step_load cf0 s en e L) as H. destruct (step cf0 (s, en) e) as [[st1 o] tg]. cbn [fst] in H.
    specialize (IH st1 H). destruct (run cf0 st1 evs) as [st2 o2]. exact IH. }
  apply H. unfold load_ok. cbn. destruct (max_inb cf0); [apply N.le_0_l|exact I].
Qed.
